#!/usr/bin/env python3
"""Regenerates MANIFEST.json from the table below (kept valid at all times)."""
import json
props=[json.loads(l) for l in open('/verif/properties.jsonl')]
TECH="static analysis: go/packages type-checked AST + go/cfg reachability rules"
C={}
C['C04']=("Static analysis: the guards dominating every rule-merge site, the targets of every sort, the dedup key, the complete alias rewrite table, and the optimizer pipelines are extracted from the type-checked optimizers and compared with the reference written from the property; these are necessary conditions of 'normalisation preserves meaning'.",
 "Trusted: go/types, go/cfg, the reference tables in internal/props/c04.go. Not decided: decision equality on concrete packets, geodata content.",
 TECH+" (guard entailment at merge sites, who-writes on Function/Param fields, table extraction vs reference)")
C['C05']=("Static analysis: structural necessary conditions of the property (deadline arm/disarm pairing on all CFG paths, half-close shape of the relay worker, drain-before-splice dominance, cursor advance, wrapper wiring order) are decided for every path of the anchored functions; the behaviour itself (byte-stream equality, timing) is not decided.",
 "Trusted: go/types, go/cfg (x/tools v0.29.0), the rule tables in internal/props/c05.go. Path-insensitive except for named condition edges. Not decided: byte-for-byte equality under all segmentations, splice/writev partial-write arithmetic, timing bounds.",
 TECH+" (PAIR, must-pass-through, dominance, exhaustiveness over interface implementers)")
C['C17']=("Static analysis: the parser's syntax-error barrier dominates the tree walk, every nil-returning helper's result is nil-tested before dereference, the domain matcher bounds-checks its set index, unknown keys/items/required flow only to error returns, include reads are dominated by the suffix/containment/permission/circularity tests, and the set of explicit panics reachable from the configuration entry points equals the reviewed set.",
 "Trusted: go/types, go/cfg; the assumption that an ANTLR tree of a syntactically valid input conforms to the grammar. Not decided: ANTLR runtime, reflection panics in config.New, token fidelity of values.",
 TECH+" (dominance barrier, Engler-style nil contradiction rule, bound-guard dominance, error-flow, call-graph reachable panic set vs reviewed set)")
C['C20']=("Static analysis: release of an accepted reload on every CFG path of the worker loop and the main loop's reloading branch, suppression begin/end balance and who-may-call, effect-freedom of the refusal edge, reviewed writer set of the three admission flags, retirement hand-shake shape, and an always-armed timeout on the retirement drain wait.",
 "Trusted: go/types, go/cfg; reviewed writer table in internal/props/c20.go. Not decided: interleavings of signals with the worker's stages, progress-file races.",
 TECH+" (loop back-edge must-pass-through, who-may-call, effect enumeration on an edge, definition-dominates-select)")
C['C01']=("Static analysis: the decision table of the userspace matcher's scan loop is extracted by exhaustive constant propagation over its CFG (224 abstract inputs) and compared cell by cell with the first-match reference; the sentinel algebra, the OR/AND/outbound naming of lowered match sets (Apply and every emitter), agreement of the kernel and userspace representation at every appendRule site, exhaustiveness of registered functions and match-type cases, and the MAC/domain/process-name/fallback facets are decided from the typed AST.",
 "Trusted: go/types, go/cfg, go/constant folding in internal/fdt, the reference transition in internal/props/scan.go. Not decided: per-type predicates on concrete values, domain matcher (C11), port/MAC string parsing, end-to-end decisions.",
 "static analysis: finite decision table by constant-propagation dataflow over go/cfg (no execution, no solver) + typed-AST sibling/representation agreement + exhaustiveness")
C['C07']=("Static analysis: decision tables of both DNS matcher scan loops (exhaustive constant propagation over their CFGs) equal the first-match reference; sentinel algebra and OR/AND name agreement; emitter naming discipline; reject-before-cache dominance and the answer-less reject reply; strictly growing, bounded re-ask depth on every recursive path; response action switch and the as-is default for unregistered answering upstreams.",
 "Trusted: go/types, go/cfg, internal/fdt constant folding, the reference transition in internal/props/scan.go. Not decided: name matching on values (C11), IP containment (C12), upstream behaviour, singleflight.",
 "static analysis: finite decision table by constant-propagation dataflow over go/cfg + dominance / must-pass-through rules + recursion-argument growth rule")
C['C12']=("Static analysis: the key length emitted by trie.Prefix2bin128 and the PrefixLen written by cidrToBpfLpmKey (real-build variant) are propagated by constant-propagation dataflow for every prefix length 0..128 / 0..32 and must equal bits+96·[IPv4]; probes always use the mapped /128 form; LPM set sharing is guarded by prefixesEqual; sibling emitters agree; the trie walk tests the leaf flag at every node; construction errors are consulted.",
 "Trusted: go/types, go/cfg, internal/fdt constant folding, the real-build overlay (bpf_stub.go residue) used to type-check bpf_utils.go. Not decided: rank/select trie arithmetic on concrete values, kernel LPM semantics.",
 "static analysis: finite decision table over an integer domain (exhaustive 162 pairs) by constant propagation over go/cfg, both build variants + guard dominance + sibling structural diff + loop back-edge must-pass-through")
C['C14']=("Static analysis: error-only defaults of every filter/annotation/policy dispatch, the per-condition decision table of filterHit (constant propagation over its CFG), operand agreement inside the name and subtag branches, first-line-wins / co-append / index agreement in FilterAndAnnotate, and error flow to the control-plane constructor.",
 "Trusted: go/types, go/cfg, internal/fdt. Not decided: regex/keyword matching on values; validation of filter parts that no node reaches (lazy by design).",
 "static analysis: exhaustiveness (error-only defaults) + finite decision table by constant propagation over go/cfg + loop back-edge reachability + sibling operand agreement")
C['C15']=("Static analysis: the fallback chain table of selectionNetworkTypes (constant propagation over its CFG, 8 abstract inputs), per-iteration alive-set consultation of every fallback loop, guards of the other-family retry and single-node last resort, policy exhaustiveness and fixed-index range check, threading and comparison of the excluded node, co-mutation of the alive list with its index map under the mutex, and the provenance of getter results.",
 "Trusted: go/types, go/cfg, internal/fdt. Not decided: the tolerance relation between consecutive selections (seed C15-m1 is out of reach), latency arithmetic, histories.",
 "static analysis: finite decision table by constant propagation over go/cfg + exhaustiveness + guard dominance + who-writes / co-mutation rules")
C['C16']=("Static analysis: the failure-threshold table of markUnavailableInternal (constant propagation over its CFG: increment, compare, store for each protocol x probe/traffic; forced path), reset siblings under the collection lock, unconditional clearing of the per-address death counter on success, edge guards of every alive-transition callback, cancellation gates on every path to the counters, the suppression gate, the single writer of the kernel connectivity map, the group 'no best node => latency reset' invariant behind the group alive callback, and snapshot/restore field symmetry.",
 "Trusted: go/types, go/cfg, internal/fdt. Not decided: counting over histories, escalation timing, the reload floor.",
 "static analysis: finite decision table by constant propagation over go/cfg + sibling agreement + guard dominance + who-may-write + state-invariant pairing rule")
C['C18']=("Static analysis: the decision table of ChooseDialTarget over 192 abstract inputs (dial mode x reserved x name class x DNS knowledge x verified-cache state), extracted by constant propagation over its CFG, equals the reference written from the property; normalisation order by dominance; re-route gate and target recomputation on every path to selection; the real-domain probe's verdict table over (err4, err6, valid4, valid6).",
 "Trusted: go/types, go/cfg, internal/fdt, the reference tables in internal/props/c18.go (which record this fork's tested behaviour of re-routing a verified name in domain mode). Not decided: string edge cases inside net.*, cache freshness.",
 "static analysis: finite decision tables by constant-propagation dataflow over go/cfg (exhaustive abstract inputs) + dominance / must-pass-through")
C['C19']=("Static analysis with two front ends: clang 14's record layouts, enum/macro values and map declarations of tproxy.c (through a header shim) are compared exactly with go/types + types.Sizes of every Go mirror (stub build and real-build variant; other GOARCH sizes and the MAX_MATCH_SET_LEN knob in the thorough tier): every member's offset and width, every shared constant, map capacities, and the shape (32-bit arithmetic, member coverage) of the key constructors.",
 "Trusted: clang 14 front end and the shim under /verif/cshim (UAPI headers only), go/types Sizes for gc. Not decided: BTF-generated bpf2go types (absent here), big-endian hosts (the Makefile also builds bpfeb; explicit little-endian encoders are only decided for little-endian targets).",
 "static analysis: cross-language layout and constant agreement (clang -fdump-record-layouts / JSON AST vs go/types Sizes), both build variants")
C['C10']=("Static analysis: reviewed set of functions that reference the kernel map, clear=>tracker-reset pairing on every path, apply-after-emit and no-apply-on-error in syncOwner under the tracker mutex, union construction of the affected set and the three-way diff, recomputation of an address's merged bitmap after every owner-set change (loop back-edge must-pass-through), and the callback wiring (unconditional owner delete on eviction, empty snapshot on removal, bitmap length check, mapped 16-byte keys).",
 "Trusted: go/types, go/cfg. Some DIFF/WIRING obligations compare rendered sub-expressions of the anchored functions. Not decided: the union-of-owners algebra over histories.",
 "static analysis: who-may-reference + pairing (must-pass-through) + error-edge effect rules + loop back-edge invariant rule over go/cfg")
def chk(pid):
    text,note,tech=C[pid]
    return {"property_id":pid,"quick_cmd":f"bin/daecheck -p {pid} -tier quick","thorough_cmd":f"bin/daecheck -p {pid} -tier thorough","evidence_file":f"/verif/evidence/{pid}.json",
    "engine":"daecheck","level_claimed":{"category":"other","text":text,"design_ref":f"DESIGN.md §3 {pid}"},"level_note":note,"technique":tech}
import importlib.util,os
extra='/verif/tools_manifest_extra.py'
if os.path.exists(extra):
    spec=importlib.util.spec_from_file_location('x',extra); m=importlib.util.module_from_spec(spec); spec.loader.exec_module(m); C.update(m.C)
built=sorted(C)
NA={'C11':"value-level semantics of a succinct trie / Aho-Corasick automaton for every pattern set and name; no clause reduces to a shape of the code (DESIGN.md §3 C11)"}
na=[{"property_id":p['id'],"reason":NA.get(p['id'],"rule set not built yet in this round (DESIGN.md §3 lists the planned structural clauses)")} for p in props if p['id'] not in C]
m={"version":1,
 "setup_cmd":"cd /verif && GOFLAGS=-mod=mod GOPROXY=off GOSUMDB=off GOTOOLCHAIN=local GOWORK=off go1.26.8 build -o bin/daecheck ./cmd/daecheck",
 "hooks":{"guard":"verif","enable":"none needed: nothing of dae is executed; checks type-check /repo with -tags dae_stub_ebpf","baseline_off_cmd":"cd /repo && GOFLAGS=-mod=mod go test -vet=off -count=1 ./...","source_commits":[],"add_only":True},
 "engines":[{"name":"daecheck","path":"/verif/cmd/daecheck","serves_properties":built,"kind_free_text":"repo-specific static analyser: go/packages + go/types + go/cfg + go/ssa rules; clang JSON AST rules for tproxy.c"}],
 "checks":[chk(p) for p in built],"not_applicable":sorted(na,key=lambda x:x['property_id']),
 "notes":"All claims are level 'other': each check decides structural necessary conditions of its property from /repo's current source on every run (static analysis only). See DESIGN.md."}
json.dump(m,open('/verif/MANIFEST.json','w'),indent=1)
print("checks:",built)
