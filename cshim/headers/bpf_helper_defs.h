/* This is auto-generated file. See bpf_doc.py for details. */

/* Forward declarations of BPF structs */
struct bpf_fib_lookup;
struct bpf_sk_lookup;
struct bpf_perf_event_data;
struct bpf_perf_event_value;
struct bpf_pidns_info;
struct bpf_redir_neigh;
struct bpf_sock;
struct bpf_sock_addr;
struct bpf_sock_ops;
struct bpf_sock_tuple;
struct bpf_spin_lock;
struct bpf_sysctl;
struct bpf_tcp_sock;
struct bpf_tunnel_key;
struct bpf_xfrm_state;
struct linux_binprm;
struct pt_regs;
struct sk_reuseport_md;
struct sockaddr;
struct tcphdr;
struct seq_file;
struct tcp6_sock;
struct tcp_sock;
struct tcp_timewait_sock;
struct tcp_request_sock;
struct udp6_sock;
struct unix_sock;
struct task_struct;
struct __sk_buff;
struct sk_msg_md;
struct xdp_md;
struct path;
struct btf_ptr;
struct inode;
struct socket;
struct file;
struct bpf_timer;

/*
 * bpf_map_lookup_elem
 *
 * 	Perform a lookup in *map* for an entry associated to *key*.
 *
 * Returns
 * 	Map value associated to *key*, or **NULL** if no entry was
 * 	found.
 */
static void *(*bpf_map_lookup_elem)(void *map, const void *key) = (void *) 1;

/*
 * bpf_map_update_elem
 *
 * 	Add or update the value of the entry associated to *key* in
 * 	*map* with *value*. *flags* is one of:
 *
 * 	**BPF_NOEXIST**
 * 		The entry for *key* must not exist in the map.
 * 	**BPF_EXIST**
 * 		The entry for *key* must already exist in the map.
 * 	**BPF_ANY**
 * 		No condition on the existence of the entry for *key*.
 *
 * 	Flag value **BPF_NOEXIST** cannot be used for maps of types
 * 	**BPF_MAP_TYPE_ARRAY** or **BPF_MAP_TYPE_PERCPU_ARRAY**  (all
 * 	elements always exist), the helper would return an error.
 *
 * Returns
 * 	0 on success, or a negative error in case of failure.
 */
static long (*bpf_map_update_elem)(void *map, const void *key, const void *value, __u64 flags) = (void *) 2;

/*
 * bpf_map_delete_elem
 *
 * 	Delete entry with *key* from *map*.
 *
 * Returns
 * 	0 on success, or a negative error in case of failure.
 */
static long (*bpf_map_delete_elem)(void *map, const void *key) = (void *) 3;

/*
 * bpf_probe_read
 *
 * 	For tracing programs, safely attempt to read *size* bytes from
 * 	kernel space address *unsafe_ptr* and store the data in *dst*.
 *
 * 	Generally, use **bpf_probe_read_user**\ () or
 * 	**bpf_probe_read_kernel**\ () instead.
 *
 * Returns
 * 	0 on success, or a negative error in case of failure.
 */
static long (*bpf_probe_read)(void *dst, __u32 size, const void *unsafe_ptr) = (void *) 4;

/*
 * bpf_ktime_get_ns
 *
 * 	Return the time elapsed since system boot, in nanoseconds.
 * 	Does not include time the system was suspended.
 * 	See: **clock_gettime**\ (**CLOCK_MONOTONIC**)
 *
 * Returns
 * 	Current *ktime*.
 */
static __u64 (*bpf_ktime_get_ns)(void) = (void *) 5;

/*
 * bpf_trace_printk
 *
 * 	This helper is a "printk()-like" facility for debugging. It
 * 	prints a message defined by format *fmt* (of size *fmt_size*)
 * 	to file *\/sys/kernel/debug/tracing/trace* from DebugFS, if
 * 	available. It can take up to three additional **u64**
 * 	arguments (as an eBPF helpers, the total number of arguments is
 * 	limited to five).
 *
 * 	Each time the helper is called, it appends a line to the trace.
 * 	Lines are discarded while *\/sys/kernel/debug/tracing/trace* is
 * 	open, use *\/sys/kernel/debug/tracing/trace_pipe* to avoid this.
 * 	The format of the trace is customizable, and the exact output
 * 	one will get depends on the options set in
 * 	*\/sys/kernel/debug/tracing/trace_options* (see also the
 * 	*README* file under the same directory). However, it usually
 * 	defaults to something like:
 *
 * 	::
 *
 * 		telnet-470   [001] .N.. 419421.045894: 0x00000001: <formatted msg>
 *
 * 	In the above:
 *
 * 		* ``telnet`` is the name of the current task.
 * 		* ``470`` is the PID of the current task.
 * 		* ``001`` is the CPU number on which the task is
 * 		  running.
 * 		* In ``.N..``, each character refers to a set of
 * 		  options (whether irqs are enabled, scheduling
 * 		  options, whether hard/softirqs are running, level of
 * 		  preempt_disabled respectively). **N** means that
 * 		  **TIF_NEED_RESCHED** and **PREEMPT_NEED_RESCHED**
 * 		  are set.
 * 		* ``419421.045894`` is a timestamp.
 * 		* ``0x00000001`` is a fake value used by BPF for the
 * 		  instruction pointer register.
 * 		* ``<formatted msg>`` is the message formatted with
 * 		  *fmt*.
 *
 * 	The conversion specifiers supported by *fmt* are similar, but
 * 	more limited than for printk(). They are **%d**, **%i**,
 * 	**%u**, **%x**, **%ld**, **%li**, **%lu**, **%lx**, **%lld**,
 * 	**%lli**, **%llu**, **%llx**, **%p**, **%s**. No modifier (size
 * 	of field, padding with zeroes, etc.) is available, and the
 * 	helper will return **-EINVAL** (but print nothing) if it
 * 	encounters an unknown specifier.
 *
 * 	Also, note that **bpf_trace_printk**\ () is slow, and should
 * 	only be used for debugging purposes. For this reason, a notice
 * 	block (spanning several lines) is printed to kernel logs and
 * 	states that the helper should not be used "for production use"
 * 	the first time this helper is used (or more precisely, when
 * 	**trace_printk**\ () buffers are allocated). For passing values
 * 	to user space, perf events should be preferred.
 *
 * Returns
 * 	The number of bytes written to the buffer, or a negative error
 * 	in case of failure.
 */
static long (*bpf_trace_printk)(const char *fmt, __u32 fmt_size, ...) = (void *) 6;

/*
 * bpf_get_prandom_u32
 *
 * 	Get a pseudo-random number.
 *
 * 	From a security point of view, this helper uses its own
 * 	pseudo-random internal state, and cannot be used to infer the
 * 	seed of other random functions in the kernel. However, it is
 * 	essential to note that the generator used by the helper is not
 * 	cryptographically secure.
 *
 * Returns
 * 	A random 32-bit unsigned value.
 */
static __u32 (*bpf_get_prandom_u32)(void) = (void *) 7;

/*
 * bpf_get_smp_processor_id
 *
 * 	Get the SMP (symmetric multiprocessing) processor id. Note that
 * 	all programs run with migration disabled, which means that the
 * 	SMP processor id is stable during all the execution of the
 * 	program.
 *
 * Returns
 * 	The SMP id of the processor running the program.
 */
static __u32 (*bpf_get_smp_processor_id)(void) = (void *) 8;

/*
 * bpf_skb_store_bytes
 *
 * 	Store *len* bytes from address *from* into the packet
 * 	associated to *skb*, at *offset*. *flags* are a combination of
 * 	**BPF_F_RECOMPUTE_CSUM** (automatically recompute the
 * 	checksum for the packet after storing the bytes) and
 * 	**BPF_F_INVALIDATE_HASH** (set *skb*\ **->hash**, *skb*\
 * 	**->swhash** and *skb*\ **->l4hash** to 0).
 *
 * 	A call to this helper is susceptible to change the underlying
 * 	packet buffer. Therefore, at load time, all checks on pointers
 * 	previously done by the verifier are invalidated and must be
 * 	performed again, if the helper is used in combination with
 * 	direct packet access.
 *
 * Returns
 * 	0 on success, or a negative error in case of failure.
 */
static long (*bpf_skb_store_bytes)(struct __sk_buff *skb, __u32 offset, const void *from, __u32 len, __u64 flags) = (void *) 9;

/*
 * bpf_l3_csum_replace
 *
 * 	Recompute the layer 3 (e.g. IP) checksum for the packet
 * 	associated to *skb*. Computation is incremental, so the helper
 * 	must know the former value of the header field that was
 * 	modified (*from*), the new value of this field (*to*), and the
 * 	number of bytes (2 or 4) for this field, stored in *size*.
 * 	Alternatively, it is possible to store the difference between
 * 	the previous and the new values of the header field in *to*, by
 * 	setting *from* and *size* to 0. For both methods, *offset*
 * 	indicates the location of the IP checksum within the packet.
 *
 * 	This helper works in combination with **bpf_csum_diff**\ (),
 * 	which does not update the checksum in-place, but offers more
 * 	flexibility and can handle sizes larger than 2 or 4 for the
 * 	checksum to update.
 *
 * 	A call to this helper is susceptible to change the underlying
 * 	packet buffer. Therefore, at load time, all checks on pointers
 * 	previously done by the verifier are invalidated and must be
 * 	performed again, if the helper is used in combination with
 * 	direct packet access.
 *
 * Returns
 * 	0 on success, or a negative error in case of failure.
 */
static long (*bpf_l3_csum_replace)(struct __sk_buff *skb, __u32 offset, __u64 from, __u64 to, __u64 size) = (void *) 10;

/*
 * bpf_l4_csum_replace
 *
 * 	Recompute the layer 4 (e.g. TCP, UDP or ICMP) checksum for the
 * 	packet associated to *skb*. Computation is incremental, so the
 * 	helper must know the former value of the header field that was
 * 	modified (*from*), the new value of this field (*to*), and the
 * 	number of bytes (2 or 4) for this field, stored on the lowest
 * 	four bits of *flags*. Alternatively, it is possible to store
 * 	the difference between the previous and the new values of the
 * 	header field in *to*, by setting *from* and the four lowest
 * 	bits of *flags* to 0. For both methods, *offset* indicates the
 * 	location of the IP checksum within the packet. In addition to
 * 	the size of the field, *flags* can be added (bitwise OR) actual
 * 	flags. With **BPF_F_MARK_MANGLED_0**, a null checksum is left
 * 	untouched (unless **BPF_F_MARK_ENFORCE** is added as well), and
 * 	for updates resulting in a null checksum the value is set to
 * 	**CSUM_MANGLED_0** instead. Flag **BPF_F_PSEUDO_HDR** indicates
 * 	the checksum is to be computed against a pseudo-header.
 *
 * 	This helper works in combination with **bpf_csum_diff**\ (),
 * 	which does not update the checksum in-place, but offers more
 * 	flexibility and can handle sizes larger than 2 or 4 for the
 * 	checksum to update.
 *
 * 	A call to this helper is susceptible to change the underlying
 * 	packet buffer. Therefore, at load time, all checks on pointers
 * 	previously done by the verifier are invalidated and must be
 * 	performed again, if the helper is used in combination with
 * 	direct packet access.
 *
 * Returns
 * 	0 on success, or a negative error in case of failure.
 */
static long (*bpf_l4_csum_replace)(struct __sk_buff *skb, __u32 offset, __u64 from, __u64 to, __u64 flags) = (void *) 11;

/*
 * bpf_tail_call
 *
 * 	This special helper is used to trigger a "tail call", or in
 * 	other words, to jump into another eBPF program. The same stack
 * 	frame is used (but values on stack and in registers for the
 * 	caller are not accessible to the callee). This mechanism allows
 * 	for program chaining, either for raising the maximum number of
 * 	available eBPF instructions, or to execute given programs in
 * 	conditional blocks. For security reasons, there is an upper
 * 	limit to the number of successive tail calls that can be
 * 	performed.
 *
 * 	Upon call of this helper, the program attempts to jump into a
 * 	program referenced at index *index* in *prog_array_map*, a
 * 	special map of type **BPF_MAP_TYPE_PROG_ARRAY**, and passes
 * 	*ctx*, a pointer to the context.
 *
 * 	If the call succeeds, the kernel immediately runs the first
 * 	instruction of the new program. This is not a function call,
 * 	and it never returns to the previous program. If the call
 * 	fails, then the helper has no effect, and the caller continues
 * 	to run its subsequent instructions. A call can fail if the
 * 	destination program for the jump does not exist (i.e. *index*
 * 	is superior to the number of entries in *prog_array_map*), or
 * 	if the maximum number of tail calls has been reached for this
 * 	chain of programs. This limit is defined in the kernel by the
 * 	macro **MAX_TAIL_CALL_CNT** (not accessible to user space),
 * 	which is currently set to 33.
 *
 * Returns
 * 	0 on success, or a negative error in case of failure.
 */
static long (*bpf_tail_call)(void *ctx, void *prog_array_map, __u32 index) = (void *) 12;

/*
 * bpf_clone_redirect
 *
 * 	Clone and redirect the packet associated to *skb* to another
 * 	net device of index *ifindex*. Both ingress and egress
 * 	interfaces can be used for redirection. The **BPF_F_INGRESS**
 * 	value in *flags* is used to make the distinction (ingress path
 * 	is selected if the flag is present, egress path otherwise).
 * 	This is the only flag supported for now.
 *
 * 	In comparison with **bpf_redirect**\ () helper,
 * 	**bpf_clone_redirect**\ () has the associated cost of
 * 	duplicating the packet buffer, but this can be executed out of
 * 	the eBPF program. Conversely, **bpf_redirect**\ () is more
 * 	efficient, but it is handled through an action code where the
 * 	redirection happens only after the eBPF program has returned.
 *
 * 	A call to this helper is susceptible to change the underlying
 * 	packet buffer. Therefore, at load time, all checks on pointers
 * 	previously done by the verifier are invalidated and must be
 * 	performed again, if the helper is used in combination with
 * 	direct packet access.
 *
 * Returns
 * 	0 on success, or a negative error in case of failure.
 */
static long (*bpf_clone_redirect)(struct __sk_buff *skb, __u32 ifindex, __u64 flags) = (void *) 13;

/*
 * bpf_get_current_pid_tgid
 *
 *
 * Returns
 * 	A 64-bit integer containing the current tgid and pid, and
 * 	created as such:
 * 	*current_task*\ **->tgid << 32 \|**
 * 	*current_task*\ **->pid**.
 */
static __u64 (*bpf_get_current_pid_tgid)(void) = (void *) 14;

/*
 * bpf_get_current_uid_gid
 *
 *
 * Returns
 * 	A 64-bit integer containing the current GID and UID, and
 * 	created as such: *current_gid* **<< 32 \|** *current_uid*.
 */
static __u64 (*bpf_get_current_uid_gid)(void) = (void *) 15;

/*
 * bpf_get_current_comm
 *
 * 	Copy the **comm** attribute of the current task into *buf* of
 * 	*size_of_buf*. The **comm** attribute contains the name of
 * 	the executable (excluding the path) for the current task. The
 * 	*size_of_buf* must be strictly positive. On success, the
 * 	helper makes sure that the *buf* is NUL-terminated. On failure,
 * 	it is filled with zeroes.
 *
 * Returns
 * 	0 on success, or a negative error in case of failure.
 */
static long (*bpf_get_current_comm)(void *buf, __u32 size_of_buf) = (void *) 16;

/*
 * bpf_get_cgroup_classid
 *
 * 	Retrieve the classid for the current task, i.e. for the net_cls
 * 	cgroup to which *skb* belongs.
 *
 * 	This helper can be used on TC egress path, but not on ingress.
 *
 * 	The net_cls cgroup provides an interface to tag network packets
 * 	based on a user-provided identifier for all traffic coming from
 * 	the tasks belonging to the related cgroup. See also the related
 * 	kernel documentation, available from the Linux sources in file
 * 	*Documentation/admin-guide/cgroup-v1/net_cls.rst*.
 *
 * 	The Linux kernel has two versions for cgroups: there are
 * 	cgroups v1 and cgroups v2. Both are available to users, who can
 * 	use a mixture of them, but note that the net_cls cgroup is for
 * 	cgroup v1 only. This makes it incompatible with BPF programs
 * 	run on cgroups, which is a cgroup-v2-only feature (a socket can
 * 	only hold data for one version of cgroups at a time).
 *
 * 	This helper is only available is the kernel was compiled with
 * 	the **CONFIG_CGROUP_NET_CLASSID** configuration option set to
 * 	"**y**" or to "**m**".
 *
 * Returns
 * 	The classid, or 0 for the default unconfigured classid.
 */
static __u32 (*bpf_get_cgroup_classid)(struct __sk_buff *skb) = (void *) 17;

/*
 * bpf_skb_vlan_push
 *
 * 	Push a *vlan_tci* (VLAN tag control information) of protocol
 * 	*vlan_proto* to the packet associated to *skb*, then update
 * 	the checksum. Note that if *vlan_proto* is different from
 * 	**ETH_P_8021Q** and **ETH_P_8021AD**, it is considered to
 * 	be **ETH_P_8021Q**.
 *
 * 	A call to this helper is susceptible to change the underlying
 * 	packet buffer. Therefore, at load time, all checks on pointers
 * 	previously done by the verifier are invalidated and must be
 * 	performed again, if the helper is used in combination with
 * 	direct packet access.
 *
 * Returns
 * 	0 on success, or a negative error in case of failure.
 */
static long (*bpf_skb_vlan_push)(struct __sk_buff *skb, __be16 vlan_proto, __u16 vlan_tci) = (void *) 18;

/*
 * bpf_skb_vlan_pop
 *
 * 	Pop a VLAN header from the packet associated to *skb*.
 *
 * 	A call to this helper is susceptible to change the underlying
 * 	packet buffer. Therefore, at load time, all checks on pointers
 * 	previously done by the verifier are invalidated and must be
 * 	performed again, if the helper is used in combination with
 * 	direct packet access.
 *
 * Returns
 * 	0 on success, or a negative error in case of failure.
 */
static long (*bpf_skb_vlan_pop)(struct __sk_buff *skb) = (void *) 19;

/*
 * bpf_skb_get_tunnel_key
 *
 * 	Get tunnel metadata. This helper takes a pointer *key* to an
 * 	empty **struct bpf_tunnel_key** of **size**, that will be
 * 	filled with tunnel metadata for the packet associated to *skb*.
 * 	The *flags* can be set to **BPF_F_TUNINFO_IPV6**, which
 * 	indicates that the tunnel is based on IPv6 protocol instead of
 * 	IPv4.
 *
 * 	The **struct bpf_tunnel_key** is an object that generalizes the
 * 	principal parameters used by various tunneling protocols into a
 * 	single struct. This way, it can be used to easily make a
 * 	decision based on the contents of the encapsulation header,
 * 	"summarized" in this struct. In particular, it holds the IP
 * 	address of the remote end (IPv4 or IPv6, depending on the case)
 * 	in *key*\ **->remote_ipv4** or *key*\ **->remote_ipv6**. Also,
 * 	this struct exposes the *key*\ **->tunnel_id**, which is
 * 	generally mapped to a VNI (Virtual Network Identifier), making
 * 	it programmable together with the **bpf_skb_set_tunnel_key**\
 * 	() helper.
 *
 * 	Let's imagine that the following code is part of a program
 * 	attached to the TC ingress interface, on one end of a GRE
 * 	tunnel, and is supposed to filter out all messages coming from
 * 	remote ends with IPv4 address other than 10.0.0.1:
 *
 * 	::
 *
 * 		int ret;
 * 		struct bpf_tunnel_key key = {};
 *
 * 		ret = bpf_skb_get_tunnel_key(skb, &key, sizeof(key), 0);
 * 		if (ret < 0)
 * 			return TC_ACT_SHOT;	// drop packet
 *
 * 		if (key.remote_ipv4 != 0x0a000001)
 * 			return TC_ACT_SHOT;	// drop packet
 *
 * 		return TC_ACT_OK;		// accept packet
 *
 * 	This interface can also be used with all encapsulation devices
 * 	that can operate in "collect metadata" mode: instead of having
 * 	one network device per specific configuration, the "collect
 * 	metadata" mode only requires a single device where the
 * 	configuration can be extracted from this helper.
 *
 * 	This can be used together with various tunnels such as VXLan,
 * 	Geneve, GRE or IP in IP (IPIP).
 *
 * Returns
 * 	0 on success, or a negative error in case of failure.
 */
static long (*bpf_skb_get_tunnel_key)(struct __sk_buff *skb, struct bpf_tunnel_key *key, __u32 size, __u64 flags) = (void *) 20;

/*
 * bpf_skb_set_tunnel_key
 *
 * 	Populate tunnel metadata for packet associated to *skb.* The
 * 	tunnel metadata is set to the contents of *key*, of *size*. The
 * 	*flags* can be set to a combination of the following values:
 *
 * 	**BPF_F_TUNINFO_IPV6**
 * 		Indicate that the tunnel is based on IPv6 protocol
 * 		instead of IPv4.
 * 	**BPF_F_ZERO_CSUM_TX**
 * 		For IPv4 packets, add a flag to tunnel metadata
 * 		indicating that checksum computation should be skipped
 * 		and checksum set to zeroes.
 * 	**BPF_F_DONT_FRAGMENT**
 * 		Add a flag to tunnel metadata indicating that the
 * 		packet should not be fragmented.
 * 	**BPF_F_SEQ_NUMBER**
 * 		Add a flag to tunnel metadata indicating that a
 * 		sequence number should be added to tunnel header before
 * 		sending the packet. This flag was added for GRE
 * 		encapsulation, but might be used with other protocols
 * 		as well in the future.
 *
 * 	Here is a typical usage on the transmit path:
 *
 * 	::
 *
 * 		struct bpf_tunnel_key key;
 * 		     populate key ...
 * 		bpf_skb_set_tunnel_key(skb, &key, sizeof(key), 0);
 * 		bpf_clone_redirect(skb, vxlan_dev_ifindex, 0);
 *
 * 	See also the description of the **bpf_skb_get_tunnel_key**\ ()
 * 	helper for additional information.
 *
 * Returns
 * 	0 on success, or a negative error in case of failure.
 */
static long (*bpf_skb_set_tunnel_key)(struct __sk_buff *skb, struct bpf_tunnel_key *key, __u32 size, __u64 flags) = (void *) 21;

/*
 * bpf_perf_event_read
 *
 * 	Read the value of a perf event counter. This helper relies on a
 * 	*map* of type **BPF_MAP_TYPE_PERF_EVENT_ARRAY**. The nature of
 * 	the perf event counter is selected when *map* is updated with
 * 	perf event file descriptors. The *map* is an array whose size
 * 	is the number of available CPUs, and each cell contains a value
 * 	relative to one CPU. The value to retrieve is indicated by
 * 	*flags*, that contains the index of the CPU to look up, masked
 * 	with **BPF_F_INDEX_MASK**. Alternatively, *flags* can be set to
 * 	**BPF_F_CURRENT_CPU** to indicate that the value for the
 * 	current CPU should be retrieved.
 *
 * 	Note that before Linux 4.13, only hardware perf event can be
 * 	retrieved.
 *
 * 	Also, be aware that the newer helper
 * 	**bpf_perf_event_read_value**\ () is recommended over
 * 	**bpf_perf_event_read**\ () in general. The latter has some ABI
 * 	quirks where error and counter value are used as a return code
 * 	(which is wrong to do since ranges may overlap). This issue is
 * 	fixed with **bpf_perf_event_read_value**\ (), which at the same
 * 	time provides more features over the **bpf_perf_event_read**\
 * 	() interface. Please refer to the description of
 * 	**bpf_perf_event_read_value**\ () for details.
 *
 * Returns
 * 	The value of the perf event counter read from the map, or a
 * 	negative error code in case of failure.
 */
static __u64 (*bpf_perf_event_read)(void *map, __u64 flags) = (void *) 22;

/*
 * bpf_redirect
 *
 * 	Redirect the packet to another net device of index *ifindex*.
 * 	This helper is somewhat similar to **bpf_clone_redirect**\
 * 	(), except that the packet is not cloned, which provides
 * 	increased performance.
 *
 * 	Except for XDP, both ingress and egress interfaces can be used
 * 	for redirection. The **BPF_F_INGRESS** value in *flags* is used
 * 	to make the distinction (ingress path is selected if the flag
 * 	is present, egress path otherwise). Currently, XDP only
 * 	supports redirection to the egress interface, and accepts no
 * 	flag at all.
 *
 * 	The same effect can also be attained with the more generic
 * 	**bpf_redirect_map**\ (), which uses a BPF map to store the
 * 	redirect target instead of providing it directly to the helper.
 *
 * Returns
 * 	For XDP, the helper returns **XDP_REDIRECT** on success or
 * 	**XDP_ABORTED** on error. For other program types, the values
 * 	are **TC_ACT_REDIRECT** on success or **TC_ACT_SHOT** on
 * 	error.
 */
static long (*bpf_redirect)(__u32 ifindex, __u64 flags) = (void *) 23;

/*
 * bpf_get_route_realm
 *
 * 	Retrieve the realm or the route, that is to say the
 * 	**tclassid** field of the destination for the *skb*. The
 * 	identifier retrieved is a user-provided tag, similar to the
 * 	one used with the net_cls cgroup (see description for
 * 	**bpf_get_cgroup_classid**\ () helper), but here this tag is
 * 	held by a route (a destination entry), not by a task.
 *
 * 	Retrieving this identifier works with the clsact TC egress hook
 * 	(see also **tc-bpf(8)**), or alternatively on conventional
 * 	classful egress qdiscs, but not on TC ingress path. In case of
 * 	clsact TC egress hook, this has the advantage that, internally,
 * 	the destination entry has not been dropped yet in the transmit
 * 	path. Therefore, the destination entry does not need to be
 * 	artificially held via **netif_keep_dst**\ () for a classful
 * 	qdisc until the *skb* is freed.
 *
 * 	This helper is available only if the kernel was compiled with
 * 	**CONFIG_IP_ROUTE_CLASSID** configuration option.
 *
 * Returns
 * 	The realm of the route for the packet associated to *skb*, or 0
 * 	if none was found.
 */
static __u32 (*bpf_get_route_realm)(struct __sk_buff *skb) = (void *) 24;

/*
 * bpf_perf_event_output
 *
 * 	Write raw *data* blob into a special BPF perf event held by
 * 	*map* of type **BPF_MAP_TYPE_PERF_EVENT_ARRAY**. This perf
 * 	event must have the following attributes: **PERF_SAMPLE_RAW**
 * 	as **sample_type**, **PERF_TYPE_SOFTWARE** as **type**, and
 * 	**PERF_COUNT_SW_BPF_OUTPUT** as **config**.
 *
 * 	The *flags* are used to indicate the index in *map* for which
 * 	the value must be put, masked with **BPF_F_INDEX_MASK**.
 * 	Alternatively, *flags* can be set to **BPF_F_CURRENT_CPU**
 * 	to indicate that the index of the current CPU core should be
 * 	used.
 *
 * 	The value to write, of *size*, is passed through eBPF stack and
 * 	pointed by *data*.
 *
 * 	The context of the program *ctx* needs also be passed to the
 * 	helper.
 *
 * 	On user space, a program willing to read the values needs to
 * 	call **perf_event_open**\ () on the perf event (either for
 * 	one or for all CPUs) and to store the file descriptor into the
 * 	*map*. This must be done before the eBPF program can send data
 * 	into it. An example is available in file
 * 	*samples/bpf/trace_output_user.c* in the Linux kernel source
 * 	tree (the eBPF program counterpart is in
 * 	*samples/bpf/trace_output_kern.c*).
 *
 * 	**bpf_perf_event_output**\ () achieves better performance
 * 	than **bpf_trace_printk**\ () for sharing data with user
 * 	space, and is much better suitable for streaming data from eBPF
 * 	programs.
 *
 * 	Note that this helper is not restricted to tracing use cases
 * 	and can be used with programs attached to TC or XDP as well,
 * 	where it allows for passing data to user space listeners. Data
 * 	can be:
 *
 * 	* Only custom structs,
 * 	* Only the packet payload, or
 * 	* A combination of both.
 *
 * Returns
 * 	0 on success, or a negative error in case of failure.
 */
static long (*bpf_perf_event_output)(void *ctx, void *map, __u64 flags, void *data, __u64 size) = (void *) 25;

/*
 * bpf_skb_load_bytes
 *
 * 	This helper was provided as an easy way to load data from a
 * 	packet. It can be used to load *len* bytes from *offset* from
 * 	the packet associated to *skb*, into the buffer pointed by
 * 	*to*.
 *
 * 	Since Linux 4.7, usage of this helper has mostly been replaced
 * 	by "direct packet access", enabling packet data to be
 * 	manipulated with *skb*\ **->data** and *skb*\ **->data_end**
 * 	pointing respectively to the first byte of packet data and to
 * 	the byte after the last byte of packet data. However, it
 * 	remains useful if one wishes to read large quantities of data
 * 	at once from a packet into the eBPF stack.
 *
 * Returns
 * 	0 on success, or a negative error in case of failure.
 */
static long (*bpf_skb_load_bytes)(const void *skb, __u32 offset, void *to, __u32 len) = (void *) 26;

/*
 * bpf_get_stackid
 *
 * 	Walk a user or a kernel stack and return its id. To achieve
 * 	this, the helper needs *ctx*, which is a pointer to the context
 * 	on which the tracing program is executed, and a pointer to a
 * 	*map* of type **BPF_MAP_TYPE_STACK_TRACE**.
 *
 * 	The last argument, *flags*, holds the number of stack frames to
 * 	skip (from 0 to 255), masked with
 * 	**BPF_F_SKIP_FIELD_MASK**. The next bits can be used to set
 * 	a combination of the following flags:
 *
 * 	**BPF_F_USER_STACK**
 * 		Collect a user space stack instead of a kernel stack.
 * 	**BPF_F_FAST_STACK_CMP**
 * 		Compare stacks by hash only.
 * 	**BPF_F_REUSE_STACKID**
 * 		If two different stacks hash into the same *stackid*,
 * 		discard the old one.
 *
 * 	The stack id retrieved is a 32 bit long integer handle which
 * 	can be further combined with other data (including other stack
 * 	ids) and used as a key into maps. This can be useful for
 * 	generating a variety of graphs (such as flame graphs or off-cpu
 * 	graphs).
 *
 * 	For walking a stack, this helper is an improvement over
 * 	**bpf_probe_read**\ (), which can be used with unrolled loops
 * 	but is not efficient and consumes a lot of eBPF instructions.
 * 	Instead, **bpf_get_stackid**\ () can collect up to
 * 	**PERF_MAX_STACK_DEPTH** both kernel and user frames. Note that
 * 	this limit can be controlled with the **sysctl** program, and
 * 	that it should be manually increased in order to profile long
 * 	user stacks (such as stacks for Java programs). To do so, use:
 *
 * 	::
 *
 * 		# sysctl kernel.perf_event_max_stack=<new value>
 *
 * Returns
 * 	The positive or null stack id on success, or a negative error
 * 	in case of failure.
 */
static long (*bpf_get_stackid)(void *ctx, void *map, __u64 flags) = (void *) 27;

/*
 * bpf_csum_diff
 *
 * 	Compute a checksum difference, from the raw buffer pointed by
 * 	*from*, of length *from_size* (that must be a multiple of 4),
 * 	towards the raw buffer pointed by *to*, of size *to_size*
 * 	(same remark). An optional *seed* can be added to the value
 * 	(this can be cascaded, the seed may come from a previous call
 * 	to the helper).
 *
 * 	This is flexible enough to be used in several ways:
 *
 * 	* With *from_size* == 0, *to_size* > 0 and *seed* set to
 * 	  checksum, it can be used when pushing new data.
 * 	* With *from_size* > 0, *to_size* == 0 and *seed* set to
 * 	  checksum, it can be used when removing data from a packet.
 * 	* With *from_size* > 0, *to_size* > 0 and *seed* set to 0, it
 * 	  can be used to compute a diff. Note that *from_size* and
 * 	  *to_size* do not need to be equal.
 *
 * 	This helper can be used in combination with
 * 	**bpf_l3_csum_replace**\ () and **bpf_l4_csum_replace**\ (), to
 * 	which one can feed in the difference computed with
 * 	**bpf_csum_diff**\ ().
 *
 * Returns
 * 	The checksum result, or a negative error code in case of
 * 	failure.
 */
static __s64 (*bpf_csum_diff)(__be32 *from, __u32 from_size, __be32 *to, __u32 to_size, __wsum seed) = (void *) 28;

/*
 * bpf_skb_get_tunnel_opt
 *
 * 	Retrieve tunnel options metadata for the packet associated to
 * 	*skb*, and store the raw tunnel option data to the buffer *opt*
 * 	of *size*.
 *
 * 	This helper can be used with encapsulation devices that can
 * 	operate in "collect metadata" mode (please refer to the related
 * 	note in the description of **bpf_skb_get_tunnel_key**\ () for
 * 	more details). A particular example where this can be used is
 * 	in combination with the Geneve encapsulation protocol, where it
 * 	allows for pushing (with **bpf_skb_get_tunnel_opt**\ () helper)
 * 	and retrieving arbitrary TLVs (Type-Length-Value headers) from
 * 	the eBPF program. This allows for full customization of these
 * 	headers.
 *
 * Returns
 * 	The size of the option data retrieved.
 */
static long (*bpf_skb_get_tunnel_opt)(struct __sk_buff *skb, void *opt, __u32 size) = (void *) 29;

/*
 * bpf_skb_set_tunnel_opt
 *
 * 	Set tunnel options metadata for the packet associated to *skb*
 * 	to the option data contained in the raw buffer *opt* of *size*.
 *
 * 	See also the description of the **bpf_skb_get_tunnel_opt**\ ()
 * 	helper for additional information.
 *
 * Returns
 * 	0 on success, or a negative error in case of failure.
 */
static long (*bpf_skb_set_tunnel_opt)(struct __sk_buff *skb, void *opt, __u32 size) = (void *) 30;

/*
 * bpf_skb_change_proto
 *
 * 	Change the protocol of the *skb* to *proto*. Currently
 * 	supported are transition from IPv4 to IPv6, and from IPv6 to
 * 	IPv4. The helper takes care of the groundwork for the
 * 	transition, including resizing the socket buffer. The eBPF
 * 	program is expected to fill the new headers, if any, via
 * 	**skb_store_bytes**\ () and to recompute the checksums with
 * 	**bpf_l3_csum_replace**\ () and **bpf_l4_csum_replace**\
 * 	(). The main case for this helper is to perform NAT64
 * 	operations out of an eBPF program.
 *
 * 	Internally, the GSO type is marked as dodgy so that headers are
 * 	checked and segments are recalculated by the GSO/GRO engine.
 * 	The size for GSO target is adapted as well.
 *
 * 	All values for *flags* are reserved for future usage, and must
 * 	be left at zero.
 *
 * 	A call to this helper is susceptible to change the underlying
 * 	packet buffer. Therefore, at load time, all checks on pointers
 * 	previously done by the verifier are invalidated and must be
 * 	performed again, if the helper is used in combination with
 * 	direct packet access.
 *
 * Returns
 * 	0 on success, or a negative error in case of failure.
 */
static long (*bpf_skb_change_proto)(struct __sk_buff *skb, __be16 proto, __u64 flags) = (void *) 31;

/*
 * bpf_skb_change_type
 *
 * 	Change the packet type for the packet associated to *skb*. This
 * 	comes down to setting *skb*\ **->pkt_type** to *type*, except
 * 	the eBPF program does not have a write access to *skb*\
 * 	**->pkt_type** beside this helper. Using a helper here allows
 * 	for graceful handling of errors.
 *
 * 	The major use case is to change incoming *skb*s to
 * 	**PACKET_HOST** in a programmatic way instead of having to
 * 	recirculate via **redirect**\ (..., **BPF_F_INGRESS**), for
 * 	example.
 *
 * 	Note that *type* only allows certain values. At this time, they
 * 	are:
 *
 * 	**PACKET_HOST**
 * 		Packet is for us.
 * 	**PACKET_BROADCAST**
 * 		Send packet to all.
 * 	**PACKET_MULTICAST**
 * 		Send packet to group.
 * 	**PACKET_OTHERHOST**
 * 		Send packet to someone else.
 *
 * Returns
 * 	0 on success, or a negative error in case of failure.
 */
static long (*bpf_skb_change_type)(struct __sk_buff *skb, __u32 type) = (void *) 32;

/*
 * bpf_skb_under_cgroup
 *
 * 	Check whether *skb* is a descendant of the cgroup2 held by
 * 	*map* of type **BPF_MAP_TYPE_CGROUP_ARRAY**, at *index*.
 *
 * Returns
 * 	The return value depends on the result of the test, and can be:
 *
 * 	* 0, if the *skb* failed the cgroup2 descendant test.
 * 	* 1, if the *skb* succeeded the cgroup2 descendant test.
 * 	* A negative error code, if an error occurred.
 */
static long (*bpf_skb_under_cgroup)(struct __sk_buff *skb, void *map, __u32 index) = (void *) 33;

/*
 * bpf_get_hash_recalc
 *
 * 	Retrieve the hash of the packet, *skb*\ **->hash**. If it is
 * 	not set, in particular if the hash was cleared due to mangling,
 * 	recompute this hash. Later accesses to the hash can be done
 * 	directly with *skb*\ **->hash**.
 *
 * 	Calling **bpf_set_hash_invalid**\ (), changing a packet
 * 	prototype with **bpf_skb_change_proto**\ (), or calling
 * 	**bpf_skb_store_bytes**\ () with the
 * 	**BPF_F_INVALIDATE_HASH** are actions susceptible to clear
 * 	the hash and to trigger a new computation for the next call to
 * 	**bpf_get_hash_recalc**\ ().
 *
 * Returns
 * 	The 32-bit hash.
 */
static __u32 (*bpf_get_hash_recalc)(struct __sk_buff *skb) = (void *) 34;

/*
 * bpf_get_current_task
 *
 *
 * Returns
 * 	A pointer to the current task struct.
 */
static __u64 (*bpf_get_current_task)(void) = (void *) 35;

/*
 * bpf_probe_write_user
 *
 * 	Attempt in a safe way to write *len* bytes from the buffer
 * 	*src* to *dst* in memory. It only works for threads that are in
 * 	user context, and *dst* must be a valid user space address.
 *
 * 	This helper should not be used to implement any kind of
 * 	security mechanism because of TOC-TOU attacks, but rather to
 * 	debug, divert, and manipulate execution of semi-cooperative
 * 	processes.
 *
 * 	Keep in mind that this feature is meant for experiments, and it
 * 	has a risk of crashing the system and running programs.
 * 	Therefore, when an eBPF program using this helper is attached,
 * 	a warning including PID and process name is printed to kernel
 * 	logs.
 *
 * Returns
 * 	0 on success, or a negative error in case of failure.
 */
static long (*bpf_probe_write_user)(void *dst, const void *src, __u32 len) = (void *) 36;

/*
 * bpf_current_task_under_cgroup
 *
 * 	Check whether the probe is being run is the context of a given
 * 	subset of the cgroup2 hierarchy. The cgroup2 to test is held by
 * 	*map* of type **BPF_MAP_TYPE_CGROUP_ARRAY**, at *index*.
 *
 * Returns
 * 	The return value depends on the result of the test, and can be:
 *
 * 	* 0, if current task belongs to the cgroup2.
 * 	* 1, if current task does not belong to the cgroup2.
 * 	* A negative error code, if an error occurred.
 */
static long (*bpf_current_task_under_cgroup)(void *map, __u32 index) = (void *) 37;

/*
 * bpf_skb_change_tail
 *
 * 	Resize (trim or grow) the packet associated to *skb* to the
 * 	new *len*. The *flags* are reserved for future usage, and must
 * 	be left at zero.
 *
 * 	The basic idea is that the helper performs the needed work to
 * 	change the size of the packet, then the eBPF program rewrites
 * 	the rest via helpers like **bpf_skb_store_bytes**\ (),
 * 	**bpf_l3_csum_replace**\ (), **bpf_l3_csum_replace**\ ()
 * 	and others. This helper is a slow path utility intended for
 * 	replies with control messages. And because it is targeted for
 * 	slow path, the helper itself can afford to be slow: it
 * 	implicitly linearizes, unclones and drops offloads from the
 * 	*skb*.
 *
 * 	A call to this helper is susceptible to change the underlying
 * 	packet buffer. Therefore, at load time, all checks on pointers
 * 	previously done by the verifier are invalidated and must be
 * 	performed again, if the helper is used in combination with
 * 	direct packet access.
 *
 * Returns
 * 	0 on success, or a negative error in case of failure.
 */
static long (*bpf_skb_change_tail)(struct __sk_buff *skb, __u32 len, __u64 flags) = (void *) 38;

/*
 * bpf_skb_pull_data
 *
 * 	Pull in non-linear data in case the *skb* is non-linear and not
 * 	all of *len* are part of the linear section. Make *len* bytes
 * 	from *skb* readable and writable. If a zero value is passed for
 * 	*len*, then the whole length of the *skb* is pulled.
 *
 * 	This helper is only needed for reading and writing with direct
 * 	packet access.
 *
 * 	For direct packet access, testing that offsets to access
 * 	are within packet boundaries (test on *skb*\ **->data_end**) is
 * 	susceptible to fail if offsets are invalid, or if the requested
 * 	data is in non-linear parts of the *skb*. On failure the
 * 	program can just bail out, or in the case of a non-linear
 * 	buffer, use a helper to make the data available. The
 * 	**bpf_skb_load_bytes**\ () helper is a first solution to access
 * 	the data. Another one consists in using **bpf_skb_pull_data**
 * 	to pull in once the non-linear parts, then retesting and
 * 	eventually access the data.
 *
 * 	At the same time, this also makes sure the *skb* is uncloned,
 * 	which is a necessary condition for direct write. As this needs
 * 	to be an invariant for the write part only, the verifier
 * 	detects writes and adds a prologue that is calling
 * 	**bpf_skb_pull_data()** to effectively unclone the *skb* from
 * 	the very beginning in case it is indeed cloned.
 *
 * 	A call to this helper is susceptible to change the underlying
 * 	packet buffer. Therefore, at load time, all checks on pointers
 * 	previously done by the verifier are invalidated and must be
 * 	performed again, if the helper is used in combination with
 * 	direct packet access.
 *
 * Returns
 * 	0 on success, or a negative error in case of failure.
 */
static long (*bpf_skb_pull_data)(struct __sk_buff *skb, __u32 len) = (void *) 39;

/*
 * bpf_csum_update
 *
 * 	Add the checksum *csum* into *skb*\ **->csum** in case the
 * 	driver has supplied a checksum for the entire packet into that
 * 	field. Return an error otherwise. This helper is intended to be
 * 	used in combination with **bpf_csum_diff**\ (), in particular
 * 	when the checksum needs to be updated after data has been
 * 	written into the packet through direct packet access.
 *
 * Returns
 * 	The checksum on success, or a negative error code in case of
 * 	failure.
 */
static __s64 (*bpf_csum_update)(struct __sk_buff *skb, __wsum csum) = (void *) 40;

/*
 * bpf_set_hash_invalid
 *
 * 	Invalidate the current *skb*\ **->hash**. It can be used after
 * 	mangling on headers through direct packet access, in order to
 * 	indicate that the hash is outdated and to trigger a
 * 	recalculation the next time the kernel tries to access this
 * 	hash or when the **bpf_get_hash_recalc**\ () helper is called.
 *
 */
static void (*bpf_set_hash_invalid)(struct __sk_buff *skb) = (void *) 41;

/*
 * bpf_get_numa_node_id
 *
 * 	Return the id of the current NUMA node. The primary use case
 * 	for this helper is the selection of sockets for the local NUMA
 * 	node, when the program is attached to sockets using the
 * 	**SO_ATTACH_REUSEPORT_EBPF** option (see also **socket(7)**),
 * 	but the helper is also available to other eBPF program types,
 * 	similarly to **bpf_get_smp_processor_id**\ ().
 *
 * Returns
 * 	The id of current NUMA node.
 */
static long (*bpf_get_numa_node_id)(void) = (void *) 42;

/*
 * bpf_skb_change_head
 *
 * 	Grows headroom of packet associated to *skb* and adjusts the
 * 	offset of the MAC header accordingly, adding *len* bytes of
 * 	space. It automatically extends and reallocates memory as
 * 	required.
 *
 * 	This helper can be used on a layer 3 *skb* to push a MAC header
 * 	for redirection into a layer 2 device.
 *
 * 	All values for *flags* are reserved for future usage, and must
 * 	be left at zero.
 *
 * 	A call to this helper is susceptible to change the underlying
 * 	packet buffer. Therefore, at load time, all checks on pointers
 * 	previously done by the verifier are invalidated and must be
 * 	performed again, if the helper is used in combination with
 * 	direct packet access.
 *
 * Returns
 * 	0 on success, or a negative error in case of failure.
 */
static long (*bpf_skb_change_head)(struct __sk_buff *skb, __u32 len, __u64 flags) = (void *) 43;

/*
 * bpf_xdp_adjust_head
 *
 * 	Adjust (move) *xdp_md*\ **->data** by *delta* bytes. Note that
 * 	it is possible to use a negative value for *delta*. This helper
 * 	can be used to prepare the packet for pushing or popping
 * 	headers.
 *
 * 	A call to this helper is susceptible to change the underlying
 * 	packet buffer. Therefore, at load time, all checks on pointers
 * 	previously done by the verifier are invalidated and must be
 * 	performed again, if the helper is used in combination with
 * 	direct packet access.
 *
 * Returns
 * 	0 on success, or a negative error in case of failure.
 */
static long (*bpf_xdp_adjust_head)(struct xdp_md *xdp_md, int delta) = (void *) 44;

/*
 * bpf_probe_read_str
 *
 * 	Copy a NUL terminated string from an unsafe kernel address
 * 	*unsafe_ptr* to *dst*. See **bpf_probe_read_kernel_str**\ () for
 * 	more details.
 *
 * 	Generally, use **bpf_probe_read_user_str**\ () or
 * 	**bpf_probe_read_kernel_str**\ () instead.
 *
 * Returns
 * 	On success, the strictly positive length of the string,
 * 	including the trailing NUL character. On error, a negative
 * 	value.
 */
static long (*bpf_probe_read_str)(void *dst, __u32 size, const void *unsafe_ptr) = (void *) 45;

/*
 * bpf_get_socket_cookie
 *
 * 	If the **struct sk_buff** pointed by *skb* has a known socket,
 * 	retrieve the cookie (generated by the kernel) of this socket.
 * 	If no cookie has been set yet, generate a new cookie. Once
 * 	generated, the socket cookie remains stable for the life of the
 * 	socket. This helper can be useful for monitoring per socket
 * 	networking traffic statistics as it provides a global socket
 * 	identifier that can be assumed unique.
 *
 * Returns
 * 	A 8-byte long unique number on success, or 0 if the socket
 * 	field is missing inside *skb*.
 */
static __u64 (*bpf_get_socket_cookie)(void *ctx) = (void *) 46;

/*
 * bpf_get_socket_uid
 *
 *
 * Returns
 * 	The owner UID of the socket associated to *skb*. If the socket
 * 	is **NULL**, or if it is not a full socket (i.e. if it is a
 * 	time-wait or a request socket instead), **overflowuid** value
 * 	is returned (note that **overflowuid** might also be the actual
 * 	UID value for the socket).
 */
static __u32 (*bpf_get_socket_uid)(struct __sk_buff *skb) = (void *) 47;

/*
 * bpf_set_hash
 *
 * 	Set the full hash for *skb* (set the field *skb*\ **->hash**)
 * 	to value *hash*.
 *
 * Returns
 * 	0
 */
static long (*bpf_set_hash)(struct __sk_buff *skb, __u32 hash) = (void *) 48;

/*
 * bpf_setsockopt
 *
 * 	Emulate a call to **setsockopt()** on the socket associated to
 * 	*bpf_socket*, which must be a full socket. The *level* at
 * 	which the option resides and the name *optname* of the option
 * 	must be specified, see **setsockopt(2)** for more information.
 * 	The option value of length *optlen* is pointed by *optval*.
 *
 * 	*bpf_socket* should be one of the following:
 *
 * 	* **struct bpf_sock_ops** for **BPF_PROG_TYPE_SOCK_OPS**.
 * 	* **struct bpf_sock_addr** for **BPF_CGROUP_INET4_CONNECT**
 * 	  and **BPF_CGROUP_INET6_CONNECT**.
 *
 * 	This helper actually implements a subset of **setsockopt()**.
 * 	It supports the following *level*\ s:
 *
 * 	* **SOL_SOCKET**, which supports the following *optname*\ s:
 * 	  **SO_RCVBUF**, **SO_SNDBUF**, **SO_MAX_PACING_RATE**,
 * 	  **SO_PRIORITY**, **SO_RCVLOWAT**, **SO_MARK**,
 * 	  **SO_BINDTODEVICE**, **SO_KEEPALIVE**.
 * 	* **IPPROTO_TCP**, which supports the following *optname*\ s:
 * 	  **TCP_CONGESTION**, **TCP_BPF_IW**,
 * 	  **TCP_BPF_SNDCWND_CLAMP**, **TCP_SAVE_SYN**,
 * 	  **TCP_KEEPIDLE**, **TCP_KEEPINTVL**, **TCP_KEEPCNT**,
 * 	  **TCP_SYNCNT**, **TCP_USER_TIMEOUT**, **TCP_NOTSENT_LOWAT**.
 * 	* **IPPROTO_IP**, which supports *optname* **IP_TOS**.
 * 	* **IPPROTO_IPV6**, which supports *optname* **IPV6_TCLASS**.
 *
 * Returns
 * 	0 on success, or a negative error in case of failure.
 */
static long (*bpf_setsockopt)(void *bpf_socket, int level, int optname, void *optval, int optlen) = (void *) 49;

/*
 * bpf_skb_adjust_room
 *
 * 	Grow or shrink the room for data in the packet associated to
 * 	*skb* by *len_diff*, and according to the selected *mode*.
 *
 * 	By default, the helper will reset any offloaded checksum
 * 	indicator of the skb to CHECKSUM_NONE. This can be avoided
 * 	by the following flag:
 *
 * 	* **BPF_F_ADJ_ROOM_NO_CSUM_RESET**: Do not reset offloaded
 * 	  checksum data of the skb to CHECKSUM_NONE.
 *
 * 	There are two supported modes at this time:
 *
 * 	* **BPF_ADJ_ROOM_MAC**: Adjust room at the mac layer
 * 	  (room space is added or removed below the layer 2 header).
 *
 * 	* **BPF_ADJ_ROOM_NET**: Adjust room at the network layer
 * 	  (room space is added or removed below the layer 3 header).
 *
 * 	The following flags are supported at this time:
 *
 * 	* **BPF_F_ADJ_ROOM_FIXED_GSO**: Do not adjust gso_size.
 * 	  Adjusting mss in this way is not allowed for datagrams.
 *
 * 	* **BPF_F_ADJ_ROOM_ENCAP_L3_IPV4**,
 * 	  **BPF_F_ADJ_ROOM_ENCAP_L3_IPV6**:
 * 	  Any new space is reserved to hold a tunnel header.
 * 	  Configure skb offsets and other fields accordingly.
 *
 * 	* **BPF_F_ADJ_ROOM_ENCAP_L4_GRE**,
 * 	  **BPF_F_ADJ_ROOM_ENCAP_L4_UDP**:
 * 	  Use with ENCAP_L3 flags to further specify the tunnel type.
 *
 * 	* **BPF_F_ADJ_ROOM_ENCAP_L2**\ (*len*):
 * 	  Use with ENCAP_L3/L4 flags to further specify the tunnel
 * 	  type; *len* is the length of the inner MAC header.
 *
 * 	* **BPF_F_ADJ_ROOM_ENCAP_L2_ETH**:
 * 	  Use with BPF_F_ADJ_ROOM_ENCAP_L2 flag to further specify the
 * 	  L2 type as Ethernet.
 *
 * 	A call to this helper is susceptible to change the underlying
 * 	packet buffer. Therefore, at load time, all checks on pointers
 * 	previously done by the verifier are invalidated and must be
 * 	performed again, if the helper is used in combination with
 * 	direct packet access.
 *
 * Returns
 * 	0 on success, or a negative error in case of failure.
 */
static long (*bpf_skb_adjust_room)(struct __sk_buff *skb, __s32 len_diff, __u32 mode, __u64 flags) = (void *) 50;

/*
 * bpf_redirect_map
 *
 * 	Redirect the packet to the endpoint referenced by *map* at
 * 	index *key*. Depending on its type, this *map* can contain
 * 	references to net devices (for forwarding packets through other
 * 	ports), or to CPUs (for redirecting XDP frames to another CPU;
 * 	but this is only implemented for native XDP (with driver
 * 	support) as of this writing).
 *
 * 	The lower two bits of *flags* are used as the return code if
 * 	the map lookup fails. This is so that the return value can be
 * 	one of the XDP program return codes up to **XDP_TX**, as chosen
 * 	by the caller. The higher bits of *flags* can be set to
 * 	BPF_F_BROADCAST or BPF_F_EXCLUDE_INGRESS as defined below.
 *
 * 	With BPF_F_BROADCAST the packet will be broadcasted to all the
 * 	interfaces in the map, with BPF_F_EXCLUDE_INGRESS the ingress
 * 	interface will be excluded when do broadcasting.
 *
 * 	See also **bpf_redirect**\ (), which only supports redirecting
 * 	to an ifindex, but doesn't require a map to do so.
 *
 * Returns
 * 	**XDP_REDIRECT** on success, or the value of the two lower bits
 * 	of the *flags* argument on error.
 */
static long (*bpf_redirect_map)(void *map, __u32 key, __u64 flags) = (void *) 51;

/*
 * bpf_sk_redirect_map
 *
 * 	Redirect the packet to the socket referenced by *map* (of type
 * 	**BPF_MAP_TYPE_SOCKMAP**) at index *key*. Both ingress and
 * 	egress interfaces can be used for redirection. The
 * 	**BPF_F_INGRESS** value in *flags* is used to make the
 * 	distinction (ingress path is selected if the flag is present,
 * 	egress path otherwise). This is the only flag supported for now.
 *
 * Returns
 * 	**SK_PASS** on success, or **SK_DROP** on error.
 */
static long (*bpf_sk_redirect_map)(struct __sk_buff *skb, void *map, __u32 key, __u64 flags) = (void *) 52;

/*
 * bpf_sock_map_update
 *
 * 	Add an entry to, or update a *map* referencing sockets. The
 * 	*skops* is used as a new value for the entry associated to
 * 	*key*. *flags* is one of:
 *
 * 	**BPF_NOEXIST**
 * 		The entry for *key* must not exist in the map.
 * 	**BPF_EXIST**
 * 		The entry for *key* must already exist in the map.
 * 	**BPF_ANY**
 * 		No condition on the existence of the entry for *key*.
 *
 * 	If the *map* has eBPF programs (parser and verdict), those will
 * 	be inherited by the socket being added. If the socket is
 * 	already attached to eBPF programs, this results in an error.
 *
 * Returns
 * 	0 on success, or a negative error in case of failure.
 */
static long (*bpf_sock_map_update)(struct bpf_sock_ops *skops, void *map, void *key, __u64 flags) = (void *) 53;

/*
 * bpf_xdp_adjust_meta
 *
 * 	Adjust the address pointed by *xdp_md*\ **->data_meta** by
 * 	*delta* (which can be positive or negative). Note that this
 * 	operation modifies the address stored in *xdp_md*\ **->data**,
 * 	so the latter must be loaded only after the helper has been
 * 	called.
 *
 * 	The use of *xdp_md*\ **->data_meta** is optional and programs
 * 	are not required to use it. The rationale is that when the
 * 	packet is processed with XDP (e.g. as DoS filter), it is
 * 	possible to push further meta data along with it before passing
 * 	to the stack, and to give the guarantee that an ingress eBPF
 * 	program attached as a TC classifier on the same device can pick
 * 	this up for further post-processing. Since TC works with socket
 * 	buffers, it remains possible to set from XDP the **mark** or
 * 	**priority** pointers, or other pointers for the socket buffer.
 * 	Having this scratch space generic and programmable allows for
 * 	more flexibility as the user is free to store whatever meta
 * 	data they need.
 *
 * 	A call to this helper is susceptible to change the underlying
 * 	packet buffer. Therefore, at load time, all checks on pointers
 * 	previously done by the verifier are invalidated and must be
 * 	performed again, if the helper is used in combination with
 * 	direct packet access.
 *
 * Returns
 * 	0 on success, or a negative error in case of failure.
 */
static long (*bpf_xdp_adjust_meta)(struct xdp_md *xdp_md, int delta) = (void *) 54;

/*
 * bpf_perf_event_read_value
 *
 * 	Read the value of a perf event counter, and store it into *buf*
 * 	of size *buf_size*. This helper relies on a *map* of type
 * 	**BPF_MAP_TYPE_PERF_EVENT_ARRAY**. The nature of the perf event
 * 	counter is selected when *map* is updated with perf event file
 * 	descriptors. The *map* is an array whose size is the number of
 * 	available CPUs, and each cell contains a value relative to one
 * 	CPU. The value to retrieve is indicated by *flags*, that
 * 	contains the index of the CPU to look up, masked with
 * 	**BPF_F_INDEX_MASK**. Alternatively, *flags* can be set to
 * 	**BPF_F_CURRENT_CPU** to indicate that the value for the
 * 	current CPU should be retrieved.
 *
 * 	This helper behaves in a way close to
 * 	**bpf_perf_event_read**\ () helper, save that instead of
 * 	just returning the value observed, it fills the *buf*
 * 	structure. This allows for additional data to be retrieved: in
 * 	particular, the enabled and running times (in *buf*\
 * 	**->enabled** and *buf*\ **->running**, respectively) are
 * 	copied. In general, **bpf_perf_event_read_value**\ () is
 * 	recommended over **bpf_perf_event_read**\ (), which has some
 * 	ABI issues and provides fewer functionalities.
 *
 * 	These values are interesting, because hardware PMU (Performance
 * 	Monitoring Unit) counters are limited resources. When there are
 * 	more PMU based perf events opened than available counters,
 * 	kernel will multiplex these events so each event gets certain
 * 	percentage (but not all) of the PMU time. In case that
 * 	multiplexing happens, the number of samples or counter value
 * 	will not reflect the case compared to when no multiplexing
 * 	occurs. This makes comparison between different runs difficult.
 * 	Typically, the counter value should be normalized before
 * 	comparing to other experiments. The usual normalization is done
 * 	as follows.
 *
 * 	::
 *
 * 		normalized_counter = counter * t_enabled / t_running
 *
 * 	Where t_enabled is the time enabled for event and t_running is
 * 	the time running for event since last normalization. The
 * 	enabled and running times are accumulated since the perf event
 * 	open. To achieve scaling factor between two invocations of an
 * 	eBPF program, users can use CPU id as the key (which is
 * 	typical for perf array usage model) to remember the previous
 * 	value and do the calculation inside the eBPF program.
 *
 * Returns
 * 	0 on success, or a negative error in case of failure.
 */
static long (*bpf_perf_event_read_value)(void *map, __u64 flags, struct bpf_perf_event_value *buf, __u32 buf_size) = (void *) 55;

/*
 * bpf_perf_prog_read_value
 *
 * 	For en eBPF program attached to a perf event, retrieve the
 * 	value of the event counter associated to *ctx* and store it in
 * 	the structure pointed by *buf* and of size *buf_size*. Enabled
 * 	and running times are also stored in the structure (see
 * 	description of helper **bpf_perf_event_read_value**\ () for
 * 	more details).
 *
 * Returns
 * 	0 on success, or a negative error in case of failure.
 */
static long (*bpf_perf_prog_read_value)(struct bpf_perf_event_data *ctx, struct bpf_perf_event_value *buf, __u32 buf_size) = (void *) 56;

/*
 * bpf_getsockopt
 *
 * 	Emulate a call to **getsockopt()** on the socket associated to
 * 	*bpf_socket*, which must be a full socket. The *level* at
 * 	which the option resides and the name *optname* of the option
 * 	must be specified, see **getsockopt(2)** for more information.
 * 	The retrieved value is stored in the structure pointed by
 * 	*opval* and of length *optlen*.
 *
 * 	*bpf_socket* should be one of the following:
 *
 * 	* **struct bpf_sock_ops** for **BPF_PROG_TYPE_SOCK_OPS**.
 * 	* **struct bpf_sock_addr** for **BPF_CGROUP_INET4_CONNECT**
 * 	  and **BPF_CGROUP_INET6_CONNECT**.
 *
 * 	This helper actually implements a subset of **getsockopt()**.
 * 	It supports the following *level*\ s:
 *
 * 	* **IPPROTO_TCP**, which supports *optname*
 * 	  **TCP_CONGESTION**.
 * 	* **IPPROTO_IP**, which supports *optname* **IP_TOS**.
 * 	* **IPPROTO_IPV6**, which supports *optname* **IPV6_TCLASS**.
 *
 * Returns
 * 	0 on success, or a negative error in case of failure.
 */
static long (*bpf_getsockopt)(void *bpf_socket, int level, int optname, void *optval, int optlen) = (void *) 57;

/*
 * bpf_override_return
 *
 * 	Used for error injection, this helper uses kprobes to override
 * 	the return value of the probed function, and to set it to *rc*.
 * 	The first argument is the context *regs* on which the kprobe
 * 	works.
 *
 * 	This helper works by setting the PC (program counter)
 * 	to an override function which is run in place of the original
 * 	probed function. This means the probed function is not run at
 * 	all. The replacement function just returns with the required
 * 	value.
 *
 * 	This helper has security implications, and thus is subject to
 * 	restrictions. It is only available if the kernel was compiled
 * 	with the **CONFIG_BPF_KPROBE_OVERRIDE** configuration
 * 	option, and in this case it only works on functions tagged with
 * 	**ALLOW_ERROR_INJECTION** in the kernel code.
 *
 * 	Also, the helper is only available for the architectures having
 * 	the CONFIG_FUNCTION_ERROR_INJECTION option. As of this writing,
 * 	x86 architecture is the only one to support this feature.
 *
 * Returns
 * 	0
 */
static long (*bpf_override_return)(struct pt_regs *regs, __u64 rc) = (void *) 58;

/*
 * bpf_sock_ops_cb_flags_set
 *
 * 	Attempt to set the value of the **bpf_sock_ops_cb_flags** field
 * 	for the full TCP socket associated to *bpf_sock_ops* to
 * 	*argval*.
 *
 * 	The primary use of this field is to determine if there should
 * 	be calls to eBPF programs of type
 * 	**BPF_PROG_TYPE_SOCK_OPS** at various points in the TCP
 * 	code. A program of the same type can change its value, per
 * 	connection and as necessary, when the connection is
 * 	established. This field is directly accessible for reading, but
 * 	this helper must be used for updates in order to return an
 * 	error if an eBPF program tries to set a callback that is not
 * 	supported in the current kernel.
 *
 * 	*argval* is a flag array which can combine these flags:
 *
 * 	* **BPF_SOCK_OPS_RTO_CB_FLAG** (retransmission time out)
 * 	* **BPF_SOCK_OPS_RETRANS_CB_FLAG** (retransmission)
 * 	* **BPF_SOCK_OPS_STATE_CB_FLAG** (TCP state change)
 * 	* **BPF_SOCK_OPS_RTT_CB_FLAG** (every RTT)
 *
 * 	Therefore, this function can be used to clear a callback flag by
 * 	setting the appropriate bit to zero. e.g. to disable the RTO
 * 	callback:
 *
 * 	**bpf_sock_ops_cb_flags_set(bpf_sock,**
 * 		**bpf_sock->bpf_sock_ops_cb_flags & ~BPF_SOCK_OPS_RTO_CB_FLAG)**
 *
 * 	Here are some examples of where one could call such eBPF
 * 	program:
 *
 * 	* When RTO fires.
 * 	* When a packet is retransmitted.
 * 	* When the connection terminates.
 * 	* When a packet is sent.
 * 	* When a packet is received.
 *
 * Returns
 * 	Code **-EINVAL** if the socket is not a full TCP socket;
 * 	otherwise, a positive number containing the bits that could not
 * 	be set is returned (which comes down to 0 if all bits were set
 * 	as required).
 */
static long (*bpf_sock_ops_cb_flags_set)(struct bpf_sock_ops *bpf_sock, int argval) = (void *) 59;

/*
 * bpf_msg_redirect_map
 *
 * 	This helper is used in programs implementing policies at the
 * 	socket level. If the message *msg* is allowed to pass (i.e. if
 * 	the verdict eBPF program returns **SK_PASS**), redirect it to
 * 	the socket referenced by *map* (of type
 * 	**BPF_MAP_TYPE_SOCKMAP**) at index *key*. Both ingress and
 * 	egress interfaces can be used for redirection. The
 * 	**BPF_F_INGRESS** value in *flags* is used to make the
 * 	distinction (ingress path is selected if the flag is present,
 * 	egress path otherwise). This is the only flag supported for now.
 *
 * Returns
 * 	**SK_PASS** on success, or **SK_DROP** on error.
 */
static long (*bpf_msg_redirect_map)(struct sk_msg_md *msg, void *map, __u32 key, __u64 flags) = (void *) 60;

/*
 * bpf_msg_apply_bytes
 *
 * 	For socket policies, apply the verdict of the eBPF program to
 * 	the next *bytes* (number of bytes) of message *msg*.
 *
 * 	For example, this helper can be used in the following cases:
 *
 * 	* A single **sendmsg**\ () or **sendfile**\ () system call
 * 	  contains multiple logical messages that the eBPF program is
 * 	  supposed to read and for which it should apply a verdict.
 * 	* An eBPF program only cares to read the first *bytes* of a
 * 	  *msg*. If the message has a large payload, then setting up
 * 	  and calling the eBPF program repeatedly for all bytes, even
 * 	  though the verdict is already known, would create unnecessary
 * 	  overhead.
 *
 * 	When called from within an eBPF program, the helper sets a
 * 	counter internal to the BPF infrastructure, that is used to
 * 	apply the last verdict to the next *bytes*. If *bytes* is
 * 	smaller than the current data being processed from a
 * 	**sendmsg**\ () or **sendfile**\ () system call, the first
 * 	*bytes* will be sent and the eBPF program will be re-run with
 * 	the pointer for start of data pointing to byte number *bytes*
 * 	**+ 1**. If *bytes* is larger than the current data being
 * 	processed, then the eBPF verdict will be applied to multiple
 * 	**sendmsg**\ () or **sendfile**\ () calls until *bytes* are
 * 	consumed.
 *
 * 	Note that if a socket closes with the internal counter holding
 * 	a non-zero value, this is not a problem because data is not
 * 	being buffered for *bytes* and is sent as it is received.
 *
 * Returns
 * 	0
 */
static long (*bpf_msg_apply_bytes)(struct sk_msg_md *msg, __u32 bytes) = (void *) 61;

/*
 * bpf_msg_cork_bytes
 *
 * 	For socket policies, prevent the execution of the verdict eBPF
 * 	program for message *msg* until *bytes* (byte number) have been
 * 	accumulated.
 *
 * 	This can be used when one needs a specific number of bytes
 * 	before a verdict can be assigned, even if the data spans
 * 	multiple **sendmsg**\ () or **sendfile**\ () calls. The extreme
 * 	case would be a user calling **sendmsg**\ () repeatedly with
 * 	1-byte long message segments. Obviously, this is bad for
 * 	performance, but it is still valid. If the eBPF program needs
 * 	*bytes* bytes to validate a header, this helper can be used to
 * 	prevent the eBPF program to be called again until *bytes* have
 * 	been accumulated.
 *
 * Returns
 * 	0
 */
static long (*bpf_msg_cork_bytes)(struct sk_msg_md *msg, __u32 bytes) = (void *) 62;

/*
 * bpf_msg_pull_data
 *
 * 	For socket policies, pull in non-linear data from user space
 * 	for *msg* and set pointers *msg*\ **->data** and *msg*\
 * 	**->data_end** to *start* and *end* bytes offsets into *msg*,
 * 	respectively.
 *
 * 	If a program of type **BPF_PROG_TYPE_SK_MSG** is run on a
 * 	*msg* it can only parse data that the (**data**, **data_end**)
 * 	pointers have already consumed. For **sendmsg**\ () hooks this
 * 	is likely the first scatterlist element. But for calls relying
 * 	on the **sendpage** handler (e.g. **sendfile**\ ()) this will
 * 	be the range (**0**, **0**) because the data is shared with
 * 	user space and by default the objective is to avoid allowing
 * 	user space to modify data while (or after) eBPF verdict is
 * 	being decided. This helper can be used to pull in data and to
 * 	set the start and end pointer to given values. Data will be
 * 	copied if necessary (i.e. if data was not linear and if start
 * 	and end pointers do not point to the same chunk).
 *
 * 	A call to this helper is susceptible to change the underlying
 * 	packet buffer. Therefore, at load time, all checks on pointers
 * 	previously done by the verifier are invalidated and must be
 * 	performed again, if the helper is used in combination with
 * 	direct packet access.
 *
 * 	All values for *flags* are reserved for future usage, and must
 * 	be left at zero.
 *
 * Returns
 * 	0 on success, or a negative error in case of failure.
 */
static long (*bpf_msg_pull_data)(struct sk_msg_md *msg, __u32 start, __u32 end, __u64 flags) = (void *) 63;

/*
 * bpf_bind
 *
 * 	Bind the socket associated to *ctx* to the address pointed by
 * 	*addr*, of length *addr_len*. This allows for making outgoing
 * 	connection from the desired IP address, which can be useful for
 * 	example when all processes inside a cgroup should use one
 * 	single IP address on a host that has multiple IP configured.
 *
 * 	This helper works for IPv4 and IPv6, TCP and UDP sockets. The
 * 	domain (*addr*\ **->sa_family**) must be **AF_INET** (or
 * 	**AF_INET6**). It's advised to pass zero port (**sin_port**
 * 	or **sin6_port**) which triggers IP_BIND_ADDRESS_NO_PORT-like
 * 	behavior and lets the kernel efficiently pick up an unused
 * 	port as long as 4-tuple is unique. Passing non-zero port might
 * 	lead to degraded performance.
 *
 * Returns
 * 	0 on success, or a negative error in case of failure.
 */
static long (*bpf_bind)(struct bpf_sock_addr *ctx, struct sockaddr *addr, int addr_len) = (void *) 64;

/*
 * bpf_xdp_adjust_tail
 *
 * 	Adjust (move) *xdp_md*\ **->data_end** by *delta* bytes. It is
 * 	possible to both shrink and grow the packet tail.
 * 	Shrink done via *delta* being a negative integer.
 *
 * 	A call to this helper is susceptible to change the underlying
 * 	packet buffer. Therefore, at load time, all checks on pointers
 * 	previously done by the verifier are invalidated and must be
 * 	performed again, if the helper is used in combination with
 * 	direct packet access.
 *
 * Returns
 * 	0 on success, or a negative error in case of failure.
 */
static long (*bpf_xdp_adjust_tail)(struct xdp_md *xdp_md, int delta) = (void *) 65;

/*
 * bpf_skb_get_xfrm_state
 *
 * 	Retrieve the XFRM state (IP transform framework, see also
 * 	**ip-xfrm(8)**) at *index* in XFRM "security path" for *skb*.
 *
 * 	The retrieved value is stored in the **struct bpf_xfrm_state**
 * 	pointed by *xfrm_state* and of length *size*.
 *
 * 	All values for *flags* are reserved for future usage, and must
 * 	be left at zero.
 *
 * 	This helper is available only if the kernel was compiled with
 * 	**CONFIG_XFRM** configuration option.
 *
 * Returns
 * 	0 on success, or a negative error in case of failure.
 */
static long (*bpf_skb_get_xfrm_state)(struct __sk_buff *skb, __u32 index, struct bpf_xfrm_state *xfrm_state, __u32 size, __u64 flags) = (void *) 66;

/*
 * bpf_get_stack
 *
 * 	Return a user or a kernel stack in bpf program provided buffer.
 * 	To achieve this, the helper needs *ctx*, which is a pointer
 * 	to the context on which the tracing program is executed.
 * 	To store the stacktrace, the bpf program provides *buf* with
 * 	a nonnegative *size*.
 *
 * 	The last argument, *flags*, holds the number of stack frames to
 * 	skip (from 0 to 255), masked with
 * 	**BPF_F_SKIP_FIELD_MASK**. The next bits can be used to set
 * 	the following flags:
 *
 * 	**BPF_F_USER_STACK**
 * 		Collect a user space stack instead of a kernel stack.
 * 	**BPF_F_USER_BUILD_ID**
 * 		Collect buildid+offset instead of ips for user stack,
 * 		only valid if **BPF_F_USER_STACK** is also specified.
 *
 * 	**bpf_get_stack**\ () can collect up to
 * 	**PERF_MAX_STACK_DEPTH** both kernel and user frames, subject
 * 	to sufficient large buffer size. Note that
 * 	this limit can be controlled with the **sysctl** program, and
 * 	that it should be manually increased in order to profile long
 * 	user stacks (such as stacks for Java programs). To do so, use:
 *
 * 	::
 *
 * 		# sysctl kernel.perf_event_max_stack=<new value>
 *
 * Returns
 * 	A non-negative value equal to or less than *size* on success,
 * 	or a negative error in case of failure.
 */
static long (*bpf_get_stack)(void *ctx, void *buf, __u32 size, __u64 flags) = (void *) 67;

/*
 * bpf_skb_load_bytes_relative
 *
 * 	This helper is similar to **bpf_skb_load_bytes**\ () in that
 * 	it provides an easy way to load *len* bytes from *offset*
 * 	from the packet associated to *skb*, into the buffer pointed
 * 	by *to*. The difference to **bpf_skb_load_bytes**\ () is that
 * 	a fifth argument *start_header* exists in order to select a
 * 	base offset to start from. *start_header* can be one of:
 *
 * 	**BPF_HDR_START_MAC**
 * 		Base offset to load data from is *skb*'s mac header.
 * 	**BPF_HDR_START_NET**
 * 		Base offset to load data from is *skb*'s network header.
 *
 * 	In general, "direct packet access" is the preferred method to
 * 	access packet data, however, this helper is in particular useful
 * 	in socket filters where *skb*\ **->data** does not always point
 * 	to the start of the mac header and where "direct packet access"
 * 	is not available.
 *
 * Returns
 * 	0 on success, or a negative error in case of failure.
 */
static long (*bpf_skb_load_bytes_relative)(const void *skb, __u32 offset, void *to, __u32 len, __u32 start_header) = (void *) 68;

/*
 * bpf_fib_lookup
 *
 * 	Do FIB lookup in kernel tables using parameters in *params*.
 * 	If lookup is successful and result shows packet is to be
 * 	forwarded, the neighbor tables are searched for the nexthop.
 * 	If successful (ie., FIB lookup shows forwarding and nexthop
 * 	is resolved), the nexthop address is returned in ipv4_dst
 * 	or ipv6_dst based on family, smac is set to mac address of
 * 	egress device, dmac is set to nexthop mac address, rt_metric
 * 	is set to metric from route (IPv4/IPv6 only), and ifindex
 * 	is set to the device index of the nexthop from the FIB lookup.
 *
 * 	*plen* argument is the size of the passed in struct.
 * 	*flags* argument can be a combination of one or more of the
 * 	following values:
 *
 * 	**BPF_FIB_LOOKUP_DIRECT**
 * 		Do a direct table lookup vs full lookup using FIB
 * 		rules.
 * 	**BPF_FIB_LOOKUP_OUTPUT**
 * 		Perform lookup from an egress perspective (default is
 * 		ingress).
 *
 * 	*ctx* is either **struct xdp_md** for XDP programs or
 * 	**struct sk_buff** tc cls_act programs.
 *
 * Returns
 * 	* < 0 if any input argument is invalid
 * 	*   0 on success (packet is forwarded, nexthop neighbor exists)
 * 	* > 0 one of **BPF_FIB_LKUP_RET_** codes explaining why the
 * 	  packet is not forwarded or needs assist from full stack
 *
 * 	If lookup fails with BPF_FIB_LKUP_RET_FRAG_NEEDED, then the MTU
 * 	was exceeded and output params->mtu_result contains the MTU.
 */
static long (*bpf_fib_lookup)(void *ctx, struct bpf_fib_lookup *params, int plen, __u32 flags) = (void *) 69;

/*
 * bpf_sock_hash_update
 *
 * 	Add an entry to, or update a sockhash *map* referencing sockets.
 * 	The *skops* is used as a new value for the entry associated to
 * 	*key*. *flags* is one of:
 *
 * 	**BPF_NOEXIST**
 * 		The entry for *key* must not exist in the map.
 * 	**BPF_EXIST**
 * 		The entry for *key* must already exist in the map.
 * 	**BPF_ANY**
 * 		No condition on the existence of the entry for *key*.
 *
 * 	If the *map* has eBPF programs (parser and verdict), those will
 * 	be inherited by the socket being added. If the socket is
 * 	already attached to eBPF programs, this results in an error.
 *
 * Returns
 * 	0 on success, or a negative error in case of failure.
 */
static long (*bpf_sock_hash_update)(struct bpf_sock_ops *skops, void *map, void *key, __u64 flags) = (void *) 70;

/*
 * bpf_msg_redirect_hash
 *
 * 	This helper is used in programs implementing policies at the
 * 	socket level. If the message *msg* is allowed to pass (i.e. if
 * 	the verdict eBPF program returns **SK_PASS**), redirect it to
 * 	the socket referenced by *map* (of type
 * 	**BPF_MAP_TYPE_SOCKHASH**) using hash *key*. Both ingress and
 * 	egress interfaces can be used for redirection. The
 * 	**BPF_F_INGRESS** value in *flags* is used to make the
 * 	distinction (ingress path is selected if the flag is present,
 * 	egress path otherwise). This is the only flag supported for now.
 *
 * Returns
 * 	**SK_PASS** on success, or **SK_DROP** on error.
 */
static long (*bpf_msg_redirect_hash)(struct sk_msg_md *msg, void *map, void *key, __u64 flags) = (void *) 71;

/*
 * bpf_sk_redirect_hash
 *
 * 	This helper is used in programs implementing policies at the
 * 	skb socket level. If the sk_buff *skb* is allowed to pass (i.e.
 * 	if the verdict eBPF program returns **SK_PASS**), redirect it
 * 	to the socket referenced by *map* (of type
 * 	**BPF_MAP_TYPE_SOCKHASH**) using hash *key*. Both ingress and
 * 	egress interfaces can be used for redirection. The
 * 	**BPF_F_INGRESS** value in *flags* is used to make the
 * 	distinction (ingress path is selected if the flag is present,
 * 	egress otherwise). This is the only flag supported for now.
 *
 * Returns
 * 	**SK_PASS** on success, or **SK_DROP** on error.
 */
static long (*bpf_sk_redirect_hash)(struct __sk_buff *skb, void *map, void *key, __u64 flags) = (void *) 72;

/*
 * bpf_lwt_push_encap
 *
 * 	Encapsulate the packet associated to *skb* within a Layer 3
 * 	protocol header. This header is provided in the buffer at
 * 	address *hdr*, with *len* its size in bytes. *type* indicates
 * 	the protocol of the header and can be one of:
 *
 * 	**BPF_LWT_ENCAP_SEG6**
 * 		IPv6 encapsulation with Segment Routing Header
 * 		(**struct ipv6_sr_hdr**). *hdr* only contains the SRH,
 * 		the IPv6 header is computed by the kernel.
 * 	**BPF_LWT_ENCAP_SEG6_INLINE**
 * 		Only works if *skb* contains an IPv6 packet. Insert a
 * 		Segment Routing Header (**struct ipv6_sr_hdr**) inside
 * 		the IPv6 header.
 * 	**BPF_LWT_ENCAP_IP**
 * 		IP encapsulation (GRE/GUE/IPIP/etc). The outer header
 * 		must be IPv4 or IPv6, followed by zero or more
 * 		additional headers, up to **LWT_BPF_MAX_HEADROOM**
 * 		total bytes in all prepended headers. Please note that
 * 		if **skb_is_gso**\ (*skb*) is true, no more than two
 * 		headers can be prepended, and the inner header, if
 * 		present, should be either GRE or UDP/GUE.
 *
 * 	**BPF_LWT_ENCAP_SEG6**\ \* types can be called by BPF programs
 * 	of type **BPF_PROG_TYPE_LWT_IN**; **BPF_LWT_ENCAP_IP** type can
 * 	be called by bpf programs of types **BPF_PROG_TYPE_LWT_IN** and
 * 	**BPF_PROG_TYPE_LWT_XMIT**.
 *
 * 	A call to this helper is susceptible to change the underlying
 * 	packet buffer. Therefore, at load time, all checks on pointers
 * 	previously done by the verifier are invalidated and must be
 * 	performed again, if the helper is used in combination with
 * 	direct packet access.
 *
 * Returns
 * 	0 on success, or a negative error in case of failure.
 */
static long (*bpf_lwt_push_encap)(struct __sk_buff *skb, __u32 type, void *hdr, __u32 len) = (void *) 73;

/*
 * bpf_lwt_seg6_store_bytes
 *
 * 	Store *len* bytes from address *from* into the packet
 * 	associated to *skb*, at *offset*. Only the flags, tag and TLVs
 * 	inside the outermost IPv6 Segment Routing Header can be
 * 	modified through this helper.
 *
 * 	A call to this helper is susceptible to change the underlying
 * 	packet buffer. Therefore, at load time, all checks on pointers
 * 	previously done by the verifier are invalidated and must be
 * 	performed again, if the helper is used in combination with
 * 	direct packet access.
 *
 * Returns
 * 	0 on success, or a negative error in case of failure.
 */
static long (*bpf_lwt_seg6_store_bytes)(struct __sk_buff *skb, __u32 offset, const void *from, __u32 len) = (void *) 74;

/*
 * bpf_lwt_seg6_adjust_srh
 *
 * 	Adjust the size allocated to TLVs in the outermost IPv6
 * 	Segment Routing Header contained in the packet associated to
 * 	*skb*, at position *offset* by *delta* bytes. Only offsets
 * 	after the segments are accepted. *delta* can be as well
 * 	positive (growing) as negative (shrinking).
 *
 * 	A call to this helper is susceptible to change the underlying
 * 	packet buffer. Therefore, at load time, all checks on pointers
 * 	previously done by the verifier are invalidated and must be
 * 	performed again, if the helper is used in combination with
 * 	direct packet access.
 *
 * Returns
 * 	0 on success, or a negative error in case of failure.
 */
static long (*bpf_lwt_seg6_adjust_srh)(struct __sk_buff *skb, __u32 offset, __s32 delta) = (void *) 75;

/*
 * bpf_lwt_seg6_action
 *
 * 	Apply an IPv6 Segment Routing action of type *action* to the
 * 	packet associated to *skb*. Each action takes a parameter
 * 	contained at address *param*, and of length *param_len* bytes.
 * 	*action* can be one of:
 *
 * 	**SEG6_LOCAL_ACTION_END_X**
 * 		End.X action: Endpoint with Layer-3 cross-connect.
 * 		Type of *param*: **struct in6_addr**.
 * 	**SEG6_LOCAL_ACTION_END_T**
 * 		End.T action: Endpoint with specific IPv6 table lookup.
 * 		Type of *param*: **int**.
 * 	**SEG6_LOCAL_ACTION_END_B6**
 * 		End.B6 action: Endpoint bound to an SRv6 policy.
 * 		Type of *param*: **struct ipv6_sr_hdr**.
 * 	**SEG6_LOCAL_ACTION_END_B6_ENCAP**
 * 		End.B6.Encap action: Endpoint bound to an SRv6
 * 		encapsulation policy.
 * 		Type of *param*: **struct ipv6_sr_hdr**.
 *
 * 	A call to this helper is susceptible to change the underlying
 * 	packet buffer. Therefore, at load time, all checks on pointers
 * 	previously done by the verifier are invalidated and must be
 * 	performed again, if the helper is used in combination with
 * 	direct packet access.
 *
 * Returns
 * 	0 on success, or a negative error in case of failure.
 */
static long (*bpf_lwt_seg6_action)(struct __sk_buff *skb, __u32 action, void *param, __u32 param_len) = (void *) 76;

/*
 * bpf_rc_repeat
 *
 * 	This helper is used in programs implementing IR decoding, to
 * 	report a successfully decoded repeat key message. This delays
 * 	the generation of a key up event for previously generated
 * 	key down event.
 *
 * 	Some IR protocols like NEC have a special IR message for
 * 	repeating last button, for when a button is held down.
 *
 * 	The *ctx* should point to the lirc sample as passed into
 * 	the program.
 *
 * 	This helper is only available is the kernel was compiled with
 * 	the **CONFIG_BPF_LIRC_MODE2** configuration option set to
 * 	"**y**".
 *
 * Returns
 * 	0
 */
static long (*bpf_rc_repeat)(void *ctx) = (void *) 77;

/*
 * bpf_rc_keydown
 *
 * 	This helper is used in programs implementing IR decoding, to
 * 	report a successfully decoded key press with *scancode*,
 * 	*toggle* value in the given *protocol*. The scancode will be
 * 	translated to a keycode using the rc keymap, and reported as
 * 	an input key down event. After a period a key up event is
 * 	generated. This period can be extended by calling either
 * 	**bpf_rc_keydown**\ () again with the same values, or calling
 * 	**bpf_rc_repeat**\ ().
 *
 * 	Some protocols include a toggle bit, in case the button was
 * 	released and pressed again between consecutive scancodes.
 *
 * 	The *ctx* should point to the lirc sample as passed into
 * 	the program.
 *
 * 	The *protocol* is the decoded protocol number (see
 * 	**enum rc_proto** for some predefined values).
 *
 * 	This helper is only available is the kernel was compiled with
 * 	the **CONFIG_BPF_LIRC_MODE2** configuration option set to
 * 	"**y**".
 *
 * Returns
 * 	0
 */
static long (*bpf_rc_keydown)(void *ctx, __u32 protocol, __u64 scancode, __u32 toggle) = (void *) 78;

/*
 * bpf_skb_cgroup_id
 *
 * 	Return the cgroup v2 id of the socket associated with the *skb*.
 * 	This is roughly similar to the **bpf_get_cgroup_classid**\ ()
 * 	helper for cgroup v1 by providing a tag resp. identifier that
 * 	can be matched on or used for map lookups e.g. to implement
 * 	policy. The cgroup v2 id of a given path in the hierarchy is
 * 	exposed in user space through the f_handle API in order to get
 * 	to the same 64-bit id.
 *
 * 	This helper can be used on TC egress path, but not on ingress,
 * 	and is available only if the kernel was compiled with the
 * 	**CONFIG_SOCK_CGROUP_DATA** configuration option.
 *
 * Returns
 * 	The id is returned or 0 in case the id could not be retrieved.
 */
static __u64 (*bpf_skb_cgroup_id)(struct __sk_buff *skb) = (void *) 79;

/*
 * bpf_get_current_cgroup_id
 *
 *
 * Returns
 * 	A 64-bit integer containing the current cgroup id based
 * 	on the cgroup within which the current task is running.
 */
static __u64 (*bpf_get_current_cgroup_id)(void) = (void *) 80;

/*
 * bpf_get_local_storage
 *
 * 	Get the pointer to the local storage area.
 * 	The type and the size of the local storage is defined
 * 	by the *map* argument.
 * 	The *flags* meaning is specific for each map type,
 * 	and has to be 0 for cgroup local storage.
 *
 * 	Depending on the BPF program type, a local storage area
 * 	can be shared between multiple instances of the BPF program,
 * 	running simultaneously.
 *
 * 	A user should care about the synchronization by himself.
 * 	For example, by using the **BPF_ATOMIC** instructions to alter
 * 	the shared data.
 *
 * Returns
 * 	A pointer to the local storage area.
 */
static void *(*bpf_get_local_storage)(void *map, __u64 flags) = (void *) 81;

/*
 * bpf_sk_select_reuseport
 *
 * 	Select a **SO_REUSEPORT** socket from a
 * 	**BPF_MAP_TYPE_REUSEPORT_SOCKARRAY** *map*.
 * 	It checks the selected socket is matching the incoming
 * 	request in the socket buffer.
 *
 * Returns
 * 	0 on success, or a negative error in case of failure.
 */
static long (*bpf_sk_select_reuseport)(struct sk_reuseport_md *reuse, void *map, void *key, __u64 flags) = (void *) 82;

/*
 * bpf_skb_ancestor_cgroup_id
 *
 * 	Return id of cgroup v2 that is ancestor of cgroup associated
 * 	with the *skb* at the *ancestor_level*.  The root cgroup is at
 * 	*ancestor_level* zero and each step down the hierarchy
 * 	increments the level. If *ancestor_level* == level of cgroup
 * 	associated with *skb*, then return value will be same as that
 * 	of **bpf_skb_cgroup_id**\ ().
 *
 * 	The helper is useful to implement policies based on cgroups
 * 	that are upper in hierarchy than immediate cgroup associated
 * 	with *skb*.
 *
 * 	The format of returned id and helper limitations are same as in
 * 	**bpf_skb_cgroup_id**\ ().
 *
 * Returns
 * 	The id is returned or 0 in case the id could not be retrieved.
 */
static __u64 (*bpf_skb_ancestor_cgroup_id)(struct __sk_buff *skb, int ancestor_level) = (void *) 83;

/*
 * bpf_sk_lookup_tcp
 *
 * 	Look for TCP socket matching *tuple*, optionally in a child
 * 	network namespace *netns*. The return value must be checked,
 * 	and if non-**NULL**, released via **bpf_sk_release**\ ().
 *
 * 	The *ctx* should point to the context of the program, such as
 * 	the skb or socket (depending on the hook in use). This is used
 * 	to determine the base network namespace for the lookup.
 *
 * 	*tuple_size* must be one of:
 *
 * 	**sizeof**\ (*tuple*\ **->ipv4**)
 * 		Look for an IPv4 socket.
 * 	**sizeof**\ (*tuple*\ **->ipv6**)
 * 		Look for an IPv6 socket.
 *
 * 	If the *netns* is a negative signed 32-bit integer, then the
 * 	socket lookup table in the netns associated with the *ctx*
 * 	will be used. For the TC hooks, this is the netns of the device
 * 	in the skb. For socket hooks, this is the netns of the socket.
 * 	If *netns* is any other signed 32-bit value greater than or
 * 	equal to zero then it specifies the ID of the netns relative to
 * 	the netns associated with the *ctx*. *netns* values beyond the
 * 	range of 32-bit integers are reserved for future use.
 *
 * 	All values for *flags* are reserved for future usage, and must
 * 	be left at zero.
 *
 * 	This helper is available only if the kernel was compiled with
 * 	**CONFIG_NET** configuration option.
 *
 * Returns
 * 	Pointer to **struct bpf_sock**, or **NULL** in case of failure.
 * 	For sockets with reuseport option, the **struct bpf_sock**
 * 	result is from *reuse*\ **->socks**\ [] using the hash of the
 * 	tuple.
 */
static struct bpf_sock *(*bpf_sk_lookup_tcp)(void *ctx, struct bpf_sock_tuple *tuple, __u32 tuple_size, __u64 netns, __u64 flags) = (void *) 84;

/*
 * bpf_sk_lookup_udp
 *
 * 	Look for UDP socket matching *tuple*, optionally in a child
 * 	network namespace *netns*. The return value must be checked,
 * 	and if non-**NULL**, released via **bpf_sk_release**\ ().
 *
 * 	The *ctx* should point to the context of the program, such as
 * 	the skb or socket (depending on the hook in use). This is used
 * 	to determine the base network namespace for the lookup.
 *
 * 	*tuple_size* must be one of:
 *
 * 	**sizeof**\ (*tuple*\ **->ipv4**)
 * 		Look for an IPv4 socket.
 * 	**sizeof**\ (*tuple*\ **->ipv6**)
 * 		Look for an IPv6 socket.
 *
 * 	If the *netns* is a negative signed 32-bit integer, then the
 * 	socket lookup table in the netns associated with the *ctx*
 * 	will be used. For the TC hooks, this is the netns of the device
 * 	in the skb. For socket hooks, this is the netns of the socket.
 * 	If *netns* is any other signed 32-bit value greater than or
 * 	equal to zero then it specifies the ID of the netns relative to
 * 	the netns associated with the *ctx*. *netns* values beyond the
 * 	range of 32-bit integers are reserved for future use.
 *
 * 	All values for *flags* are reserved for future usage, and must
 * 	be left at zero.
 *
 * 	This helper is available only if the kernel was compiled with
 * 	**CONFIG_NET** configuration option.
 *
 * Returns
 * 	Pointer to **struct bpf_sock**, or **NULL** in case of failure.
 * 	For sockets with reuseport option, the **struct bpf_sock**
 * 	result is from *reuse*\ **->socks**\ [] using the hash of the
 * 	tuple.
 */
static struct bpf_sock *(*bpf_sk_lookup_udp)(void *ctx, struct bpf_sock_tuple *tuple, __u32 tuple_size, __u64 netns, __u64 flags) = (void *) 85;

/*
 * bpf_sk_release
 *
 * 	Release the reference held by *sock*. *sock* must be a
 * 	non-**NULL** pointer that was returned from
 * 	**bpf_sk_lookup_xxx**\ ().
 *
 * Returns
 * 	0 on success, or a negative error in case of failure.
 */
static long (*bpf_sk_release)(void *sock) = (void *) 86;

/*
 * bpf_map_push_elem
 *
 * 	Push an element *value* in *map*. *flags* is one of:
 *
 * 	**BPF_EXIST**
 * 		If the queue/stack is full, the oldest element is
 * 		removed to make room for this.
 *
 * Returns
 * 	0 on success, or a negative error in case of failure.
 */
static long (*bpf_map_push_elem)(void *map, const void *value, __u64 flags) = (void *) 87;

/*
 * bpf_map_pop_elem
 *
 * 	Pop an element from *map*.
 *
 * Returns
 * 	0 on success, or a negative error in case of failure.
 */
static long (*bpf_map_pop_elem)(void *map, void *value) = (void *) 88;

/*
 * bpf_map_peek_elem
 *
 * 	Get an element from *map* without removing it.
 *
 * Returns
 * 	0 on success, or a negative error in case of failure.
 */
static long (*bpf_map_peek_elem)(void *map, void *value) = (void *) 89;

/*
 * bpf_msg_push_data
 *
 * 	For socket policies, insert *len* bytes into *msg* at offset
 * 	*start*.
 *
 * 	If a program of type **BPF_PROG_TYPE_SK_MSG** is run on a
 * 	*msg* it may want to insert metadata or options into the *msg*.
 * 	This can later be read and used by any of the lower layer BPF
 * 	hooks.
 *
 * 	This helper may fail if under memory pressure (a malloc
 * 	fails) in these cases BPF programs will get an appropriate
 * 	error and BPF programs will need to handle them.
 *
 * Returns
 * 	0 on success, or a negative error in case of failure.
 */
static long (*bpf_msg_push_data)(struct sk_msg_md *msg, __u32 start, __u32 len, __u64 flags) = (void *) 90;

/*
 * bpf_msg_pop_data
 *
 * 	Will remove *len* bytes from a *msg* starting at byte *start*.
 * 	This may result in **ENOMEM** errors under certain situations if
 * 	an allocation and copy are required due to a full ring buffer.
 * 	However, the helper will try to avoid doing the allocation
 * 	if possible. Other errors can occur if input parameters are
 * 	invalid either due to *start* byte not being valid part of *msg*
 * 	payload and/or *pop* value being to large.
 *
 * Returns
 * 	0 on success, or a negative error in case of failure.
 */
static long (*bpf_msg_pop_data)(struct sk_msg_md *msg, __u32 start, __u32 len, __u64 flags) = (void *) 91;

/*
 * bpf_rc_pointer_rel
 *
 * 	This helper is used in programs implementing IR decoding, to
 * 	report a successfully decoded pointer movement.
 *
 * 	The *ctx* should point to the lirc sample as passed into
 * 	the program.
 *
 * 	This helper is only available is the kernel was compiled with
 * 	the **CONFIG_BPF_LIRC_MODE2** configuration option set to
 * 	"**y**".
 *
 * Returns
 * 	0
 */
static long (*bpf_rc_pointer_rel)(void *ctx, __s32 rel_x, __s32 rel_y) = (void *) 92;

/*
 * bpf_spin_lock
 *
 * 	Acquire a spinlock represented by the pointer *lock*, which is
 * 	stored as part of a value of a map. Taking the lock allows to
 * 	safely update the rest of the fields in that value. The
 * 	spinlock can (and must) later be released with a call to
 * 	**bpf_spin_unlock**\ (\ *lock*\ ).
 *
 * 	Spinlocks in BPF programs come with a number of restrictions
 * 	and constraints:
 *
 * 	* **bpf_spin_lock** objects are only allowed inside maps of
 * 	  types **BPF_MAP_TYPE_HASH** and **BPF_MAP_TYPE_ARRAY** (this
 * 	  list could be extended in the future).
 * 	* BTF description of the map is mandatory.
 * 	* The BPF program can take ONE lock at a time, since taking two
 * 	  or more could cause dead locks.
 * 	* Only one **struct bpf_spin_lock** is allowed per map element.
 * 	* When the lock is taken, calls (either BPF to BPF or helpers)
 * 	  are not allowed.
 * 	* The **BPF_LD_ABS** and **BPF_LD_IND** instructions are not
 * 	  allowed inside a spinlock-ed region.
 * 	* The BPF program MUST call **bpf_spin_unlock**\ () to release
 * 	  the lock, on all execution paths, before it returns.
 * 	* The BPF program can access **struct bpf_spin_lock** only via
 * 	  the **bpf_spin_lock**\ () and **bpf_spin_unlock**\ ()
 * 	  helpers. Loading or storing data into the **struct
 * 	  bpf_spin_lock** *lock*\ **;** field of a map is not allowed.
 * 	* To use the **bpf_spin_lock**\ () helper, the BTF description
 * 	  of the map value must be a struct and have **struct
 * 	  bpf_spin_lock** *anyname*\ **;** field at the top level.
 * 	  Nested lock inside another struct is not allowed.
 * 	* The **struct bpf_spin_lock** *lock* field in a map value must
 * 	  be aligned on a multiple of 4 bytes in that value.
 * 	* Syscall with command **BPF_MAP_LOOKUP_ELEM** does not copy
 * 	  the **bpf_spin_lock** field to user space.
 * 	* Syscall with command **BPF_MAP_UPDATE_ELEM**, or update from
 * 	  a BPF program, do not update the **bpf_spin_lock** field.
 * 	* **bpf_spin_lock** cannot be on the stack or inside a
 * 	  networking packet (it can only be inside of a map values).
 * 	* **bpf_spin_lock** is available to root only.
 * 	* Tracing programs and socket filter programs cannot use
 * 	  **bpf_spin_lock**\ () due to insufficient preemption checks
 * 	  (but this may change in the future).
 * 	* **bpf_spin_lock** is not allowed in inner maps of map-in-map.
 *
 * Returns
 * 	0
 */
static long (*bpf_spin_lock)(struct bpf_spin_lock *lock) = (void *) 93;

/*
 * bpf_spin_unlock
 *
 * 	Release the *lock* previously locked by a call to
 * 	**bpf_spin_lock**\ (\ *lock*\ ).
 *
 * Returns
 * 	0
 */
static long (*bpf_spin_unlock)(struct bpf_spin_lock *lock) = (void *) 94;

/*
 * bpf_sk_fullsock
 *
 * 	This helper gets a **struct bpf_sock** pointer such
 * 	that all the fields in this **bpf_sock** can be accessed.
 *
 * Returns
 * 	A **struct bpf_sock** pointer on success, or **NULL** in
 * 	case of failure.
 */
static struct bpf_sock *(*bpf_sk_fullsock)(struct bpf_sock *sk) = (void *) 95;

/*
 * bpf_tcp_sock
 *
 * 	This helper gets a **struct bpf_tcp_sock** pointer from a
 * 	**struct bpf_sock** pointer.
 *
 * Returns
 * 	A **struct bpf_tcp_sock** pointer on success, or **NULL** in
 * 	case of failure.
 */
static struct bpf_tcp_sock *(*bpf_tcp_sock)(struct bpf_sock *sk) = (void *) 96;

/*
 * bpf_skb_ecn_set_ce
 *
 * 	Set ECN (Explicit Congestion Notification) field of IP header
 * 	to **CE** (Congestion Encountered) if current value is **ECT**
 * 	(ECN Capable Transport). Otherwise, do nothing. Works with IPv6
 * 	and IPv4.
 *
 * Returns
 * 	1 if the **CE** flag is set (either by the current helper call
 * 	or because it was already present), 0 if it is not set.
 */
static long (*bpf_skb_ecn_set_ce)(struct __sk_buff *skb) = (void *) 97;

/*
 * bpf_get_listener_sock
 *
 * 	Return a **struct bpf_sock** pointer in **TCP_LISTEN** state.
 * 	**bpf_sk_release**\ () is unnecessary and not allowed.
 *
 * Returns
 * 	A **struct bpf_sock** pointer on success, or **NULL** in
 * 	case of failure.
 */
static struct bpf_sock *(*bpf_get_listener_sock)(struct bpf_sock *sk) = (void *) 98;

/*
 * bpf_skc_lookup_tcp
 *
 * 	Look for TCP socket matching *tuple*, optionally in a child
 * 	network namespace *netns*. The return value must be checked,
 * 	and if non-**NULL**, released via **bpf_sk_release**\ ().
 *
 * 	This function is identical to **bpf_sk_lookup_tcp**\ (), except
 * 	that it also returns timewait or request sockets. Use
 * 	**bpf_sk_fullsock**\ () or **bpf_tcp_sock**\ () to access the
 * 	full structure.
 *
 * 	This helper is available only if the kernel was compiled with
 * 	**CONFIG_NET** configuration option.
 *
 * Returns
 * 	Pointer to **struct bpf_sock**, or **NULL** in case of failure.
 * 	For sockets with reuseport option, the **struct bpf_sock**
 * 	result is from *reuse*\ **->socks**\ [] using the hash of the
 * 	tuple.
 */
static struct bpf_sock *(*bpf_skc_lookup_tcp)(void *ctx, struct bpf_sock_tuple *tuple, __u32 tuple_size, __u64 netns, __u64 flags) = (void *) 99;

/*
 * bpf_tcp_check_syncookie
 *
 * 	Check whether *iph* and *th* contain a valid SYN cookie ACK for
 * 	the listening socket in *sk*.
 *
 * 	*iph* points to the start of the IPv4 or IPv6 header, while
 * 	*iph_len* contains **sizeof**\ (**struct iphdr**) or
 * 	**sizeof**\ (**struct ip6hdr**).
 *
 * 	*th* points to the start of the TCP header, while *th_len*
 * 	contains **sizeof**\ (**struct tcphdr**).
 *
 * Returns
 * 	0 if *iph* and *th* are a valid SYN cookie ACK, or a negative
 * 	error otherwise.
 */
static long (*bpf_tcp_check_syncookie)(void *sk, void *iph, __u32 iph_len, struct tcphdr *th, __u32 th_len) = (void *) 100;

/*
 * bpf_sysctl_get_name
 *
 * 	Get name of sysctl in /proc/sys/ and copy it into provided by
 * 	program buffer *buf* of size *buf_len*.
 *
 * 	The buffer is always NUL terminated, unless it's zero-sized.
 *
 * 	If *flags* is zero, full name (e.g. "net/ipv4/tcp_mem") is
 * 	copied. Use **BPF_F_SYSCTL_BASE_NAME** flag to copy base name
 * 	only (e.g. "tcp_mem").
 *
 * Returns
 * 	Number of character copied (not including the trailing NUL).
 *
 * 	**-E2BIG** if the buffer wasn't big enough (*buf* will contain
 * 	truncated name in this case).
 */
static long (*bpf_sysctl_get_name)(struct bpf_sysctl *ctx, char *buf, unsigned long buf_len, __u64 flags) = (void *) 101;

/*
 * bpf_sysctl_get_current_value
 *
 * 	Get current value of sysctl as it is presented in /proc/sys
 * 	(incl. newline, etc), and copy it as a string into provided
 * 	by program buffer *buf* of size *buf_len*.
 *
 * 	The whole value is copied, no matter what file position user
 * 	space issued e.g. sys_read at.
 *
 * 	The buffer is always NUL terminated, unless it's zero-sized.
 *
 * Returns
 * 	Number of character copied (not including the trailing NUL).
 *
 * 	**-E2BIG** if the buffer wasn't big enough (*buf* will contain
 * 	truncated name in this case).
 *
 * 	**-EINVAL** if current value was unavailable, e.g. because
 * 	sysctl is uninitialized and read returns -EIO for it.
 */
static long (*bpf_sysctl_get_current_value)(struct bpf_sysctl *ctx, char *buf, unsigned long buf_len) = (void *) 102;

/*
 * bpf_sysctl_get_new_value
 *
 * 	Get new value being written by user space to sysctl (before
 * 	the actual write happens) and copy it as a string into
 * 	provided by program buffer *buf* of size *buf_len*.
 *
 * 	User space may write new value at file position > 0.
 *
 * 	The buffer is always NUL terminated, unless it's zero-sized.
 *
 * Returns
 * 	Number of character copied (not including the trailing NUL).
 *
 * 	**-E2BIG** if the buffer wasn't big enough (*buf* will contain
 * 	truncated name in this case).
 *
 * 	**-EINVAL** if sysctl is being read.
 */
static long (*bpf_sysctl_get_new_value)(struct bpf_sysctl *ctx, char *buf, unsigned long buf_len) = (void *) 103;

/*
 * bpf_sysctl_set_new_value
 *
 * 	Override new value being written by user space to sysctl with
 * 	value provided by program in buffer *buf* of size *buf_len*.
 *
 * 	*buf* should contain a string in same form as provided by user
 * 	space on sysctl write.
 *
 * 	User space may write new value at file position > 0. To override
 * 	the whole sysctl value file position should be set to zero.
 *
 * Returns
 * 	0 on success.
 *
 * 	**-E2BIG** if the *buf_len* is too big.
 *
 * 	**-EINVAL** if sysctl is being read.
 */
static long (*bpf_sysctl_set_new_value)(struct bpf_sysctl *ctx, const char *buf, unsigned long buf_len) = (void *) 104;

/*
 * bpf_strtol
 *
 * 	Convert the initial part of the string from buffer *buf* of
 * 	size *buf_len* to a long integer according to the given base
 * 	and save the result in *res*.
 *
 * 	The string may begin with an arbitrary amount of white space
 * 	(as determined by **isspace**\ (3)) followed by a single
 * 	optional '**-**' sign.
 *
 * 	Five least significant bits of *flags* encode base, other bits
 * 	are currently unused.
 *
 * 	Base must be either 8, 10, 16 or 0 to detect it automatically
 * 	similar to user space **strtol**\ (3).
 *
 * Returns
 * 	Number of characters consumed on success. Must be positive but
 * 	no more than *buf_len*.
 *
 * 	**-EINVAL** if no valid digits were found or unsupported base
 * 	was provided.
 *
 * 	**-ERANGE** if resulting value was out of range.
 */
static long (*bpf_strtol)(const char *buf, unsigned long buf_len, __u64 flags, long *res) = (void *) 105;

/*
 * bpf_strtoul
 *
 * 	Convert the initial part of the string from buffer *buf* of
 * 	size *buf_len* to an unsigned long integer according to the
 * 	given base and save the result in *res*.
 *
 * 	The string may begin with an arbitrary amount of white space
 * 	(as determined by **isspace**\ (3)).
 *
 * 	Five least significant bits of *flags* encode base, other bits
 * 	are currently unused.
 *
 * 	Base must be either 8, 10, 16 or 0 to detect it automatically
 * 	similar to user space **strtoul**\ (3).
 *
 * Returns
 * 	Number of characters consumed on success. Must be positive but
 * 	no more than *buf_len*.
 *
 * 	**-EINVAL** if no valid digits were found or unsupported base
 * 	was provided.
 *
 * 	**-ERANGE** if resulting value was out of range.
 */
static long (*bpf_strtoul)(const char *buf, unsigned long buf_len, __u64 flags, unsigned long *res) = (void *) 106;

/*
 * bpf_sk_storage_get
 *
 * 	Get a bpf-local-storage from a *sk*.
 *
 * 	Logically, it could be thought of getting the value from
 * 	a *map* with *sk* as the **key**.  From this
 * 	perspective,  the usage is not much different from
 * 	**bpf_map_lookup_elem**\ (*map*, **&**\ *sk*) except this
 * 	helper enforces the key must be a full socket and the map must
 * 	be a **BPF_MAP_TYPE_SK_STORAGE** also.
 *
 * 	Underneath, the value is stored locally at *sk* instead of
 * 	the *map*.  The *map* is used as the bpf-local-storage
 * 	"type". The bpf-local-storage "type" (i.e. the *map*) is
 * 	searched against all bpf-local-storages residing at *sk*.
 *
 * 	*sk* is a kernel **struct sock** pointer for LSM program.
 * 	*sk* is a **struct bpf_sock** pointer for other program types.
 *
 * 	An optional *flags* (**BPF_SK_STORAGE_GET_F_CREATE**) can be
 * 	used such that a new bpf-local-storage will be
 * 	created if one does not exist.  *value* can be used
 * 	together with **BPF_SK_STORAGE_GET_F_CREATE** to specify
 * 	the initial value of a bpf-local-storage.  If *value* is
 * 	**NULL**, the new bpf-local-storage will be zero initialized.
 *
 * Returns
 * 	A bpf-local-storage pointer is returned on success.
 *
 * 	**NULL** if not found or there was an error in adding
 * 	a new bpf-local-storage.
 */
static void *(*bpf_sk_storage_get)(void *map, void *sk, void *value, __u64 flags) = (void *) 107;

/*
 * bpf_sk_storage_delete
 *
 * 	Delete a bpf-local-storage from a *sk*.
 *
 * Returns
 * 	0 on success.
 *
 * 	**-ENOENT** if the bpf-local-storage cannot be found.
 * 	**-EINVAL** if sk is not a fullsock (e.g. a request_sock).
 */
static long (*bpf_sk_storage_delete)(void *map, void *sk) = (void *) 108;

/*
 * bpf_send_signal
 *
 * 	Send signal *sig* to the process of the current task.
 * 	The signal may be delivered to any of this process's threads.
 *
 * Returns
 * 	0 on success or successfully queued.
 *
 * 	**-EBUSY** if work queue under nmi is full.
 *
 * 	**-EINVAL** if *sig* is invalid.
 *
 * 	**-EPERM** if no permission to send the *sig*.
 *
 * 	**-EAGAIN** if bpf program can try again.
 */
static long (*bpf_send_signal)(__u32 sig) = (void *) 109;

/*
 * bpf_tcp_gen_syncookie
 *
 * 	Try to issue a SYN cookie for the packet with corresponding
 * 	IP/TCP headers, *iph* and *th*, on the listening socket in *sk*.
 *
 * 	*iph* points to the start of the IPv4 or IPv6 header, while
 * 	*iph_len* contains **sizeof**\ (**struct iphdr**) or
 * 	**sizeof**\ (**struct ip6hdr**).
 *
 * 	*th* points to the start of the TCP header, while *th_len*
 * 	contains the length of the TCP header.
 *
 * Returns
 * 	On success, lower 32 bits hold the generated SYN cookie in
 * 	followed by 16 bits which hold the MSS value for that cookie,
 * 	and the top 16 bits are unused.
 *
 * 	On failure, the returned value is one of the following:
 *
 * 	**-EINVAL** SYN cookie cannot be issued due to error
 *
 * 	**-ENOENT** SYN cookie should not be issued (no SYN flood)
 *
 * 	**-EOPNOTSUPP** kernel configuration does not enable SYN cookies
 *
 * 	**-EPROTONOSUPPORT** IP packet version is not 4 or 6
 */
static __s64 (*bpf_tcp_gen_syncookie)(void *sk, void *iph, __u32 iph_len, struct tcphdr *th, __u32 th_len) = (void *) 110;

/*
 * bpf_skb_output
 *
 * 	Write raw *data* blob into a special BPF perf event held by
 * 	*map* of type **BPF_MAP_TYPE_PERF_EVENT_ARRAY**. This perf
 * 	event must have the following attributes: **PERF_SAMPLE_RAW**
 * 	as **sample_type**, **PERF_TYPE_SOFTWARE** as **type**, and
 * 	**PERF_COUNT_SW_BPF_OUTPUT** as **config**.
 *
 * 	The *flags* are used to indicate the index in *map* for which
 * 	the value must be put, masked with **BPF_F_INDEX_MASK**.
 * 	Alternatively, *flags* can be set to **BPF_F_CURRENT_CPU**
 * 	to indicate that the index of the current CPU core should be
 * 	used.
 *
 * 	The value to write, of *size*, is passed through eBPF stack and
 * 	pointed by *data*.
 *
 * 	*ctx* is a pointer to in-kernel struct sk_buff.
 *
 * 	This helper is similar to **bpf_perf_event_output**\ () but
 * 	restricted to raw_tracepoint bpf programs.
 *
 * Returns
 * 	0 on success, or a negative error in case of failure.
 */
static long (*bpf_skb_output)(void *ctx, void *map, __u64 flags, void *data, __u64 size) = (void *) 111;

/*
 * bpf_probe_read_user
 *
 * 	Safely attempt to read *size* bytes from user space address
 * 	*unsafe_ptr* and store the data in *dst*.
 *
 * Returns
 * 	0 on success, or a negative error in case of failure.
 */
static long (*bpf_probe_read_user)(void *dst, __u32 size, const void *unsafe_ptr) = (void *) 112;

/*
 * bpf_probe_read_kernel
 *
 * 	Safely attempt to read *size* bytes from kernel space address
 * 	*unsafe_ptr* and store the data in *dst*.
 *
 * Returns
 * 	0 on success, or a negative error in case of failure.
 */
static long (*bpf_probe_read_kernel)(void *dst, __u32 size, const void *unsafe_ptr) = (void *) 113;

/*
 * bpf_probe_read_user_str
 *
 * 	Copy a NUL terminated string from an unsafe user address
 * 	*unsafe_ptr* to *dst*. The *size* should include the
 * 	terminating NUL byte. In case the string length is smaller than
 * 	*size*, the target is not padded with further NUL bytes. If the
 * 	string length is larger than *size*, just *size*-1 bytes are
 * 	copied and the last byte is set to NUL.
 *
 * 	On success, returns the number of bytes that were written,
 * 	including the terminal NUL. This makes this helper useful in
 * 	tracing programs for reading strings, and more importantly to
 * 	get its length at runtime. See the following snippet:
 *
 * 	::
 *
 * 		SEC("kprobe/sys_open")
 * 		void bpf_sys_open(struct pt_regs *ctx)
 * 		{
 * 		        char buf[PATHLEN]; // PATHLEN is defined to 256
 * 		        int res = bpf_probe_read_user_str(buf, sizeof(buf),
 * 			                                  ctx->di);
 *
 * 			// Consume buf, for example push it to
 * 			// userspace via bpf_perf_event_output(); we
 * 			// can use res (the string length) as event
 * 			// size, after checking its boundaries.
 * 		}
 *
 * 	In comparison, using **bpf_probe_read_user**\ () helper here
 * 	instead to read the string would require to estimate the length
 * 	at compile time, and would often result in copying more memory
 * 	than necessary.
 *
 * 	Another useful use case is when parsing individual process
 * 	arguments or individual environment variables navigating
 * 	*current*\ **->mm->arg_start** and *current*\
 * 	**->mm->env_start**: using this helper and the return value,
 * 	one can quickly iterate at the right offset of the memory area.
 *
 * Returns
 * 	On success, the strictly positive length of the output string,
 * 	including the trailing NUL character. On error, a negative
 * 	value.
 */
static long (*bpf_probe_read_user_str)(void *dst, __u32 size, const void *unsafe_ptr) = (void *) 114;

/*
 * bpf_probe_read_kernel_str
 *
 * 	Copy a NUL terminated string from an unsafe kernel address *unsafe_ptr*
 * 	to *dst*. Same semantics as with **bpf_probe_read_user_str**\ () apply.
 *
 * Returns
 * 	On success, the strictly positive length of the string, including
 * 	the trailing NUL character. On error, a negative value.
 */
static long (*bpf_probe_read_kernel_str)(void *dst, __u32 size, const void *unsafe_ptr) = (void *) 115;

/*
 * bpf_tcp_send_ack
 *
 * 	Send out a tcp-ack. *tp* is the in-kernel struct **tcp_sock**.
 * 	*rcv_nxt* is the ack_seq to be sent out.
 *
 * Returns
 * 	0 on success, or a negative error in case of failure.
 */
static long (*bpf_tcp_send_ack)(void *tp, __u32 rcv_nxt) = (void *) 116;

/*
 * bpf_send_signal_thread
 *
 * 	Send signal *sig* to the thread corresponding to the current task.
 *
 * Returns
 * 	0 on success or successfully queued.
 *
 * 	**-EBUSY** if work queue under nmi is full.
 *
 * 	**-EINVAL** if *sig* is invalid.
 *
 * 	**-EPERM** if no permission to send the *sig*.
 *
 * 	**-EAGAIN** if bpf program can try again.
 */
static long (*bpf_send_signal_thread)(__u32 sig) = (void *) 117;

/*
 * bpf_jiffies64
 *
 * 	Obtain the 64bit jiffies
 *
 * Returns
 * 	The 64 bit jiffies
 */
static __u64 (*bpf_jiffies64)(void) = (void *) 118;

/*
 * bpf_read_branch_records
 *
 * 	For an eBPF program attached to a perf event, retrieve the
 * 	branch records (**struct perf_branch_entry**) associated to *ctx*
 * 	and store it in the buffer pointed by *buf* up to size
 * 	*size* bytes.
 *
 * Returns
 * 	On success, number of bytes written to *buf*. On error, a
 * 	negative value.
 *
 * 	The *flags* can be set to **BPF_F_GET_BRANCH_RECORDS_SIZE** to
 * 	instead return the number of bytes required to store all the
 * 	branch entries. If this flag is set, *buf* may be NULL.
 *
 * 	**-EINVAL** if arguments invalid or **size** not a multiple
 * 	of **sizeof**\ (**struct perf_branch_entry**\ ).
 *
 * 	**-ENOENT** if architecture does not support branch records.
 */
static long (*bpf_read_branch_records)(struct bpf_perf_event_data *ctx, void *buf, __u32 size, __u64 flags) = (void *) 119;

/*
 * bpf_get_ns_current_pid_tgid
 *
 * 	Returns 0 on success, values for *pid* and *tgid* as seen from the current
 * 	*namespace* will be returned in *nsdata*.
 *
 * Returns
 * 	0 on success, or one of the following in case of failure:
 *
 * 	**-EINVAL** if dev and inum supplied don't match dev_t and inode number
 * 	with nsfs of current task, or if dev conversion to dev_t lost high bits.
 *
 * 	**-ENOENT** if pidns does not exists for the current task.
 */
static long (*bpf_get_ns_current_pid_tgid)(__u64 dev, __u64 ino, struct bpf_pidns_info *nsdata, __u32 size) = (void *) 120;

/*
 * bpf_xdp_output
 *
 * 	Write raw *data* blob into a special BPF perf event held by
 * 	*map* of type **BPF_MAP_TYPE_PERF_EVENT_ARRAY**. This perf
 * 	event must have the following attributes: **PERF_SAMPLE_RAW**
 * 	as **sample_type**, **PERF_TYPE_SOFTWARE** as **type**, and
 * 	**PERF_COUNT_SW_BPF_OUTPUT** as **config**.
 *
 * 	The *flags* are used to indicate the index in *map* for which
 * 	the value must be put, masked with **BPF_F_INDEX_MASK**.
 * 	Alternatively, *flags* can be set to **BPF_F_CURRENT_CPU**
 * 	to indicate that the index of the current CPU core should be
 * 	used.
 *
 * 	The value to write, of *size*, is passed through eBPF stack and
 * 	pointed by *data*.
 *
 * 	*ctx* is a pointer to in-kernel struct xdp_buff.
 *
 * 	This helper is similar to **bpf_perf_eventoutput**\ () but
 * 	restricted to raw_tracepoint bpf programs.
 *
 * Returns
 * 	0 on success, or a negative error in case of failure.
 */
static long (*bpf_xdp_output)(void *ctx, void *map, __u64 flags, void *data, __u64 size) = (void *) 121;

/*
 * bpf_get_netns_cookie
 *
 * 	Retrieve the cookie (generated by the kernel) of the network
 * 	namespace the input *ctx* is associated with. The network
 * 	namespace cookie remains stable for its lifetime and provides
 * 	a global identifier that can be assumed unique. If *ctx* is
 * 	NULL, then the helper returns the cookie for the initial
 * 	network namespace. The cookie itself is very similar to that
 * 	of **bpf_get_socket_cookie**\ () helper, but for network
 * 	namespaces instead of sockets.
 *
 * Returns
 * 	A 8-byte long opaque number.
 */
static __u64 (*bpf_get_netns_cookie)(void *ctx) = (void *) 122;

/*
 * bpf_get_current_ancestor_cgroup_id
 *
 * 	Return id of cgroup v2 that is ancestor of the cgroup associated
 * 	with the current task at the *ancestor_level*. The root cgroup
 * 	is at *ancestor_level* zero and each step down the hierarchy
 * 	increments the level. If *ancestor_level* == level of cgroup
 * 	associated with the current task, then return value will be the
 * 	same as that of **bpf_get_current_cgroup_id**\ ().
 *
 * 	The helper is useful to implement policies based on cgroups
 * 	that are upper in hierarchy than immediate cgroup associated
 * 	with the current task.
 *
 * 	The format of returned id and helper limitations are same as in
 * 	**bpf_get_current_cgroup_id**\ ().
 *
 * Returns
 * 	The id is returned or 0 in case the id could not be retrieved.
 */
static __u64 (*bpf_get_current_ancestor_cgroup_id)(int ancestor_level) = (void *) 123;

/*
 * bpf_sk_assign
 *
 * 	Helper is overloaded depending on BPF program type. This
 * 	description applies to **BPF_PROG_TYPE_SCHED_CLS** and
 * 	**BPF_PROG_TYPE_SCHED_ACT** programs.
 *
 * 	Assign the *sk* to the *skb*. When combined with appropriate
 * 	routing configuration to receive the packet towards the socket,
 * 	will cause *skb* to be delivered to the specified socket.
 * 	Subsequent redirection of *skb* via  **bpf_redirect**\ (),
 * 	**bpf_clone_redirect**\ () or other methods outside of BPF may
 * 	interfere with successful delivery to the socket.
 *
 * 	This operation is only valid from TC ingress path.
 *
 * 	The *flags* argument must be zero.
 *
 * Returns
 * 	0 on success, or a negative error in case of failure:
 *
 * 	**-EINVAL** if specified *flags* are not supported.
 *
 * 	**-ENOENT** if the socket is unavailable for assignment.
 *
 * 	**-ENETUNREACH** if the socket is unreachable (wrong netns).
 *
 * 	**-EOPNOTSUPP** if the operation is not supported, for example
 * 	a call from outside of TC ingress.
 *
 * 	**-ESOCKTNOSUPPORT** if the socket type is not supported
 * 	(reuseport).
 */
static long (*bpf_sk_assign)(void *ctx, void *sk, __u64 flags) = (void *) 124;

/*
 * bpf_ktime_get_boot_ns
 *
 * 	Return the time elapsed since system boot, in nanoseconds.
 * 	Does include the time the system was suspended.
 * 	See: **clock_gettime**\ (**CLOCK_BOOTTIME**)
 *
 * Returns
 * 	Current *ktime*.
 */
static __u64 (*bpf_ktime_get_boot_ns)(void) = (void *) 125;

/*
 * bpf_seq_printf
 *
 * 	**bpf_seq_printf**\ () uses seq_file **seq_printf**\ () to print
 * 	out the format string.
 * 	The *m* represents the seq_file. The *fmt* and *fmt_size* are for
 * 	the format string itself. The *data* and *data_len* are format string
 * 	arguments. The *data* are a **u64** array and corresponding format string
 * 	values are stored in the array. For strings and pointers where pointees
 * 	are accessed, only the pointer values are stored in the *data* array.
 * 	The *data_len* is the size of *data* in bytes - must be a multiple of 8.
 *
 * 	Formats **%s**, **%p{i,I}{4,6}** requires to read kernel memory.
 * 	Reading kernel memory may fail due to either invalid address or
 * 	valid address but requiring a major memory fault. If reading kernel memory
 * 	fails, the string for **%s** will be an empty string, and the ip
 * 	address for **%p{i,I}{4,6}** will be 0. Not returning error to
 * 	bpf program is consistent with what **bpf_trace_printk**\ () does for now.
 *
 * Returns
 * 	0 on success, or a negative error in case of failure:
 *
 * 	**-EBUSY** if per-CPU memory copy buffer is busy, can try again
 * 	by returning 1 from bpf program.
 *
 * 	**-EINVAL** if arguments are invalid, or if *fmt* is invalid/unsupported.
 *
 * 	**-E2BIG** if *fmt* contains too many format specifiers.
 *
 * 	**-EOVERFLOW** if an overflow happened: The same object will be tried again.
 */
static long (*bpf_seq_printf)(struct seq_file *m, const char *fmt, __u32 fmt_size, const void *data, __u32 data_len) = (void *) 126;

/*
 * bpf_seq_write
 *
 * 	**bpf_seq_write**\ () uses seq_file **seq_write**\ () to write the data.
 * 	The *m* represents the seq_file. The *data* and *len* represent the
 * 	data to write in bytes.
 *
 * Returns
 * 	0 on success, or a negative error in case of failure:
 *
 * 	**-EOVERFLOW** if an overflow happened: The same object will be tried again.
 */
static long (*bpf_seq_write)(struct seq_file *m, const void *data, __u32 len) = (void *) 127;

/*
 * bpf_sk_cgroup_id
 *
 * 	Return the cgroup v2 id of the socket *sk*.
 *
 * 	*sk* must be a non-**NULL** pointer to a socket, e.g. one
 * 	returned from **bpf_sk_lookup_xxx**\ (),
 * 	**bpf_sk_fullsock**\ (), etc. The format of returned id is
 * 	same as in **bpf_skb_cgroup_id**\ ().
 *
 * 	This helper is available only if the kernel was compiled with
 * 	the **CONFIG_SOCK_CGROUP_DATA** configuration option.
 *
 * Returns
 * 	The id is returned or 0 in case the id could not be retrieved.
 */
static __u64 (*bpf_sk_cgroup_id)(void *sk) = (void *) 128;

/*
 * bpf_sk_ancestor_cgroup_id
 *
 * 	Return id of cgroup v2 that is ancestor of cgroup associated
 * 	with the *sk* at the *ancestor_level*.  The root cgroup is at
 * 	*ancestor_level* zero and each step down the hierarchy
 * 	increments the level. If *ancestor_level* == level of cgroup
 * 	associated with *sk*, then return value will be same as that
 * 	of **bpf_sk_cgroup_id**\ ().
 *
 * 	The helper is useful to implement policies based on cgroups
 * 	that are upper in hierarchy than immediate cgroup associated
 * 	with *sk*.
 *
 * 	The format of returned id and helper limitations are same as in
 * 	**bpf_sk_cgroup_id**\ ().
 *
 * Returns
 * 	The id is returned or 0 in case the id could not be retrieved.
 */
static __u64 (*bpf_sk_ancestor_cgroup_id)(void *sk, int ancestor_level) = (void *) 129;

/*
 * bpf_ringbuf_output
 *
 * 	Copy *size* bytes from *data* into a ring buffer *ringbuf*.
 * 	If **BPF_RB_NO_WAKEUP** is specified in *flags*, no notification
 * 	of new data availability is sent.
 * 	If **BPF_RB_FORCE_WAKEUP** is specified in *flags*, notification
 * 	of new data availability is sent unconditionally.
 * 	If **0** is specified in *flags*, an adaptive notification
 * 	of new data availability is sent.
 *
 * 	An adaptive notification is a notification sent whenever the user-space
 * 	process has caught up and consumed all available payloads. In case the user-space
 * 	process is still processing a previous payload, then no notification is needed
 * 	as it will process the newly added payload automatically.
 *
 * Returns
 * 	0 on success, or a negative error in case of failure.
 */
static long (*bpf_ringbuf_output)(void *ringbuf, void *data, __u64 size, __u64 flags) = (void *) 130;

/*
 * bpf_ringbuf_reserve
 *
 * 	Reserve *size* bytes of payload in a ring buffer *ringbuf*.
 * 	*flags* must be 0.
 *
 * Returns
 * 	Valid pointer with *size* bytes of memory available; NULL,
 * 	otherwise.
 */
static void *(*bpf_ringbuf_reserve)(void *ringbuf, __u64 size, __u64 flags) = (void *) 131;

/*
 * bpf_ringbuf_submit
 *
 * 	Submit reserved ring buffer sample, pointed to by *data*.
 * 	If **BPF_RB_NO_WAKEUP** is specified in *flags*, no notification
 * 	of new data availability is sent.
 * 	If **BPF_RB_FORCE_WAKEUP** is specified in *flags*, notification
 * 	of new data availability is sent unconditionally.
 * 	If **0** is specified in *flags*, an adaptive notification
 * 	of new data availability is sent.
 *
 * 	See 'bpf_ringbuf_output()' for the definition of adaptive notification.
 *
 * Returns
 * 	Nothing. Always succeeds.
 */
static void (*bpf_ringbuf_submit)(void *data, __u64 flags) = (void *) 132;

/*
 * bpf_ringbuf_discard
 *
 * 	Discard reserved ring buffer sample, pointed to by *data*.
 * 	If **BPF_RB_NO_WAKEUP** is specified in *flags*, no notification
 * 	of new data availability is sent.
 * 	If **BPF_RB_FORCE_WAKEUP** is specified in *flags*, notification
 * 	of new data availability is sent unconditionally.
 * 	If **0** is specified in *flags*, an adaptive notification
 * 	of new data availability is sent.
 *
 * 	See 'bpf_ringbuf_output()' for the definition of adaptive notification.
 *
 * Returns
 * 	Nothing. Always succeeds.
 */
static void (*bpf_ringbuf_discard)(void *data, __u64 flags) = (void *) 133;

/*
 * bpf_ringbuf_query
 *
 * 	Query various characteristics of provided ring buffer. What
 * 	exactly is queries is determined by *flags*:
 *
 * 	* **BPF_RB_AVAIL_DATA**: Amount of data not yet consumed.
 * 	* **BPF_RB_RING_SIZE**: The size of ring buffer.
 * 	* **BPF_RB_CONS_POS**: Consumer position (can wrap around).
 * 	* **BPF_RB_PROD_POS**: Producer(s) position (can wrap around).
 *
 * 	Data returned is just a momentary snapshot of actual values
 * 	and could be inaccurate, so this facility should be used to
 * 	power heuristics and for reporting, not to make 100% correct
 * 	calculation.
 *
 * Returns
 * 	Requested value, or 0, if *flags* are not recognized.
 */
static __u64 (*bpf_ringbuf_query)(void *ringbuf, __u64 flags) = (void *) 134;

/*
 * bpf_csum_level
 *
 * 	Change the skbs checksum level by one layer up or down, or
 * 	reset it entirely to none in order to have the stack perform
 * 	checksum validation. The level is applicable to the following
 * 	protocols: TCP, UDP, GRE, SCTP, FCOE. For example, a decap of
 * 	| ETH | IP | UDP | GUE | IP | TCP | into | ETH | IP | TCP |
 * 	through **bpf_skb_adjust_room**\ () helper with passing in
 * 	**BPF_F_ADJ_ROOM_NO_CSUM_RESET** flag would require one	call
 * 	to **bpf_csum_level**\ () with **BPF_CSUM_LEVEL_DEC** since
 * 	the UDP header is removed. Similarly, an encap of the latter
 * 	into the former could be accompanied by a helper call to
 * 	**bpf_csum_level**\ () with **BPF_CSUM_LEVEL_INC** if the
 * 	skb is still intended to be processed in higher layers of the
 * 	stack instead of just egressing at tc.
 *
 * 	There are three supported level settings at this time:
 *
 * 	* **BPF_CSUM_LEVEL_INC**: Increases skb->csum_level for skbs
 * 	  with CHECKSUM_UNNECESSARY.
 * 	* **BPF_CSUM_LEVEL_DEC**: Decreases skb->csum_level for skbs
 * 	  with CHECKSUM_UNNECESSARY.
 * 	* **BPF_CSUM_LEVEL_RESET**: Resets skb->csum_level to 0 and
 * 	  sets CHECKSUM_NONE to force checksum validation by the stack.
 * 	* **BPF_CSUM_LEVEL_QUERY**: No-op, returns the current
 * 	  skb->csum_level.
 *
 * Returns
 * 	0 on success, or a negative error in case of failure. In the
 * 	case of **BPF_CSUM_LEVEL_QUERY**, the current skb->csum_level
 * 	is returned or the error code -EACCES in case the skb is not
 * 	subject to CHECKSUM_UNNECESSARY.
 */
static long (*bpf_csum_level)(struct __sk_buff *skb, __u64 level) = (void *) 135;

/*
 * bpf_skc_to_tcp6_sock
 *
 * 	Dynamically cast a *sk* pointer to a *tcp6_sock* pointer.
 *
 * Returns
 * 	*sk* if casting is valid, or **NULL** otherwise.
 */
static struct tcp6_sock *(*bpf_skc_to_tcp6_sock)(void *sk) = (void *) 136;

/*
 * bpf_skc_to_tcp_sock
 *
 * 	Dynamically cast a *sk* pointer to a *tcp_sock* pointer.
 *
 * Returns
 * 	*sk* if casting is valid, or **NULL** otherwise.
 */
static struct tcp_sock *(*bpf_skc_to_tcp_sock)(void *sk) = (void *) 137;

/*
 * bpf_skc_to_tcp_timewait_sock
 *
 * 	Dynamically cast a *sk* pointer to a *tcp_timewait_sock* pointer.
 *
 * Returns
 * 	*sk* if casting is valid, or **NULL** otherwise.
 */
static struct tcp_timewait_sock *(*bpf_skc_to_tcp_timewait_sock)(void *sk) = (void *) 138;

/*
 * bpf_skc_to_tcp_request_sock
 *
 * 	Dynamically cast a *sk* pointer to a *tcp_request_sock* pointer.
 *
 * Returns
 * 	*sk* if casting is valid, or **NULL** otherwise.
 */
static struct tcp_request_sock *(*bpf_skc_to_tcp_request_sock)(void *sk) = (void *) 139;

/*
 * bpf_skc_to_udp6_sock
 *
 * 	Dynamically cast a *sk* pointer to a *udp6_sock* pointer.
 *
 * Returns
 * 	*sk* if casting is valid, or **NULL** otherwise.
 */
static struct udp6_sock *(*bpf_skc_to_udp6_sock)(void *sk) = (void *) 140;

/*
 * bpf_get_task_stack
 *
 * 	Return a user or a kernel stack in bpf program provided buffer.
 * 	To achieve this, the helper needs *task*, which is a valid
 * 	pointer to **struct task_struct**. To store the stacktrace, the
 * 	bpf program provides *buf* with a nonnegative *size*.
 *
 * 	The last argument, *flags*, holds the number of stack frames to
 * 	skip (from 0 to 255), masked with
 * 	**BPF_F_SKIP_FIELD_MASK**. The next bits can be used to set
 * 	the following flags:
 *
 * 	**BPF_F_USER_STACK**
 * 		Collect a user space stack instead of a kernel stack.
 * 	**BPF_F_USER_BUILD_ID**
 * 		Collect buildid+offset instead of ips for user stack,
 * 		only valid if **BPF_F_USER_STACK** is also specified.
 *
 * 	**bpf_get_task_stack**\ () can collect up to
 * 	**PERF_MAX_STACK_DEPTH** both kernel and user frames, subject
 * 	to sufficient large buffer size. Note that
 * 	this limit can be controlled with the **sysctl** program, and
 * 	that it should be manually increased in order to profile long
 * 	user stacks (such as stacks for Java programs). To do so, use:
 *
 * 	::
 *
 * 		# sysctl kernel.perf_event_max_stack=<new value>
 *
 * Returns
 * 	A non-negative value equal to or less than *size* on success,
 * 	or a negative error in case of failure.
 */
static long (*bpf_get_task_stack)(struct task_struct *task, void *buf, __u32 size, __u64 flags) = (void *) 141;

/*
 * bpf_load_hdr_opt
 *
 * 	Load header option.  Support reading a particular TCP header
 * 	option for bpf program (**BPF_PROG_TYPE_SOCK_OPS**).
 *
 * 	If *flags* is 0, it will search the option from the
 * 	*skops*\ **->skb_data**.  The comment in **struct bpf_sock_ops**
 * 	has details on what skb_data contains under different
 * 	*skops*\ **->op**.
 *
 * 	The first byte of the *searchby_res* specifies the
 * 	kind that it wants to search.
 *
 * 	If the searching kind is an experimental kind
 * 	(i.e. 253 or 254 according to RFC6994).  It also
 * 	needs to specify the "magic" which is either
 * 	2 bytes or 4 bytes.  It then also needs to
 * 	specify the size of the magic by using
 * 	the 2nd byte which is "kind-length" of a TCP
 * 	header option and the "kind-length" also
 * 	includes the first 2 bytes "kind" and "kind-length"
 * 	itself as a normal TCP header option also does.
 *
 * 	For example, to search experimental kind 254 with
 * 	2 byte magic 0xeB9F, the searchby_res should be
 * 	[ 254, 4, 0xeB, 0x9F, 0, 0, .... 0 ].
 *
 * 	To search for the standard window scale option (3),
 * 	the *searchby_res* should be [ 3, 0, 0, .... 0 ].
 * 	Note, kind-length must be 0 for regular option.
 *
 * 	Searching for No-Op (0) and End-of-Option-List (1) are
 * 	not supported.
 *
 * 	*len* must be at least 2 bytes which is the minimal size
 * 	of a header option.
 *
 * 	Supported flags:
 *
 * 	* **BPF_LOAD_HDR_OPT_TCP_SYN** to search from the
 * 	  saved_syn packet or the just-received syn packet.
 *
 *
 * Returns
 * 	> 0 when found, the header option is copied to *searchby_res*.
 * 	The return value is the total length copied. On failure, a
 * 	negative error code is returned:
 *
 * 	**-EINVAL** if a parameter is invalid.
 *
 * 	**-ENOMSG** if the option is not found.
 *
 * 	**-ENOENT** if no syn packet is available when
 * 	**BPF_LOAD_HDR_OPT_TCP_SYN** is used.
 *
 * 	**-ENOSPC** if there is not enough space.  Only *len* number of
 * 	bytes are copied.
 *
 * 	**-EFAULT** on failure to parse the header options in the
 * 	packet.
 *
 * 	**-EPERM** if the helper cannot be used under the current
 * 	*skops*\ **->op**.
 */
static long (*bpf_load_hdr_opt)(struct bpf_sock_ops *skops, void *searchby_res, __u32 len, __u64 flags) = (void *) 142;

/*
 * bpf_store_hdr_opt
 *
 * 	Store header option.  The data will be copied
 * 	from buffer *from* with length *len* to the TCP header.
 *
 * 	The buffer *from* should have the whole option that
 * 	includes the kind, kind-length, and the actual
 * 	option data.  The *len* must be at least kind-length
 * 	long.  The kind-length does not have to be 4 byte
 * 	aligned.  The kernel will take care of the padding
 * 	and setting the 4 bytes aligned value to th->doff.
 *
 * 	This helper will check for duplicated option
 * 	by searching the same option in the outgoing skb.
 *
 * 	This helper can only be called during
 * 	**BPF_SOCK_OPS_WRITE_HDR_OPT_CB**.
 *
 *
 * Returns
 * 	0 on success, or negative error in case of failure:
 *
 * 	**-EINVAL** If param is invalid.
 *
 * 	**-ENOSPC** if there is not enough space in the header.
 * 	Nothing has been written
 *
 * 	**-EEXIST** if the option already exists.
 *
 * 	**-EFAULT** on failrue to parse the existing header options.
 *
 * 	**-EPERM** if the helper cannot be used under the current
 * 	*skops*\ **->op**.
 */
static long (*bpf_store_hdr_opt)(struct bpf_sock_ops *skops, const void *from, __u32 len, __u64 flags) = (void *) 143;

/*
 * bpf_reserve_hdr_opt
 *
 * 	Reserve *len* bytes for the bpf header option.  The
 * 	space will be used by **bpf_store_hdr_opt**\ () later in
 * 	**BPF_SOCK_OPS_WRITE_HDR_OPT_CB**.
 *
 * 	If **bpf_reserve_hdr_opt**\ () is called multiple times,
 * 	the total number of bytes will be reserved.
 *
 * 	This helper can only be called during
 * 	**BPF_SOCK_OPS_HDR_OPT_LEN_CB**.
 *
 *
 * Returns
 * 	0 on success, or negative error in case of failure:
 *
 * 	**-EINVAL** if a parameter is invalid.
 *
 * 	**-ENOSPC** if there is not enough space in the header.
 *
 * 	**-EPERM** if the helper cannot be used under the current
 * 	*skops*\ **->op**.
 */
static long (*bpf_reserve_hdr_opt)(struct bpf_sock_ops *skops, __u32 len, __u64 flags) = (void *) 144;

/*
 * bpf_inode_storage_get
 *
 * 	Get a bpf_local_storage from an *inode*.
 *
 * 	Logically, it could be thought of as getting the value from
 * 	a *map* with *inode* as the **key**.  From this
 * 	perspective,  the usage is not much different from
 * 	**bpf_map_lookup_elem**\ (*map*, **&**\ *inode*) except this
 * 	helper enforces the key must be an inode and the map must also
 * 	be a **BPF_MAP_TYPE_INODE_STORAGE**.
 *
 * 	Underneath, the value is stored locally at *inode* instead of
 * 	the *map*.  The *map* is used as the bpf-local-storage
 * 	"type". The bpf-local-storage "type" (i.e. the *map*) is
 * 	searched against all bpf_local_storage residing at *inode*.
 *
 * 	An optional *flags* (**BPF_LOCAL_STORAGE_GET_F_CREATE**) can be
 * 	used such that a new bpf_local_storage will be
 * 	created if one does not exist.  *value* can be used
 * 	together with **BPF_LOCAL_STORAGE_GET_F_CREATE** to specify
 * 	the initial value of a bpf_local_storage.  If *value* is
 * 	**NULL**, the new bpf_local_storage will be zero initialized.
 *
 * Returns
 * 	A bpf_local_storage pointer is returned on success.
 *
 * 	**NULL** if not found or there was an error in adding
 * 	a new bpf_local_storage.
 */
static void *(*bpf_inode_storage_get)(void *map, void *inode, void *value, __u64 flags) = (void *) 145;

/*
 * bpf_inode_storage_delete
 *
 * 	Delete a bpf_local_storage from an *inode*.
 *
 * Returns
 * 	0 on success.
 *
 * 	**-ENOENT** if the bpf_local_storage cannot be found.
 */
static int (*bpf_inode_storage_delete)(void *map, void *inode) = (void *) 146;

/*
 * bpf_d_path
 *
 * 	Return full path for given **struct path** object, which
 * 	needs to be the kernel BTF *path* object. The path is
 * 	returned in the provided buffer *buf* of size *sz* and
 * 	is zero terminated.
 *
 *
 * Returns
 * 	On success, the strictly positive length of the string,
 * 	including the trailing NUL character. On error, a negative
 * 	value.
 */
static long (*bpf_d_path)(struct path *path, char *buf, __u32 sz) = (void *) 147;

/*
 * bpf_copy_from_user
 *
 * 	Read *size* bytes from user space address *user_ptr* and store
 * 	the data in *dst*. This is a wrapper of **copy_from_user**\ ().
 *
 * Returns
 * 	0 on success, or a negative error in case of failure.
 */
static long (*bpf_copy_from_user)(void *dst, __u32 size, const void *user_ptr) = (void *) 148;

/*
 * bpf_snprintf_btf
 *
 * 	Use BTF to store a string representation of *ptr*->ptr in *str*,
 * 	using *ptr*->type_id.  This value should specify the type
 * 	that *ptr*->ptr points to. LLVM __builtin_btf_type_id(type, 1)
 * 	can be used to look up vmlinux BTF type ids. Traversing the
 * 	data structure using BTF, the type information and values are
 * 	stored in the first *str_size* - 1 bytes of *str*.  Safe copy of
 * 	the pointer data is carried out to avoid kernel crashes during
 * 	operation.  Smaller types can use string space on the stack;
 * 	larger programs can use map data to store the string
 * 	representation.
 *
 * 	The string can be subsequently shared with userspace via
 * 	bpf_perf_event_output() or ring buffer interfaces.
 * 	bpf_trace_printk() is to be avoided as it places too small
 * 	a limit on string size to be useful.
 *
 * 	*flags* is a combination of
 *
 * 	**BTF_F_COMPACT**
 * 		no formatting around type information
 * 	**BTF_F_NONAME**
 * 		no struct/union member names/types
 * 	**BTF_F_PTR_RAW**
 * 		show raw (unobfuscated) pointer values;
 * 		equivalent to printk specifier %px.
 * 	**BTF_F_ZERO**
 * 		show zero-valued struct/union members; they
 * 		are not displayed by default
 *
 *
 * Returns
 * 	The number of bytes that were written (or would have been
 * 	written if output had to be truncated due to string size),
 * 	or a negative error in cases of failure.
 */
static long (*bpf_snprintf_btf)(char *str, __u32 str_size, struct btf_ptr *ptr, __u32 btf_ptr_size, __u64 flags) = (void *) 149;

/*
 * bpf_seq_printf_btf
 *
 * 	Use BTF to write to seq_write a string representation of
 * 	*ptr*->ptr, using *ptr*->type_id as per bpf_snprintf_btf().
 * 	*flags* are identical to those used for bpf_snprintf_btf.
 *
 * Returns
 * 	0 on success or a negative error in case of failure.
 */
static long (*bpf_seq_printf_btf)(struct seq_file *m, struct btf_ptr *ptr, __u32 ptr_size, __u64 flags) = (void *) 150;

/*
 * bpf_skb_cgroup_classid
 *
 * 	See **bpf_get_cgroup_classid**\ () for the main description.
 * 	This helper differs from **bpf_get_cgroup_classid**\ () in that
 * 	the cgroup v1 net_cls class is retrieved only from the *skb*'s
 * 	associated socket instead of the current process.
 *
 * Returns
 * 	The id is returned or 0 in case the id could not be retrieved.
 */
static __u64 (*bpf_skb_cgroup_classid)(struct __sk_buff *skb) = (void *) 151;

/*
 * bpf_redirect_neigh
 *
 * 	Redirect the packet to another net device of index *ifindex*
 * 	and fill in L2 addresses from neighboring subsystem. This helper
 * 	is somewhat similar to **bpf_redirect**\ (), except that it
 * 	populates L2 addresses as well, meaning, internally, the helper
 * 	relies on the neighbor lookup for the L2 address of the nexthop.
 *
 * 	The helper will perform a FIB lookup based on the skb's
 * 	networking header to get the address of the next hop, unless
 * 	this is supplied by the caller in the *params* argument. The
 * 	*plen* argument indicates the len of *params* and should be set
 * 	to 0 if *params* is NULL.
 *
 * 	The *flags* argument is reserved and must be 0. The helper is
 * 	currently only supported for tc BPF program types, and enabled
 * 	for IPv4 and IPv6 protocols.
 *
 * Returns
 * 	The helper returns **TC_ACT_REDIRECT** on success or
 * 	**TC_ACT_SHOT** on error.
 */
static long (*bpf_redirect_neigh)(__u32 ifindex, struct bpf_redir_neigh *params, int plen, __u64 flags) = (void *) 152;

/*
 * bpf_per_cpu_ptr
 *
 * 	Take a pointer to a percpu ksym, *percpu_ptr*, and return a
 * 	pointer to the percpu kernel variable on *cpu*. A ksym is an
 * 	extern variable decorated with '__ksym'. For ksym, there is a
 * 	global var (either static or global) defined of the same name
 * 	in the kernel. The ksym is percpu if the global var is percpu.
 * 	The returned pointer points to the global percpu var on *cpu*.
 *
 * 	bpf_per_cpu_ptr() has the same semantic as per_cpu_ptr() in the
 * 	kernel, except that bpf_per_cpu_ptr() may return NULL. This
 * 	happens if *cpu* is larger than nr_cpu_ids. The caller of
 * 	bpf_per_cpu_ptr() must check the returned value.
 *
 * Returns
 * 	A pointer pointing to the kernel percpu variable on *cpu*, or
 * 	NULL, if *cpu* is invalid.
 */
static void *(*bpf_per_cpu_ptr)(const void *percpu_ptr, __u32 cpu) = (void *) 153;

/*
 * bpf_this_cpu_ptr
 *
 * 	Take a pointer to a percpu ksym, *percpu_ptr*, and return a
 * 	pointer to the percpu kernel variable on this cpu. See the
 * 	description of 'ksym' in **bpf_per_cpu_ptr**\ ().
 *
 * 	bpf_this_cpu_ptr() has the same semantic as this_cpu_ptr() in
 * 	the kernel. Different from **bpf_per_cpu_ptr**\ (), it would
 * 	never return NULL.
 *
 * Returns
 * 	A pointer pointing to the kernel percpu variable on this cpu.
 */
static void *(*bpf_this_cpu_ptr)(const void *percpu_ptr) = (void *) 154;

/*
 * bpf_redirect_peer
 *
 * 	Redirect the packet to another net device of index *ifindex*.
 * 	This helper is somewhat similar to **bpf_redirect**\ (), except
 * 	that the redirection happens to the *ifindex*' peer device and
 * 	the netns switch takes place from ingress to ingress without
 * 	going through the CPU's backlog queue.
 *
 * 	The *flags* argument is reserved and must be 0. The helper is
 * 	currently only supported for tc BPF program types at the ingress
 * 	hook and for veth device types. The peer device must reside in a
 * 	different network namespace.
 *
 * Returns
 * 	The helper returns **TC_ACT_REDIRECT** on success or
 * 	**TC_ACT_SHOT** on error.
 */
static long (*bpf_redirect_peer)(__u32 ifindex, __u64 flags) = (void *) 155;

/*
 * bpf_task_storage_get
 *
 * 	Get a bpf_local_storage from the *task*.
 *
 * 	Logically, it could be thought of as getting the value from
 * 	a *map* with *task* as the **key**.  From this
 * 	perspective,  the usage is not much different from
 * 	**bpf_map_lookup_elem**\ (*map*, **&**\ *task*) except this
 * 	helper enforces the key must be an task_struct and the map must also
 * 	be a **BPF_MAP_TYPE_TASK_STORAGE**.
 *
 * 	Underneath, the value is stored locally at *task* instead of
 * 	the *map*.  The *map* is used as the bpf-local-storage
 * 	"type". The bpf-local-storage "type" (i.e. the *map*) is
 * 	searched against all bpf_local_storage residing at *task*.
 *
 * 	An optional *flags* (**BPF_LOCAL_STORAGE_GET_F_CREATE**) can be
 * 	used such that a new bpf_local_storage will be
 * 	created if one does not exist.  *value* can be used
 * 	together with **BPF_LOCAL_STORAGE_GET_F_CREATE** to specify
 * 	the initial value of a bpf_local_storage.  If *value* is
 * 	**NULL**, the new bpf_local_storage will be zero initialized.
 *
 * Returns
 * 	A bpf_local_storage pointer is returned on success.
 *
 * 	**NULL** if not found or there was an error in adding
 * 	a new bpf_local_storage.
 */
static void *(*bpf_task_storage_get)(void *map, struct task_struct *task, void *value, __u64 flags) = (void *) 156;

/*
 * bpf_task_storage_delete
 *
 * 	Delete a bpf_local_storage from a *task*.
 *
 * Returns
 * 	0 on success.
 *
 * 	**-ENOENT** if the bpf_local_storage cannot be found.
 */
static long (*bpf_task_storage_delete)(void *map, struct task_struct *task) = (void *) 157;

/*
 * bpf_get_current_task_btf
 *
 * 	Return a BTF pointer to the "current" task.
 * 	This pointer can also be used in helpers that accept an
 * 	*ARG_PTR_TO_BTF_ID* of type *task_struct*.
 *
 * Returns
 * 	Pointer to the current task.
 */
static struct task_struct *(*bpf_get_current_task_btf)(void) = (void *) 158;

/*
 * bpf_bprm_opts_set
 *
 * 	Set or clear certain options on *bprm*:
 *
 * 	**BPF_F_BPRM_SECUREEXEC** Set the secureexec bit
 * 	which sets the **AT_SECURE** auxv for glibc. The bit
 * 	is cleared if the flag is not specified.
 *
 * Returns
 * 	**-EINVAL** if invalid *flags* are passed, zero otherwise.
 */
static long (*bpf_bprm_opts_set)(struct linux_binprm *bprm, __u64 flags) = (void *) 159;

/*
 * bpf_ktime_get_coarse_ns
 *
 * 	Return a coarse-grained version of the time elapsed since
 * 	system boot, in nanoseconds. Does not include time the system
 * 	was suspended.
 *
 * 	See: **clock_gettime**\ (**CLOCK_MONOTONIC_COARSE**)
 *
 * Returns
 * 	Current *ktime*.
 */
static __u64 (*bpf_ktime_get_coarse_ns)(void) = (void *) 160;

/*
 * bpf_ima_inode_hash
 *
 * 	Returns the stored IMA hash of the *inode* (if it's avaialable).
 * 	If the hash is larger than *size*, then only *size*
 * 	bytes will be copied to *dst*
 *
 * Returns
 * 	The **hash_algo** is returned on success,
 * 	**-EOPNOTSUP** if IMA is disabled or **-EINVAL** if
 * 	invalid arguments are passed.
 */
static long (*bpf_ima_inode_hash)(struct inode *inode, void *dst, __u32 size) = (void *) 161;

/*
 * bpf_sock_from_file
 *
 * 	If the given file represents a socket, returns the associated
 * 	socket.
 *
 * Returns
 * 	A pointer to a struct socket on success or NULL if the file is
 * 	not a socket.
 */
static struct socket *(*bpf_sock_from_file)(struct file *file) = (void *) 162;

/*
 * bpf_check_mtu
 *
 * 	Check packet size against exceeding MTU of net device (based
 * 	on *ifindex*).  This helper will likely be used in combination
 * 	with helpers that adjust/change the packet size.
 *
 * 	The argument *len_diff* can be used for querying with a planned
 * 	size change. This allows to check MTU prior to changing packet
 * 	ctx. Providing an *len_diff* adjustment that is larger than the
 * 	actual packet size (resulting in negative packet size) will in
 * 	principle not exceed the MTU, why it is not considered a
 * 	failure.  Other BPF-helpers are needed for performing the
 * 	planned size change, why the responsibility for catch a negative
 * 	packet size belong in those helpers.
 *
 * 	Specifying *ifindex* zero means the MTU check is performed
 * 	against the current net device.  This is practical if this isn't
 * 	used prior to redirect.
 *
 * 	On input *mtu_len* must be a valid pointer, else verifier will
 * 	reject BPF program.  If the value *mtu_len* is initialized to
 * 	zero then the ctx packet size is use.  When value *mtu_len* is
 * 	provided as input this specify the L3 length that the MTU check
 * 	is done against. Remember XDP and TC length operate at L2, but
 * 	this value is L3 as this correlate to MTU and IP-header tot_len
 * 	values which are L3 (similar behavior as bpf_fib_lookup).
 *
 * 	The Linux kernel route table can configure MTUs on a more
 * 	specific per route level, which is not provided by this helper.
 * 	For route level MTU checks use the **bpf_fib_lookup**\ ()
 * 	helper.
 *
 * 	*ctx* is either **struct xdp_md** for XDP programs or
 * 	**struct sk_buff** for tc cls_act programs.
 *
 * 	The *flags* argument can be a combination of one or more of the
 * 	following values:
 *
 * 	**BPF_MTU_CHK_SEGS**
 * 		This flag will only works for *ctx* **struct sk_buff**.
 * 		If packet context contains extra packet segment buffers
 * 		(often knows as GSO skb), then MTU check is harder to
 * 		check at this point, because in transmit path it is
 * 		possible for the skb packet to get re-segmented
 * 		(depending on net device features).  This could still be
 * 		a MTU violation, so this flag enables performing MTU
 * 		check against segments, with a different violation
 * 		return code to tell it apart. Check cannot use len_diff.
 *
 * 	On return *mtu_len* pointer contains the MTU value of the net
 * 	device.  Remember the net device configured MTU is the L3 size,
 * 	which is returned here and XDP and TC length operate at L2.
 * 	Helper take this into account for you, but remember when using
 * 	MTU value in your BPF-code.
 *
 *
 * Returns
 * 	* 0 on success, and populate MTU value in *mtu_len* pointer.
 *
 * 	* < 0 if any input argument is invalid (*mtu_len* not updated)
 *
 * 	MTU violations return positive values, but also populate MTU
 * 	value in *mtu_len* pointer, as this can be needed for
 * 	implementing PMTU handing:
 *
 * 	* **BPF_MTU_CHK_RET_FRAG_NEEDED**
 * 	* **BPF_MTU_CHK_RET_SEGS_TOOBIG**
 */
static long (*bpf_check_mtu)(void *ctx, __u32 ifindex, __u32 *mtu_len, __s32 len_diff, __u64 flags) = (void *) 163;

/*
 * bpf_for_each_map_elem
 *
 * 	For each element in **map**, call **callback_fn** function with
 * 	**map**, **callback_ctx** and other map-specific parameters.
 * 	The **callback_fn** should be a static function and
 * 	the **callback_ctx** should be a pointer to the stack.
 * 	The **flags** is used to control certain aspects of the helper.
 * 	Currently, the **flags** must be 0.
 *
 * 	The following are a list of supported map types and their
 * 	respective expected callback signatures:
 *
 * 	BPF_MAP_TYPE_HASH, BPF_MAP_TYPE_PERCPU_HASH,
 * 	BPF_MAP_TYPE_LRU_HASH, BPF_MAP_TYPE_LRU_PERCPU_HASH,
 * 	BPF_MAP_TYPE_ARRAY, BPF_MAP_TYPE_PERCPU_ARRAY
 *
 * 	long (\*callback_fn)(struct bpf_map \*map, const void \*key, void \*value, void \*ctx);
 *
 * 	For per_cpu maps, the map_value is the value on the cpu where the
 * 	bpf_prog is running.
 *
 * 	If **callback_fn** return 0, the helper will continue to the next
 * 	element. If return value is 1, the helper will skip the rest of
 * 	elements and return. Other return values are not used now.
 *
 *
 * Returns
 * 	The number of traversed map elements for success, **-EINVAL** for
 * 	invalid **flags**.
 */
static long (*bpf_for_each_map_elem)(void *map, void *callback_fn, void *callback_ctx, __u64 flags) = (void *) 164;

/*
 * bpf_snprintf
 *
 * 	Outputs a string into the **str** buffer of size **str_size**
 * 	based on a format string stored in a read-only map pointed by
 * 	**fmt**.
 *
 * 	Each format specifier in **fmt** corresponds to one u64 element
 * 	in the **data** array. For strings and pointers where pointees
 * 	are accessed, only the pointer values are stored in the *data*
 * 	array. The *data_len* is the size of *data* in bytes - must be
 * 	a multiple of 8.
 *
 * 	Formats **%s** and **%p{i,I}{4,6}** require to read kernel
 * 	memory. Reading kernel memory may fail due to either invalid
 * 	address or valid address but requiring a major memory fault. If
 * 	reading kernel memory fails, the string for **%s** will be an
 * 	empty string, and the ip address for **%p{i,I}{4,6}** will be 0.
 * 	Not returning error to bpf program is consistent with what
 * 	**bpf_trace_printk**\ () does for now.
 *
 *
 * Returns
 * 	The strictly positive length of the formatted string, including
 * 	the trailing zero character. If the return value is greater than
 * 	**str_size**, **str** contains a truncated string, guaranteed to
 * 	be zero-terminated except when **str_size** is 0.
 *
 * 	Or **-EBUSY** if the per-CPU memory copy buffer is busy.
 */
static long (*bpf_snprintf)(char *str, __u32 str_size, const char *fmt, __u64 *data, __u32 data_len) = (void *) 165;

/*
 * bpf_sys_bpf
 *
 * 	Execute bpf syscall with given arguments.
 *
 * Returns
 * 	A syscall result.
 */
static long (*bpf_sys_bpf)(__u32 cmd, void *attr, __u32 attr_size) = (void *) 166;

/*
 * bpf_btf_find_by_name_kind
 *
 * 	Find BTF type with given name and kind in vmlinux BTF or in module's BTFs.
 *
 * Returns
 * 	Returns btf_id and btf_obj_fd in lower and upper 32 bits.
 */
static long (*bpf_btf_find_by_name_kind)(char *name, int name_sz, __u32 kind, int flags) = (void *) 167;

/*
 * bpf_sys_close
 *
 * 	Execute close syscall for given FD.
 *
 * Returns
 * 	A syscall result.
 */
static long (*bpf_sys_close)(__u32 fd) = (void *) 168;

/*
 * bpf_timer_init
 *
 * 	Initialize the timer.
 * 	First 4 bits of *flags* specify clockid.
 * 	Only CLOCK_MONOTONIC, CLOCK_REALTIME, CLOCK_BOOTTIME are allowed.
 * 	All other bits of *flags* are reserved.
 * 	The verifier will reject the program if *timer* is not from
 * 	the same *map*.
 *
 * Returns
 * 	0 on success.
 * 	**-EBUSY** if *timer* is already initialized.
 * 	**-EINVAL** if invalid *flags* are passed.
 * 	**-EPERM** if *timer* is in a map that doesn't have any user references.
 * 	The user space should either hold a file descriptor to a map with timers
 * 	or pin such map in bpffs. When map is unpinned or file descriptor is
 * 	closed all timers in the map will be cancelled and freed.
 */
static long (*bpf_timer_init)(struct bpf_timer *timer, void *map, __u64 flags) = (void *) 169;

/*
 * bpf_timer_set_callback
 *
 * 	Configure the timer to call *callback_fn* static function.
 *
 * Returns
 * 	0 on success.
 * 	**-EINVAL** if *timer* was not initialized with bpf_timer_init() earlier.
 * 	**-EPERM** if *timer* is in a map that doesn't have any user references.
 * 	The user space should either hold a file descriptor to a map with timers
 * 	or pin such map in bpffs. When map is unpinned or file descriptor is
 * 	closed all timers in the map will be cancelled and freed.
 */
static long (*bpf_timer_set_callback)(struct bpf_timer *timer, void *callback_fn) = (void *) 170;

/*
 * bpf_timer_start
 *
 * 	Set timer expiration N nanoseconds from the current time. The
 * 	configured callback will be invoked in soft irq context on some cpu
 * 	and will not repeat unless another bpf_timer_start() is made.
 * 	In such case the next invocation can migrate to a different cpu.
 * 	Since struct bpf_timer is a field inside map element the map
 * 	owns the timer. The bpf_timer_set_callback() will increment refcnt
 * 	of BPF program to make sure that callback_fn code stays valid.
 * 	When user space reference to a map reaches zero all timers
 * 	in a map are cancelled and corresponding program's refcnts are
 * 	decremented. This is done to make sure that Ctrl-C of a user
 * 	process doesn't leave any timers running. If map is pinned in
 * 	bpffs the callback_fn can re-arm itself indefinitely.
 * 	bpf_map_update/delete_elem() helpers and user space sys_bpf commands
 * 	cancel and free the timer in the given map element.
 * 	The map can contain timers that invoke callback_fn-s from different
 * 	programs. The same callback_fn can serve different timers from
 * 	different maps if key/value layout matches across maps.
 * 	Every bpf_timer_set_callback() can have different callback_fn.
 *
 *
 * Returns
 * 	0 on success.
 * 	**-EINVAL** if *timer* was not initialized with bpf_timer_init() earlier
 * 	or invalid *flags* are passed.
 */
static long (*bpf_timer_start)(struct bpf_timer *timer, __u64 nsecs, __u64 flags) = (void *) 171;

/*
 * bpf_timer_cancel
 *
 * 	Cancel the timer and wait for callback_fn to finish if it was running.
 *
 * Returns
 * 	0 if the timer was not active.
 * 	1 if the timer was active.
 * 	**-EINVAL** if *timer* was not initialized with bpf_timer_init() earlier.
 * 	**-EDEADLK** if callback_fn tried to call bpf_timer_cancel() on its
 * 	own timer which would have led to a deadlock otherwise.
 */
static long (*bpf_timer_cancel)(struct bpf_timer *timer) = (void *) 172;

/*
 * bpf_get_func_ip
 *
 * 	Get address of the traced function (for tracing and kprobe programs).
 *
 * Returns
 * 	Address of the traced function.
 */
static __u64 (*bpf_get_func_ip)(void *ctx) = (void *) 173;

/*
 * bpf_get_attach_cookie
 *
 * 	Get bpf_cookie value provided (optionally) during the program
 * 	attachment. It might be different for each individual
 * 	attachment, even if BPF program itself is the same.
 * 	Expects BPF program context *ctx* as a first argument.
 *
 * 	Supported for the following program types:
 * 		- kprobe/uprobe;
 * 		- tracepoint;
 * 		- perf_event.
 *
 * Returns
 * 	Value specified by user at BPF link creation/attachment time
 * 	or 0, if it was not specified.
 */
static __u64 (*bpf_get_attach_cookie)(void *ctx) = (void *) 174;

/*
 * bpf_task_pt_regs
 *
 * 	Get the struct pt_regs associated with **task**.
 *
 * Returns
 * 	A pointer to struct pt_regs.
 */
static long (*bpf_task_pt_regs)(struct task_struct *task) = (void *) 175;

/*
 * bpf_get_branch_snapshot
 *
 * 	Get branch trace from hardware engines like Intel LBR. The
 * 	hardware engine is stopped shortly after the helper is
 * 	called. Therefore, the user need to filter branch entries
 * 	based on the actual use case. To capture branch trace
 * 	before the trigger point of the BPF program, the helper
 * 	should be called at the beginning of the BPF program.
 *
 * 	The data is stored as struct perf_branch_entry into output
 * 	buffer *entries*. *size* is the size of *entries* in bytes.
 * 	*flags* is reserved for now and must be zero.
 *
 *
 * Returns
 * 	On success, number of bytes written to *buf*. On error, a
 * 	negative value.
 *
 * 	**-EINVAL** if *flags* is not zero.
 *
 * 	**-ENOENT** if architecture does not support branch records.
 */
static long (*bpf_get_branch_snapshot)(void *entries, __u32 size, __u64 flags) = (void *) 176;

/*
 * bpf_trace_vprintk
 *
 * 	Behaves like **bpf_trace_printk**\ () helper, but takes an array of u64
 * 	to format and can handle more format args as a result.
 *
 * 	Arguments are to be used as in **bpf_seq_printf**\ () helper.
 *
 * Returns
 * 	The number of bytes written to the buffer, or a negative error
 * 	in case of failure.
 */
static long (*bpf_trace_vprintk)(const char *fmt, __u32 fmt_size, const void *data, __u32 data_len) = (void *) 177;

/*
 * bpf_skc_to_unix_sock
 *
 * 	Dynamically cast a *sk* pointer to a *unix_sock* pointer.
 *
 * Returns
 * 	*sk* if casting is valid, or **NULL** otherwise.
 */
static struct unix_sock *(*bpf_skc_to_unix_sock)(void *sk) = (void *) 178;

/*
 * bpf_kallsyms_lookup_name
 *
 * 	Get the address of a kernel symbol, returned in *res*. *res* is
 * 	set to 0 if the symbol is not found.
 *
 * Returns
 * 	On success, zero. On error, a negative value.
 *
 * 	**-EINVAL** if *flags* is not zero.
 *
 * 	**-EINVAL** if string *name* is not the same size as *name_sz*.
 *
 * 	**-ENOENT** if symbol is not found.
 *
 * 	**-EPERM** if caller does not have permission to obtain kernel address.
 */
static long (*bpf_kallsyms_lookup_name)(const char *name, int name_sz, int flags, __u64 *res) = (void *) 179;

/*
 * bpf_find_vma
 *
 * 	Find vma of *task* that contains *addr*, call *callback_fn*
 * 	function with *task*, *vma*, and *callback_ctx*.
 * 	The *callback_fn* should be a static function and
 * 	the *callback_ctx* should be a pointer to the stack.
 * 	The *flags* is used to control certain aspects of the helper.
 * 	Currently, the *flags* must be 0.
 *
 * 	The expected callback signature is
 *
 * 	long (\*callback_fn)(struct task_struct \*task, struct vm_area_struct \*vma, void \*callback_ctx);
 *
 *
 * Returns
 * 	0 on success.
 * 	**-ENOENT** if *task->mm* is NULL, or no vma contains *addr*.
 * 	**-EBUSY** if failed to try lock mmap_lock.
 * 	**-EINVAL** for invalid **flags**.
 */
static long (*bpf_find_vma)(struct task_struct *task, __u64 addr, void *callback_fn, void *callback_ctx, __u64 flags) = (void *) 180;


