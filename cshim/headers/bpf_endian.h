/* SPDX-License-Identifier: (LGPL-2.1 OR BSD-2-Clause) */
#ifndef __BPF_ENDIAN__
#define __BPF_ENDIAN__

/*
 * Isolate byte #n and put it into byte #m, for __u##b type.
 * E.g., moving byte #6 (nnnnnnnn) into byte #1 (mmmmmmmm) for __u64:
 * 1) xxxxxxxx nnnnnnnn xxxxxxxx xxxxxxxx xxxxxxxx xxxxxxxx mmmmmmmm xxxxxxxx
 * 2) nnnnnnnn xxxxxxxx xxxxxxxx xxxxxxxx xxxxxxxx mmmmmmmm xxxxxxxx 00000000
 * 3) 00000000 00000000 00000000 00000000 00000000 00000000 00000000 nnnnnnnn
 * 4) 00000000 00000000 00000000 00000000 00000000 00000000 nnnnnnnn 00000000
 */
#define ___bpf_mvb(x, b, n, m) ((__u##b)(x) << (b-(n+1)*8) >> (b-8) << (m*8))

#define ___bpf_swab16(x) ((__u16)(			\
			  ___bpf_mvb(x, 16, 0, 1) |	\
			  ___bpf_mvb(x, 16, 1, 0)))

#define ___bpf_swab32(x) ((__u32)(			\
			  ___bpf_mvb(x, 32, 0, 3) |	\
			  ___bpf_mvb(x, 32, 1, 2) |	\
			  ___bpf_mvb(x, 32, 2, 1) |	\
			  ___bpf_mvb(x, 32, 3, 0)))

#define ___bpf_swab64(x) ((__u64)(			\
			  ___bpf_mvb(x, 64, 0, 7) |	\
			  ___bpf_mvb(x, 64, 1, 6) |	\
			  ___bpf_mvb(x, 64, 2, 5) |	\
			  ___bpf_mvb(x, 64, 3, 4) |	\
			  ___bpf_mvb(x, 64, 4, 3) |	\
			  ___bpf_mvb(x, 64, 5, 2) |	\
			  ___bpf_mvb(x, 64, 6, 1) |	\
			  ___bpf_mvb(x, 64, 7, 0)))

/* LLVM's BPF target selects the endianness of the CPU
 * it compiles on, or the user specifies (bpfel/bpfeb),
 * respectively. The used __BYTE_ORDER__ is defined by
 * the compiler, we cannot rely on __BYTE_ORDER from
 * libc headers, since it doesn't reflect the actual
 * requested byte order.
 *
 * Note, LLVM's BPF target has different __builtin_bswapX()
 * semantics. It does map to BPF_ALU | BPF_END | BPF_TO_BE
 * in bpfel and bpfeb case, which means below, that we map
 * to cpu_to_be16(). We could use it unconditionally in BPF
 * case, but better not rely on it, so that this header here
 * can be used from application and BPF program side, which
 * use different targets.
 */
#if __BYTE_ORDER__ == __ORDER_LITTLE_ENDIAN__
# define __bpf_ntohs(x)			__builtin_bswap16(x)
# define __bpf_htons(x)			__builtin_bswap16(x)
# define __bpf_constant_ntohs(x)	___bpf_swab16(x)
# define __bpf_constant_htons(x)	___bpf_swab16(x)
# define __bpf_ntohl(x)			__builtin_bswap32(x)
# define __bpf_htonl(x)			__builtin_bswap32(x)
# define __bpf_constant_ntohl(x)	___bpf_swab32(x)
# define __bpf_constant_htonl(x)	___bpf_swab32(x)
# define __bpf_be64_to_cpu(x)		__builtin_bswap64(x)
# define __bpf_cpu_to_be64(x)		__builtin_bswap64(x)
# define __bpf_constant_be64_to_cpu(x)	___bpf_swab64(x)
# define __bpf_constant_cpu_to_be64(x)	___bpf_swab64(x)
#elif __BYTE_ORDER__ == __ORDER_BIG_ENDIAN__
# define __bpf_ntohs(x)			(x)
# define __bpf_htons(x)			(x)
# define __bpf_constant_ntohs(x)	(x)
# define __bpf_constant_htons(x)	(x)
# define __bpf_ntohl(x)			(x)
# define __bpf_htonl(x)			(x)
# define __bpf_constant_ntohl(x)	(x)
# define __bpf_constant_htonl(x)	(x)
# define __bpf_be64_to_cpu(x)		(x)
# define __bpf_cpu_to_be64(x)		(x)
# define __bpf_constant_be64_to_cpu(x)  (x)
# define __bpf_constant_cpu_to_be64(x)  (x)
#else
# error "Fix your compiler's __BYTE_ORDER__?!"
#endif

#define bpf_htons(x)				\
	(__builtin_constant_p(x) ?		\
	 __bpf_constant_htons(x) : __bpf_htons(x))
#define bpf_ntohs(x)				\
	(__builtin_constant_p(x) ?		\
	 __bpf_constant_ntohs(x) : __bpf_ntohs(x))
#define bpf_htonl(x)				\
	(__builtin_constant_p(x) ?		\
	 __bpf_constant_htonl(x) : __bpf_htonl(x))
#define bpf_ntohl(x)				\
	(__builtin_constant_p(x) ?		\
	 __bpf_constant_ntohl(x) : __bpf_ntohl(x))
#define bpf_cpu_to_be64(x)			\
	(__builtin_constant_p(x) ?		\
	 __bpf_constant_cpu_to_be64(x) : __bpf_cpu_to_be64(x))
#define bpf_be64_to_cpu(x)			\
	(__builtin_constant_p(x) ?		\
	 __bpf_constant_be64_to_cpu(x) : __bpf_be64_to_cpu(x))

#endif /* __BPF_ENDIAN__ */
