/* SPDX-License-Identifier: (LGPL-2.1 OR BSD-2-Clause) */
#ifndef __BPF_HELPERS__
#define __BPF_HELPERS__

/*
 * Note that bpf programs need to include either
 * vmlinux.h (auto-generated from BTF) or linux/types.h
 * in advance since bpf_helper_defs.h uses such types
 * as __u64.
 */
#include "bpf_helper_defs.h"

#define __uint(name, val) int (*name)[val]
#define __type(name, val) typeof(val) *name
#define __array(name, val) typeof(val) *name[]

/*
 * Helper macro to place programs, maps, license in
 * different sections in elf_bpf file. Section names
 * are interpreted by libbpf depending on the context (BPF programs, BPF maps,
 * extern variables, etc).
 * To allow use of SEC() with externs (e.g., for extern .maps declarations),
 * make sure __attribute__((unused)) doesn't trigger compilation warning.
 */
#define SEC(name) \
	_Pragma("GCC diagnostic push")					    \
	_Pragma("GCC diagnostic ignored \"-Wignored-attributes\"")	    \
	__attribute__((section(name), used))				    \
	_Pragma("GCC diagnostic pop")					    \

/* Avoid 'linux/stddef.h' definition of '__always_inline'. */
#undef __always_inline
#define __always_inline inline __attribute__((always_inline))

#ifndef __noinline
#define __noinline __attribute__((noinline))
#endif
#ifndef __weak
#define __weak __attribute__((weak))
#endif

/*
 * Use __hidden attribute to mark a non-static BPF subprogram effectively
 * static for BPF verifier's verification algorithm purposes, allowing more
 * extensive and permissive BPF verification process, taking into account
 * subprogram's caller context.
 */
#define __hidden __attribute__((visibility("hidden")))

/* When utilizing vmlinux.h with BPF CO-RE, user BPF programs can't include
 * any system-level headers (such as stddef.h, linux/version.h, etc), and
 * commonly-used macros like NULL and KERNEL_VERSION aren't available through
 * vmlinux.h. This just adds unnecessary hurdles and forces users to re-define
 * them on their own. So as a convenience, provide such definitions here.
 */
#ifndef NULL
#define NULL ((void *)0)
#endif

#ifndef KERNEL_VERSION
#define KERNEL_VERSION(a, b, c) (((a) << 16) + ((b) << 8) + ((c) > 255 ? 255 : (c)))
#endif

/*
 * Helper macros to manipulate data structures
 */
#ifndef offsetof
#define offsetof(TYPE, MEMBER)	((unsigned long)&((TYPE *)0)->MEMBER)
#endif
#ifndef container_of
#define container_of(ptr, type, member)				\
	({							\
		void *__mptr = (void *)(ptr);			\
		((type *)(__mptr - offsetof(type, member)));	\
	})
#endif

/*
 * Helper macro to throw a compilation error if __bpf_unreachable() gets
 * built into the resulting code. This works given BPF back end does not
 * implement __builtin_trap(). This is useful to assert that certain paths
 * of the program code are never used and hence eliminated by the compiler.
 *
 * For example, consider a switch statement that covers known cases used by
 * the program. __bpf_unreachable() can then reside in the default case. If
 * the program gets extended such that a case is not covered in the switch
 * statement, then it will throw a build error due to the default case not
 * being compiled out.
 */
#ifndef __bpf_unreachable
# define __bpf_unreachable()	__builtin_trap()
#endif

/*
 * Helper function to perform a tail call with a constant/immediate map slot.
 */
#if __clang_major__ >= 8 && defined(__bpf__)
static __always_inline void
bpf_tail_call_static(void *ctx, const void *map, const __u32 slot)
{
	if (!__builtin_constant_p(slot))
		__bpf_unreachable();

	/*
	 * Provide a hard guarantee that LLVM won't optimize setting r2 (map
	 * pointer) and r3 (constant map index) from _different paths_ ending
	 * up at the _same_ call insn as otherwise we won't be able to use the
	 * jmpq/nopl retpoline-free patching by the x86-64 JIT in the kernel
	 * given they mismatch. See also d2e4c1e6c294 ("bpf: Constant map key
	 * tracking for prog array pokes") for details on verifier tracking.
	 *
	 * Note on clobber list: we need to stay in-line with BPF calling
	 * convention, so even if we don't end up using r0, r4, r5, we need
	 * to mark them as clobber so that LLVM doesn't end up using them
	 * before / after the call.
	 */
	asm volatile("r1 = %[ctx]\n\t"
		     "r2 = %[map]\n\t"
		     "r3 = %[slot]\n\t"
		     "call 12"
		     :: [ctx]"r"(ctx), [map]"r"(map), [slot]"i"(slot)
		     : "r0", "r1", "r2", "r3", "r4", "r5");
}
#endif

/*
 * Helper structure used by eBPF C program
 * to describe BPF map attributes to libbpf loader
 */
struct bpf_map_def {
	unsigned int type;
	unsigned int key_size;
	unsigned int value_size;
	unsigned int max_entries;
	unsigned int map_flags;
};

enum libbpf_pin_type {
	LIBBPF_PIN_NONE,
	/* PIN_BY_NAME: pin maps by name (in /sys/fs/bpf by default) */
	LIBBPF_PIN_BY_NAME,
};

enum libbpf_tristate {
	TRI_NO = 0,
	TRI_YES = 1,
	TRI_MODULE = 2,
};

#define __kconfig __attribute__((section(".kconfig")))
#define __ksym __attribute__((section(".ksyms")))

#ifndef ___bpf_concat
#define ___bpf_concat(a, b) a ## b
#endif
#ifndef ___bpf_apply
#define ___bpf_apply(fn, n) ___bpf_concat(fn, n)
#endif
#ifndef ___bpf_nth
#define ___bpf_nth(_, _1, _2, _3, _4, _5, _6, _7, _8, _9, _a, _b, _c, N, ...) N
#endif
#ifndef ___bpf_narg
#define ___bpf_narg(...) \
	___bpf_nth(_, ##__VA_ARGS__, 12, 11, 10, 9, 8, 7, 6, 5, 4, 3, 2, 1, 0)
#endif

#define ___bpf_fill0(arr, p, x) do {} while (0)
#define ___bpf_fill1(arr, p, x) arr[p] = x
#define ___bpf_fill2(arr, p, x, args...) arr[p] = x; ___bpf_fill1(arr, p + 1, args)
#define ___bpf_fill3(arr, p, x, args...) arr[p] = x; ___bpf_fill2(arr, p + 1, args)
#define ___bpf_fill4(arr, p, x, args...) arr[p] = x; ___bpf_fill3(arr, p + 1, args)
#define ___bpf_fill5(arr, p, x, args...) arr[p] = x; ___bpf_fill4(arr, p + 1, args)
#define ___bpf_fill6(arr, p, x, args...) arr[p] = x; ___bpf_fill5(arr, p + 1, args)
#define ___bpf_fill7(arr, p, x, args...) arr[p] = x; ___bpf_fill6(arr, p + 1, args)
#define ___bpf_fill8(arr, p, x, args...) arr[p] = x; ___bpf_fill7(arr, p + 1, args)
#define ___bpf_fill9(arr, p, x, args...) arr[p] = x; ___bpf_fill8(arr, p + 1, args)
#define ___bpf_fill10(arr, p, x, args...) arr[p] = x; ___bpf_fill9(arr, p + 1, args)
#define ___bpf_fill11(arr, p, x, args...) arr[p] = x; ___bpf_fill10(arr, p + 1, args)
#define ___bpf_fill12(arr, p, x, args...) arr[p] = x; ___bpf_fill11(arr, p + 1, args)
#define ___bpf_fill(arr, args...) \
	___bpf_apply(___bpf_fill, ___bpf_narg(args))(arr, 0, args)

/*
 * BPF_SEQ_PRINTF to wrap bpf_seq_printf to-be-printed values
 * in a structure.
 */
#define BPF_SEQ_PRINTF(seq, fmt, args...)			\
({								\
	static const char ___fmt[] = fmt;			\
	unsigned long long ___param[___bpf_narg(args)];		\
								\
	_Pragma("GCC diagnostic push")				\
	_Pragma("GCC diagnostic ignored \"-Wint-conversion\"")	\
	___bpf_fill(___param, args);				\
	_Pragma("GCC diagnostic pop")				\
								\
	bpf_seq_printf(seq, ___fmt, sizeof(___fmt),		\
		       ___param, sizeof(___param));		\
})

/*
 * BPF_SNPRINTF wraps the bpf_snprintf helper with variadic arguments instead of
 * an array of u64.
 */
#define BPF_SNPRINTF(out, out_size, fmt, args...)		\
({								\
	static const char ___fmt[] = fmt;			\
	unsigned long long ___param[___bpf_narg(args)];		\
								\
	_Pragma("GCC diagnostic push")				\
	_Pragma("GCC diagnostic ignored \"-Wint-conversion\"")	\
	___bpf_fill(___param, args);				\
	_Pragma("GCC diagnostic pop")				\
								\
	bpf_snprintf(out, out_size, ___fmt,			\
		     ___param, sizeof(___param));		\
})

#ifdef BPF_NO_GLOBAL_DATA
#define BPF_PRINTK_FMT_MOD
#else
#define BPF_PRINTK_FMT_MOD static const
#endif

#define __bpf_printk(fmt, ...)				\
({							\
	BPF_PRINTK_FMT_MOD char ____fmt[] = fmt;	\
	bpf_trace_printk(____fmt, sizeof(____fmt),	\
			 ##__VA_ARGS__);		\
})

/*
 * __bpf_vprintk wraps the bpf_trace_vprintk helper with variadic arguments
 * instead of an array of u64.
 */
#define __bpf_vprintk(fmt, args...)				\
({								\
	static const char ___fmt[] = fmt;			\
	unsigned long long ___param[___bpf_narg(args)];		\
								\
	_Pragma("GCC diagnostic push")				\
	_Pragma("GCC diagnostic ignored \"-Wint-conversion\"")	\
	___bpf_fill(___param, args);				\
	_Pragma("GCC diagnostic pop")				\
								\
	bpf_trace_vprintk(___fmt, sizeof(___fmt),		\
			  ___param, sizeof(___param));		\
})

/* Use __bpf_printk when bpf_printk call has 3 or fewer fmt args
 * Otherwise use __bpf_vprintk
 */
#define ___bpf_pick_printk(...) \
	___bpf_nth(_, ##__VA_ARGS__, __bpf_vprintk, __bpf_vprintk, __bpf_vprintk,	\
		   __bpf_vprintk, __bpf_vprintk, __bpf_vprintk, __bpf_vprintk,		\
		   __bpf_vprintk, __bpf_vprintk, __bpf_printk /*3*/, __bpf_printk /*2*/,\
		   __bpf_printk /*1*/, __bpf_printk /*0*/)

/* Helper macro to print out debug messages */
#define bpf_printk(fmt, args...) ___bpf_pick_printk(args)(fmt, ##args)

#endif

/* shim addition: bpf_loop is newer than the helper list vendored with cilium/ebpf v0.20.0 examples */
#ifndef BPF_LOOP_SHIM
#define BPF_LOOP_SHIM
static long (*bpf_loop)(__u32 nr_loops, void *callback_fn, void *callback_ctx, __u64 flags) = (void *) 181;
#endif
