/* shim: intentionally empty; definitions come from the UAPI headers included by vmlinux.h */
