/* shim standing in for the BTF-generated vmlinux.h (control/kern/headers is an
 * empty submodule in this sandbox).  Only UAPI definitions are used; the
 * layouts of ethhdr/iphdr/ipv6hdr/tcphdr/udphdr are UAPI and identical to
 * vmlinux's. */
#ifndef __VMLINUX_SHIM_H__
#define __VMLINUX_SHIM_H__
#include <stdbool.h>
#include <linux/types.h>
#include <linux/bpf.h>
#include <linux/if_ether.h>
#include <linux/ip.h>
#include <linux/ipv6.h>
#include <linux/tcp.h>
#include <linux/udp.h>
#include <linux/icmpv6.h>
#include <linux/in.h>
#include <linux/in6.h>
#include <linux/pkt_cls.h>
#include <asm-generic/errno-base.h>
typedef __u8 u8;
typedef __u16 u16;
typedef __u32 u32;
typedef __u64 u64;
struct frag_hdr {
	__u8 nexthdr;
	__u8 reserved;
	__be16 frag_off;
	__be32 identification;
};
struct mm_struct {
	unsigned long arg_start;
	unsigned long arg_end;
};
struct task_struct {
	struct mm_struct *mm;
	int pid;
	int tgid;
	char comm[16];
};
#ifndef barrier
#define barrier() __asm__ __volatile__("" : : : "memory")
#endif
#endif
