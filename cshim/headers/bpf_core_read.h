/* SPDX-License-Identifier: (LGPL-2.1 OR BSD-2-Clause) */
#ifndef __BPF_CORE_READ_H__
#define __BPF_CORE_READ_H__

/*
 * enum bpf_field_info_kind is passed as a second argument into
 * __builtin_preserve_field_info() built-in to get a specific aspect of
 * a field, captured as a first argument. __builtin_preserve_field_info(field,
 * info_kind) returns __u32 integer and produces BTF field relocation, which
 * is understood and processed by libbpf during BPF object loading. See
 * selftests/bpf for examples.
 */
enum bpf_field_info_kind {
	BPF_FIELD_BYTE_OFFSET = 0,	/* field byte offset */
	BPF_FIELD_BYTE_SIZE = 1,
	BPF_FIELD_EXISTS = 2,		/* field existence in target kernel */
	BPF_FIELD_SIGNED = 3,
	BPF_FIELD_LSHIFT_U64 = 4,
	BPF_FIELD_RSHIFT_U64 = 5,
};

/* second argument to __builtin_btf_type_id() built-in */
enum bpf_type_id_kind {
	BPF_TYPE_ID_LOCAL = 0,		/* BTF type ID in local program */
	BPF_TYPE_ID_TARGET = 1,		/* BTF type ID in target kernel */
};

/* second argument to __builtin_preserve_type_info() built-in */
enum bpf_type_info_kind {
	BPF_TYPE_EXISTS = 0,	/* type existence in target kernel */
	BPF_TYPE_SIZE = 1,		/* type size in target kernel */
	BPF_TYPE_MATCHES = 2, 	/* type match in target kernel */
};

/* second argument to __builtin_preserve_enum_value() built-in */
enum bpf_enum_value_kind {
	BPF_ENUMVAL_EXISTS = 0,		/* enum value existence in kernel */
	BPF_ENUMVAL_VALUE = 1,		/* enum value value relocation */
};

#define __CORE_RELO(src, field, info)					      \
	__builtin_preserve_field_info((src)->field, BPF_FIELD_##info)

#if __BYTE_ORDER == __LITTLE_ENDIAN
#define __CORE_BITFIELD_PROBE_READ(dst, src, fld)			      \
	bpf_probe_read_kernel(						      \
			(void *)dst,				      \
			__CORE_RELO(src, fld, BYTE_SIZE),		      \
			(const void *)src + __CORE_RELO(src, fld, BYTE_OFFSET))
#else
/* semantics of LSHIFT_64 assumes loading values into low-ordered bytes, so
 * for big-endian we need to adjust destination pointer accordingly, based on
 * field byte size
 */
#define __CORE_BITFIELD_PROBE_READ(dst, src, fld)			      \
	bpf_probe_read_kernel(						      \
			(void *)dst + (8 - __CORE_RELO(src, fld, BYTE_SIZE)), \
			__CORE_RELO(src, fld, BYTE_SIZE),		      \
			(const void *)src + __CORE_RELO(src, fld, BYTE_OFFSET))
#endif

/*
 * Extract bitfield, identified by s->field, and return its value as u64.
 * All this is done in relocatable manner, so bitfield changes such as
 * signedness, bit size, offset changes, this will be handled automatically.
 * This version of macro is using bpf_probe_read_kernel() to read underlying
 * integer storage. Macro functions as an expression and its return type is
 * bpf_probe_read_kernel()'s return value: 0, on success, <0 on error.
 */
#define BPF_CORE_READ_BITFIELD_PROBED(s, field) ({			      \
	unsigned long long val = 0;					      \
									      \
	__CORE_BITFIELD_PROBE_READ(&val, s, field);			      \
	val <<= __CORE_RELO(s, field, LSHIFT_U64);			      \
	if (__CORE_RELO(s, field, SIGNED))				      \
		val = ((long long)val) >> __CORE_RELO(s, field, RSHIFT_U64);  \
	else								      \
		val = val >> __CORE_RELO(s, field, RSHIFT_U64);		      \
	val;								      \
})

/*
 * Extract bitfield, identified by s->field, and return its value as u64.
 * This version of macro is using direct memory reads and should be used from
 * BPF program types that support such functionality (e.g., typed raw
 * tracepoints).
 */
#define BPF_CORE_READ_BITFIELD(s, field) ({				      \
	const void *p = (const void *)s + __CORE_RELO(s, field, BYTE_OFFSET); \
	unsigned long long val;						      \
									      \
	/* This is a so-called barrier_var() operation that makes specified   \
	 * variable "a black box" for optimizing compiler.		      \
	 * It forces compiler to perform BYTE_OFFSET relocation on p and use  \
	 * its calculated value in the switch below, instead of applying      \
	 * the same relocation 4 times for each individual memory load.       \
	 */								      \
	asm volatile("" : "=r"(p) : "0"(p));				      \
									      \
	switch (__CORE_RELO(s, field, BYTE_SIZE)) {			      \
	case 1: val = *(const unsigned char *)p; break;			      \
	case 2: val = *(const unsigned short *)p; break;		      \
	case 4: val = *(const unsigned int *)p; break;			      \
	case 8: val = *(const unsigned long long *)p; break;		      \
	}								      \
	val <<= __CORE_RELO(s, field, LSHIFT_U64);			      \
	if (__CORE_RELO(s, field, SIGNED))				      \
		val = ((long long)val) >> __CORE_RELO(s, field, RSHIFT_U64);  \
	else								      \
		val = val >> __CORE_RELO(s, field, RSHIFT_U64);		      \
	val;								      \
})

/*
 * Convenience macro to check that field actually exists in target kernel's.
 * Returns:
 *    1, if matching field is present in target kernel;
 *    0, if no matching field found.
 */
#define bpf_core_field_exists(field)					    \
	__builtin_preserve_field_info(field, BPF_FIELD_EXISTS)

/*
 * Convenience macro to get the byte size of a field. Works for integers,
 * struct/unions, pointers, arrays, and enums.
 */
#define bpf_core_field_size(field)					    \
	__builtin_preserve_field_info(field, BPF_FIELD_BYTE_SIZE)

/*
 * Convenience macro to get BTF type ID of a specified type, using a local BTF
 * information. Return 32-bit unsigned integer with type ID from program's own
 * BTF. Always succeeds.
 */
#define bpf_core_type_id_local(type)					    \
	__builtin_btf_type_id(*(typeof(type) *)0, BPF_TYPE_ID_LOCAL)

/*
 * Convenience macro to get BTF type ID of a target kernel's type that matches
 * specified local type.
 * Returns:
 *    - valid 32-bit unsigned type ID in kernel BTF;
 *    - 0, if no matching type was found in a target kernel BTF.
 */
#define bpf_core_type_id_kernel(type)					    \
	__builtin_btf_type_id(*(typeof(type) *)0, BPF_TYPE_ID_TARGET)

/*
 * Convenience macro to check that provided named type
 * (struct/union/enum/typedef) exists in a target kernel.
 * Returns:
 *    1, if such type is present in target kernel's BTF;
 *    0, if no matching type is found.
 */
#define bpf_core_type_exists(type)					    \
	__builtin_preserve_type_info(*(typeof(type) *)0, BPF_TYPE_EXISTS)

/*
 * Convenience macro to check that provided named type
 * (struct/union/enum/typedef) "matches" that in a target kernel.
 * Returns:
 *    1, if the type matches in the target kernel's BTF;
 *    0, if the type does not match any in the target kernel
 */
#define bpf_core_type_matches(type)					    \
	__builtin_preserve_type_info(*(typeof(type) *)0, BPF_TYPE_MATCHES)


/*
 * Convenience macro to get the byte size of a provided named type
 * (struct/union/enum/typedef) in a target kernel.
 * Returns:
 *    >= 0 size (in bytes), if type is present in target kernel's BTF;
 *    0, if no matching type is found.
 */
#define bpf_core_type_size(type)					    \
	__builtin_preserve_type_info(*(typeof(type) *)0, BPF_TYPE_SIZE)

/*
 * Convenience macro to check that provided enumerator value is defined in
 * a target kernel.
 * Returns:
 *    1, if specified enum type and its enumerator value are present in target
 *    kernel's BTF;
 *    0, if no matching enum and/or enum value within that enum is found.
 */
#define bpf_core_enum_value_exists(enum_type, enum_value)		    \
	__builtin_preserve_enum_value(*(typeof(enum_type) *)enum_value, BPF_ENUMVAL_EXISTS)

/*
 * Convenience macro to get the integer value of an enumerator value in
 * a target kernel.
 * Returns:
 *    64-bit value, if specified enum type and its enumerator value are
 *    present in target kernel's BTF;
 *    0, if no matching enum and/or enum value within that enum is found.
 */
#define bpf_core_enum_value(enum_type, enum_value)			    \
	__builtin_preserve_enum_value(*(typeof(enum_type) *)enum_value, BPF_ENUMVAL_VALUE)

/*
 * bpf_core_read() abstracts away bpf_probe_read_kernel() call and captures
 * offset relocation for source address using __builtin_preserve_access_index()
 * built-in, provided by Clang.
 *
 * __builtin_preserve_access_index() takes as an argument an expression of
 * taking an address of a field within struct/union. It makes compiler emit
 * a relocation, which records BTF type ID describing root struct/union and an
 * accessor string which describes exact embedded field that was used to take
 * an address. See detailed description of this relocation format and
 * semantics in comments to struct bpf_field_reloc in libbpf_internal.h.
 *
 * This relocation allows libbpf to adjust BPF instruction to use correct
 * actual field offset, based on target kernel BTF type that matches original
 * (local) BTF, used to record relocation.
 */
#define bpf_core_read(dst, sz, src)					    \
	bpf_probe_read_kernel(dst, sz, (const void *)__builtin_preserve_access_index(src))

/* NOTE: see comments for BPF_CORE_READ_USER() about the proper types use. */
#define bpf_core_read_user(dst, sz, src)				    \
	bpf_probe_read_user(dst, sz, (const void *)__builtin_preserve_access_index(src))
/*
 * bpf_core_read_str() is a thin wrapper around bpf_probe_read_str()
 * additionally emitting BPF CO-RE field relocation for specified source
 * argument.
 */
#define bpf_core_read_str(dst, sz, src)					    \
	bpf_probe_read_kernel_str(dst, sz, (const void *)__builtin_preserve_access_index(src))

/* NOTE: see comments for BPF_CORE_READ_USER() about the proper types use. */
#define bpf_core_read_user_str(dst, sz, src)				    \
	bpf_probe_read_user_str(dst, sz, (const void *)__builtin_preserve_access_index(src))

#define ___concat(a, b) a ## b
#define ___apply(fn, n) ___concat(fn, n)
#define ___nth(_1, _2, _3, _4, _5, _6, _7, _8, _9, _10, __11, N, ...) N

/*
 * return number of provided arguments; used for switch-based variadic macro
 * definitions (see ___last, ___arrow, etc below)
 */
#define ___narg(...) ___nth(_, ##__VA_ARGS__, 10, 9, 8, 7, 6, 5, 4, 3, 2, 1, 0)
/*
 * return 0 if no arguments are passed, N - otherwise; used for
 * recursively-defined macros to specify termination (0) case, and generic
 * (N) case (e.g., ___read_ptrs, ___core_read)
 */
#define ___empty(...) ___nth(_, ##__VA_ARGS__, N, N, N, N, N, N, N, N, N, N, 0)

#define ___last1(x) x
#define ___last2(a, x) x
#define ___last3(a, b, x) x
#define ___last4(a, b, c, x) x
#define ___last5(a, b, c, d, x) x
#define ___last6(a, b, c, d, e, x) x
#define ___last7(a, b, c, d, e, f, x) x
#define ___last8(a, b, c, d, e, f, g, x) x
#define ___last9(a, b, c, d, e, f, g, h, x) x
#define ___last10(a, b, c, d, e, f, g, h, i, x) x
#define ___last(...) ___apply(___last, ___narg(__VA_ARGS__))(__VA_ARGS__)

#define ___nolast2(a, _) a
#define ___nolast3(a, b, _) a, b
#define ___nolast4(a, b, c, _) a, b, c
#define ___nolast5(a, b, c, d, _) a, b, c, d
#define ___nolast6(a, b, c, d, e, _) a, b, c, d, e
#define ___nolast7(a, b, c, d, e, f, _) a, b, c, d, e, f
#define ___nolast8(a, b, c, d, e, f, g, _) a, b, c, d, e, f, g
#define ___nolast9(a, b, c, d, e, f, g, h, _) a, b, c, d, e, f, g, h
#define ___nolast10(a, b, c, d, e, f, g, h, i, _) a, b, c, d, e, f, g, h, i
#define ___nolast(...) ___apply(___nolast, ___narg(__VA_ARGS__))(__VA_ARGS__)

#define ___arrow1(a) a
#define ___arrow2(a, b) a->b
#define ___arrow3(a, b, c) a->b->c
#define ___arrow4(a, b, c, d) a->b->c->d
#define ___arrow5(a, b, c, d, e) a->b->c->d->e
#define ___arrow6(a, b, c, d, e, f) a->b->c->d->e->f
#define ___arrow7(a, b, c, d, e, f, g) a->b->c->d->e->f->g
#define ___arrow8(a, b, c, d, e, f, g, h) a->b->c->d->e->f->g->h
#define ___arrow9(a, b, c, d, e, f, g, h, i) a->b->c->d->e->f->g->h->i
#define ___arrow10(a, b, c, d, e, f, g, h, i, j) a->b->c->d->e->f->g->h->i->j
#define ___arrow(...) ___apply(___arrow, ___narg(__VA_ARGS__))(__VA_ARGS__)

#define ___type(...) typeof(___arrow(__VA_ARGS__))

#define ___read(read_fn, dst, src_type, src, accessor)			    \
	read_fn((void *)(dst), sizeof(*(dst)), &((src_type)(src))->accessor)

/* "recursively" read a sequence of inner pointers using local __t var */
#define ___rd_first(fn, src, a) ___read(fn, &__t, ___type(src), src, a);
#define ___rd_last(fn, ...)						    \
	___read(fn, &__t, ___type(___nolast(__VA_ARGS__)), __t, ___last(__VA_ARGS__));
#define ___rd_p1(fn, ...) const void *__t; ___rd_first(fn, __VA_ARGS__)
#define ___rd_p2(fn, ...) ___rd_p1(fn, ___nolast(__VA_ARGS__)) ___rd_last(fn, __VA_ARGS__)
#define ___rd_p3(fn, ...) ___rd_p2(fn, ___nolast(__VA_ARGS__)) ___rd_last(fn, __VA_ARGS__)
#define ___rd_p4(fn, ...) ___rd_p3(fn, ___nolast(__VA_ARGS__)) ___rd_last(fn, __VA_ARGS__)
#define ___rd_p5(fn, ...) ___rd_p4(fn, ___nolast(__VA_ARGS__)) ___rd_last(fn, __VA_ARGS__)
#define ___rd_p6(fn, ...) ___rd_p5(fn, ___nolast(__VA_ARGS__)) ___rd_last(fn, __VA_ARGS__)
#define ___rd_p7(fn, ...) ___rd_p6(fn, ___nolast(__VA_ARGS__)) ___rd_last(fn, __VA_ARGS__)
#define ___rd_p8(fn, ...) ___rd_p7(fn, ___nolast(__VA_ARGS__)) ___rd_last(fn, __VA_ARGS__)
#define ___rd_p9(fn, ...) ___rd_p8(fn, ___nolast(__VA_ARGS__)) ___rd_last(fn, __VA_ARGS__)
#define ___read_ptrs(fn, src, ...)					    \
	___apply(___rd_p, ___narg(__VA_ARGS__))(fn, src, __VA_ARGS__)

#define ___core_read0(fn, fn_ptr, dst, src, a)				    \
	___read(fn, dst, ___type(src), src, a);
#define ___core_readN(fn, fn_ptr, dst, src, ...)			    \
	___read_ptrs(fn_ptr, src, ___nolast(__VA_ARGS__))		    \
	___read(fn, dst, ___type(src, ___nolast(__VA_ARGS__)), __t,	    \
		___last(__VA_ARGS__));
#define ___core_read(fn, fn_ptr, dst, src, a, ...)			    \
	___apply(___core_read, ___empty(__VA_ARGS__))(fn, fn_ptr, dst,	    \
						      src, a, ##__VA_ARGS__)

/*
 * BPF_CORE_READ_INTO() is a more performance-conscious variant of
 * BPF_CORE_READ(), in which final field is read into user-provided storage.
 * See BPF_CORE_READ() below for more details on general usage.
 */
#define BPF_CORE_READ_INTO(dst, src, a, ...) ({				    \
	___core_read(bpf_core_read, bpf_core_read,			    \
		     dst, (src), a, ##__VA_ARGS__)			    \
})

/*
 * Variant of BPF_CORE_READ_INTO() for reading from user-space memory.
 *
 * NOTE: see comments for BPF_CORE_READ_USER() about the proper types use.
 */
#define BPF_CORE_READ_USER_INTO(dst, src, a, ...) ({			    \
	___core_read(bpf_core_read_user, bpf_core_read_user,		    \
		     dst, (src), a, ##__VA_ARGS__)			    \
})

/* Non-CO-RE variant of BPF_CORE_READ_INTO() */
#define BPF_PROBE_READ_INTO(dst, src, a, ...) ({			    \
	___core_read(bpf_probe_read, bpf_probe_read,			    \
		     dst, (src), a, ##__VA_ARGS__)			    \
})

/* Non-CO-RE variant of BPF_CORE_READ_USER_INTO().
 *
 * As no CO-RE relocations are emitted, source types can be arbitrary and are
 * not restricted to kernel types only.
 */
#define BPF_PROBE_READ_USER_INTO(dst, src, a, ...) ({			    \
	___core_read(bpf_probe_read_user, bpf_probe_read_user,		    \
		     dst, (src), a, ##__VA_ARGS__)			    \
})

/*
 * BPF_CORE_READ_STR_INTO() does same "pointer chasing" as
 * BPF_CORE_READ() for intermediate pointers, but then executes (and returns
 * corresponding error code) bpf_core_read_str() for final string read.
 */
#define BPF_CORE_READ_STR_INTO(dst, src, a, ...) ({			    \
	___core_read(bpf_core_read_str, bpf_core_read,			    \
		     dst, (src), a, ##__VA_ARGS__)			    \
})

/*
 * Variant of BPF_CORE_READ_STR_INTO() for reading from user-space memory.
 *
 * NOTE: see comments for BPF_CORE_READ_USER() about the proper types use.
 */
#define BPF_CORE_READ_USER_STR_INTO(dst, src, a, ...) ({		    \
	___core_read(bpf_core_read_user_str, bpf_core_read_user,	    \
		     dst, (src), a, ##__VA_ARGS__)			    \
})

/* Non-CO-RE variant of BPF_CORE_READ_STR_INTO() */
#define BPF_PROBE_READ_STR_INTO(dst, src, a, ...) ({			    \
	___core_read(bpf_probe_read_str, bpf_probe_read,		    \
		     dst, (src), a, ##__VA_ARGS__)			    \
})

/*
 * Non-CO-RE variant of BPF_CORE_READ_USER_STR_INTO().
 *
 * As no CO-RE relocations are emitted, source types can be arbitrary and are
 * not restricted to kernel types only.
 */
#define BPF_PROBE_READ_USER_STR_INTO(dst, src, a, ...) ({		    \
	___core_read(bpf_probe_read_user_str, bpf_probe_read_user,	    \
		     dst, (src), a, ##__VA_ARGS__)			    \
})

/*
 * BPF_CORE_READ() is used to simplify BPF CO-RE relocatable read, especially
 * when there are few pointer chasing steps.
 * E.g., what in non-BPF world (or in BPF w/ BCC) would be something like:
 *	int x = s->a.b.c->d.e->f->g;
 * can be succinctly achieved using BPF_CORE_READ as:
 *	int x = BPF_CORE_READ(s, a.b.c, d.e, f, g);
 *
 * BPF_CORE_READ will decompose above statement into 4 bpf_core_read (BPF
 * CO-RE relocatable bpf_probe_read_kernel() wrapper) calls, logically
 * equivalent to:
 * 1. const void *__t = s->a.b.c;
 * 2. __t = __t->d.e;
 * 3. __t = __t->f;
 * 4. return __t->g;
 *
 * Equivalence is logical, because there is a heavy type casting/preservation
 * involved, as well as all the reads are happening through
 * bpf_probe_read_kernel() calls using __builtin_preserve_access_index() to
 * emit CO-RE relocations.
 *
 * N.B. Only up to 9 "field accessors" are supported, which should be more
 * than enough for any practical purpose.
 */
#define BPF_CORE_READ(src, a, ...) ({					    \
	___type((src), a, ##__VA_ARGS__) __r;				    \
	BPF_CORE_READ_INTO(&__r, (src), a, ##__VA_ARGS__);		    \
	__r;								    \
})

/*
 * Variant of BPF_CORE_READ() for reading from user-space memory.
 *
 * NOTE: all the source types involved are still *kernel types* and need to
 * exist in kernel (or kernel module) BTF, otherwise CO-RE relocation will
 * fail. Custom user types are not relocatable with CO-RE.
 * The typical situation in which BPF_CORE_READ_USER() might be used is to
 * read kernel UAPI types from the user-space memory passed in as a syscall
 * input argument.
 */
#define BPF_CORE_READ_USER(src, a, ...) ({				    \
	___type((src), a, ##__VA_ARGS__) __r;				    \
	BPF_CORE_READ_USER_INTO(&__r, (src), a, ##__VA_ARGS__);		    \
	__r;								    \
})

/* Non-CO-RE variant of BPF_CORE_READ() */
#define BPF_PROBE_READ(src, a, ...) ({					    \
	___type((src), a, ##__VA_ARGS__) __r;				    \
	BPF_PROBE_READ_INTO(&__r, (src), a, ##__VA_ARGS__);		    \
	__r;								    \
})

/*
 * Non-CO-RE variant of BPF_CORE_READ_USER().
 *
 * As no CO-RE relocations are emitted, source types can be arbitrary and are
 * not restricted to kernel types only.
 */
#define BPF_PROBE_READ_USER(src, a, ...) ({				    \
	___type((src), a, ##__VA_ARGS__) __r;				    \
	BPF_PROBE_READ_USER_INTO(&__r, (src), a, ##__VA_ARGS__);	    \
	__r;								    \
})

#endif

