#!/bin/bash
# tools_alpha.sh [dir] - run every quick check on a (benign) variant tree; one line per check, details of failures
cd "$(dirname "$0")" || exit 2
T=${1:-/tmp/alpha}; O=$(mktemp -d)
for p in C01 C02 C03 C04 C05 C06 C07 C08 C09 C10 C12 C13 C14 C15 C16 C17 C18 C19 C20; do echo $p; done | xargs -P 6 -I{} sh -c "./bin/daecheck -p {} -tier quick -repo $T -out $O > $O/{}.log 2>&1; echo \"{} rc=\$? \$(grep -c '^[a-z?-].*\\[C' $O/{}.log)\"" | sort
cat $O/C*.log | grep '^[a-z?-].*\[C' | cut -c1-${2:-300} > /tmp/alpha_fail.txt
rm -rf $O
