#!/bin/bash
# tools_benign.sh <patch.diff> [props...] - apply a behaviour-preserving patch to a scratch copy of /repo and run the quick
# checks on it (default: all); every report is a false alarm of the machinery.  Prints "<patch> CLEAN" or the reports.
cd "$(dirname "$0")" || exit 2
P=$(realpath "$1"); shift
PROPS=${@:-C01 C02 C03 C04 C05 C06 C07 C08 C09 C10 C12 C13 C14 C15 C16 C17 C18 C19 C20}
T=$(mktemp -d /tmp/benign.XXXXXX); O=$(mktemp -d)
rsync -a --exclude .git /repo/ $T/
( cd $T && git init -q . 2>/dev/null; git -C $T apply "$P" ) || { echo "$P PATCH-DOES-NOT-APPLY"; rm -rf $T $O; exit 3; }
for p in $PROPS; do echo $p; done | xargs -P 5 -I{} sh -c "./bin/daecheck -p {} -tier quick -repo $T -out $O > $O/{}.log 2>&1"
n=$(cat $O/C*.log | grep -c '^VIOLATION')
if [ "$n" = 0 ]; then echo "$P CLEAN"; else echo "$P ALARMS=$n"; cat $O/C*.log | grep '\[C[0-9][0-9]/' | cut -c1-420; fi
rm -rf $T $O
