#!/usr/bin/env python3
"""Print the markdown seed -> check table of DESIGN.md §9.5/§9.7 from seeded/*/meta.json."""
import json, glob, os, sys
V = os.path.dirname(os.path.abspath(__file__))
pat = sys.argv[1] if len(sys.argv) > 1 else 'C??-m[12]'
print("| seed | change (title given by its author) | reported by: rule construct |")
print("|------|-------------------------------------|-----------------------------|")
for d in sorted(glob.glob(V + '/seeded/' + pat)):
    m = json.load(open(d + '/meta.json'))
    cb = m.get('caught_by', {})
    rep = "; ".join("%s %s" % (p, " ".join(v.split(":")[0].split()[:2])) for p, v in sorted(cb.items())) or "—"
    if m.get('missed_by'):
        rep += " (not seen by " + ", ".join(m['missed_by']) + ")"
    print("| %s | %s | %s |" % (os.path.basename(d), m['title'].replace('|', '/'), rep))
