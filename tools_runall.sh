#!/bin/bash
# tools_runall.sh [quick|thorough] - run every registered check on /repo, print one line each, exit 1 if any fails.
cd "$(dirname "$0")" || exit 2
tier=${1:-quick}; rc=0
for p in C01 C02 C03 C04 C05 C06 C07 C08 C09 C10 C12 C13 C14 C15 C16 C17 C18 C19 C20; do
  out=$(./bin/daecheck -p $p -tier $tier 2>&1); r=$?
  echo "$p rc=$r $(echo "$out" | grep -m1 'tier=' | cut -d' ' -f3-5)"
  if [ $r -ne 0 ]; then rc=1; echo "$out" | grep -v '^  ' | head -5; fi
done
exit $rc
