#!/usr/bin/env python3
"""cinterp.py — finite-decision-table propagation over a C function's CFG
(constant propagation with forking at undecided conditions).  Works on the
clang JSON AST; nothing is compiled or executed."""
import re
from ccfg import *

MASK = {1: 0xFF, 2: 0xFFFF, 4: 0xFFFFFFFF, 8: 0xFFFFFFFFFFFFFFFF}

def eval_expr(n, env, consts):
    if n is None:
        return None
    k = n.get("kind")
    ch = inner(n)
    if k in ("ParenExpr", "ConstantExpr", "ExprWithCleanups", "FullExpr"):
        return eval_expr(ch[-1], env, consts) if ch else None
    if k in ("ImplicitCastExpr", "CStyleCastExpr"):
        v = eval_expr(ch[-1], env, consts) if ch else None
        if v is None:
            return None
        if n.get("castKind") == "IntegralToBoolean":
            return 1 if v != 0 else 0
        qt = n.get("type", {}).get("qualType", "")
        if qt in ("__u8", "unsigned char", "u8"):
            return v & 0xFF
        if qt in ("_Bool", "bool"):
            return 1 if v != 0 else 0
        return v
    if k == "IntegerLiteral":
        return int(n.get("value"))
    if k == "DeclRefExpr":
        nm = n.get("referencedDecl", {}).get("name")
        if nm in env:
            v = env[nm]
            return v if not isinstance(v, str) else None
        if nm in consts:
            return consts[nm]
        return None
    if k == "MemberExpr" or k == "ArraySubscriptExpr":
        v = env.get(render(n))
        return v if not isinstance(v, str) else None
    if k == "CallExpr":
        f = render(ch[0])
        if f == "__builtin_expect":
            return eval_expr(ch[1], env, consts)
        key = render(n)
        return env.get(key)
    if k == "UnaryOperator":
        op = n.get("opcode")
        v = eval_expr(ch[0], env, consts)
        if v is None:
            return None
        if op == "!":
            return 0 if v else 1
        if op == "~":
            return ~v & 0xFFFFFFFFFFFFFFFF
        if op == "-":
            return -v
        if op == "+":
            return v
        return None
    if k == "BinaryOperator":
        op = n.get("opcode")
        if op == "&&":
            l = eval_expr(ch[0], env, consts)
            if l is not None and not l:
                return 0
            r = eval_expr(ch[1], env, consts)
            if r is not None and not r:
                return 0
            return 1 if (l is not None and r is not None) else None
        if op == "||":
            l = eval_expr(ch[0], env, consts)
            if l is not None and l:
                return 1
            r = eval_expr(ch[1], env, consts)
            if r is not None and r:
                return 1
            return 0 if (l is not None and r is not None) else None
        if op == ",":
            return eval_expr(ch[1], env, consts)
        l, r = eval_expr(ch[0], env, consts), eval_expr(ch[1], env, consts)
        if op == "&" and (l == 0 or r == 0):
            return 0
        if l is None or r is None:
            return None
        try:
            return {"==": lambda: int(l == r), "!=": lambda: int(l != r), "<": lambda: int(l < r), "<=": lambda: int(l <= r),
                    ">": lambda: int(l > r), ">=": lambda: int(l >= r), "&": lambda: l & r, "|": lambda: l | r, "^": lambda: l ^ r,
                    "+": lambda: l + r, "-": lambda: l - r, "*": lambda: l * r, "<<": lambda: l << r, ">>": lambda: l >> r,
                    "/": lambda: l // r if r else None, "%": lambda: l % r if r else None}[op]()
        except KeyError:
            return None
    if k == "ConditionalOperator":
        c = eval_expr(ch[0], env, consts)
        if c is None:
            return None
        return eval_expr(ch[1] if c else ch[2], env, consts)
    return None

def symbolic(n, env, consts):
    """symbolic value of an expression whose conditional operators can be decided"""
    n = strip(n)
    if n.get("kind") == "ConditionalOperator":
        ch = inner(n)
        c = eval_expr(ch[0], env, consts)
        if c is not None:
            br = ch[1] if c else ch[2]
            v = eval_expr(br, env, consts)
            return v if v is not None else "sym:" + render_sub(br, env)
    if n.get("kind") == "CallExpr":
        return "sym:" + render_sub(n, env)
    return None

def render_sub(n, env):
    """render with symbolic locals substituted"""
    t = render(n)
    for k, v in env.items():
        if isinstance(v, str) and v.startswith("sym:") and re.fullmatch(r"\w+", k):
            t = re.sub(r"\b" + re.escape(k) + r"\b", v[4:], t)
    return t

def lhs_key(n):
    n = strip(n)
    if n.get("kind") == "DeclRefExpr":
        return n.get("referencedDecl", {}).get("name")
    return render(n)

def apply_stmt(n, env, consts, events, observe):
    """state update for simple statements; returns nothing"""
    k = n.get("kind")
    ch = inner(n)
    if observe:
        ev = observe(n, env)
        if ev:
            events.append(ev)
    if k == "DeclStmt":
        for d in ch:
            if d.get("kind") == "VarDecl":
                init = [c for c in inner(d) if c.get("kind", "").endswith("Expr") or c.get("kind") in ("IntegerLiteral", "BinaryOperator", "UnaryOperator", "ConditionalOperator")]
                nm = d.get("name")
                if init:
                    v = eval_expr(init[-1], env, consts)
                    if v is None:
                        v = symbolic(init[-1], env, consts)
                    qt = d.get("type", {}).get("qualType", "")
                    if isinstance(v, int) and qt in ("_Bool", "bool"):
                        v = 1 if v else 0
                    if isinstance(v, int) and qt in ("__u8",):
                        v &= 0xFF
                    env[nm] = v
                else:
                    env.pop(nm, None)
        return
    n2 = strip(n)
    k = n2.get("kind")
    ch = inner(n2)
    if k == "BinaryOperator" and n2.get("opcode") == "=":
        env[lhs_key(ch[0])] = eval_expr(ch[1], env, consts)
        return
    if k == "CompoundAssignOperator":
        key = lhs_key(ch[0])
        cur = env.get(key)
        r = eval_expr(ch[1], env, consts)
        op = n2.get("opcode", "")[:-1]
        if cur is None or r is None:
            env[key] = None
        else:
            env[key] = {"|": cur | r, "&": cur & r, "+": cur + r, "-": cur - r, "^": cur ^ r}.get(op)
        return
    if k == "UnaryOperator" and n2.get("opcode") in ("++", "--"):
        key = lhs_key(ch[0])
        cur = env.get(key)
        env[key] = None if cur is None else cur + (1 if n2.get("opcode") == "++" else -1)

def run(cfg, env0, consts, tracked, observe=None, max_steps=4000, stop=None, observe_cond=None):
    """returns sorted list of outcome strings"""
    outs = set()
    undecided = []
    seen = set()
    work = [(cfg.entry, dict(env0), [], 0)]
    while work:
        n, env, events, steps = work.pop()
        if steps > max_steps:
            undecided.append("path longer than the step bound")
            continue
        key = (n.id, tuple(sorted((k, str(v)) for k, v in env.items() if k in tracked or isinstance(v, (int, str)))), tuple(events))
        if key in seen:
            continue
        seen.add(key)
        if n.kind == "exit":
            continue
        if stop is not None and stop(n):
            st = " ".join("%s=%s" % (k, env.get(k)) for k in tracked)
            outs.add("stop {%s} [%s]" % (st, "; ".join(events)))
            continue
        if n.kind == "ret":
            ch = inner(n.ast)
            v = eval_expr(ch[0], env, consts) if ch else None
            rv = str(v) if v is not None else ("sym:" + render(ch[0]) if ch else "")
            st = " ".join("%s=%s" % (k, env.get(k)) for k in tracked)
            outs.add("return(%s) {%s} [%s]" % (rv, st, "; ".join(events)))
            continue
        if n.kind == "stmt":
            env = dict(env)
            events = list(events)
            apply_stmt(n.ast, env, consts, events, observe)
            for s in n.succ:
                work.append((s, env, events, steps + 1))
            continue
        if n.kind == "cond":
            v = eval_expr(n.ast, env, consts)
            if v is None:
                for i, s in enumerate(n.succ):
                    evs = list(events)
                    if observe_cond:
                        e = observe_cond(n, env, i == 0)
                        if e:
                            evs.append(e)
                    work.append((s, dict(env), evs, steps + 1))
            else:
                work.append((n.succ[0] if v else n.succ[1], env, events, steps + 1))
            continue
        if n.kind == "switch":
            v = eval_expr(n.ast, env, consts)
            if v is None:
                for s in n.succ:
                    work.append((s, dict(env), list(events), steps + 1))
            else:
                chosen = None
                default = None
                for s in n.succ:
                    labs = s.label or []
                    if "default" in labs:
                        default = s
                    for l in labs:
                        if l != "default":
                            try:
                                if int(l) == v:
                                    chosen = s
                            except ValueError:
                                lv = consts.get(l)
                                if lv == v:
                                    chosen = s
                if chosen is None:
                    chosen = default if default is not None else (n.succ[-1] if n.succ else None)
                if chosen is not None:
                    work.append((chosen, env, events, steps + 1))
            continue
        for s in n.succ:
            work.append((s, env, events, steps + 1))
    return sorted(outs), undecided
