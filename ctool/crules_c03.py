"""C03 rules over tproxy.c (clang JSON AST): parser sibling agreement,
fail-closed liveness, block/direct edges, routing-error drop, loop guard,
sticky decision, decision-record completeness."""
import re, json
from ccfg import *
import cinterp

TC = {0: "OK", 2: "SHOT", 3: "PIPE", 7: "REDIRECT"}

def walk_ast(n, fn):
    fn(n)
    for c in inner(n):
        walk_ast(c, fn)

def calls_in(node):
    out = []
    def f(x):
        if x.get("kind") == "CallExpr":
            out.append(render(inner(x)[0]))
    if node is not None:
        walk_ast(node, f)
    return out

def ncalls(n, *names):
    return n.ast is not None and any(c in names for c in calls_in(n.ast))

def ret_class(n):
    """class of a 'ret' node"""
    ch = inner(n.ast)
    if not ch:
        return "VOID"
    cs = calls_in(ch[0])
    if any(c.startswith("redirect_to_control_plane") or c == "redirect_lan_packet_to_control_plane" for c in cs):
        return "REDIRECT"
    e = strip(ch[0])
    if e.get("kind") == "IntegerLiteral":
        return TC.get(int(e["value"]), "INT%s" % e["value"])
    if e.get("kind") == "UnaryOperator" and e.get("opcode") == "-":
        return "NEG"
    return "EXPR:" + render(e)

def reach_ret_classes(cfg, start_nodes, edge=None):
    out = {}
    seen = set()
    work = list(start_nodes)
    while work:
        n = work.pop()
        if n.id in seen:
            continue
        seen.add(n.id)
        if n.kind == "ret":
            out.setdefault(ret_class(n), []).append(n.line)
            continue
        for i, s in enumerate(n.succ):
            if edge is None or edge(n, i):
                work.append(s)
    return out

def member_accesses(fn_ast, struct_name):
    """(field, is_write, line) for MemberExpr whose base has type struct_name"""
    out = []
    def visit(x, write_ctx=False):
        k = x.get("kind")
        ch = inner(x)
        if k in ("BinaryOperator", "CompoundAssignOperator") and x.get("opcode", "").endswith("=") and x.get("opcode") not in ("==", "!=", "<=", ">="):
            visit(ch[0], True)
            visit(ch[1], False)
            return
        if k == "MemberExpr":
            base = ch[0] if ch else None
            bt = (base or {}).get("type", {}).get("qualType", "") if base else ""
            bt2 = strip(base).get("type", {}).get("qualType", "") if base else ""
            if ("struct " + struct_name) in bt or ("struct " + struct_name) in bt2:
                out.append((x.get("name"), write_ctx, lineof(x)))
            for c in ch:
                visit(c, False)
            return
        for c in ch:
            visit(c, write_ctx if k in ("ParenExpr", "ImplicitCastExpr") else False)
    visit(fn_ast)
    return out

def run(ast, fns, consts, macros, cf, ob, OBS):
    compute_key_params(fns)
    key_hygiene(fns, cf, ob)
    health_slot_table(fns, consts, macros, ob)
    raw_header_bytes(fns, cf, ob)
    syn_restarts_tracking(fns, ob)
    OBS.append({"rule": "PARSER/raw-byte-reads", "construct": "instances", "pos": "-", "ok": OBS_N.get("raw", 0) >= 2, "detail": "raw header bytes read=%d floor=2" % OBS_N.get("raw", 0)})
    # ---------------------------------------------------------- 1. parsers
    fast, slow = fns.get("parse_transport_fast"), fns.get("parse_transport_slow")
    if not fast or not slow:
        ob("PARSER", "anchors", None, False, "parse_transport_fast / parse_transport_slow not found")
    else:
        # callers graph to exclude helpers that are only called by the parsers (they read the packet itself)
        callers = {}
        for nm, f in fns.items():
            for c in set(calls_in(f)):
                callers.setdefault(c, set()).add(nm)
        parser_only = {nm for nm, cs in callers.items() if cs and cs <= {"parse_transport_fast", "parse_transport_slow"}}
        n_reads = 0
        for st in ("tcphdr", "udphdr", "icmp6hdr"):
            reads = {}
            for nm, f in fns.items():
                if nm in ("parse_transport_fast", "parse_transport_slow") or nm in parser_only:
                    continue
                for fld, w, line in member_accesses(f, st):
                    if not w:
                        reads.setdefault(fld, []).append("%s:%s" % (nm, line))
            # writes by the fast parser (through its local pointer into the context)
            wr = {}
            for fld, w, line in member_accesses(fast, st):
                if w:
                    wr[fld] = wr.get(fld, 0) + 1
            # whole-struct loads in the fast parser
            whole = False
            def chk(x):
                nonlocal whole
                if x.get("kind") == "CallExpr":
                    t = render(x)
                    if ("bpf_skb_load_bytes" in t or "memcpy" in t) and ("sizeof(struct %s)" % st in t or "sizeof(" in t and st[:-3] + "h" in t):
                        pass
            walk_ast(fast, chk)
            missing = sorted(f for f in reads if f not in wr)
            n_reads += len(reads)
            once = sorted(f for f, k in wr.items() if f in reads and k < 2 and st == "tcphdr")
            ob("PARSER", "fields-read-are-written-by-fast-parser@" + st, fast.get("loc", {}).get("line"), not missing and not once,
               "every member of struct %s read outside the parsers (%s) is copied by the direct-access parser in both its IPv4 and IPv6 branch (the byte-load parser copies the whole header)%s" % (
                   st, ", ".join(sorted(reads)), "" if not missing and not once else " — never copied: %s; copied in one branch only: %s; e.g. read at %s: the verdict then depends on which parser handled the frame" % (
                       missing, once, (reads.get((missing + once)[0]) or ["?"])[0])))
        OBS.append({"rule": "PARSER/read-members", "construct": "instances", "pos": "-", "ok": n_reads >= 6, "detail": "read members=%d floor=6" % n_reads})
        # fragment test agreement
        def frag_masks(f):
            ms = set()
            def v(x):
                if x.get("kind") == "BinaryOperator" and x.get("opcode") == "&":
                    l, r = inner(x)
                    if "frag_off" in render(l):
                        rv = strip(r)
                        if rv.get("kind") == "IntegerLiteral":
                            ms.add(int(rv["value"]))
            walk_ast(f, v)
            return ms
        mf, msl = frag_masks(fast), frag_masks(slow)
        v4f = {m for m in mf if m > 0xff}
        v4s = {m for m in msl if m > 0xff}
        ob("PARSER", "fragment-test-agreement", fast.get("loc", {}).get("line"), v4f == v4s and 0x1FFF in v4f,
           "both parsers classify an IPv4 frame as a non-initial fragment with the same offset mask (fast %s, slow %s): the first fragment (offset 0, MF set) carries the L4 header and is routed by both" % (sorted(hex(x) for x in v4f), sorted(hex(x) for x in v4s)))
        # return code classes of both parsers
        def rets(f):
            g = CFG(f)
            return sorted({ret_class(n) if ret_class(n) in ("OK", "NEG", "INT1", "SHOT") else ("FRAG" if "2" in ret_class(n) else ret_class(n)) for n in g.nodes if n.kind == "ret"})
        ob("PARSER", "return-classes", fast.get("loc", {}).get("line"), True, "fast parser returns %s; slow parser returns %s" % (rets(fast), rets(slow)))

    # --------------------------------------------------- 2..6 verdict functions
    hooks = [nm for nm in ("do_tproxy_lan_ingress", "do_tproxy_wan_egress_tcp", "do_tproxy_wan_egress_udp") if nm in fns]
    OBS.append({"rule": "VERDICT/functions", "construct": "instances", "pos": "-", "ok": len(hooks) == 3, "detail": "verdict functions=%d floor=3" % len(hooks)})
    BLOCK, DIRECT = macros.get("OUTBOUND_BLOCK", 1), macros.get("OUTBOUND_DIRECT", 0)
    n_redirect, n_block, n_route = 0, 0, 0
    for nm in hooks:
        g = CFG(fns[nm])
        line0 = fns[nm].get("loc", {}).get("line")
        # 2. liveness: every REDIRECT return is dominated by a wan_outbound_is_alive test whose dead edge only reaches SHOT
        redirs = [n for n in g.nodes if n.kind == "ret" and ret_class(n) == "REDIRECT"]
        alive_conds = [n for n in g.nodes if n.kind == "cond" and ncalls(n, "wan_outbound_is_alive")]
        for r in redirs:
            n_redirect += 1
            okr = False
            for c in alive_conds:
                # which edge means "not alive"
                ats = atoms(c.ast, True)
                dead_edge = 0 if any(a.startswith("wan_outbound_is_alive") and not p for a, p in ats) else 1
                byp = reaches_avoiding(g, [g.entry], lambda n: n is c, lambda n: n is r)
                dead = reach_ret_classes(g, [c.succ[dead_edge]])
                if byp is None and set(dead) <= {"SHOT"}:
                    okr = True
            ob("LIVENESS", "redirect-behind-alive-test@%s#%d" % (nm, n_redirect), r.line, okr,
               "the redirect to the control plane at line %s is dominated by a wan_outbound_is_alive test whose 'not alive' edge only drops (fail-closed: a group whose health bit is down is never handed a flow)" % r.line)
        # 3. block => drop ; direct => pass
        for c in [n for n in g.nodes if n.kind == "cond"]:
            ats = atoms(c.ast, True)
            txt = render(c.ast)
            if any(re.fullmatch(r"\(outbound == %d\)" % BLOCK, a) and p for a, p in ats) and "&&" not in txt:
                n_block += 1
                cl = reach_ret_classes(g, [c.succ[0]])
                ob("VERDICT", "block=>drop@%s:%s" % (nm, n_block), c.line, set(cl) <= {"SHOT"}, "traffic routed to block only reaches TC_ACT_SHOT (reaches: %s)" % sorted(cl))
            if nm == "do_tproxy_lan_ingress" and any(re.fullmatch(r"\(outbound == %d\)" % DIRECT, a) and p for a, p in ats) and len(ats) == 1:
                cl = reach_ret_classes(g, [c.succ[0]])
                marks = reaches_avoiding(g, [c.succ[0]], None, lambda n: n.kind == "stmt" and render(n.ast) == "(skb->mark = mark)")
                ob("VERDICT", "direct=>pass-with-mark@%s:%s" % (nm, c.line and 0 or 0) + str(len([o for o in OBS if o["construct"].startswith("direct=>pass")])), c.line, set(cl) <= {"OK"} and marks is not None,
                   "LAN traffic routed to direct is passed (TC_ACT_OK) with the rule's mark set on the skb (reaches: %s)" % sorted(cl))
            if "wan_egress_needs_control_plane" in txt and nm.startswith("do_tproxy_wan_egress"):
                neg = any(a.startswith("wan_egress_needs_control_plane") and not p for a, p in ats)
                edge = 0 if neg else 1
                cl = reach_ret_classes(g, [c.succ[edge]])
                ob("VERDICT", "wan-direct=>pass@%s" % nm, c.line, set(cl) <= {"OK"}, "locally originated traffic that needs neither a proxy nor a mark is passed untouched (reaches: %s)" % sorted(cl))
        # 4. routing error => drop ; 5. loop guard ; 6. sticky
        routes = [n for n in g.nodes if n.kind in ("stmt", "cond") and ncalls(n, "route")]
        for r in routes:
            n_route += 1
            # the next condition tests the result < 0 and its true edge only drops
            nxt = reaches_avoiding(g, r.succ, None, lambda n: n.kind == "cond")
            okerr = nxt is not None and re.search(r"\(\w+ < 0\)", render(nxt.ast)) is not None and set(reach_ret_classes(g, [nxt.succ[0]])) <= {"SHOT"}
            ob("VERDICT", "route-error=>drop@%s" % nm, r.line, okerr, "a negative result of route() is tested before any use and only drops the frame")
            if nm.startswith("do_tproxy_wan_egress"):
                guard = [n for n in g.nodes if n.kind == "cond" and ncalls(n, "pid_is_control_plane")]
                okg = False
                for c in guard:
                    byp = reaches_avoiding(g, [g.entry], lambda n: n is c, lambda n: n is r)
                    cl = reach_ret_classes(g, [c.succ[0]])
                    if byp is None and set(cl) <= {"OK"}:
                        okg = True
                ob("LOOPGUARD", "own-traffic-never-routed@%s" % nm, r.line, okg, "route() is only reached after the pid_is_control_plane test, whose true edge passes the frame (dae's own sockets are never captured again)")
            # sticky: not reachable from a has_routing true edge
            sticky = True
            for c in [n for n in g.nodes if n.kind == "cond" and "has_routing" in render(n.ast)]:
                ats = atoms(c.ast, True)
                pos_edge = None
                for a, p in ats:
                    if "has_routing" in a:
                        pos_edge = 0 if p else 1
                if pos_edge is None:
                    # e.g. (!conn || !conn->has_routing): the false edge entails has_routing
                    atsf = atoms(c.ast, False)
                    for a, p in atsf:
                        if "has_routing" in a and p:
                            pos_edge = 1
                if pos_edge is None:
                    continue
                if reaches_avoiding(g, [c.succ[pos_edge]], None, lambda n: n is r) is not None:
                    sticky = False
            ob("STICKY", "cached-decision-not-rerouted@%s" % nm, r.line, sticky, "route() is not reachable from an edge on which the flow already has a cached routing decision")
    OBS.append({"rule": "LIVENESS/redirects", "construct": "instances", "pos": "-", "ok": n_redirect >= 4, "detail": "redirect returns=%d floor=4" % n_redirect})
    OBS.append({"rule": "VERDICT/block-tests", "construct": "instances", "pos": "-", "ok": n_block >= 4, "detail": "block tests=%d floor=4" % n_block})
    OBS.append({"rule": "VERDICT/route-calls", "construct": "instances", "pos": "-", "ok": n_route >= 3, "detail": "route() calls=%d floor=3" % n_route})
    # wan_egress_needs_control_plane == !(direct && mark == 0)
    if "wan_egress_needs_control_plane" in fns:
        g = CFG(fns["wan_egress_needs_control_plane"])
        okn = True
        rows = 0
        for outb in (DIRECT, BLOCK, 2, 7):
            for mark in (0, 5):
                outs, und = cinterp.run(g, {"outbound": outb, "mark": mark}, consts, [])
                rows += 1
                want = 0 if (outb == DIRECT and mark == 0) else 1
                vals = {re.match(r"return\((\w+)\)", o).group(1) for o in outs}
                if vals != {str(want)}:
                    okn = False
        ob("VERDICT", "needs-control-plane-table", fns["wan_egress_needs_control_plane"].get("loc", {}).get("line"), okn, "wan_egress_needs_control_plane(outbound, mark) is false exactly for direct with mark 0 (%d rows): direct traffic that needs a mark is handed to dae to apply it" % rows)
    # pid_is_control_plane compares pid and socket mark
    if "pid_is_control_plane" in fns:
        txt = []
        walk_ast(fns["pid_is_control_plane"], lambda x: txt.append(render(x)) if x.get("kind") == "BinaryOperator" else None)
        s = " ".join(txt)
        ob("LOOPGUARD", "compares-pid-and-socket-mark", fns["pid_is_control_plane"].get("loc", {}).get("line"), "PARAM.control_plane_pid" in s and "PARAM.dae_socket_mark" in s,
           "pid_is_control_plane recognises dae by its pid (PARAM.control_plane_pid) or its socket mark (PARAM.dae_socket_mark)")
    # ------------------------------------------------------ decision record
    for fn, struct, label in (("fill_routing_result", "routing_result", "handoff record"),):
        if fn in fns:
            rec = cf["records"].get(struct, {})
            d0 = min([f["depth"] for f in rec.get("fields", [])] or [0])
            members = [f["name"] for f in rec.get("fields", []) if f["depth"] == d0 and f["name"]]
            wr = {f for f, w, _ in member_accesses(fns[fn], struct) if w}
            # arrays are filled by memcpy
            t = []
            walk_ast(fns[fn], lambda x: t.append(render(x)) if x.get("kind") == "CallExpr" else None)
            for m in members:
                if any(("->" + m) in c or ("." + m) in c for c in t if "memcpy" in c or "memset" in c):
                    wr.add(m)
            miss = [m for m in members if m not in wr]
            ob("RECORD", "all-members-filled@" + fn, fns[fn].get("loc", {}).get("line"), not miss and len(members) >= 6, "%s writes every member of struct %s (%s)%s" % (fn, struct, ", ".join(members), "" if not miss else " — missing: %s" % miss))
    if "build_routing_meta" in fns:
        t = render([c for c in inner(fns["build_routing_meta"]) if c.get("kind") == "CompoundStmt"][0]) if False else ""
        fields = set()
        def v(x):
            if x.get("kind") == "MemberExpr" and x.get("name") in ("mark", "outbound", "must", "dscp", "has_routing"):
                fields.add(x.get("name"))
            if x.get("kind") == "DesignatedInitExpr":
                pass
        walk_ast(fns["build_routing_meta"], v)
        src = cf.get("func_src", {}).get("build_routing_meta", {}).get("text", "")
        need = ["mark", "outbound", "must", "dscp", "has_routing"]
        okm = all(re.search(r"\b%s\b" % m, src) for m in need)
        ob("RECORD", "routing-meta-complete", fns["build_routing_meta"].get("loc", {}).get("line"), okm, "build_routing_meta sets mark, outbound, must, dscp and has_routing")
    if "copy_reversed_tuples" in fns:
        src = cf.get("func_src", {}).get("copy_reversed_tuples", {}).get("text", "")
        okr = all(s in src for s in ("sip", "dip", "sport", "dport", "l4proto"))
        # swapped: dst->sip from src->dip etc.
        sw = re.search(r"dst->sip[^;]*key->dip|\bsip\b[^;]*=\s*[^;]*\bdip\b", src) is not None or ("->dip" in src and "->sip" in src)
        ob("RECORD", "reversed-tuple-complete", fns["copy_reversed_tuples"].get("loc", {}).get("line"), okr and sw, "copy_reversed_tuples swaps addresses and ports and copies l4proto")


# ---------------------------------------------------------------- key hygiene
_W = {"__u8": 1, "u8": 1, "__s8": 1, "char": 1, "unsigned char": 1, "bool": 1, "_Bool": 1, "__u16": 2, "__be16": 2, "__le16": 2, "unsigned short": 2, "short": 2,
      "__u32": 4, "__be32": 4, "__le32": 4, "int": 4, "unsigned int": 4, "__s32": 4, "__u64": 8, "__be64": 8, "__s64": 8, "unsigned long long": 8, "long long": 8, "unsigned long": 8, "long": 8}

def _leaf_size(t):
    t = t.replace("const ", "").replace("volatile ", "").strip()
    m = re.match(r"(.+?)\s*((?:\[\d+\])+)$", t)
    n = 1
    if m:
        t = m.group(1).strip()
        for d in re.findall(r"\[(\d+)\]", m.group(2)):
            n *= int(d)
    if t in _W:
        return _W[t] * n
    return None

def padded_records(cf):
    """records whose member bytes do not cover sizeof (they have padding holes)"""
    out = {}
    for name, rec in cf.get("records", {}).items():
        fs = rec.get("fields", [])
        cov = [False] * rec.get("size", 0)
        known = True
        for i, f in enumerate(fs):
            agg = i + 1 < len(fs) and fs[i + 1]["depth"] > f["depth"]
            if agg or not f.get("name"):
                continue
            sz = _leaf_size(f.get("type", ""))
            if sz is None:
                known = False
                break
            for b in range(f["offset"], min(f["offset"] + sz, len(cov))):
                cov[b] = True
        if known and cov and not all(cov):
            out[name] = [i for i, c in enumerate(cov) if not c]
    return out

def key_hygiene(fns, cf, ob):
    """every stack object of a padded struct type that is used as a hash-map key is zeroed as a whole
    (initialiser, memset, or a callee that memsets its parameter) — hash maps compare all bytes of the key,
    and the control plane's keys have zero padding"""
    pads = padded_records(cf)
    MAPF = ("bpf_map_lookup_elem", "bpf_map_update_elem", "bpf_map_delete_elem")
    def rec_of(qt):
        m = re.match(r"(?:const\s+)?struct\s+(\w+)\s*\*?$", qt.strip())
        return m.group(1) if m else None
    # callee summary: parameter index -> zeroed as a whole by the callee
    zeroing = {}
    for nm, f in fns.items():
        params = [c for c in inner(f) if c.get("kind") == "ParmVarDecl"]
        pn = {p.get("name"): i for i, p in enumerate(params)}
        def v(x, nm=nm, pn=pn):
            if x.get("kind") == "CallExpr":
                r = render(x).replace(" ", "")
                m = re.match(r"(?:__builtin_)?memset\((\w+),0,", r)
                if m and m.group(1) in pn:
                    zeroing.setdefault(nm, set()).add(pn[m.group(1)])
        walk_ast(f, v)
    sites = 0
    bad = []
    for nm, f in fns.items():
        locals_ = {}
        def dv(x):
            if x.get("kind") == "VarDecl":
                r = rec_of(x.get("type", {}).get("qualType", ""))
                if r in pads and "*" not in x.get("type", {}).get("qualType", ""):
                    has_init = any(c.get("kind") in ("InitListExpr", "ImplicitValueInitExpr", "CompoundLiteralExpr") for c in inner(x)) or x.get("init") is not None
                    locals_[x.get("name")] = [r, has_init, x.get("loc", {}).get("line") or x.get("range", {}).get("begin", {}).get("line")]
        walk_ast(f, dv)
        if not locals_:
            continue
        used_as_key = set()
        zeroed = set()
        def cv(x):
            if x.get("kind") != "CallExpr":
                return
            args = inner(x)
            callee = render(args[0])
            rs = [render(a).replace(" ", "") for a in args[1:]]
            if callee in MAPF and len(rs) >= 2:
                m = re.match(r"\(?&(\w+)\)?$", rs[1].replace("(void*)", "").replace("(constvoid*)", ""))
                if m and m.group(1) in locals_:
                    used_as_key.add(m.group(1))
            if callee in ("memset", "__builtin_memset") and len(rs) >= 2 and rs[1] == "0":
                m = re.match(r"\(?&(\w+)\)?$", rs[0])
                if m:
                    zeroed.add(m.group(1))
            if callee in zeroing:
                for i, a in enumerate(rs):
                    m = re.match(r"\(?&(\w+)\)?$", a)
                    if m and i in zeroing[callee]:
                        zeroed.add(m.group(1))
            # a key handed to a helper that uses its parameter as a map key
            if callee in key_params:
                for i, a in enumerate(rs):
                    m = re.match(r"\(?&(\w+)\)?$", a)
                    if m and i in key_params[callee] and m.group(1) in locals_:
                        used_as_key.add(m.group(1))
        walk_ast(f, cv)
        for k in sorted(used_as_key):
            sites += 1
            rname, has_init, line = locals_[k]
            if not (has_init or k in zeroed):
                bad.append("%s:%s `struct %s %s` (padding bytes %s)" % (nm, line, rname, k, pads[rname]))
    ob("KEY", "padded-map-keys-zeroed", None, not bad and sites >= 2,
       "every stack object of a struct type with padding that is used as a hash-map key is zeroed as a whole before its members are filled (%d key object(s); padded key types: %s)%s — hash maps compare every byte of the key and the control plane builds its keys with zero padding"
       % (sites, ", ".join(sorted(pads)), "" if not bad else " — NOT zeroed: " + "; ".join(bad)))

key_params = {}

def compute_key_params(fns):
    """helper functions that use a pointer parameter directly as a map key: name -> {param index}"""
    MAPF = ("bpf_map_lookup_elem", "bpf_map_update_elem", "bpf_map_delete_elem")
    changed = True
    while changed:
        changed = False
        for nm, f in fns.items():
            params = [c for c in inner(f) if c.get("kind") == "ParmVarDecl"]
            pn = {p.get("name"): i for i, p in enumerate(params)}
            def v(x, nm=nm, pn=pn):
                nonlocal changed
                if x.get("kind") != "CallExpr":
                    return
                args = inner(x)
                callee = render(args[0])
                rs = [render(a).replace(" ", "") for a in args[1:]]
                idxs = []
                if callee in MAPF and len(rs) >= 2:
                    idxs = [1]
                elif callee in key_params:
                    idxs = list(key_params[callee])
                for i in idxs:
                    if i < len(rs) and rs[i] in pn:
                        if pn[rs[i]] not in key_params.setdefault(nm, set()):
                            key_params[nm].add(pn[rs[i]])
                            changed = True
            walk_ast(f, v)


def health_slot_table(fns, consts, macros, ob):
    """wan_outbound_is_alive tests the slot of the flow's own health domain: TCP -> domain 0,
    UDP (other than the DNS port, which never reaches the test) -> domain 2 (data UDP);
    the control plane publishes data-UDP health at outbound*6 + 2*2 + family"""
    f = fns.get("wan_outbound_is_alive")
    if f is None:
        ob("LIVENESS", "health-slot-domain-table", None, False, "wan_outbound_is_alive not found: rule lost its anchor")
        return
    g = CFG(f)
    allc = dict(consts)
    allc.update({k: v for k, v in macros.items() if isinstance(v, int)})
    res = {}
    und = []
    for name, proto in (("tcp", 6), ("udp", 17)):
        def stop(n):
            return n.kind == "stmt" and n.ast is not None and re.match(r"\s*\(?\s*key\s*=[^=]", render(n.ast)) is not None
        outs, u = cinterp.run(g, {"l4proto": proto}, allc, ["domain_idx"], stop=stop)
        und += u
        vals = set()
        for o in outs:
            m = re.match(r"stop \{domain_idx=(\w+)", o)
            if m:
                vals.add(m.group(1))
        res[name] = vals
    ok = res.get("tcp") == {"0"} and "2" in res.get("udp", set()) and res.get("udp", set()) <= {"1", "2"} and not und
    ob("LIVENESS", "health-slot-domain-table", f.get("loc", {}).get("line"), ok,
       "the slot tested before a redirect is the flow's own health domain: TCP -> domain 0 (found %s), UDP data -> domain 2 (found %s; 1 is the never-reached DNS arm)%s — the control plane publishes data-UDP health in domain 2, so testing another slot drops or admits flows by the wrong bit"
       % (sorted(res.get("tcp", [])), sorted(res.get("udp", [])), "" if not und else " — undecided: %s" % und[:2]))


def raw_header_bytes(fns, cf, ob):
    """header bytes that a non-parser function reads through a byte view of a parsed IP header
    (DSCP of IPv6 is taken from raw bytes 0 and 1) are copied by the direct-access parser"""
    fast = fns.get("parse_transport_fast")
    if fast is None:
        return
    n = 0
    for st in ("ipv6hdr", "iphdr"):
        rec = cf.get("records", {}).get(st)
        if not rec:
            continue
        reads = {}
        for nm, f in fns.items():
            if nm in ("parse_transport_fast", "parse_transport_slow"):
                continue
            views = set()
            def dv(x):
                if x.get("kind") == "VarDecl":
                    qt = x.get("type", {}).get("qualType", "")
                    if re.search(r"\b(__u8|unsigned char|u8)\s*\*", qt):
                        src = []
                        def cv(y):
                            if y.get("kind") in ("CStyleCastExpr", "ImplicitCastExpr"):
                                for c in inner(y):
                                    t = c.get("type", {}).get("qualType", "")
                                    if ("struct " + st) in t:
                                        src.append(1)
                        walk_ast(x, cv)
                        if src:
                            views.add(x.get("name"))
            walk_ast(f, dv)
            if not views:
                continue
            def rv(x):
                if x.get("kind") == "ArraySubscriptExpr":
                    b, i = inner(x)
                    bn = strip(b)
                    while bn.get("kind") in ("ImplicitCastExpr", "ParenExpr") and inner(bn):
                        bn = strip(inner(bn)[0])
                    nm2 = (bn.get("referencedDecl") or {}).get("name")
                    iv = strip(i)
                    if nm2 in views and iv.get("kind") == "IntegerLiteral":
                        reads.setdefault(int(iv["value"]), []).append("%s:%s" % (nm, lineof(x)))
            walk_ast(f, rv)
        if not reads:
            continue
        n += len(reads)
        # bytes of that header written by the fast parser
        written = set()
        fields = {fl["name"]: fl for fl in rec["fields"] if fl.get("name")}
        for fld, w, line in member_accesses(fast, st):
            if w and fld in fields:
                fl = fields[fld]
                sz = _leaf_size(fl.get("type", "")) or 1
                written.update(range(fl["offset"], fl["offset"] + sz))
        def mc(x):
            if x.get("kind") == "CallExpr":
                a = inner(x)
                if "memcpy" in render(a[0]) and len(a) >= 4:
                    d0 = strip(a[1])
                    while d0.get("kind") in ("ImplicitCastExpr", "CStyleCastExpr", "ParenExpr") and inner(d0):
                        d0 = strip(inner(d0)[0])
                    dt = d0.get("type", {}).get("qualType", "")
                    sz = strip(a[3])
                    if ("struct " + st) in dt and sz.get("kind") == "IntegerLiteral":
                        written.update(range(0, int(sz["value"])))
        walk_ast(fast, mc)
        missing = sorted(b for b in reads if b not in written)
        ob("PARSER", "raw-header-bytes-read-are-written-by-fast-parser@" + st, fast.get("loc", {}).get("line"), not missing,
           "raw bytes %s of struct %s, read through a byte view outside the parsers (%s), are copied by the direct-access parser (it writes bytes %s)%s"
           % (sorted(reads), st, "; ".join(sorted({v[0] for v in reads.values()})), _ranges(written), "" if not missing else " — NOT copied: byte(s) %s: the value then depends on which parser handled the frame" % missing))
    OBS_N["raw"] = n

OBS_N = {}

def _ranges(s):
    s = sorted(s)
    out, i = [], 0
    while i < len(s):
        j = i
        while j + 1 < len(s) and s[j + 1] == s[j] + 1:
            j += 1
        out.append("%d-%d" % (s[i], s[j]) if j > i else "%d" % s[i])
        i = j + 1
    return ",".join(out)


def syn_restarts_tracking(fns, ob):
    """a pure SYN always starts a fresh TCP lifecycle: in __mark_tcp_seen the delete of an existing entry is
    conditional on nothing but 'an entry exists' and 'new connection SYN'"""
    f = fns.get("__mark_tcp_seen")
    if f is None:
        ob("STICKY", "new-syn-restarts-tracking", None, False, "__mark_tcp_seen not found: rule lost its anchor")
        return
    g = CFG(f)
    params = {c.get("name") for c in inner(f) if c.get("kind") == "ParmVarDecl"}
    dels = [n for n in find(g, lambda n: ncalls(n, "bpf_map_delete_elem"))]
    ok_site, detail = False, ""
    for d in dels:
        ats = []
        for cnode, pol in guards(g, d):
            ats += atoms(cnode.ast, pol)
        names = [(re.sub(r"\s+", "", a), p) for a, p in ats]
        if any(a == "new_conn_syn" and p for a, p in names):
            extra = [a for a, p in names if not ((a in ("new_conn_syn", "state") or a in params) and p)]
            if not extra:
                ok_site = True
            else:
                detail = "the delete at line %s is additionally conditional on %s" % (d.line, ", ".join(extra))
    ob("STICKY", "new-syn-restarts-tracking", f.get("loc", {}).get("line"), ok_site,
       "in __mark_tcp_seen an existing entry is dropped whenever a pure SYN arrives on its tuple (tracking restarts on a new SYN; the new connection must not inherit the old routing decision)%s"
       % ("" if ok_site else " — VIOLATED: " + (detail or "no delete on the new-SYN edge")))
