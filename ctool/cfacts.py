#!/usr/bin/env python3
"""cfacts.py — facts about control/kern/tproxy.c from clang's own front end.

Runs clang 14 (-target bpf -fsyntax-only) against the header shim in
/verif/cshim and emits JSON: record layouts (clang's -fdump-record-layouts),
enum constants and map declarations (JSON AST), integer macros (-dM -E).
Nothing is compiled to code and nothing is executed.
usage: cfacts.py <repo> <verif-dir> [-D...]
"""
import json, re, subprocess, sys, os

def clang(repo, verif, extra, *args):
    src = os.path.join(repo, "control/kern/tproxy.c")
    cmd = ["clang", "-target", "bpf", "-O2", "-fsyntax-only", "-I" + os.path.join(verif, "cshim"),
           "-I/usr/include/x86_64-linux-gnu", "-D__TARGET_ARCH_x86"] + extra + list(args) + [src]
    p = subprocess.run(cmd, capture_output=True, text=True)
    return p

def record_layouts(text):
    recs = {}
    blocks = text.split("*** Dumping AST Record Layout")
    for blk in blocks[1:]:
        lines = [l for l in blk.splitlines() if "|" in l]
        if not lines:
            continue
        m = re.match(r"\s*(\d+) \| (struct|union) (.+?)\s*$", lines[0])
        if not m:
            continue
        name = m.group(3)
        if "(anonymous" in name or "(unnamed" in name:
            continue
        szm = re.search(r"\[sizeof=(\d+), align=(\d+)\]", blk)
        fields = []
        stack = []  # (depth, name)
        for l in lines[1:]:
            fm = re.match(r"\s*(\d+)(?::(\d+)-(\d+))? \|(\s+)(.*?)\s*$", l)
            if not fm:
                continue
            off = int(fm.group(1))
            depth = (len(fm.group(4)) - 1) // 2
            body = fm.group(5)
            if body.startswith("[sizeof"):
                continue
            # "type name" ; anonymous aggregates have no trailing name
            anon = body.endswith(")") and ("(anonymous" in body or "(unnamed" in body)
            if anon:
                fname, ftype = "", body
            else:
                parts = body.rsplit(" ", 1)
                if len(parts) == 2:
                    ftype, fname = parts
                else:
                    ftype, fname = body, ""
            while stack and stack[-1][0] >= depth:
                stack.pop()
            path = [s[1] for s in stack if s[1]] + ([fname] if fname else [])
            fields.append({"path": ".".join(path), "name": fname, "type": ftype, "offset": off, "depth": depth,
                           "bits": [int(fm.group(2)), int(fm.group(3))] if fm.group(2) else None})
            stack.append((depth, fname))
        recs[name] = {"size": int(szm.group(1)) if szm else None, "align": int(szm.group(2)) if szm else None, "fields": fields}
    return recs

def walk(node, fn):
    fn(node)
    for ch in node.get("inner", []) or []:
        walk(ch, fn)

def enums_and_maps(ast):
    enums, maps, funcs = {}, {}, []
    records_by_id = {}
    def collect(n):
        if n.get("kind") == "RecordDecl":
            records_by_id[n.get("id")] = n
    walk(ast, collect)
    for n in ast.get("inner", []):
        k = n.get("kind")
        if k == "EnumDecl":
            vals = {}
            cur = -1
            for c in n.get("inner", []) or []:
                if c.get("kind") != "EnumConstantDecl":
                    continue
                v = None
                def findval(x):
                    nonlocal v
                    if v is None and x.get("kind") == "ConstantExpr" and "value" in x:
                        v = int(x["value"])
                for ch in c.get("inner", []) or []:
                    walk(ch, findval)
                cur = v if v is not None else cur + 1
                vals[c["name"]] = cur
            enums[n.get("name", "")] = vals
        elif k == "FunctionDecl" and any(c.get("kind") == "CompoundStmt" for c in n.get("inner", []) or []):
            funcs.append(n["name"])
        elif k == "VarDecl":
            sec = [c for c in n.get("inner", []) or [] if c.get("kind") == "SectionAttr"]
            if not sec:
                continue
            # section name is not in the JSON for clang 14; filter on the anonymous struct shape below
            qt = n.get("type", {}).get("qualType", "")
            m = re.search(r"\(unnamed struct at ([^)]+)\)|\(anonymous struct at ([^)]+)\)", qt)
            if not m:
                nm = re.match(r"struct (\w+)$", qt)
                if nm:
                    maps[n["name"]] = {"loc": "", "named": nm.group(1)}
                continue
            maps[n["name"]] = {"loc": (m.group(1) or m.group(2))}
    # map fields: find the RecordDecl whose location matches
    def loc_of(n):
        l = n.get("loc", {})
        if "expansionLoc" in l:
            l = l["expansionLoc"]
        return l
    anon = []
    last_file = [None]
    last_line = [None]
    def col(n):
        if n.get("kind") == "RecordDecl" and not n.get("name"):
            anon.append(n)
    walk(ast, col)
    named = {}
    def coln(n):
        if n.get("kind") == "RecordDecl" and n.get("name") and n.get("completeDefinition"):
            named[n["name"]] = n
    walk(ast, coln)
    for name, m in maps.items():
        if m.get("named"):
            r = named.get(m["named"])
            if r:
                m["fields"] = {f["name"]: f.get("type", {}).get("qualType", "") for f in r.get("inner", []) or [] if f.get("kind") == "FieldDecl" and f.get("name")}
    for name, m in maps.items():
        if m.get("named"):
            continue
        line = int(m["loc"].split(":")[-2])
        for r in anon:
            l = loc_of(r)
            if l.get("line") == line or r.get("range", {}).get("begin", {}).get("line") == line or r.get("range", {}).get("begin", {}).get("expansionLoc", {}).get("line") == line:
                fs = {}
                for f in r.get("inner", []) or []:
                    if f.get("kind") == "FieldDecl" and f.get("name"):
                        fs[f["name"]] = f.get("type", {}).get("qualType", "")
                m["fields"] = fs
        f = m.get("fields", {})
        def arr(s):
            mm = re.search(r"\[(\d+)\]", s or "")
            return int(mm.group(1)) if mm else None
        def ptr(s):
            return (s or "").rstrip("* ").strip() if s else None
        m["type"] = arr(f.get("type"))
        m["max_entries"] = arr(f.get("max_entries"))
        m["key"] = ptr(f.get("key"))
        m["value"] = ptr(f.get("value"))
        m["key_size"] = arr(f.get("key_size"))
        m["value_size"] = arr(f.get("value_size"))
    return enums, maps, funcs

def macros(text):
    out = {}
    raw = {}
    for l in text.splitlines():
        m = re.match(r"#define (\w+) (.+)$", l)
        if m:
            raw[m.group(1)] = m.group(2).strip()
    def ev(expr, depth=0):
        if depth > 8:
            return None
        e = re.sub(r"\(\s*(__u8|__u16|__u32|__u64|u8|u16|u32|u64|int|unsigned|long|unsigned long|unsigned int)\s*\)", "", expr)
        e = re.sub(r"(\d+)[uUlL]+\b", r"\1", e)
        e = re.sub(r"0x([0-9a-fA-F]+)[uUlL]+\b", r"0x\1", e)
        def sub(mm):
            n = mm.group(0)
            if n in raw:
                v = ev(raw[n], depth + 1)
                return str(v) if v is not None else n
            return n
        e2 = re.sub(r"\b[A-Za-z_]\w*\b", sub, e)
        if re.fullmatch(r"[\d\sxXa-fA-F+\-*/%()<>|&~^]+", e2):
            try:
                return int(eval(e2.replace("/", "//")))
            except Exception:
                return None
        return None
    for k, v in raw.items():
        if k.startswith("__") and not k.startswith("__TARGET"):
            continue
        val = ev(v)
        if val is not None:
            out[k] = val
    return out

def function_sources(src, names):
    out = {}
    for nm in names:
        for m in re.finditer(r"\b" + re.escape(nm) + r"\s*\(", src):
            i = m.end()
            depth = 1
            while i < len(src) and depth:
                depth += {"(": 1, ")": -1}.get(src[i], 0)
                i += 1
            j = i
            while j < len(src) and src[j] in " \t\r\n":
                j += 1
            if j < len(src) and src[j] == "{":
                # definition: brace match
                k, d = j + 1, 1
                while k < len(src) and d:
                    ch = src[k]
                    if ch == "{":
                        d += 1
                    elif ch == "}":
                        d -= 1
                    k += 1
                line = src.count("\n", 0, m.start()) + 1
                out[nm] = {"line": line, "text": src[m.start():k]}
                break
    return out


def main():
    repo, verif = sys.argv[1], sys.argv[2]
    extra = sys.argv[3:]
    res = {"errors": []}
    p = clang(repo, verif, extra)
    errs = [l for l in p.stderr.splitlines() if " error: " in l or "fatal error" in l]
    if p.returncode != 0 or errs:
        res["errors"] = errs or [p.stderr[-2000:]]
        json.dump(res, sys.stdout)
        return
    res["warnings"] = len([l for l in p.stderr.splitlines() if " warning: " in l])
    lay = clang(repo, verif, extra, "-Xclang", "-fdump-record-layouts")
    res["records"] = record_layouts(lay.stdout)
    a = clang(repo, verif, extra, "-Xclang", "-ast-dump=json")
    ast = json.loads(a.stdout)
    res["enums"], res["maps"], res["functions"] = enums_and_maps(ast)
    # declared member types of every named record of the translation unit (AST, independent of layout dumps)
    rf = {}
    def recs(n):
        if n.get("kind") == "RecordDecl" and n.get("name") and n.get("completeDefinition"):
            rf[n["name"]] = {f["name"]: f.get("type", {}).get("qualType", "") for f in n.get("inner", []) if f.get("kind") == "FieldDecl" and f.get("name")}
    walk(ast, recs)
    res["record_fields"] = rf
    m = clang(repo, verif, extra, "-dM", "-E")
    res["macros"] = macros(m.stdout)
    res["top_level_decls"] = len(ast.get("inner", []))
    res["func_src"] = function_sources(open(os.path.join(repo, "control/kern/tproxy.c")).read(), res["functions"])
    json.dump(res, sys.stdout)

if __name__ == "__main__":
    main()
