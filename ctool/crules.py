#!/usr/bin/env python3
"""crules.py <prop> <repo> <verif> — rules over control/kern/tproxy.c decided
from clang's JSON AST (CFG reachability + finite decision tables).  Prints a
JSON list of obligations {rule, construct, pos, ok, detail}."""
import sys, json, os, re
sys.path.insert(0, os.path.dirname(os.path.abspath(__file__)))
from ccfg import *
import cinterp

OBS = []
def ob(rule, construct, line, ok, detail):
    OBS.append({"rule": rule, "construct": construct, "pos": "control/kern/tproxy.c:%s" % (line if line else "?"), "ok": bool(ok), "detail": detail})

def enum_consts(ast):
    out = {}
    for n in ast.get("inner", []):
        if n.get("kind") != "EnumDecl":
            continue
        cur = -1
        for c in inner(n):
            if c.get("kind") != "EnumConstantDecl":
                continue
            v = [None]
            def f(x):
                if v[0] is None and x.get("kind") == "ConstantExpr" and "value" in x:
                    v[0] = int(x["value"])
                for y in inner(x):
                    f(y)
            for ch in inner(c):
                f(ch)
            cur = v[0] if v[0] is not None else cur + 1
            out[c["name"]] = cur
    return out

def walk_ast(n, fn):
    fn(n)
    for c in inner(n):
        walk_ast(c, fn)

def calls_in(node):
    out = []
    def f(x):
        if x.get("kind") == "CallExpr":
            out.append(render(inner(x)[0]))
    walk_ast(node, f)
    return out

def node_calls(n, *names):
    if n.ast is None:
        return False
    cs = calls_in(n.ast)
    return any(c in names for c in cs)

# ------------------------------------------------------------------- C02
def ref_scan(OR, AND, MASK, MUSTRULES, CPR, st, notf, mustflag, kind, dns):
    good, bad, must = st
    outs = set()
    goods = [good]
    if not (bad or good):
        goods = [0, 1]
    for g in goods:
        b, m = bad, must
        if kind != OR:
            if g == notf:
                b = 1
            g = 0
        if (kind & MASK) != MASK:
            if not b:
                if kind == MUSTRULES:
                    outs.add("next good=%d bad=%d must=%d" % (g, b, 1))
                    continue
                mm = 1 if (m or mustflag) else 0
                ob_ = kind
                if dns and not mm:
                    ob_ = CPR
                outs.add("result outbound=%d must=%d" % (ob_, mm))
                continue
            b = 0
        outs.add("next good=%d bad=%d must=%d" % (g, b, m))
    return sorted(outs)

def c02(ast, fns, consts, macros):
    GOOD, BAD, MUST, DNS = consts["ROUTE_STATE_GOOD_SUBRULE"], consts["ROUTE_STATE_BAD_RULE"], consts["ROUTE_STATE_MUST"], consts["ROUTE_STATE_DNS_QUERY"]
    OR, AND, MASK, MR, CPR = macros["OUTBOUND_LOGICAL_OR"], macros["OUTBOUND_LOGICAL_AND"], macros["OUTBOUND_LOGICAL_MASK"], macros["OUTBOUND_MUST_RULES"], macros["OUTBOUND_CONTROL_PLANE_ROUTING"]
    distinct = len({GOOD, BAD, MUST, DNS}) == 4 and all(x & (x - 1) == 0 and x for x in (GOOD, BAD, MUST, DNS))
    ob("CAUTOMATON", "state-bits-distinct", None, distinct, "ROUTE_STATE_{GOOD_SUBRULE,BAD_RULE,MUST,DNS_QUERY} are four distinct single bits (%d,%d,%d,%d)" % (GOOD, BAD, MUST, DNS))
    # --- finalize table
    fin = CFG(fns["route_finalize_match"])
    def observe(n, env):
        s = strip(n)
        if s.get("kind") == "BinaryOperator" and s.get("opcode") == "=" and render(inner(s)[0]) == "ctx->result":
            rhs = inner(s)[1]
            # (A | (mark << 8)) | (must << 40)
            parts = {}
            def f(x):
                x2 = strip(x)
                if x2.get("kind") == "BinaryOperator" and x2.get("opcode") == "<<":
                    l, r = inner(x2)
                    sh = cinterp.eval_expr(r, env, consts)
                    lv = cinterp.eval_expr(l, env, consts)
                    parts[sh] = lv if lv is not None else "sym:" + render(strip(l))
                    return
                if x2.get("kind") == "BinaryOperator" and x2.get("opcode") == "|":
                    for y in inner(x2):
                        f(y)
                    return
                v = cinterp.eval_expr(x2, env, consts)
                parts[0] = v if v is not None else "sym:" + render(x2)
            f(rhs)
            return "result outbound=%s mark@%s must=%s" % (parts.get(0), "8" if 8 in parts and str(parts[8]).endswith("mark") else "?", parts.get(40))
        return None
    kinds = [OR, AND, MR, CPR, 0, 1, 2]
    cells, bad = 0, 0
    first = ""
    for good in (0, 1):
        for badr in (0, 1):
            for must in (0, 1):
                for dns in (0, 1):
                    for notf in (0, 1):
                        for mf in (0, 1):
                            for kind in kinds:
                                # C side: compose skip-test + eval + finalize
                                got = set()
                                goods = [good]
                                if not (good or badr):
                                    goods = [0, 1]
                                for g in goods:
                                    state = (GOOD if g else 0) | (BAD if badr else 0) | (MUST if must else 0) | (DNS if dns else 0)
                                    env = {"ctx->route_state": state, "match_set->outbound": kind, "match_set->not": notf, "match_set->must": mf}
                                    outs, und = cinterp.run(fin, env, consts, ["ctx->route_state"], observe)
                                    for o in outs:
                                        m = re.match(r"return\((\d+)\) \{ctx->route_state=(\d+)\} \[(.*)\]", o)
                                        if not m:
                                            got.add("undecided:" + o)
                                            continue
                                        rv, stt, evs = int(m.group(1)), int(m.group(2)), m.group(3)
                                        if rv == 0:
                                            got.add("next good=%d bad=%d must=%d" % (1 if stt & GOOD else 0, 1 if stt & BAD else 0, 1 if stt & MUST else 0))
                                            if bool(stt & DNS) != bool(dns):
                                                got.add("dns-bit-changed")
                                        else:
                                            mm = re.match(r"result outbound=(\S+) mark@8 must=(\S+)", evs)
                                            if mm:
                                                got.add("result outbound=%s must=%s" % (mm.group(1), mm.group(2)))
                                            else:
                                                got.add("result ?" + evs)
                                    if und:
                                        got.add("undecided")
                                want = ref_scan(OR, AND, MASK, MR, CPR, (good, badr, must), notf, mf, kind, dns)
                                cells += 1
                                if sorted(got) != want:
                                    bad += 1
                                    if not first:
                                        first = "state{good=%d bad=%d must=%d dns=%d} entry{not=%d must=%d outbound=%#x}: kernel gives %s, reference (= userspace matcher, with the DNS hand-over cell) %s" % (good, badr, must, dns, notf, mf, kind, sorted(got), want)
    ob("CAUTOMATON", "kernel-scan-table@route_finalize_match", fns["route_finalize_match"].get("loc", {}).get("line"), bad == 0,
       "decision table of the kernel scan step (%d abstract inputs: state incl. DNS-query bit x not x must flag x sentinel kind) equals the first-match reference used for the userspace matcher; the only difference is the documented DNS hand-over cell%s" % (cells, "" if bad == 0 else " — %d cell(s) differ; first: %s" % (bad, first)))
    OBS.append({"rule": "CAUTOMATON/cells", "construct": "instances", "pos": "-", "ok": cells >= 448, "detail": "cells=%d floor=448" % cells})
    # --- route_loop_cb composition
    lp = CFG(fns["route_loop_cb"])
    evals = find(lp, lambda n: node_calls(n, "route_eval_match"))
    fins = find(lp, lambda n: node_calls(n, "route_finalize_match"))
    okc = len(evals) == 1 and len(fins) == 1
    if okc:
        gs = guards(lp, evals[0])
        cond_ok = False
        for c, pol in gs:
            # evaluate the guard for all four (good,bad) combinations
            vals = []
            for g in (0, 1):
                for b in (0, 1):
                    v = cinterp.eval_expr(c.ast, {"ctx->route_state": (GOOD if g else 0) | (BAD if b else 0)}, consts)
                    vals.append((g, b, v))
            if all(v is not None for _, _, v in vals):
                want = [(g, b, 1 if pol == (not (g or b)) else 0) for g, b, _ in vals]
                if all((1 if v else 0) == w for (_, _, v), (_, _, w) in zip(vals, want)):
                    cond_ok = True
        okc = cond_ok
    ob("CAUTOMATON", "eval-skipped-iff-good-or-bad@route_loop_cb", evals[0].line if evals else None, okc, "the per-type predicate is evaluated exactly when neither GOOD_SUBRULE nor BAD_RULE is set")
    if fins:
        # every return that is not an error (-EFAULT set) passes finalize: returns of route_loop_cb other than the finalize return are preceded by a store to ctx->result or are the eval's early return
        rets = [n for n in lp.nodes if n.kind == "ret"]
        fin_ret = [n for n in rets if node_calls(n, "route_finalize_match")]
        others = [n for n in rets if n not in fin_ret]
        okr = len(fin_ret) == 1
        for r in others:
            # must be dominated by an assignment to ctx->result or by the eval call returning non-zero
            hit = reaches_avoiding(lp, [lp.entry], lambda n: n.kind == "stmt" and render(n.ast).startswith("(ctx->result =") or (n.kind == "cond" and "route_eval_match" in render(n.ast)), lambda n: n is r)
            if hit is not None:
                okr = False
        ob("CAUTOMATON", "finalize-on-every-normal-path@route_loop_cb", fins[0].line, okr, "every exit of the loop callback is the finalize step, an error with ctx->result set, or the predicate's own error return")
    # --- route_eval_match only ORs the GOOD bit
    ev = CFG(fns["route_eval_match"])
    bad_w = []
    nw = 0
    for n in ev.nodes:
        if n.kind != "stmt":
            continue
        t = render(n.ast)
        if "ctx->route_state" in t and ("=" in t):
            nw += 1
            if t != "(ctx->route_state |= ROUTE_STATE_GOOD_SUBRULE)":
                bad_w.append("%s at line %s" % (t, n.line))
    # helper predicates called from it (transitively, functions defined in this file)
    helpers, todo = set(), ["route_eval_match"]
    while todo:
        cur = todo.pop()
        for cal in calls_in(fns[cur]):
            if cal in fns and cal not in helpers and cal != "route_eval_match":
                helpers.add(cal)
                todo.append(cal)
    for helper in sorted(helpers):
        hg = CFG(fns[helper])
        for n in hg.nodes:
            if n.kind == "stmt":
                t = render(n.ast)
                if "ctx->route_state" in t and "=" in t:
                    nw += 1
                    if t != "(ctx->route_state |= ROUTE_STATE_GOOD_SUBRULE)":
                        bad_w.append("%s at line %s" % (t, n.line))
    ob("CAUTOMATON", "predicates-only-set-good@route_eval_match", fns["route_eval_match"].get("loc", {}).get("line"), not bad_w and nw >= 7, "every state write of the per-type predicates is `route_state |= GOOD_SUBRULE` (%d writes)%s" % (nw, "" if not bad_w else " — " + "; ".join(bad_w)))
    # --- DNS bit initialiser in route()
    rt = CFG(fns["route"])
    init = [n for n in rt.nodes if n.kind == "stmt" and render(n.ast).startswith("(ctx->route_state =")]
    ok_init = False
    if len(init) == 1:
        ok_init = True
        L4T, L4U = consts.get("L4ProtoType_TCP"), consts.get("L4ProtoType_UDP")
        rhs = inner(strip(init[0].ast))[1]
        for dport in (53, 80):
            for l4 in (L4T, L4U, 3, 0):
                v = cinterp.eval_expr(rhs, {"ctx->h_dport": dport, "flag[0]": l4}, consts)
                want = DNS if (dport == 53 and l4 in (L4T, L4U)) else 0
                if v != want:
                    ok_init = False
    ob("CAUTOMATON", "dns-bit-initialiser@route", init[0].line if init else None, ok_init, "route() starts with DNS_QUERY set iff destination port 53 and l4proto is TCP or UDP, all other bits clear")
    # --- unpack sites
    pack_ok = 0
    for fname in ("do_tproxy_lan_ingress", "do_tproxy_wan_egress_tcp", "do_tproxy_wan_egress_udp", "do_tproxy_wan_egress"):
        if fname not in fns:
            continue
        txt = []
        walk_ast(fns[fname], lambda x: txt.append(render(x)) if x.get("kind") in ("BinaryOperator",) else None)
        s = " ".join(txt)
        if re.search(r"\(\w+ & 255\)", s) and re.search(r"\(\w+ >> 8\)", s) and re.search(r"\(\(\w+ >> 40\) & 1\)", s):
            pack_ok += 1
    ob("CPACK", "result-unpacking", None, pack_ok >= 2, "callers of route() unpack outbound = ret & 0xff, mark = ret >> 8, must = (ret >> 40) & 1 (%d functions)" % pack_ok)
    OBS.append({"rule": "CPACK/sites", "construct": "instances", "pos": "-", "ok": pack_ok >= 2, "detail": "unpack functions=%d floor=2" % pack_ok})
    # --- per-type operands: the condition under which each match type sets GOOD, with locals resolved
    facts = {}
    GOODW = "(ctx->route_state |= ROUTE_STATE_GOOD_SUBRULE)"
    callees = {"route_eval_match": ev}
    for h in ("route_match_domain_set", "route_match_lpm", "route_select_lpm_key"):
        if h in fns:
            callees[h] = CFG(fns[h])
    for nm, val in sorted(consts.items()):
        if not nm.startswith("MatchType_"):
            continue
        env = {"match_type": val, "match_set->type": val}
        conds = []
        def oc(n, e, pol):
            return ("T:" if pol else "F:") + cinterp.render_sub(n.ast, e)
        def os_(n, e):
            t = render(n)
            if t == GOODW:
                return "GOOD"
            if "route_match_" in t or "route_select_lpm_key" in t:
                return "call:" + cinterp.render_sub(n, e)
            return None
        outs, und = cinterp.run(ev, env, consts, [], os_, observe_cond=oc)
        good_paths = [o for o in outs if "GOOD" in o or "call:" in o]
        facts[nm] = sorted(set(re.findall(r"\[(.*)\]", o)[0] for o in good_paths))
    sel = {}
    if "route_select_lpm_key" in callees:
        for nm in ("MatchType_Mac", "MatchType_IpSet", "MatchType_SourceIpSet"):
            outs, _ = cinterp.run(callees["route_select_lpm_key"], {"match_type": consts[nm]}, consts, [])
            sel[nm] = [re.match(r"return\((.*?)\) ", o).group(1) for o in outs]
    dom = []
    if "route_match_domain_set" in callees:
        for n in callees["route_match_domain_set"].nodes:
            if n.kind in ("cond", "stmt"):
                t = render(n.ast)
                if "index" in t:
                    dom.append(t)
    lpm = []
    if "route_match_lpm" in callees:
        for n in callees["route_match_lpm"].nodes:
            if n.kind in ("cond", "stmt"):
                lpm.append(render(n.ast))
    OBS.append({"rule": "COPERAND", "construct": "facts", "pos": "-", "ok": True, "detail": json.dumps({"good": facts, "lpm_key": sel, "domain": dom, "lpm": lpm})[:9000]})

_CW = {"__u8": 1, "u8": 1, "unsigned char": 1, "char": 1, "_Bool": 1, "bool": 1, "__u16": 2, "__be16": 2, "unsigned short": 2, "short": 2, "__u32": 4, "__be32": 4, "unsigned int": 4, "int": 4,
       "__u64": 8, "__be64": 8, "unsigned long long": 8, "long long": 8, "unsigned long": 8, "long": 8}

def equal16_rule(fns):
    """the 16-byte comparison used for process names compares all 128 bits: both 64-bit halves (or all four
    words) of both operands are read, and no 64-bit intermediate is narrowed before the truth value is taken"""
    f = fns.get("equal16")
    if f is None:
        ob("OPERAND", "pname-equality-covers-16-bytes", None, False, "equal16 not found: rule lost its anchor")
        return
    narrow = []
    idx = {}
    def v(x):
        k = x.get("kind")
        if k in ("ImplicitCastExpr", "CStyleCastExpr") and x.get("castKind") == "IntegralCast":
            dst = x.get("type", {}).get("desugaredQualType") or x.get("type", {}).get("qualType", "")
            ch = inner(x)
            src = (ch[0].get("type", {}).get("desugaredQualType") or ch[0].get("type", {}).get("qualType", "")) if ch else ""
            ds, ss = _CW.get(dst.replace("const ", "")), _CW.get(src.replace("const ", ""))
            if ds and ss and ss == 8 and ds < 8 and strip(ch[0]).get("kind") != "IntegerLiteral":
                narrow.append("%s -> %s at line %s" % (src, dst, lineof(x)))
        if k == "ArraySubscriptExpr":
            b, i = inner(x)
            base = render(b)
            m = re.search(r"\b([xy])\b", base)
            iv = strip(i)
            if m and iv.get("kind") == "IntegerLiteral":
                et = (x.get("type", {}).get("desugaredQualType") or x.get("type", {}).get("qualType", "")).replace("const ", "")
                w = _CW.get(et) or _CW.get(x.get("type", {}).get("qualType", "").replace("const ", "")) or 4
                idx.setdefault(m.group(1), set()).update(range(int(iv["value"]) * w, int(iv["value"]) * w + w))
    walk_ast(f, v)
    cover = all(idx.get(p, set()) >= set(range(16)) for p in ("x", "y"))
    ob("OPERAND", "pname-equality-covers-16-bytes", f.get("loc", {}).get("line"), cover and not narrow,
       "equal16 (process-name equality in route()) reads all 16 bytes of both operands (covered: x %d, y %d) and narrows no 64-bit intermediate%s — the control plane writes and compares all 16 bytes"
       % (len(idx.get("x", ())), len(idx.get("y", ())), "" if not narrow else " — NARROWED: " + "; ".join(narrow)))

def main():
    prop, repo, verif = sys.argv[1], sys.argv[2], sys.argv[3]
    ast = load_ast(repo, verif)
    fns = functions(ast)
    consts = enum_consts(ast)
    # macros via cfacts
    import subprocess
    cf = json.loads(subprocess.run(["python3", os.path.join(verif, "ctool/cfacts.py"), repo, verif], capture_output=True, text=True).stdout)
    macros = cf.get("macros", {})
    if prop == "C02":
        c02(ast, fns, consts, macros)
        equal16_rule(fns)
    elif prop == "C03":
        import crules_c03
        crules_c03.run(ast, fns, consts, macros, cf, ob, OBS)
    elif prop == "C19":
        import crules_c03
        crules_c03.compute_key_params(fns)
        crules_c03.key_hygiene(fns, cf, ob)
    json.dump({"obligations": OBS, "functions": sorted(fns.keys())}, sys.stdout)

if __name__ == "__main__":
    main()
