#!/usr/bin/env python3
"""ccfg.py — control-flow graphs and expression rendering for functions of
control/kern/tproxy.c, rebuilt from clang's JSON AST (no execution).

Nodes: ('stmt', ast) simple statement/expression, ('cond', ast) two-way branch
(succ[0] = true, succ[1] = false), ('switch', ast) n-way, ('ret', ast),
('entry'), ('exit').  Short-circuit operators stay inside the condition; use
atoms() to decompose what an edge entails.
"""
import json, re, subprocess, os, sys

# ---------------------------------------------------------------- rendering
def strip(n):
    while n and n.get("kind") in ("ImplicitCastExpr", "ParenExpr", "ConstantExpr", "CStyleCastExpr", "ExprWithCleanups", "FullExpr"):
        inner = [c for c in n.get("inner", []) if c]
        if not inner:
            break
        n = inner[-1]
    return n

def inner(n):
    return [c for c in (n.get("inner") or []) if c is not None]

def render(n):
    if n is None:
        return ""
    k = n.get("kind")
    ch = inner(n)
    if k in ("ImplicitCastExpr", "ParenExpr", "ConstantExpr", "ExprWithCleanups", "FullExpr"):
        return render(ch[-1]) if ch else ""
    if k == "CStyleCastExpr":
        return render(ch[-1]) if ch else ""
    if k == "DeclRefExpr":
        return n.get("referencedDecl", {}).get("name", "?")
    if k == "MemberExpr":
        return render(ch[0]) + ("->" if n.get("isArrow") else ".") + n.get("name", "?")
    if k == "IntegerLiteral":
        return str(n.get("value"))
    if k == "CharacterLiteral":
        return str(n.get("value"))
    if k == "StringLiteral":
        return n.get("value", '""')
    if k in ("BinaryOperator", "CompoundAssignOperator"):
        return "(" + render(ch[0]) + " " + n.get("opcode", "?") + " " + render(ch[1]) + ")"
    if k == "UnaryOperator":
        op = n.get("opcode", "?")
        if n.get("isPostfix"):
            return render(ch[0]) + op
        return op + render(ch[0])
    if k == "CallExpr":
        f = render(ch[0])
        args = [render(a) for a in ch[1:]]
        if f == "__builtin_expect" and args:
            return args[0]
        return f + "(" + ", ".join(args) + ")"
    if k == "ArraySubscriptExpr":
        return render(ch[0]) + "[" + render(ch[1]) + "]"
    if k == "ConditionalOperator":
        return "(" + render(ch[0]) + " ? " + render(ch[1]) + " : " + render(ch[2]) + ")"
    if k == "UnaryExprOrTypeTraitExpr":
        return "sizeof(" + (render(ch[0]) if ch else n.get("argType", {}).get("qualType", "?")) + ")"
    if k == "InitListExpr":
        return "{" + ", ".join(render(c) for c in ch) + "}"
    if k == "DeclStmt":
        out = []
        for d in ch:
            if d.get("kind") == "VarDecl":
                init = [c for c in inner(d) if c.get("kind") not in ("SectionAttr", "UnusedAttr", "AlignedAttr")]
                s = d.get("name", "?")
                if init:
                    s += " = " + render(init[-1])
                out.append(s)
        return "; ".join(out)
    if k == "ReturnStmt":
        return "return " + (render(ch[0]) if ch else "")
    if k == "GotoStmt":
        return "goto"
    if k in ("CompoundLiteralExpr",):
        return render(ch[-1]) if ch else "{}"
    if k == "ImplicitValueInitExpr":
        return "0"
    if k == "StmtExpr":
        return "({...})"
    if k == "PredefinedExpr":
        return "__func__"
    if k == "OffsetOfExpr":
        return "offsetof"
    if k == "DesignatedInitExpr":
        return render(ch[-1]) if ch else ""
    return k or "?"

def bool_strip(n):
    """remove !! and __builtin_expect wrappers; returns (node, negated)"""
    neg = False
    while True:
        n = strip(n)
        k = n.get("kind")
        if k == "UnaryOperator" and n.get("opcode") == "!":
            neg = not neg
            n = inner(n)[0]
            continue
        if k == "CallExpr":
            ch = inner(n)
            if render(ch[0]) == "__builtin_expect":
                n = ch[1]
                continue
        return n, neg

def atoms(cond, pol=True):
    """atomic conditions entailed by cond == pol: list of (rendered, polarity)"""
    n, neg = bool_strip(cond)
    if neg:
        pol = not pol
    if n.get("kind") == "BinaryOperator":
        op = n.get("opcode")
        ch = inner(n)
        if (op == "&&" and pol) or (op == "||" and not pol):
            return atoms(ch[0], pol) + atoms(ch[1], pol)
        lhs_kind = strip(ch[0]).get("kind")
        boolish = lhs_kind in ("UnaryOperator", "BinaryOperator", "CallExpr") and not (lhs_kind == "BinaryOperator" and strip(ch[0]).get("opcode") in ("+", "-", "*", "/", "%", ">>", "<<"))
        if boolish and op == "!=" and render(strip(ch[1])) == "0":
            return atoms(ch[0], pol)
        if boolish and op == "==" and render(strip(ch[1])) == "0":
            return atoms(ch[0], not pol)
    return [(render(n), pol)]

# --------------------------------------------------------------------- CFG
class Node:
    __slots__ = ("id", "kind", "ast", "succ", "line", "label")
    def __init__(self, i, kind, ast=None, line=None):
        self.id, self.kind, self.ast, self.succ, self.line, self.label = i, kind, ast, [], line, None
    def text(self):
        if self.kind in ("entry", "exit", "join"):
            return self.kind
        return render(self.ast)

class CFG:
    def __init__(self, fn):
        self.name = fn["name"]
        self.nodes = []
        self.entry = self.new("entry")
        self.exit = self.new("exit")
        self.labels = {}
        self.gotos = []
        self.cur_line = None
        body = [c for c in inner(fn) if c.get("kind") == "CompoundStmt"][-1]
        end = self.build(body, [self.entry], None, None)
        for n in end:
            n.succ.append(self.exit)
        for g, lid in self.gotos:
            if lid in self.labels:
                g.succ.append(self.labels[lid])
        self.line_of = {}

    def new(self, kind, ast=None):
        line = None
        if ast is not None:
            line = lineof(ast)
            if line is not None:
                self.cur_line = line
            else:
                line = self.cur_line
        n = Node(len(self.nodes), kind, ast, line)
        self.nodes.append(n)
        return n

    def link(self, preds, n, edge=None):
        for p in preds:
            p.succ.append(n)

    def build(self, s, preds, brk, cont):
        """returns the list of dangling nodes that fall through after s"""
        if s is None or not s:
            return preds
        k = s.get("kind")
        ch = inner(s)
        if k == "CompoundStmt":
            cur = preds
            for c in ch:
                cur = self.build(c, cur, brk, cont)
            return cur
        if k == "IfStmt":
            raw = s.get("inner") or []
            parts = [c for c in raw if c is not None and c != {}]
            # [init?] cond then [else]
            hasElse = s.get("hasElse", False)
            hasInit = s.get("hasInit", False)
            idx = 0
            cur = preds
            if hasInit:
                cur = self.build(parts[0], cur, brk, cont)
                idx = 1
            cond = self.new("cond", parts[idx])
            self.link(cur, cond)
            tjoin = self.new("join")
            fjoin = self.new("join")
            cond.succ = [tjoin, fjoin]
            tend = self.build(parts[idx + 1], [tjoin], brk, cont)
            fend = [fjoin]
            if hasElse and len(parts) > idx + 2:
                fend = self.build(parts[idx + 2], [fjoin], brk, cont)
            return tend + fend
        if k in ("WhileStmt",):
            parts = [c for c in (s.get("inner") or []) if c]
            cond = self.new("cond", parts[0])
            self.link(preds, cond)
            tj, fj = self.new("join"), self.new("join")
            cond.succ = [tj, fj]
            bend = self.build(parts[-1], [tj], fj_holder(self, fj), cond)
            self.link(bend, cond)
            return [fj]
        if k == "DoStmt":
            parts = [c for c in (s.get("inner") or []) if c]
            start = self.new("join")
            self.link(preds, start)
            cond = self.new("cond", parts[-1])
            after = self.new("join")
            bend = self.build(parts[0], [start], fj_holder(self, after), cond)
            self.link(bend, cond)
            cond.succ = [start, after]
            return [after]
        if k == "ForStmt":
            raw = s.get("inner") or []
            # init, condvar, cond, inc, body
            init, cnd, inc, body = raw[0], raw[2], raw[3], raw[4]
            cur = preds
            if init:
                cur = self.build(init, cur, brk, cont)
            after = self.new("join")
            if cnd:
                cond = self.new("cond", cnd)
                self.link(cur, cond)
                tj = self.new("join")
                cond.succ = [tj, after]
                head = cond
                bstart = [tj]
            else:
                head = self.new("join")
                self.link(cur, head)
                bstart = [head]
            incn = self.new("stmt", inc) if inc else self.new("join")
            bend = self.build(body, bstart, fj_holder(self, after), incn)
            self.link(bend, incn)
            incn.succ.append(head)
            return [after]
        if k == "SwitchStmt":
            parts = [c for c in (s.get("inner") or []) if c]
            sw = self.new("switch", parts[0])
            self.link(preds, sw)
            after = self.new("join")
            body = parts[-1]
            cur = []  # fallthrough from previous case
            has_default = False
            items = inner(body) if body.get("kind") == "CompoundStmt" else [body]
            for it in items:
                # unwrap nested Case/Default labels
                labels = []
                st = it
                while st.get("kind") in ("CaseStmt", "DefaultStmt"):
                    if st.get("kind") == "DefaultStmt":
                        has_default = True
                        labels.append(None)
                        st = inner(st)[-1] if inner(st) else None
                    else:
                        c2 = inner(st)
                        labels.append(c2[0])
                        st = c2[-1] if len(c2) > 1 else None
                    if st is None:
                        break
                if labels:
                    j = self.new("join")
                    j.label = [render(l) if l is not None else "default" for l in labels]
                    sw.succ.append(j)
                    self.link(cur, j)
                    cur = [j]
                if st is not None:
                    cur = self.build(st, cur, fj_holder(self, after), cont)
            self.link(cur, after)
            if not has_default:
                sw.succ.append(after)
            return [after]
        if k == "ReturnStmt":
            r = self.new("ret", s)
            self.link(preds, r)
            r.succ.append(self.exit)
            return []
        if k == "BreakStmt":
            if brk is not None:
                self.link(preds, brk.node)
            return []
        if k == "ContinueStmt":
            if cont is not None:
                self.link(preds, cont)
            return []
        if k == "GotoStmt":
            g = self.new("stmt", s)
            self.link(preds, g)
            self.gotos.append((g, s.get("targetLabelDeclId")))
            return []
        if k == "LabelStmt":
            j = self.new("join")
            j.label = ["label:" + s.get("name", "")]
            self.labels[s.get("declId")] = j
            self.link(preds, j)
            return self.build(ch[0] if ch else None, [j], brk, cont)
        if k in ("NullStmt",):
            return preds
        if k == "AttributedStmt":
            return self.build(ch[-1], preds, brk, cont)
        n = self.new("stmt", s)
        self.link(preds, n)
        return [n]

class fj_holder:
    def __init__(self, cfg, node):
        self.node = node

def lineof(ast):
    for key in ("loc", "range"):
        l = ast.get(key, {})
        if key == "range":
            l = l.get("begin", {})
        for sub in (l, l.get("expansionLoc", {}), l.get("spellingLoc", {})):
            if "line" in sub:
                return sub["line"]
    return None

# ----------------------------------------------------------- graph queries
def succs_of(n, edge):
    out = []
    for i, s in enumerate(n.succ):
        if edge is None or edge(n, i):
            out.append(s)
    return out

def reaches_avoiding(cfg, starts, sat, target, edge=None):
    """first node satisfying target reachable from starts on a path with no sat node (sat checked first)."""
    seen = set()
    work = list(starts)
    while work:
        n = work.pop()
        if n.id in seen:
            continue
        seen.add(n.id)
        if n.kind not in ("entry", "exit", "join"):
            if sat is not None and sat(n):
                continue
            if target(n):
                return n
        work.extend(succs_of(n, edge))
    return None

def exits_avoiding(cfg, starts, sat, edge=None):
    """return nodes ('ret' or the exit via fallthrough) reachable from starts avoiding sat nodes."""
    out = []
    seen = set()
    work = [(s, None) for s in starts]
    while work:
        n, prev = work.pop()
        if n.id in seen:
            continue
        seen.add(n.id)
        if n.kind == "exit":
            out.append(prev)
            continue
        if n.kind not in ("entry", "join"):
            if sat is not None and sat(n):
                continue
        for s in succs_of(n, edge):
            work.append((s, n if n.kind not in ("join",) else prev))
    return out

def guards(cfg, target):
    """(cond node, polarity) pairs such that removing that edge disconnects target from entry."""
    out = []
    for c in cfg.nodes:
        if c.kind != "cond":
            continue
        for pol in (0, 1):
            veto = (c.id, pol)
            r = reaches_avoiding(cfg, [cfg.entry], None, lambda n: n is target, edge=lambda n, i: (n.id, i) != veto)
            if r is None:
                out.append((c, pol == 0))
    return out

def find(cfg, pred):
    return [n for n in cfg.nodes if n.kind not in ("entry", "exit", "join") and pred(n)]

# ------------------------------------------------------------------ loading
def load_ast(repo, verif, extra=()):
    src = os.path.join(repo, "control/kern/tproxy.c")
    cmd = ["clang", "-target", "bpf", "-O2", "-fsyntax-only", "-I" + os.path.join(verif, "cshim"),
           "-I/usr/include/x86_64-linux-gnu", "-D__TARGET_ARCH_x86", "-Xclang", "-ast-dump=json"] + list(extra) + [src]
    p = subprocess.run(cmd, capture_output=True, text=True)
    if p.returncode != 0:
        raise SystemExit("clang failed: " + p.stderr[-1500:])
    return json.loads(p.stdout)

def functions(ast):
    out = {}
    for n in ast.get("inner", []):
        if n.get("kind") == "FunctionDecl" and any(c.get("kind") == "CompoundStmt" for c in inner(n)):
            out[n["name"]] = n
    return out

if __name__ == "__main__":
    ast = load_ast(sys.argv[1], sys.argv[2])
    fns = functions(ast)
    name = sys.argv[3] if len(sys.argv) > 3 else "route_finalize_match"
    g = CFG(fns[name])
    for n in g.nodes:
        print(n.id, n.kind, n.line, n.label or "", n.text()[:110], "->", [s.id for s in n.succ])
