#!/bin/bash
# tools_import_r5.sh <Cxx> : import the round-5 changes of one agent (/tmp/r5/Cxx/out/m11..m13) as seeded/Cxx-mNN,
# confirm each with seeded/verify_seed.sh in the agent's (clean) scratch worktree, and run the related quick checks
# on a scratch copy with the patch applied.  Prints one summary line per seed.
cd "$(dirname "$0")" || exit 2
P=$1
declare -A REL=( [C01]="C01 C02 C04 C12" [C02]="C02 C01 C12 C19 C10" [C03]="C03 C19 C16" [C04]="C04 C01 C07" [C05]="C05 C06" [C06]="C06 C05" [C07]="C07 C04 C08 C09" [C08]="C08 C09 C10 C18" [C09]="C09 C08 C07" [C10]="C10 C08" [C12]="C12 C01 C02" [C13]="C13" [C14]="C14 C15" [C15]="C15 C14 C16" [C16]="C16 C15 C03" [C17]="C17 C04" [C18]="C18 C08" [C19]="C19 C02 C03" [C20]="C20 C16" )
for m in m11 m12 m13; do
  S=/tmp/r5/$P/out/$m; D=seeded/$P-$m
  [ -f $S/patch.diff ] || { echo "$P-$m NO-PATCH"; continue; }
  rm -rf $D; mkdir -p $D; cp $S/patch.diff $S/meta.json $D/; cp $S/notes.md $D/ 2>/dev/null
  python3 - $S $D <<'PY'
import json,sys,shutil,os
s,d=sys.argv[1:3]
m=json.load(open(s+'/meta.json'))
for f in m.get('demo_files',[]):
    shutil.copy(os.path.join(s,f['src']),os.path.join(d,os.path.basename(f['src'])))
    f['src']=os.path.basename(f['src'])
m['origin']="independent sub-agent (round 5), given only the property text and a scratch worktree of /repo at its current commit"
json.dump(m,open(d+'/meta.json','w'),indent=1)
PY
  v=$(seeded/verify_seed.sh $D /tmp/r5/$P/wt 2>&1 | tail -2 | tr '\n' ' ')
  r=$(./tools_benign.sh $D/patch.diff ${REL[$P]} 2>&1)
  echo "== $P-$m :: $v"
  echo "$r" | head -6 | cut -c1-300
done
