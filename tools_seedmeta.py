#!/usr/bin/env python3
"""tools_seedmeta.py - run the thorough tier of every check and record, in each seeded/<id>/meta.json,
which check reports the change (rule + construct) and which does not. Evidence is written to a scratch dir."""
import json, subprocess, glob, os, re, tempfile, shutil
V = os.path.dirname(os.path.abspath(__file__))
cases = json.load(open(V + '/selftest.json'))
props = sorted({p for c in cases for p in c['checks'] + c['missed']})
res = {}
out = tempfile.mkdtemp()
import sys
LOGS = sys.argv[1] if len(sys.argv) > 1 else None   # directory with <prop>.log of earlier thorough runs (bin/daecheck -p <prop> -tier thorough)
for p in props:
    if LOGS:
        class R: pass
        r = R(); r.stdout = open(os.path.join(LOGS, p + '.log'), errors='replace').read() if os.path.exists(os.path.join(LOGS, p + '.log')) else ''; r.returncode = 0
    else:
        r = subprocess.run([V + '/bin/daecheck', '-p', p, '-tier', 'thorough', '-out', out], capture_output=True, text=True, errors='replace')
    for ln in r.stdout.splitlines():
        m = re.match(r'\s+selftest (\S+)\s+expect=(\S+)\s+outcome=(\S+)\s*(.*)', ln)
        if m:
            res.setdefault(m.group(1), {})[p] = (m.group(3), m.group(4))
    print(p, r.returncode, flush=True)
shutil.rmtree(out)
for d in sorted(glob.glob(V + '/seeded/C??-m*')):
    sid = os.path.basename(d)
    meta = json.load(open(d + '/meta.json'))
    meta['confirmed_by'] = ("seeded/verify_seed.sh %s <scratch worktree of /repo>: the demonstration passes on the clean worktree, the patch applies and the tree builds, "
                            "the demonstration fails with the patch, and the pinned suite (go test -vet=off -count=1 ./...) still reports 18 ok packages" % sid)
    meta['checks_run'] = "bin/daecheck -p <prop> -tier thorough (applies the patch to a scratch copy of /repo's working tree and runs the rules on it); also seeded/run_against.sh <patch> <prop> on /repo itself, undone straight afterwards"
    meta['caught_by'] = {p: v[1] for p, v in res.get(sid, {}).items() if v[0] == 'caught'}
    meta['missed_by'] = [p for p, v in res.get(sid, {}).items() if v[0] != 'caught']
    json.dump(meta, open(d + '/meta.json', 'w'), indent=1)
json.dump(res, open(V + '/seeded/RESULTS.json', 'w'), indent=1, sort_keys=True)
