// Package fdt implements the finite-decision-table rule family: a small
// abstract interpreter over a function's go/cfg that propagates constant
// values of a declared set of tracked locals and enumerated inputs, forks
// at every condition it cannot decide, and collects the set of outcomes
// (return values / next loop state / observed events).  Nothing of dae is
// executed: expressions are folded with go/constant only.
package fdt

import (
	"fmt"
	"go/ast"
	"go/constant"
	"go/token"
	"go/types"
	"path/filepath"
	"sort"
	"strings"

	"daecheck/internal/core"

	"golang.org/x/tools/go/cfg"
)

// Env is the abstract store.
type Env struct {
	Vars map[types.Object]constant.Value // tracked locals; nil value = unknown
	Syms map[string]constant.Value       // inputs keyed by their rendered expression
	Over map[string]constant.Value       // inputs overwritten by an assignment on this path (nil = unknown)
	Ev   []string
	Cnt  map[string]int // event counters ("#name" events)
}

// fingerprint renders the store for state merging.
func (e *Env) fingerprint() string {
	var ks []string
	for k, v := range e.Vars {
		s := "?"
		if v != nil {
			s = v.ExactString()
		}
		ks = append(ks, fmt.Sprintf("%p=%s", k, s))
	}
	for k, v := range e.Cnt {
		ks = append(ks, fmt.Sprintf("#%s=%d", k, v))
	}
	for k, v := range e.Over {
		s := "?"
		if v != nil {
			s = v.ExactString()
		}
		ks = append(ks, "~"+k+"="+s)
	}
	sort.Strings(ks)
	return strings.Join(ks, ",") + "|" + strings.Join(e.Ev, ";")
}

func (e *Env) clone() *Env {
	n := &Env{Vars: map[types.Object]constant.Value{}, Syms: e.Syms, Over: map[string]constant.Value{}, Ev: append([]string{}, e.Ev...), Cnt: map[string]int{}}
	for k, v := range e.Over {
		n.Over[k] = v
	}
	for k, v := range e.Vars {
		n.Vars[k] = v
	}
	for k, v := range e.Cnt {
		n.Cnt[k] = v
	}
	return n
}

// Outcome is one way control leaves the analysed region.
type Outcome struct {
	Kind   string // "return", "next" (back to loop head), "exit" (fell off / left region)
	Vals   []string
	State  map[string]string
	Events []string
	Pos    token.Pos
}

func (o Outcome) String() string {
	var ks []string
	for k := range o.State {
		ks = append(ks, k)
	}
	sort.Strings(ks)
	var st []string
	for _, k := range ks {
		st = append(st, k+"="+o.State[k])
	}
	s := o.Kind
	if len(o.Vals) > 0 {
		s += "(" + strings.Join(o.Vals, ", ") + ")"
	}
	if len(st) > 0 {
		s += " {" + strings.Join(st, " ") + "}"
	}
	if len(o.Events) > 0 {
		s += " [" + strings.Join(o.Events, "; ") + "]"
	}
	return s
}

// Job describes one propagation.
type Job struct {
	F       *core.Func
	Start   core.Point
	Tracked map[types.Object]string // tracked local -> display name
	Init    map[types.Object]constant.Value
	Inputs  map[string]constant.Value
	// StopAt: reaching this block ends the path with Kind "next".
	StopAt map[*cfg.Block]bool
	// Event lets the caller record calls/statements of interest.
	Event func(n ast.Node, ev func(ast.Expr) string) string
	// Render lets the caller name symbolic return values (default: rendered expr).
	MaxSteps  int
	Undecided []string // constructs the interpreter could not model (filled by Run)
	normSyms  map[string]constant.Value
}

func b2c(b bool) constant.Value { return constant.MakeBool(b) }

// Eval folds an expression to a constant, or nil when unknown.
func (j *Job) Eval(env *Env, e ast.Expr) constant.Value {
	info := j.F.Info()
	e = ast.Unparen(e)
	if v, ok := env.Over[core.ExprStr(e)]; ok {
		return v
	}
	if v, ok := env.Syms[core.ExprStr(e)]; ok {
		return v
	}
	if be, ok := e.(*ast.BinaryExpr); ok && core.IsCmp(be.Op) {
		// inputs are keyed by a rendered expression: accept the mirrored spelling of a comparison (b > a for a < b)
		if j.normSyms == nil {
			j.normSyms = map[string]constant.Value{}
			for k, v := range env.Syms {
				j.normSyms[core.NormPat(k)] = v
			}
		}
		if v, ok := j.normSyms[core.NormCond(e)]; ok {
			return v
		}
	}
	if tv, ok := info.Types[e]; ok && tv.Value != nil {
		return tv.Value
	}
	switch x := e.(type) {
	case *ast.Ident:
		if obj := info.ObjectOf(x); obj != nil {
			if v, ok := env.Vars[obj]; ok {
				return v
			}
		}
		if x.Name == "true" {
			return b2c(true)
		}
		if x.Name == "false" {
			return b2c(false)
		}
		return nil
	case *ast.UnaryExpr:
		v := j.Eval(env, x.X)
		if v == nil {
			return nil
		}
		switch x.Op {
		case token.NOT:
			return b2c(!constant.BoolVal(v))
		case token.SUB, token.ADD, token.XOR:
			return constant.UnaryOp(x.Op, v, 0)
		}
		return nil
	case *ast.BinaryExpr:
		switch x.Op {
		case token.LAND:
			l := j.Eval(env, x.X)
			if l != nil && !constant.BoolVal(l) {
				return b2c(false)
			}
			r := j.Eval(env, x.Y)
			if r != nil && !constant.BoolVal(r) {
				return b2c(false)
			}
			if l != nil && r != nil {
				return b2c(true)
			}
			return nil
		case token.LOR:
			l := j.Eval(env, x.X)
			if l != nil && constant.BoolVal(l) {
				return b2c(true)
			}
			r := j.Eval(env, x.Y)
			if r != nil && constant.BoolVal(r) {
				return b2c(true)
			}
			if l != nil && r != nil {
				return b2c(false)
			}
			return nil
		}
		l, r := j.Eval(env, x.X), j.Eval(env, x.Y)
		if l == nil || r == nil {
			return nil
		}
		switch x.Op {
		case token.EQL, token.NEQ, token.LSS, token.LEQ, token.GTR, token.GEQ:
			if l.Kind() == constant.Bool && r.Kind() == constant.Bool {
				eq := constant.BoolVal(l) == constant.BoolVal(r)
				if x.Op == token.EQL {
					return b2c(eq)
				}
				if x.Op == token.NEQ {
					return b2c(!eq)
				}
				return nil
			}
			return b2c(constant.Compare(l, x.Op, r))
		case token.AND, token.OR, token.XOR, token.ADD, token.SUB, token.MUL, token.AND_NOT:
			if l.Kind() == constant.Bool {
				return nil
			}
			return constant.BinaryOp(l, x.Op, r)
		case token.SHL, token.SHR:
			s, ok := constant.Uint64Val(r)
			if !ok {
				return nil
			}
			return constant.Shift(l, x.Op, uint(s))
		}
		return nil
	case *ast.CallExpr:
		// type conversion T(x)
		if id, ok := x.Fun.(*ast.Ident); ok && id.Name == "len" && len(x.Args) == 1 {
			if _, isB := info.Uses[id].(*types.Builtin); isB {
				if v := j.Eval(env, x.Args[0]); v != nil && v.Kind() == constant.String {
					return constant.MakeInt64(int64(len(constant.StringVal(v))))
				}
				return nil
			}
		}
		if tv, ok := info.Types[x.Fun]; ok && tv.IsType() && len(x.Args) == 1 {
			v := j.Eval(env, x.Args[0])
			if v == nil {
				return nil
			}
			// truncate to the target width for unsigned integer targets
			if b, ok := tv.Type.Underlying().(*types.Basic); ok && v.Kind() == constant.Int {
				var bits uint
				switch b.Kind() {
				case types.Uint8:
					bits = 8
				case types.Uint16:
					bits = 16
				case types.Uint32:
					bits = 32
				}
				if bits > 0 {
					mask := constant.Shift(constant.MakeInt64(1), token.SHL, bits)
					mask = constant.BinaryOp(mask, token.SUB, constant.MakeInt64(1))
					return constant.BinaryOp(v, token.AND, mask)
				}
			}
			return v
		}
		return foldPure(core.Callee(info, x), x.Args, func(a ast.Expr) constant.Value { return j.Eval(env, a) })
	case *ast.SliceExpr:
		// constant string sliced with constant bounds
		sv := j.Eval(env, x.X)
		if sv == nil || sv.Kind() != constant.String || x.Slice3 {
			return nil
		}
		str := constant.StringVal(sv)
		lo, hi := 0, len(str)
		lenEnv := env
		if x.Low != nil {
			v := j.Eval(lenEnv, x.Low)
			if v == nil {
				return nil
			}
			n, _ := constant.Int64Val(v)
			lo = int(n)
		}
		if x.High != nil {
			v := j.Eval(lenEnv, x.High)
			if v == nil {
				return nil
			}
			n, _ := constant.Int64Val(v)
			hi = int(n)
		}
		if lo < 0 || hi > len(str) || lo > hi {
			return nil
		}
		return constant.MakeString(str[lo:hi])
	}
	return nil
}

// foldPure folds calls of side-effect-free string predicates/functions of the
// standard library (and the len builtin) whose arguments are all constants.
func foldPure(cal *types.Func, args []ast.Expr, ev func(ast.Expr) constant.Value) constant.Value {
	if cal == nil || cal.Pkg() == nil {
		return nil
	}
	full := cal.Pkg().Path() + "." + cal.Name()
	if (full == "strings.LastIndexByte" || full == "strings.IndexByte") && len(args) == 2 {
		sv, bv := ev(args[0]), ev(args[1])
		if sv == nil || bv == nil || sv.Kind() != constant.String || bv.Kind() != constant.Int {
			return nil
		}
		b, _ := constant.Int64Val(bv)
		if full == "strings.IndexByte" {
			return constant.MakeInt64(int64(strings.IndexByte(constant.StringVal(sv), byte(b))))
		}
		return constant.MakeInt64(int64(strings.LastIndexByte(constant.StringVal(sv), byte(b))))
	}
	vals := make([]string, len(args))
	for i, a := range args {
		v := ev(a)
		if v == nil || v.Kind() != constant.String {
			return nil
		}
		vals[i] = constant.StringVal(v)
	}
	switch full {
	case "strings.Index":
		return constant.MakeInt64(int64(strings.Index(vals[0], vals[1])))
	case "strings.LastIndex":
		return constant.MakeInt64(int64(strings.LastIndex(vals[0], vals[1])))
	case "strings.ToLower":
		return constant.MakeString(strings.ToLower(vals[0]))
	case "strings.HasPrefix":
		return b2c(strings.HasPrefix(vals[0], vals[1]))
	case "strings.HasSuffix":
		return b2c(strings.HasSuffix(vals[0], vals[1]))
	case "strings.Contains":
		return b2c(strings.Contains(vals[0], vals[1]))
	case "strings.EqualFold":
		return b2c(strings.EqualFold(vals[0], vals[1]))
	case "strings.Trim":
		return constant.MakeString(strings.Trim(vals[0], vals[1]))
	case "strings.TrimLeft":
		return constant.MakeString(strings.TrimLeft(vals[0], vals[1]))
	case "strings.TrimRight":
		return constant.MakeString(strings.TrimRight(vals[0], vals[1]))
	case "strings.TrimPrefix":
		return constant.MakeString(strings.TrimPrefix(vals[0], vals[1]))
	case "strings.TrimSuffix":
		return constant.MakeString(strings.TrimSuffix(vals[0], vals[1]))
	case "strings.TrimSpace":
		return constant.MakeString(strings.TrimSpace(vals[0]))
	case "path/filepath.IsLocal":
		return b2c(filepath.IsLocal(vals[0]))
	case "path/filepath.IsAbs":
		return b2c(filepath.IsAbs(vals[0]))
	case "path/filepath.Clean":
		return constant.MakeString(filepath.Clean(vals[0]))
	}
	return nil
}

func render(v constant.Value, e ast.Expr) string {
	if v != nil {
		return v.ExactString()
	}
	return "sym:" + core.ExprStr(e)
}

// Run explores all paths from Start.
func (j *Job) Run() []Outcome {
	if j.MaxSteps == 0 {
		j.MaxSteps = 400
	}
	info := j.F.Info()
	g := j.F.Graph()
	var outs []Outcome
	seen := map[string]bool{}
	emit := func(o Outcome, env *Env) {
		o.State = map[string]string{}
		for obj, name := range j.Tracked {
			v := env.Vars[obj]
			if v == nil {
				o.State[name] = "?"
			} else {
				o.State[name] = v.ExactString()
			}
		}
		for k, v := range env.Cnt {
			o.State["#"+k] = fmt.Sprint(v)
		}
		o.Events = env.Ev
		k := o.String()
		if !seen[k] {
			seen[k] = true
			outs = append(outs, o)
		}
	}
	undecided := map[string]bool{}
	type frame struct {
		b     *cfg.Block
		i     int
		env   *Env
		steps int
	}
	work := []frame{{j.Start.B, j.Start.I, &Env{Vars: map[types.Object]constant.Value{}, Syms: j.Inputs, Over: map[string]constant.Value{}, Cnt: map[string]int{}}, 0}}
	visited := map[string]bool{}
	for k, v := range j.Init {
		work[0].env.Vars[k] = v
	}
	for len(work) > 0 {
		fr := work[len(work)-1]
		work = work[:len(work)-1]
		b, env := fr.b, fr.env
		if fr.steps > j.MaxSteps {
			undecided["path longer than the step bound (loop in the analysed region?)"] = true
			continue
		}
		if fr.i == 0 && j.StopAt[b] {
			emit(Outcome{Kind: "next"}, env)
			continue
		}
		if fr.i == 0 {
			key := fmt.Sprintf("%d|%s", b.Index, env.fingerprint())
			if visited[key] {
				continue // identical abstract state already explored from here
			}
			visited[key] = true
		}
		done := false
		for i := fr.i; i < len(b.Nodes) && !done; i++ {
			n := b.Nodes[i]
			if j.Event != nil {
				if s := j.Event(n, func(e ast.Expr) string { return render(j.Eval(env, e), e) }); s != "" {
					if strings.HasPrefix(s, "#") {
						env.Cnt[s[1:]]++
					} else {
						env.Ev = append(env.Ev, s)
					}
				}
			}
			switch st := n.(type) {
			case *ast.AssignStmt:
				if len(st.Lhs) == len(st.Rhs) {
					vals := make([]constant.Value, len(st.Rhs))
					for k := range st.Rhs {
						vals[k] = j.Eval(env, st.Rhs[k])
					}
					for k, l := range st.Lhs {
						id, ok := l.(*ast.Ident)
						if !ok {
							// an input expression (field path) is overwritten on this path
							key := core.ExprStr(l)
							if _, isSym := env.Syms[key]; isSym {
								if st.Tok == token.ASSIGN {
									env.Over[key] = vals[k]
								} else {
									env.Over[key] = nil
								}
							}
							continue
						}
						obj := info.ObjectOf(id)
						if obj == nil {
							continue
						}
						if st.Tok == token.ASSIGN || st.Tok == token.DEFINE {
							if _, tracked := j.Tracked[obj]; tracked || vals[k] != nil {
								env.Vars[obj] = vals[k]
							} else {
								delete(env.Vars, obj)
							}
						} else {
							// op-assign: |=, &= …
							cur := env.Vars[obj]
							op := map[token.Token]token.Token{token.OR_ASSIGN: token.OR, token.AND_ASSIGN: token.AND, token.ADD_ASSIGN: token.ADD, token.SUB_ASSIGN: token.SUB}[st.Tok]
							if cur != nil && vals[k] != nil && op != 0 && (cur.Kind() == constant.Int || (cur.Kind() == constant.String && vals[k].Kind() == constant.String && op == token.ADD)) {
								env.Vars[obj] = constant.BinaryOp(cur, op, vals[k])
							} else {
								env.Vars[obj] = nil
							}
						}
					}
				} else {
					for _, l := range st.Lhs {
						if id, ok := l.(*ast.Ident); ok {
							if obj := info.ObjectOf(id); obj != nil {
								if _, tracked := j.Tracked[obj]; tracked {
									env.Vars[obj] = nil
								} else {
									delete(env.Vars, obj)
								}
							}
						}
					}
				}
			case *ast.ValueSpec:
				for k, nm := range st.Names {
					obj := info.ObjectOf(nm)
					if k < len(st.Values) {
						env.Vars[obj] = j.Eval(env, st.Values[k])
					} else if bt, ok := obj.Type().Underlying().(*types.Basic); ok {
						switch {
						case bt.Info()&types.IsBoolean != 0:
							env.Vars[obj] = b2c(false)
						case bt.Info()&types.IsInteger != 0:
							env.Vars[obj] = constant.MakeInt64(0)
						case bt.Info()&types.IsString != 0:
							env.Vars[obj] = constant.MakeString("")
						}
					}
				}
			case *ast.IncDecStmt:
				if id, ok := st.X.(*ast.Ident); ok {
					obj := info.ObjectOf(id)
					if cur := env.Vars[obj]; cur != nil {
						d := int64(1)
						if st.Tok == token.DEC {
							d = -1
						}
						env.Vars[obj] = constant.BinaryOp(cur, token.ADD, constant.MakeInt64(d))
					}
				}
			case *ast.ReturnStmt:
				o := Outcome{Kind: "return", Pos: st.Pos()}
				for _, r := range st.Results {
					o.Vals = append(o.Vals, render(j.Eval(env, r), r))
				}
				emit(o, env)
				done = true
			}
		}
		if done {
			continue
		}
		if len(b.Succs) == 0 {
			if g.IsExit(b) {
				emit(Outcome{Kind: "exit"}, env)
			}
			continue
		}
		if len(b.Succs) == 1 {
			work = append(work, frame{b.Succs[0], 0, env, fr.steps + 1})
			continue
		}
		// range over a constant integer: count iterations in the key variable
		if b.Kind == cfg.KindRangeLoop && len(b.Succs) == 2 {
			if rs, ok := b.Stmt.(*ast.RangeStmt); ok {
				if nv := j.Eval(env, rs.X); nv != nil && nv.Kind() == constant.Int {
					if kid, ok := rs.Key.(*ast.Ident); ok {
						kobj := info.ObjectOf(kid)
						cur, has := env.Vars[kobj]
						var next constant.Value
						if !has || cur == nil {
							next = constant.MakeInt64(0)
						} else {
							next = constant.BinaryOp(cur, token.ADD, constant.MakeInt64(1))
						}
						if constant.Compare(next, token.LSS, nv) {
							env.Vars[kobj] = next
							work = append(work, frame{b.Succs[0], 0, env, fr.steps + 1})
						} else {
							delete(env.Vars, kobj)
							work = append(work, frame{b.Succs[1], 0, env, fr.steps + 1})
						}
						continue
					}
				}
			}
		}
		// two-way branch
		var decided constant.Value
		if cond, _, _, ok := g.Cond(b); ok {
			decided = j.Eval(env, cond)
		} else if tag, val, ok := switchCase(j.F, b); ok {
			tv, vv := j.Eval(env, tag), j.Eval(env, val)
			if tv != nil && vv != nil {
				if tv.Kind() == constant.Bool || vv.Kind() == constant.Bool {
					decided = nil
				} else {
					decided = b2c(constant.Compare(tv, token.EQL, vv))
				}
			}
		}
		if decided != nil && len(b.Succs) == 2 {
			if constant.BoolVal(decided) {
				work = append(work, frame{b.Succs[0], 0, env, fr.steps + 1})
			} else {
				work = append(work, frame{b.Succs[1], 0, env, fr.steps + 1})
			}
			continue
		}
		for _, s := range b.Succs {
			work = append(work, frame{s, 0, env.clone(), fr.steps + 1})
		}
	}
	for k := range undecided {
		j.Undecided = append(j.Undecided, k)
	}
	sort.Slice(outs, func(a, b int) bool { return outs[a].String() < outs[b].String() })
	return outs
}

// switchCase: block b ends with a case value of a tagged switch.
func switchCase(f *core.Func, b *cfg.Block) (tag, val ast.Expr, ok bool) {
	if len(b.Succs) != 2 || len(b.Nodes) == 0 {
		return
	}
	cc, isCC := b.Succs[0].Stmt.(*ast.CaseClause)
	if !isCC || b.Succs[0].Kind != cfg.KindSwitchCaseBody {
		return
	}
	v, isExpr := b.Nodes[len(b.Nodes)-1].(ast.Expr)
	if !isExpr {
		return
	}
	var sw *ast.SwitchStmt
	ast.Inspect(f.Body, func(n ast.Node) bool {
		if s, isS := n.(*ast.SwitchStmt); isS {
			for _, c := range s.Body.List {
				if c == ast.Stmt(cc) {
					sw = s
				}
			}
		}
		return sw == nil
	})
	if sw == nil || sw.Tag == nil {
		return
	}
	return sw.Tag, v, true
}

// Table renders a set of outcomes as sorted strings.
func Table(outs []Outcome) []string {
	var s []string
	for _, o := range outs {
		s = append(s, o.String())
	}
	sort.Strings(s)
	return s
}

// Key renders an input assignment.
func Key(in map[string]constant.Value, order []string) string {
	var p []string
	for _, k := range order {
		if v, ok := in[k]; ok && v != nil {
			p = append(p, fmt.Sprintf("%s=%s", k, v.ExactString()))
		}
	}
	return strings.Join(p, " ")
}
