package core

// Canonical local names.
//
// Many rules recognise a role by the spelling of a local variable in a rendered
// expression ("domain != \"\"", "i == len(values)-1").  Renaming a local is the
// most common behaviour-preserving edit, so the analysis is made invariant under
// it: after loading, every local variable, parameter, named result and receiver
// of a function whose ordered list of locals differs from the list recorded for
// the reference tree (canon_names.json, written by `daecheck -dumpnames`) is
// renamed in memory to the recorded spelling.  The renaming is per object (all
// uses of one object get the same new name), i.e. it is an alpha-conversion: it
// cannot change what the function does, only how the analysis spells it.  Lists
// are aligned by longest common subsequence of names; stretches of equal length
// between common names are mapped position by position, anything else keeps the
// name it has.

import (
	"encoding/json"
	"go/ast"
	"go/token"
	"go/types"
	"os"
	"sort"
	"strings"

	"golang.org/x/tools/go/packages"
)

// CanonFile is the path of the recorded name table ("" = no canonicalisation).
var CanonFile string

var canonObj = map[types.Object]string{}

// CanonName is the canonical spelling of a (possibly renamed) local object.
func CanonName(o types.Object) string {
	if o == nil {
		return ""
	}
	if n, ok := canonObj[o]; ok {
		return n
	}
	return o.Name()
}

// CanonRenamed counts the identifiers renamed by the last loads (for evidence).
var CanonRenamed int

type localEntry struct {
	name string
	pos  token.Pos
	objs map[types.Object]bool
	def  *ast.Ident
}

func funcKey(pk *packages.Package, fd *ast.FuncDecl) string {
	k := pk.PkgPath + "."
	if r := RecvTypeName(fd); r != "" {
		k += r + "."
	}
	return k + fd.Name.Name
}

func localsOf(info *types.Info, fd ast.Node) []*localEntry {
	var out []*localEntry
	isLocal := func(o types.Object) bool {
		v, ok := o.(*types.Var)
		if !ok || v.IsField() || v.Name() == "_" || v.Pkg() == nil {
			return false
		}
		return v.Parent() != nil && v.Parent() != v.Pkg().Scope() && v.Parent() != types.Universe
	}
	ast.Inspect(fd, func(n ast.Node) bool {
		switch x := n.(type) {
		case *ast.TypeSwitchStmt:
			if as, ok := x.Assign.(*ast.AssignStmt); ok && len(as.Lhs) == 1 {
				if id, ok := as.Lhs[0].(*ast.Ident); ok && id.Name != "_" {
					e := &localEntry{name: id.Name, pos: id.Pos(), objs: map[types.Object]bool{}, def: id}
					for _, cl := range x.Body.List {
						if o := info.Implicits[cl]; o != nil {
							e.objs[o] = true
						}
					}
					out = append(out, e)
				}
			}
		case *ast.Ident:
			if o := info.Defs[x]; o != nil && isLocal(o) {
				out = append(out, &localEntry{name: x.Name, pos: x.Pos(), objs: map[types.Object]bool{o: true}, def: x})
			}
		}
		return true
	})
	sort.SliceStable(out, func(i, j int) bool { return out[i].pos < out[j].pos })
	return out
}

// canonUnits lists the renaming units of a file: function declarations with a
// body, type specs and package-level value specs (their function types and
// literals declare parameter names too).
func canonUnits(pk *packages.Package, f *ast.File) map[string]ast.Node {
	out := map[string]ast.Node{}
	dup := map[string]bool{}
	add := func(k string, n ast.Node) {
		if _, ok := out[k]; ok || dup[k] {
			delete(out, k)
			dup[k] = true
			return
		}
		out[k] = n
	}
	for _, d := range f.Decls {
		switch x := d.(type) {
		case *ast.FuncDecl:
			if x.Body != nil && x.Name.Name != "init" && x.Name.Name != "_" {
				add(funcKey(pk, x), x)
			}
		case *ast.GenDecl:
			for _, sp := range x.Specs {
				switch y := sp.(type) {
				case *ast.TypeSpec:
					add(pk.PkgPath+".type."+y.Name.Name, y)
				case *ast.ValueSpec:
					if len(y.Names) > 0 && y.Names[0].Name != "_" {
						add(pk.PkgPath+".var."+y.Names[0].Name, y)
					}
				}
			}
		}
	}
	return out
}

// DumpNames returns the ordered local names of every function of the repo packages.
func (p *Prog) DumpNames() map[string][]string {
	out := map[string][]string{}
	for _, pk := range p.RepoPkgs() {
		for i, f := range pk.Syntax {
			if i < len(pk.CompiledGoFiles) && strings.HasSuffix(pk.CompiledGoFiles[i], "_test.go") {
				continue
			}
			for k, n := range canonUnits(pk, f) {
				var names []string
				for _, e := range localsOf(pk.TypesInfo, n) {
					names = append(names, e.name)
				}
				if len(names) == 0 {
					continue
				}
				if _, dup := out[k]; dup {
					out[k] = nil // same key in two files (build variants): do not canonicalise
					continue
				}
				out[k] = names
			}
		}
	}
	return out
}

func lcsAlign(a, b []string) [][2]int {
	n, m := len(a), len(b)
	dp := make([][]int, n+1)
	for i := range dp {
		dp[i] = make([]int, m+1)
	}
	for i := n - 1; i >= 0; i-- {
		for j := m - 1; j >= 0; j-- {
			if a[i] == b[j] {
				dp[i][j] = dp[i+1][j+1] + 1
			} else if dp[i+1][j] >= dp[i][j+1] {
				dp[i][j] = dp[i+1][j]
			} else {
				dp[i][j] = dp[i][j+1]
			}
		}
	}
	var out [][2]int
	i, j := 0, 0
	for i < n && j < m {
		if a[i] == b[j] {
			out = append(out, [2]int{i, j})
			i++
			j++
		} else if dp[i+1][j] >= dp[i][j+1] {
			i++
		} else {
			j++
		}
	}
	return out
}

// canonicalise renames locals in memory to the recorded spelling.
func (p *Prog) canonicalise() {
	if CanonFile == "" {
		return
	}
	raw, err := os.ReadFile(CanonFile)
	if err != nil {
		return
	}
	table := map[string][]string{}
	if json.Unmarshal(raw, &table) != nil {
		return
	}
	for _, pk := range p.RepoPkgs() {
		info := pk.TypesInfo
		for _, f := range pk.Syntax {
			for key, fd := range canonUnits(pk, f) {
				want, ok := table[key]
				if !ok || want == nil {
					continue
				}
				have := localsOf(info, fd)
				names := make([]string, len(have))
				same := len(have) == len(want)
				for i, e := range have {
					names[i] = e.name
					if same && want[i] != e.name {
						same = false
					}
				}
				if same {
					continue
				}
				// aligned pairs (want index, have index), with sentinels at both ends
				al := append([][2]int{{-1, -1}}, lcsAlign(want, names)...)
				al = append(al, [2]int{len(want), len(have)})
				ren := map[types.Object]string{}
				defRen := map[*ast.Ident]string{}
				for k := 0; k+1 < len(al); k++ {
					w0, h0 := al[k][0]+1, al[k][1]+1
					w1, h1 := al[k+1][0], al[k+1][1]
					if w1-w0 != h1-h0 {
						continue
					}
					for t := 0; t < w1-w0; t++ {
						e := have[h0+t]
						for o := range e.objs {
							ren[o] = want[w0+t]
							canonObj[o] = want[w0+t]
						}
						defRen[e.def] = want[w0+t]
					}
				}
				if len(defRen) == 0 {
					continue
				}
				ast.Inspect(fd, func(n ast.Node) bool {
					id, ok := n.(*ast.Ident)
					if !ok {
						return true
					}
					if nn, ok := defRen[id]; ok {
						id.Name = nn
						CanonRenamed++
						return true
					}
					o := info.Defs[id]
					if o == nil {
						o = info.Uses[id]
					}
					if nn, ok := ren[o]; ok && o != nil {
						id.Name = nn
						CanonRenamed++
					}
					return true
				})
			}
		}
	}
}
