package core

import (
	"go/ast"
	"go/token"
	"go/types"

	"golang.org/x/tools/go/cfg"
)

// Graph is a function's CFG with path rules expressed as reachability
// queries ("is there a path from A to B / to a normal exit that avoids every
// node satisfying P").  Dominance and post-dominance are both instances.
type Graph struct {
	F   *Func
	CFG *cfg.CFG
}

// Point is the program point just before node I of block B
// (I == len(B.Nodes) is the end of the block).
type Point struct {
	B *cfg.Block
	I int
}

func (g *Graph) Entry() Point { return Point{g.CFG.Blocks[0], 0} }

// Node returns the node at the point (nil at block end).
func (p Point) Node() ast.Node {
	if p.I < len(p.B.Nodes) {
		return p.B.Nodes[p.I]
	}
	return nil
}

// After is the point just after the node at p.
func (p Point) After() Point { return Point{p.B, p.I + 1} }

// Find returns every live point whose node satisfies pred, in source order.
func (g *Graph) Find(pred func(ast.Node) bool) []Point {
	var out []Point
	for _, b := range g.CFG.Blocks {
		if !b.Live {
			continue
		}
		for i, n := range b.Nodes {
			if pred(n) {
				out = append(out, Point{b, i})
			}
		}
	}
	sortPoints(out)
	return out
}

func sortPoints(ps []Point) {
	for i := 1; i < len(ps); i++ {
		for j := i; j > 0 && ps[j].Node().Pos() < ps[j-1].Node().Pos(); j-- {
			ps[j], ps[j-1] = ps[j-1], ps[j]
		}
	}
}

// IsExit reports whether control leaves the function normally at the end of b
// (return statement or falling off the end), as opposed to a no-return call.
func (g *Graph) IsExit(b *cfg.Block) bool {
	if len(b.Succs) != 0 || !b.Live {
		return false
	}
	if n := len(b.Nodes); n > 0 {
		if es, ok := b.Nodes[n-1].(*ast.ExprStmt); ok {
			if c, ok := es.X.(*ast.CallExpr); ok && !MayReturn(g.F.Info(), c) {
				return false
			}
		}
	}
	return true
}

// Walk explores forward from start.  visit is called for every node on the
// way; it returns Stop to cut the path at this node (the node "satisfies" the
// rule), Hit to report the node as a target, or Go to continue.  edge, when
// non-nil, may veto an edge (b -> b.Succs[i]).  onExit is called for each
// normal exit block reached un-cut.  The trace passed to callbacks is the
// list of block-entry positions from start to here.
type Verdict int

const (
	Go Verdict = iota
	Stop
	Hit
)

type Walker struct {
	G      *Graph
	Visit  func(n ast.Node) Verdict
	Edge   func(from *cfg.Block, succ int) bool
	OnHit  func(n ast.Node, trace []token.Pos)
	OnExit func(b *cfg.Block, trace []token.Pos)
}

func (w *Walker) Run(start Point) {
	type item struct {
		p     Point
		trace []token.Pos
	}
	seen := map[*cfg.Block]bool{}
	work := []item{{start, nil}}
	for len(work) > 0 {
		it := work[len(work)-1]
		work = work[:len(work)-1]
		b := it.p.B
		tr := it.trace
		if it.p.I < len(b.Nodes) {
			tr = append(append([]token.Pos{}, tr...), b.Nodes[it.p.I].Pos())
		}
		cut := false
		for i := it.p.I; i < len(b.Nodes); i++ {
			v := Go
			if w.Visit != nil {
				v = w.Visit(b.Nodes[i])
			}
			if v == Hit && w.OnHit != nil {
				w.OnHit(b.Nodes[i], tr)
			}
			if v != Go {
				cut = true
				break
			}
		}
		if cut {
			continue
		}
		if w.G.IsExit(b) {
			if w.OnExit != nil {
				w.OnExit(b, tr)
			}
			continue
		}
		for si, s := range b.Succs {
			if w.Edge != nil && !w.Edge(b, si) {
				continue
			}
			if seen[s] || !s.Live {
				continue
			}
			seen[s] = true
			work = append(work, item{Point{s, 0}, tr})
		}
	}
}

// ExitsAvoiding returns the normal exits reachable from start on paths where
// no node satisfies sat.  Empty result == "every path from start to exit
// passes through a sat node" (must-pass-through / post-dominance).
type ExitWitness struct {
	Block *cfg.Block
	Pos   token.Pos // return statement or last node before falling off
	Trace []token.Pos
}

func (g *Graph) ExitsAvoiding(start Point, sat func(ast.Node) bool) []ExitWitness {
	return g.ExitsAvoidingE(start, sat, nil)
}

// ExitsAvoidingE is ExitsAvoiding with an edge veto.
func (g *Graph) ExitsAvoidingE(start Point, sat func(ast.Node) bool, edge func(*cfg.Block, int) bool) []ExitWitness {
	var out []ExitWitness
	w := &Walker{G: g, Edge: edge,
		Visit: func(n ast.Node) Verdict {
			if sat(n) {
				return Stop
			}
			return Go
		},
		OnExit: func(b *cfg.Block, tr []token.Pos) {
			pos := g.F.Body.Rbrace
			if n := len(b.Nodes); n > 0 {
				pos = b.Nodes[n-1].Pos()
			}
			out = append(out, ExitWitness{b, pos, tr})
		}}
	w.Run(start)
	return out
}

// ReachesAvoiding reports whether some path from start reaches a node
// satisfying target while passing no node satisfying sat.  With
// start=Entry it decides dominance: target is dominated by sat iff false.
func (g *Graph) ReachesAvoiding(start Point, sat, target func(ast.Node) bool) (ast.Node, []token.Pos, bool) {
	var hit ast.Node
	var trace []token.Pos
	w := &Walker{G: g,
		Visit: func(n ast.Node) Verdict {
			if hit != nil {
				return Stop
			}
			// a node that is both: the target is evaluated first only when it
			// is not itself the guard (the guard protects later nodes)
			if sat != nil && sat(n) {
				return Stop
			}
			if target(n) {
				return Hit
			}
			return Go
		},
		OnHit: func(n ast.Node, tr []token.Pos) {
			if hit == nil {
				hit, trace = n, tr
			}
		}}
	w.Run(start)
	return hit, trace, hit != nil
}

// Cond returns the boolean condition that ends block b and its true/false
// successors, if b ends in a two-way boolean branch.
func (g *Graph) Cond(b *cfg.Block) (cond ast.Expr, t, f *cfg.Block, ok bool) {
	if len(b.Succs) != 2 || len(b.Nodes) == 0 {
		return
	}
	e, isExpr := b.Nodes[len(b.Nodes)-1].(ast.Expr)
	if !isExpr {
		return
	}
	if b.Succs[0].Kind == cfg.KindSwitchCaseBody {
		if sw, isSw := b.Succs[0].Stmt.(*ast.CaseClause); isSw {
			_ = sw
		}
		// tagged switch: case values are not conditions
		if st := enclosingSwitchTag(g, b.Succs[0]); st {
			return
		}
	}
	if b.Kind == cfg.KindRangeLoop {
		return
	}
	tv, has := g.F.Info().Types[e]
	if !has {
		return
	}
	if bt, isB := tv.Type.Underlying().(*types.Basic); !isB || bt.Info()&types.IsBoolean == 0 {
		return
	}
	return e, b.Succs[0], b.Succs[1], true
}

func enclosingSwitchTag(g *Graph, body *cfg.Block) bool {
	cc, ok := body.Stmt.(*ast.CaseClause)
	if !ok {
		return false
	}
	tagged := false
	ast.Inspect(g.F.Body, func(n ast.Node) bool {
		if sw, ok := n.(*ast.SwitchStmt); ok {
			for _, c := range sw.Body.List {
				if c == cc && sw.Tag != nil {
					tagged = true
				}
			}
		}
		return !tagged
	})
	return tagged
}

// CondBlocks lists every block ending in a boolean branch whose condition
// satisfies pred.
type CondSite struct {
	B     *cfg.Block
	Cond  ast.Expr
	True  *cfg.Block
	False *cfg.Block
}

func (g *Graph) Conds(pred func(ast.Expr) bool) []CondSite {
	var out []CondSite
	for _, b := range g.CFG.Blocks {
		if !b.Live {
			continue
		}
		if c, t, f, ok := g.Cond(b); ok && pred(c) {
			out = append(out, CondSite{b, c, t, f})
		}
	}
	for i := 1; i < len(out); i++ {
		for j := i; j > 0 && out[j].Cond.Pos() < out[j-1].Cond.Pos(); j-- {
			out[j], out[j-1] = out[j-1], out[j]
		}
	}
	return out
}

// DominatingConds returns, for the target point, every (condition, polarity)
// such that all paths from entry to target take that edge of the condition:
// i.e. target is unreachable from entry when that edge is removed... computed
// exactly as: removing the *other* edge changes nothing, removing this edge
// disconnects the target.
type Guard struct {
	Cond     ast.Expr
	Polarity bool     // true: the true edge must be taken
	Site     ast.Expr // the whole branch condition (a node of the CFG) this atom comes from; nil outside Guards
}

func (g *Graph) Guards(target Point) []Guard {
	var out []Guard
	isT := func(n ast.Node) bool { return n == target.Node() }
	for _, b := range g.CFG.Blocks {
		if !b.Live {
			continue
		}
		c, _, _, ok := g.Cond(b)
		if !ok {
			continue
		}
		for pol := 0; pol < 2; pol++ {
			blockB, veto := b, pol
			reach := false
			w := &Walker{G: g,
				Visit: func(n ast.Node) Verdict {
					if isT(n) {
						return Hit
					}
					return Go
				},
				Edge:  func(from *cfg.Block, si int) bool { return !(from == blockB && si == veto) },
				OnHit: func(ast.Node, []token.Pos) { reach = true }}
			w.Run(g.Entry())
			if !reach {
				// vetoing edge `pol` disconnects target => edge pol is mandatory
				var as []Guard
				for _, a := range Atoms(c, pol == 0) {
					a.Site = c
					as = append(as, a)
				}
				out = append(out, expandAtoms(as, 0)...)
			}
		}
	}
	return out
}

// Atoms decomposes a condition known to evaluate to pol into the atomic
// conditions it entails: (a && b)=true gives a, b; (a || b)=false gives !a, !b;
// !x flips.  Disjunctive knowledge ((a||b)=true) is kept as one atom.
// go/cfg does not split short-circuit operators, so this is done here.
var negCmp = map[token.Token]token.Token{token.EQL: token.NEQ, token.NEQ: token.EQL, token.LSS: token.GEQ, token.GEQ: token.LSS, token.GTR: token.LEQ, token.LEQ: token.GTR}

// AtomsRaw is Atoms without the normalisation of false comparisons: the atoms keep
// the expressions as written (needed where an atom names an input of the code).
func AtomsRaw(e ast.Expr, pol bool) []Guard {
	e = ast.Unparen(e)
	switch x := e.(type) {
	case *ast.UnaryExpr:
		if x.Op == token.NOT {
			return AtomsRaw(x.X, !pol)
		}
	case *ast.BinaryExpr:
		if (x.Op == token.LAND && pol) || (x.Op == token.LOR && !pol) {
			return append(AtomsRaw(x.X, pol), AtomsRaw(x.Y, pol)...)
		}
	}
	return []Guard{{Cond: e, Polarity: pol}}
}

func Atoms(e ast.Expr, pol bool) []Guard {
	e = ast.Unparen(e)
	switch x := e.(type) {
	case *ast.UnaryExpr:
		if x.Op == token.NOT {
			return Atoms(x.X, !pol)
		}
	case *ast.BinaryExpr:
		if (x.Op == token.LAND && pol) || (x.Op == token.LOR && !pol) {
			return append(Atoms(x.X, pol), Atoms(x.Y, pol)...)
		}
		// a comparison known to be false is the negated comparison known to be true:
		// `if a != b {..} else {HERE}` and `if a == b {HERE}` give the same atom.
		if !pol {
			if op, ok := negCmp[x.Op]; ok {
				return []Guard{{Cond: &ast.BinaryExpr{X: x.X, OpPos: x.OpPos, Op: op, Y: x.Y}, Polarity: true}}
			}
		}
	}
	return []Guard{{Cond: e, Polarity: pol}}
}

// PredicateExpander, when set, maps a call of a repo function whose body is the single statement
// `return <bool expr>` to that expression with the parameters replaced by the call's arguments
// (nil otherwise).  Guards uses it to look through predicate helpers: `if canMerge(a, b) {`
// guards its body by the conjuncts of canMerge's expression.
var PredicateExpander func(call *ast.CallExpr) ast.Expr

func expandAtoms(as []Guard, depth int) []Guard {
	if PredicateExpander == nil || depth > 2 {
		return as
	}
	var out []Guard
	for _, a := range as {
		if call, ok := ast.Unparen(a.Cond).(*ast.CallExpr); ok {
			if e := PredicateExpander(call); e != nil {
				sub := Atoms(e, a.Polarity)
				for i := range sub {
					sub[i].Site = a.Site
				}
				out = append(out, expandAtoms(sub, depth+1)...)
				continue
			}
		}
		out = append(out, a)
	}
	return out
}
