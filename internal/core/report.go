package core

import (
	"encoding/json"
	"fmt"
	"os"
	"path/filepath"
	"sort"
	"strings"
	"time"
)

// Ob is one obligation: a rule applied to one construct.
type Ob struct {
	Rule      string `json:"rule"`
	Construct string `json:"construct"`
	Pos       string `json:"pos"`
	OK        bool   `json:"ok"`
	Detail    string `json:"detail,omitempty"`
	Paths     int    `json:"paths,omitempty"` // analysed paths / nodes behind the verdict
}

// Report accumulates the obligations of one property run.
type Report struct {
	Prop      string
	Tier      string
	Obs       []Ob
	Floors    []FloorRec
	Notes     []string
	Assume    []string
	Extra     map[string]any
	FuncsSeen map[string]bool
	OutDir    string
	start     time.Time
}

type FloorRec struct {
	Rule string `json:"rule"`
	Got  int    `json:"instances"`
	Min  int    `json:"floor"`
}

func NewReport(prop, tier string) *Report {
	return &Report{Prop: prop, Tier: tier, Extra: map[string]any{}, FuncsSeen: map[string]bool{}, start: time.Now()}
}

// Check records an obligation.
func (r *Report) Check(rule, construct, pos string, ok bool, detail string) bool {
	r.Obs = append(r.Obs, Ob{Rule: rule, Construct: construct, Pos: pos, OK: ok, Detail: detail, Paths: 1})
	return ok
}

// Checkf is Check with a formatted detail.
func (r *Report) Checkf(rule, construct, pos string, ok bool, format string, a ...any) bool {
	return r.Check(rule, construct, pos, ok, fmt.Sprintf(format, a...))
}

// Unresolved records an anchor that could not be found: always a failure.
func (r *Report) Unresolved(rule, construct string) {
	r.Obs = append(r.Obs, Ob{Rule: rule, Construct: construct, Pos: "?", OK: false, Detail: "anchor not found in /repo (renamed or removed): rule cannot be decided"})
}

// Floor records the instance count of a rule against its frozen minimum.
func (r *Report) Floor(rule string, got, min int) {
	r.Floors = append(r.Floors, FloorRec{rule, got, min})
	if got < min {
		r.Obs = append(r.Obs, Ob{Rule: rule + "/floor", Construct: "instances", Pos: "-", OK: false,
			Detail: fmt.Sprintf("rule matched %d instance(s), frozen floor is %d: the rule lost its anchors", got, min)})
	}
}

func (r *Report) Note(format string, a ...any) { r.Notes = append(r.Notes, fmt.Sprintf(format, a...)) }
func (r *Report) Assumes(format string, a ...any) {
	r.Assume = append(r.Assume, fmt.Sprintf(format, a...))
}
func (r *Report) Saw(f *Func) {
	if f != nil {
		r.FuncsSeen[f.Name] = true
	}
}

// Known findings file -------------------------------------------------------

type Finding struct {
	Status    string `json:"status"` // "known" | "fixed"
	Property  string `json:"property"`
	Rule      string `json:"rule"`
	Construct string `json:"construct"`
	Commit    string `json:"commit,omitempty"`
	What      string `json:"what"`
}

func loadFindings(verifDir string) []Finding {
	b, err := os.ReadFile(filepath.Join(verifDir, "known_findings.json"))
	if err != nil {
		return nil
	}
	var f struct {
		Findings []Finding `json:"findings"`
	}
	if json.Unmarshal(b, &f) != nil {
		return nil
	}
	return f.Findings
}

// Finish writes the evidence file, prints the verdict lines and returns the
// process exit code.
func (r *Report) Finish(verifDir string, explanation string) int {
	known := loadFindings(verifDir)
	outDir := filepath.Join(verifDir, "evidence")
	if r.OutDir != "" {
		outDir = r.OutDir
	}
	var viol, knownHit []Ob
	for _, o := range r.Obs {
		if o.OK {
			continue
		}
		isKnown := false
		for _, k := range known {
			if k.Status == "known" && k.Property == r.Prop && k.Rule == o.Rule && k.Construct == o.Construct {
				isKnown = true
			}
		}
		if isKnown {
			knownHit = append(knownHit, o)
		} else {
			viol = append(viol, o)
		}
	}
	distinct := map[string]bool{}
	discharged := 0
	for _, o := range r.Obs {
		if o.OK {
			discharged++
		}
		distinct[o.Rule+"|"+o.Construct] = true
	}
	rules := map[string]int{}
	for _, o := range r.Obs {
		rules[strings.SplitN(o.Rule, "/", 2)[0]]++
	}
	var samples []Ob
	seenRule := map[string]int{}
	for _, o := range r.Obs {
		if seenRule[o.Rule] < 1 && len(samples) < 24 {
			samples = append(samples, o)
			seenRule[o.Rule]++
		}
	}
	var keys []string
	for _, o := range r.Obs {
		st := "ok"
		if !o.OK {
			st = "FAILED"
		}
		keys = append(keys, o.Rule+" "+o.Construct+" @"+o.Pos+" "+st)
	}
	var fl []string
	for f := range r.FuncsSeen {
		fl = append(fl, f)
	}
	sort.Strings(fl)
	cov := map[string]any{
		"explanation":         explanation,
		"obligations":         len(r.Obs),
		"discharged":          discharged,
		"evaluations":         len(r.Obs),
		"distinct_nontrivial": len(distinct),
		"rule":                "one obligation = one rule applied to one construct (function, call site, field, table row) of /repo's current source; distinct = distinct rule+construct keys; every obligation is non-trivial in that it names a construct that was resolved in the type-checked program and analysed",
		"samples":             samples,
		"rule_instances":      rules,
		"floors":              r.Floors,
		"functions_analysed":  fl,
		"exhaustive":          true,
		"notes":               r.Notes,
		"obligation_keys":     keys,
	}
	for k, v := range r.Extra {
		cov[k] = v
	}
	if len(viol) > 0 {
		cov["violating_obligations"] = viol
	}
	if len(knownHit) > 0 {
		cov["known_findings_hit"] = knownHit
	}
	ev := map[string]any{
		"property_id": r.Prop,
		"tier":        r.Tier,
		"seed":        0,
		"level":       "other",
		"coverage":    cov,
		"assumptions": append([]string{"go/types, go/cfg, go/ssa (x/tools v0.29.0) and clang 14's front end are trusted", "CFG path rules are path-insensitive except for the condition edges they name"}, r.Assume...),
		"wall_s":      time.Since(r.start).Seconds(),
		"violations":  len(viol),
	}
	os.MkdirAll(outDir, 0o755)
	b, _ := json.MarshalIndent(ev, "", " ")
	evPath := filepath.Join(outDir, r.Prop+".json")
	if err := os.WriteFile(evPath, b, 0o644); err != nil {
		fmt.Fprintln(os.Stderr, "cannot write evidence:", err)
		return 2
	}
	fmt.Printf("%s tier=%s obligations=%d discharged=%d distinct=%d functions=%d wall=%.1fs\n", r.Prop, r.Tier, len(r.Obs), discharged, len(distinct), len(fl), time.Since(r.start).Seconds())
	for _, f := range r.Floors {
		fmt.Printf("  instances %-40s %d (floor %d)\n", f.Rule, f.Got, f.Min)
	}
	for _, o := range knownHit {
		fmt.Printf("KNOWN-FINDING: property=%s %s %s at %s: %s\n", r.Prop, o.Rule, o.Construct, o.Pos, o.Detail)
	}
	if len(viol) > 0 {
		rp := filepath.Join(outDir, r.Prop+".violation.json")
		vb, _ := json.MarshalIndent(map[string]any{"property": r.Prop, "violations": viol}, "", " ")
		os.WriteFile(rp, vb, 0o644)
		for _, o := range viol {
			fmt.Printf("%s: [%s/%s] %s: %s\n", o.Pos, r.Prop, o.Rule, o.Construct, o.Detail)
		}
		fmt.Printf("VIOLATION property=%s replay=%s\n", r.Prop, rp)
		return 1
	}
	os.Remove(filepath.Join(outDir, r.Prop+".violation.json"))
	return 0
}
