package core

import (
	"bytes"
	"fmt"
	"go/ast"
	"go/build/constraint"
	"go/parser"
	"go/printer"
	"go/token"
	"os"
	"path/filepath"
	"strconv"
	"strings"
)

// RealBuildOverlay synthesizes the file that lets package control type-check
// WITHOUT the dae_stub_ebpf tag (the configuration that holds the real
// encoders in bpf_utils.go): bpf_stub.go minus every declaration that a
// !dae_stub_ebpf file also declares, minus imports that became unused.
// The bpf2go-generated bindings it replaces are absent from this sandbox.
func RealBuildOverlay(repo string) (map[string][]byte, error) {
	dir := filepath.Join(repo, "control")
	ents, err := os.ReadDir(dir)
	if err != nil {
		return nil, err
	}
	fset := token.NewFileSet()
	evalTags := func(expr constraint.Expr, stub bool) bool {
		return expr.Eval(func(tag string) bool {
			switch tag {
			case "linux", "amd64", "cgo", "unix":
				return true
			case "dae_stub_ebpf":
				return stub
			}
			return strings.HasPrefix(tag, "go1.")
		})
	}
	realDecl := map[string]bool{}
	var stubFile *ast.File
	var stubName string
	for _, e := range ents {
		name := e.Name()
		if !strings.HasSuffix(name, ".go") || strings.HasSuffix(name, "_test.go") {
			continue
		}
		if strings.HasSuffix(name, "_other.go") || strings.HasSuffix(name, "_darwin.go") || strings.HasSuffix(name, "_windows.go") {
			continue
		}
		src, err := os.ReadFile(filepath.Join(dir, name))
		if err != nil {
			return nil, err
		}
		f, err := parser.ParseFile(fset, filepath.Join(dir, name), src, parser.ParseComments)
		if err != nil {
			return nil, err
		}
		var expr constraint.Expr
		for _, cg := range f.Comments {
			if cg.Pos() > f.Package {
				break
			}
			for _, cm := range cg.List {
				if constraint.IsGoBuild(cm.Text) {
					expr, _ = constraint.Parse(cm.Text)
				}
			}
		}
		inReal, inStub := true, true
		if expr != nil {
			inReal, inStub = evalTags(expr, false), evalTags(expr, true)
		}
		if inStub && !inReal {
			if stubFile != nil {
				// several stub-only files: merge is not supported, keep the largest (bpf_stub.go)
				if !strings.Contains(name, "bpf_stub") {
					continue
				}
			}
			stubFile, stubName = f, name
			continue
		}
		if inReal {
			for _, d := range f.Decls {
				for _, n := range declNames(d) {
					realDecl[n] = true
				}
			}
		}
	}
	if stubFile == nil {
		return nil, fmt.Errorf("no dae_stub_ebpf-only file found in %s", dir)
	}
	// prune declarations
	var kept []ast.Decl
	for _, d := range stubFile.Decls {
		switch x := d.(type) {
		case *ast.FuncDecl:
			if realDecl[declNames(x)[0]] {
				continue
			}
			kept = append(kept, x)
		case *ast.GenDecl:
			if x.Tok == token.IMPORT {
				kept = append(kept, x)
				continue
			}
			var specs []ast.Spec
			for _, sp := range x.Specs {
				switch s := sp.(type) {
				case *ast.TypeSpec:
					if !realDecl[s.Name.Name] {
						specs = append(specs, s)
					}
				case *ast.ValueSpec:
					var names []*ast.Ident
					var vals []ast.Expr
					for i, nm := range s.Names {
						if !realDecl[nm.Name] {
							names = append(names, nm)
							if i < len(s.Values) {
								vals = append(vals, s.Values[i])
							}
						}
					}
					if len(names) > 0 {
						if len(names) != len(s.Names) {
							s.Names, s.Values = names, vals
						}
						specs = append(specs, s)
					}
				}
			}
			if len(specs) > 0 {
				x.Specs = specs
				kept = append(kept, x)
			}
		}
	}
	stubFile.Decls = kept
	// prune unused imports
	used := map[string]bool{}
	for _, d := range stubFile.Decls {
		if gd, ok := d.(*ast.GenDecl); ok && gd.Tok == token.IMPORT {
			continue
		}
		ast.Inspect(d, func(n ast.Node) bool {
			if se, ok := n.(*ast.SelectorExpr); ok {
				if id, ok := se.X.(*ast.Ident); ok {
					used[id.Name] = true
				}
			}
			return true
		})
	}
	for _, d := range stubFile.Decls {
		gd, ok := d.(*ast.GenDecl)
		if !ok || gd.Tok != token.IMPORT {
			continue
		}
		var specs []ast.Spec
		for _, sp := range gd.Specs {
			is := sp.(*ast.ImportSpec)
			path, _ := strconv.Unquote(is.Path.Value)
			name := filepath.Base(path)
			if is.Name != nil {
				name = is.Name.Name
			}
			if strings.HasPrefix(name, "v") && len(name) <= 3 { // …/v4 style
				parts := strings.Split(path, "/")
				if len(parts) >= 2 {
					name = parts[len(parts)-2]
				}
			}
			if name == "_" || name == "." || used[name] {
				specs = append(specs, sp)
			}
		}
		gd.Specs = specs
	}
	stubFile.Comments = nil
	var buf bytes.Buffer
	buf.WriteString("//go:build !dae_stub_ebpf\n\n")
	if err := printer.Fprint(&buf, fset, stubFile); err != nil {
		return nil, err
	}
	_ = stubName
	return map[string][]byte{filepath.Join(dir, "zz_verif_realbuild_stub.go"): buf.Bytes()}, nil
}

func declNames(d ast.Decl) []string {
	switch x := d.(type) {
	case *ast.FuncDecl:
		if r := RecvTypeName(x); r != "" {
			return []string{r + "." + x.Name.Name}
		}
		return []string{x.Name.Name}
	case *ast.GenDecl:
		var out []string
		for _, sp := range x.Specs {
			switch s := sp.(type) {
			case *ast.TypeSpec:
				out = append(out, s.Name.Name)
			case *ast.ValueSpec:
				for _, n := range s.Names {
					out = append(out, n.Name)
				}
			}
		}
		return out
	}
	return nil
}
