package core

import (
	"go/ast"
	"go/parser"
	"go/printer"
	"go/token"
	"go/types"
	"strings"

	"golang.org/x/tools/go/types/typeutil"
)

// Ref names a function or method: "control.DnsController.LookupDnsRespCache_",
// "component/dns.RequestMatcher.Match", "net.Conn.SetReadDeadline",
// "*.SetReadDeadline" (any receiver), "time.Now".
type Ref struct {
	Pkg, Recv, Name string
	AnyRecv         bool
}

func ParseRef(s string) Ref {
	if strings.HasPrefix(s, "*.") {
		return Ref{Name: s[2:], AnyRecv: true}
	}
	slash := strings.LastIndex(s, "/")
	dot := strings.Index(s[slash+1:], ".")
	pkg := s[:slash+1+dot]
	rest := s[slash+1+dot+1:]
	r := Ref{Pkg: pkg}
	if i := strings.Index(rest, "."); i >= 0 {
		r.Recv, r.Name = rest[:i], rest[i+1:]
	} else {
		r.Name = rest
	}
	return r
}

func recvNamed(fn *types.Func) string {
	sig, ok := fn.Type().(*types.Signature)
	if !ok || sig.Recv() == nil {
		return ""
	}
	t := sig.Recv().Type()
	if p, ok := t.(*types.Pointer); ok {
		t = p.Elem()
	}
	switch n := t.(type) {
	case *types.Named:
		return n.Obj().Name()
	case *types.Alias:
		return n.Obj().Name()
	}
	return "?"
}

// Matches reports whether fn is the function named by r.
func (r Ref) Matches(fn *types.Func) bool {
	if fn == nil || fn.Name() != r.Name {
		return false
	}
	if r.AnyRecv {
		return recvNamed(fn) != ""
	}
	pp := ""
	if fn.Pkg() != nil {
		pp = fn.Pkg().Path()
	}
	if pp != r.Pkg && pp != ModPath+"/"+r.Pkg && !(r.Pkg == "" && pp == ModPath) {
		return false
	}
	return recvNamed(fn) == r.Recv
}

// Refs is a set of function references.
type Refs []Ref

func ParseRefs(ss ...string) Refs {
	var out Refs
	for _, s := range ss {
		out = append(out, ParseRef(s))
	}
	return out
}

func (rs Refs) Matches(fn *types.Func) bool {
	for _, r := range rs {
		if r.Matches(fn) {
			return true
		}
	}
	return false
}

// Callee resolves the static callee of a call through type information
// (functions, methods, interface methods); nil for closures and builtins.
func Callee(info *types.Info, c *ast.CallExpr) *types.Func {
	if f, ok := typeutil.Callee(info, c).(*types.Func); ok {
		return f.Origin()
	}
	return nil
}

// CalleeObj is Callee extended to package-level function variables
// (`var begin = pkg.Begin` … `begin()`): the variable object is returned.
func CalleeObj(info *types.Info, c *ast.CallExpr) types.Object {
	if f := Callee(info, c); f != nil {
		return f
	}
	if v, ok := typeutil.Callee(info, c).(*types.Var); ok && v.Pkg() != nil && v.Parent() == v.Pkg().Scope() {
		return v
	}
	return nil
}

// MatchesObj matches a function or a package-level function variable.
func (r Ref) MatchesObj(o types.Object) bool {
	switch x := o.(type) {
	case *types.Func:
		return r.Matches(x)
	case *types.Var:
		if r.Recv != "" || r.AnyRecv || x.Name() != r.Name || x.Pkg() == nil {
			return false
		}
		pp := x.Pkg().Path()
		return pp == r.Pkg || pp == ModPath+"/"+r.Pkg
	}
	return false
}

func (rs Refs) MatchesObj(o types.Object) bool {
	for _, r := range rs {
		if r.MatchesObj(o) {
			return true
		}
	}
	return false
}

// CallOpt controls how a node is searched for calls.
type CallOpt int

const (
	// Shallow: calls evaluated by the node itself; function literal bodies
	// are skipped, except that a `defer func(){…}()` literal is entered
	// (its body runs before the function returns).
	Shallow CallOpt = iota
	// NoDefer: like Shallow but defer/go statements are skipped entirely.
	NoDefer
	// Deep: descend into every function literal.
	Deep
)

// EachCall visits the calls evaluated by node n.
func EachCall(n ast.Node, opt CallOpt, fn func(*ast.CallExpr)) {
	if n == nil {
		return
	}
	var visit func(ast.Node, bool)
	visit = func(n ast.Node, top bool) {
		ast.Inspect(n, func(m ast.Node) bool {
			switch x := m.(type) {
			case *ast.FuncLit:
				return opt == Deep
			case *ast.DeferStmt:
				if opt == NoDefer {
					return false
				}
				if lit, ok := x.Call.Fun.(*ast.FuncLit); ok && opt == Shallow {
					fn(x.Call)
					for _, a := range x.Call.Args {
						visit(a, false)
					}
					visit(lit.Body, false)
					return false
				}
			case *ast.GoStmt:
				if opt == NoDefer || opt == Shallow {
					// arguments are evaluated now, the call body is not
					for _, a := range x.Call.Args {
						visit(a, false)
					}
					return false
				}
			case *ast.CallExpr:
				fn(x)
			}
			return true
		})
	}
	visit(n, true)
}

// HasCall reports whether node n evaluates a call to one of refs.
func HasCall(info *types.Info, n ast.Node, refs Refs, opt CallOpt) bool {
	found := false
	EachCall(n, opt, func(c *ast.CallExpr) {
		if !found && refs.Matches(Callee(info, c)) {
			found = true
		}
	})
	return found
}

// FindCalls lists calls to refs anywhere in the function body (Deep).
func (f *Func) FindCalls(refs Refs) []*ast.CallExpr {
	var out []*ast.CallExpr
	EachCall(f.Body, Deep, func(c *ast.CallExpr) {
		if refs.MatchesObj(CalleeObj(f.Info(), c)) {
			out = append(out, c)
		}
	})
	return out
}

// CallPred builds a node predicate "evaluates a call to one of refs".
func (f *Func) CallPred(opt CallOpt, refs ...string) func(ast.Node) bool {
	rs := ParseRefs(refs...)
	info := f.Info()
	return func(n ast.Node) bool { return HasCall(info, n, rs, opt) }
}

// Or combines node predicates.
func Or(ps ...func(ast.Node) bool) func(ast.Node) bool {
	return func(n ast.Node) bool {
		for _, p := range ps {
			if p(n) {
				return true
			}
		}
		return false
	}
}

// ExprStr renders an expression compactly.
func ExprStr(e ast.Expr) string { return types.ExprString(e) }

// RootObj returns the variable at the root of a selector/index/star chain
// (x in x.a.b[i].c), or nil.
func RootObj(info *types.Info, e ast.Expr) types.Object {
	for {
		switch x := ast.Unparen(e).(type) {
		case *ast.SelectorExpr:
			e = x.X
		case *ast.IndexExpr:
			e = x.X
		case *ast.StarExpr:
			e = x.X
		case *ast.UnaryExpr:
			e = x.X
		case *ast.CallExpr:
			return nil
		case *ast.Ident:
			return info.ObjectOf(x)
		default:
			return nil
		}
	}
}

// FieldPath renders a selector chain as Type.field.field for matching
// guarded fields: the root identifier is replaced by its named type.
func FieldPath(info *types.Info, e ast.Expr) string {
	var parts []string
	for {
		switch x := ast.Unparen(e).(type) {
		case *ast.SelectorExpr:
			parts = append([]string{x.Sel.Name}, parts...)
			e = x.X
			continue
		case *ast.StarExpr:
			e = x.X
			continue
		case *ast.IndexExpr:
			e = x.X
			continue
		case *ast.Ident:
			t := info.TypeOf(x)
			name := "?"
			if t != nil {
				if p, ok := t.(*types.Pointer); ok {
					t = p.Elem()
				}
				if n, ok := t.(*types.Named); ok {
					name = n.Obj().Name()
				}
			}
			return strings.Join(append([]string{name}, parts...), ".")
		}
		return "?." + strings.Join(parts, ".")
	}
}

// SelField returns the struct field object a selector expression denotes.
func SelField(info *types.Info, e ast.Expr) *types.Var {
	se, ok := ast.Unparen(e).(*ast.SelectorExpr)
	if !ok {
		return nil
	}
	if s, ok := info.Selections[se]; ok && s.Kind() == types.FieldVal {
		if v, ok := s.Obj().(*types.Var); ok {
			return v
		}
	}
	return nil
}

// FieldOf returns "Owner.field" for a field selector (owner = the struct's
// named type), "" otherwise.
func FieldOf(info *types.Info, e ast.Expr) string {
	se, ok := ast.Unparen(e).(*ast.SelectorExpr)
	if !ok {
		return ""
	}
	s, ok := info.Selections[se]
	if !ok || s.Kind() != types.FieldVal {
		return ""
	}
	t := s.Recv()
	// walk embedded path to the struct that declares the field
	idx := s.Index()
	for i := 0; i < len(idx)-1; i++ {
		if p, ok := t.Underlying().(*types.Pointer); ok {
			t = p.Elem()
		}
		st, ok := t.Underlying().(*types.Struct)
		if !ok {
			break
		}
		t = st.Field(idx[i]).Type()
	}
	if p, ok := t.(*types.Pointer); ok {
		t = p.Elem()
	}
	if p, ok := t.Underlying().(*types.Pointer); ok {
		t = p.Elem()
	}
	name := "?"
	if n, ok := t.(*types.Named); ok {
		name = n.Obj().Name()
	}
	return name + "." + se.Sel.Name
}

// ExprStr2 renders any node (statement or expression) compactly on one line.
func ExprStr2(n ast.Node) string {
	if e, ok := n.(ast.Expr); ok {
		return types.ExprString(e)
	}
	var sb strings.Builder
	printer.Fprint(&sb, token.NewFileSet(), n)
	s := sb.String()
	if i := strings.IndexByte(s, '\n'); i >= 0 {
		s = s[:i] + " …"
	}
	return s
}

// FullStr prints a node completely (all lines).
func FullStr(n ast.Node) string {
	var sb strings.Builder
	printer.Fprint(&sb, token.NewFileSet(), n)
	return sb.String()
}

// FlipOp mirrors a comparison operator (a < b  ==  b > a).
func FlipOp(op token.Token) token.Token {
	switch op {
	case token.LSS:
		return token.GTR
	case token.GTR:
		return token.LSS
	case token.LEQ:
		return token.GEQ
	case token.GEQ:
		return token.LEQ
	}
	return op
}

// IsCmp reports whether op is a comparison operator.
func IsCmp(op token.Token) bool {
	switch op {
	case token.EQL, token.NEQ, token.LSS, token.GTR, token.LEQ, token.GEQ:
		return true
	}
	return false
}

// Oriented returns a comparison with the operand satisfying subj on the left
// (the operator mirrored when the source has it on the right).
func Oriented(be *ast.BinaryExpr, subj func(ast.Expr) bool) (x ast.Expr, op token.Token, y ast.Expr, ok bool) {
	if be == nil || !IsCmp(be.Op) {
		return nil, 0, nil, false
	}
	if subj(ast.Unparen(be.X)) {
		return ast.Unparen(be.X), be.Op, ast.Unparen(be.Y), true
	}
	if subj(ast.Unparen(be.Y)) {
		return ast.Unparen(be.Y), FlipOp(be.Op), ast.Unparen(be.X), true
	}
	return nil, 0, nil, false
}

func noSpace(s string) string {
	return strings.Map(func(r rune) rune {
		if r == ' ' || r == '\t' || r == '\n' {
			return -1
		}
		return r
	}, s)
}

// NormCond renders a condition without blanks and with every comparison in a
// canonical orientation (the operand whose rendering sorts first on the left),
// so that `a < b` and `b > a` render alike.
func NormCond(e ast.Expr) string {
	switch x := e.(type) {
	case *ast.ParenExpr:
		return "(" + NormCond(x.X) + ")"
	case *ast.UnaryExpr:
		if x.Op == token.NOT {
			return "!" + NormCond(x.X)
		}
	case *ast.BinaryExpr:
		if x.Op == token.LAND || x.Op == token.LOR {
			return NormCond(x.X) + x.Op.String() + NormCond(x.Y)
		}
		if IsCmp(x.Op) {
			l, r := noSpace(ExprStr(x.X)), noSpace(ExprStr(x.Y))
			op := x.Op
			if l > r {
				l, r, op = r, l, FlipOp(op)
			}
			return l + op.String() + r
		}
	}
	return noSpace(ExprStr(e))
}

// NormPat applies NormCond to a pattern written as Go source.
func NormPat(s string) string {
	e, err := parser.ParseExpr(s)
	if err != nil {
		return noSpace(s)
	}
	return NormCond(e)
}

// HasCond reports whether root contains a boolean (sub)expression that equals
// the pattern up to blanks and the orientation of comparisons.
func HasCond(root ast.Node, pat string) bool {
	want := NormPat(pat)
	found := false
	ast.Inspect(root, func(n ast.Node) bool {
		if found {
			return false
		}
		if e, ok := n.(ast.Expr); ok {
			switch e.(type) {
			case *ast.BinaryExpr, *ast.UnaryExpr, *ast.ParenExpr:
				if NormCond(e) == want {
					found = true
				}
			}
		}
		return !found
	})
	return found
}
