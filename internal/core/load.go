// Package core holds the shared machinery of daecheck: loading /repo as a
// type-checked program, function lookup, CFG reachability rules, call
// matching, and obligation/evidence bookkeeping.
package core

import (
	"fmt"
	"go/ast"
	"go/token"
	"go/types"
	"os"
	"sort"
	"strings"
	"sync"

	"golang.org/x/tools/go/cfg"
	"golang.org/x/tools/go/packages"
	"golang.org/x/tools/go/ssa"
	"golang.org/x/tools/go/ssa/ssautil"
)

const ModPath = "github.com/daeuniverse/dae"

// Prog is /repo loaded and type-checked under one build configuration.
type Prog struct {
	Repo    string
	Variant string // "stub" | "real" | "stub-386" ...
	Fset    *token.FileSet
	Roots   []*packages.Package
	All     map[string]*packages.Package // by PkgPath, repo + deps
	NPkgs   int

	ssaOnce sync.Once
	SSA     *ssa.Program
	ssaPkgs []*ssa.Package

	funcs map[string]*Func // cache by key
}

// LoadOpts selects the build configuration.
type LoadOpts struct {
	Repo    string
	Tags    string            // e.g. "dae_stub_ebpf"
	Env     []string          // extra env (GOARCH=386)
	Overlay map[string][]byte // packages overlay
	Variant string
	Syntax  bool   // LoadSyntax only (no deps' syntax) – cheaper
	Pattern string // default "./..."
	// AllowErrorsIn: package rel paths whose type errors are tolerated (none by default)
}

func baseEnv() []string {
	env := []string{}
	for _, e := range os.Environ() {
		if strings.HasPrefix(e, "GOWORK=") || strings.HasPrefix(e, "GOFLAGS=") || strings.HasPrefix(e, "GOPROXY=") ||
			strings.HasPrefix(e, "GOSUMDB=") || strings.HasPrefix(e, "GOTOOLCHAIN=") || strings.HasPrefix(e, "GOROOT=") {
			continue
		}
		env = append(env, e)
	}
	if gr := goRoot(); gr != "" {
		for i, e := range env {
			if strings.HasPrefix(e, "PATH=") {
				env[i] = "PATH=" + gr + "/bin:" + e[5:]
			}
		}
		env = append(env, "GOROOT="+gr)
	}
	env = append(env, "GOWORK=off", "GOFLAGS=-mod=mod", "GOPROXY=off", "GOSUMDB=off", "GOTOOLCHAIN=local")
	return env
}

// goRoot finds the Go >= 1.26 toolchain that /repo's go.mod needs; the
// default `go` on PATH is too old and cannot switch offline.
func goRoot() string {
	if g := os.Getenv("DAECHECK_GOROOT"); g != "" {
		return g
	}
	for _, g := range []string{"/opt/veriftools/go1.26.8"} {
		if _, err := os.Stat(g + "/bin/go"); err == nil {
			return g
		}
	}
	return ""
}

// Load type-checks every package of the repository. Any type error, a zero
// package count or a load error is returned as an error: undecided is failure.
func Load(o LoadOpts) (*Prog, error) {
	if gr := goRoot(); gr != "" && !strings.HasPrefix(os.Getenv("PATH"), gr+"/bin:") {
		// exec.LookPath("go") in go/packages uses this process's PATH
		os.Setenv("PATH", gr+"/bin:"+os.Getenv("PATH"))
	}
	mode := packages.LoadAllSyntax
	if o.Syntax {
		mode = packages.LoadSyntax
	}
	fset := token.NewFileSet()
	cfgp := &packages.Config{Mode: mode, Dir: o.Repo, Fset: fset, Env: append(baseEnv(), o.Env...), Overlay: o.Overlay}
	if o.Tags != "" {
		cfgp.BuildFlags = []string{"-tags=" + o.Tags}
	}
	pat := o.Pattern
	if pat == "" {
		pat = "./..."
	}
	roots, err := packages.Load(cfgp, pat)
	if err != nil {
		return nil, fmt.Errorf("packages.Load: %w", err)
	}
	if len(roots) == 0 {
		return nil, fmt.Errorf("no packages loaded from %s", o.Repo)
	}
	p := &Prog{Repo: o.Repo, Variant: o.Variant, Fset: fset, Roots: roots, All: map[string]*packages.Package{}, funcs: map[string]*Func{}}
	var errs []string
	packages.Visit(roots, nil, func(pk *packages.Package) {
		p.All[pk.PkgPath] = pk
		p.NPkgs++
		if strings.HasPrefix(pk.PkgPath, ModPath) {
			for _, e := range pk.Errors {
				errs = append(errs, e.Error())
			}
		}
	})
	if len(errs) > 0 {
		sort.Strings(errs)
		if len(errs) > 12 {
			errs = errs[:12]
		}
		return nil, fmt.Errorf("type/load errors in repo packages (%s variant):\n  %s", o.Variant, strings.Join(errs, "\n  "))
	}
	p.canonicalise()
	if o.Variant == "stub" || PredicateExpander == nil {
		p.installPredicateExpander()
	}
	return p, nil
}

// Pkg returns the repo package with the given path relative to the module
// ("control", "component/dns", "" for the root).
func (p *Prog) Pkg(rel string) *packages.Package {
	path := ModPath
	if rel != "" {
		path += "/" + rel
	}
	return p.All[path]
}

// RepoPkgs lists the repository's own packages, sorted.
func (p *Prog) RepoPkgs() []*packages.Package {
	var out []*packages.Package
	for path, pk := range p.All {
		if strings.HasPrefix(path, ModPath) {
			out = append(out, pk)
		}
	}
	sort.Slice(out, func(i, j int) bool { return out[i].PkgPath < out[j].PkgPath })
	return out
}

// BuildSSA builds SSA for the whole program (lazily, once).
func (p *Prog) BuildSSA() *ssa.Program {
	p.ssaOnce.Do(func() {
		prog, pkgs := ssautil.AllPackages(p.Roots, ssa.InstantiateGenerics)
		prog.Build()
		p.SSA = prog
		p.ssaPkgs = pkgs
	})
	return p.SSA
}

// Pos renders a position relative to the repo root.
func (p *Prog) Pos(pos token.Pos) string {
	if !pos.IsValid() {
		return "?"
	}
	ps := p.Fset.Position(pos)
	f := strings.TrimPrefix(ps.Filename, p.Repo+"/")
	return fmt.Sprintf("%s:%d", f, ps.Line)
}

// Func is a source function (declared or literal) with its type info.
type Func struct {
	Prog *Prog
	Pkg  *packages.Package
	Name string // "control.(*RoutingMatcher).Match" style display name
	Decl *ast.FuncDecl
	Lit  *ast.FuncLit
	Body *ast.BlockStmt
	Obj  *types.Func
	Type *ast.FuncType

	g *Graph
}

func (f *Func) Info() *types.Info { return f.Pkg.TypesInfo }
func (f *Func) Pos() token.Pos {
	if f.Decl != nil {
		return f.Decl.Pos()
	}
	return f.Lit.Pos()
}

// Func finds a declared function: rel package path, and "Name" or "Recv.Name".
func (p *Prog) Func(rel, name string) *Func {
	key := rel + ":" + name
	if f, ok := p.funcs[key]; ok {
		return f
	}
	pk := p.Pkg(rel)
	if pk == nil {
		return nil
	}
	recv, fn := "", name
	if i := strings.Index(name, "."); i >= 0 {
		recv, fn = name[:i], name[i+1:]
	}
	for _, file := range pk.Syntax {
		for _, d := range file.Decls {
			fd, ok := d.(*ast.FuncDecl)
			if !ok || fd.Name.Name != fn || fd.Body == nil {
				continue
			}
			r := RecvTypeName(fd)
			if r != recv {
				continue
			}
			obj, _ := pk.TypesInfo.Defs[fd.Name].(*types.Func)
			f := &Func{Prog: p, Pkg: pk, Name: rel + "." + name, Decl: fd, Body: fd.Body, Obj: obj, Type: fd.Type}
			p.funcs[key] = f
			return f
		}
	}
	p.funcs[key] = nil
	return nil
}

// RecvTypeName returns the receiver's named type ("" for plain functions),
// ignoring pointers and type parameters.
func RecvTypeName(fd *ast.FuncDecl) string {
	if fd.Recv == nil || len(fd.Recv.List) == 0 {
		return ""
	}
	t := fd.Recv.List[0].Type
	for {
		switch x := t.(type) {
		case *ast.StarExpr:
			t = x.X
			continue
		case *ast.IndexExpr:
			t = x.X
			continue
		case *ast.IndexListExpr:
			t = x.X
			continue
		case *ast.ParenExpr:
			t = x.X
			continue
		case *ast.Ident:
			return x.Name
		}
		return ""
	}
}

// FuncsIn lists every declared function with a body in the package.
func (p *Prog) FuncsIn(rel string) []*Func {
	pk := p.Pkg(rel)
	if pk == nil {
		return nil
	}
	var out []*Func
	for _, file := range pk.Syntax {
		for _, d := range file.Decls {
			fd, ok := d.(*ast.FuncDecl)
			if !ok || fd.Body == nil {
				continue
			}
			name := fd.Name.Name
			if r := RecvTypeName(fd); r != "" {
				name = r + "." + name
			}
			if f := p.Func(rel, name); f != nil && f.Decl == fd {
				out = append(out, f)
			} else {
				obj, _ := pk.TypesInfo.Defs[fd.Name].(*types.Func)
				out = append(out, &Func{Prog: p, Pkg: pk, Name: rel + "." + name, Decl: fd, Body: fd.Body, Obj: obj, Type: fd.Type})
			}
		}
	}
	return out
}

// LitFunc wraps a function literal found inside f.
func (f *Func) LitFunc(lit *ast.FuncLit, label string) *Func {
	return &Func{Prog: f.Prog, Pkg: f.Pkg, Name: f.Name + "$" + label, Lit: lit, Body: lit.Body, Type: lit.Type}
}

// FileOf returns the repo-relative file name holding the function.
func (f *Func) File() string {
	ps := f.Prog.Fset.Position(f.Pos())
	return strings.TrimPrefix(ps.Filename, f.Prog.Repo+"/")
}

// Graph returns the function's control-flow graph.
func (f *Func) Graph() *Graph {
	if f.g == nil {
		info := f.Info()
		f.g = &Graph{F: f, CFG: cfg.New(f.Body, func(c *ast.CallExpr) bool { return MayReturn(info, c) })}
	}
	return f.g
}

// MayReturn is false for calls that never return normally.
func MayReturn(info *types.Info, c *ast.CallExpr) bool {
	switch fun := ast.Unparen(c.Fun).(type) {
	case *ast.Ident:
		if b, ok := info.Uses[fun].(*types.Builtin); ok && b.Name() == "panic" {
			return false
		}
	case *ast.SelectorExpr:
		name := fun.Sel.Name
		if obj, ok := info.Uses[fun.Sel].(*types.Func); ok && obj.Pkg() != nil {
			pp := obj.Pkg().Path()
			if pp == "os" && name == "Exit" {
				return false
			}
			if pp == "log" && (strings.HasPrefix(name, "Fatal") || strings.HasPrefix(name, "Panic")) {
				return false
			}
			if strings.Contains(pp, "logrus") && (strings.HasPrefix(name, "Fatal") || strings.HasPrefix(name, "Panic")) {
				return false
			}
			if pp == "runtime" && name == "Goexit" {
				return false
			}
		}
	}
	return true
}

// FuncOfObj finds the declaration of a repo function by its object (nil if it
// is not declared with a body in a loaded repo package).
func (p *Prog) FuncOfObj(fn *types.Func) *Func {
	if fn == nil || fn.Pkg() == nil || !strings.HasPrefix(fn.Pkg().Path(), ModPath) {
		return nil
	}
	rel := strings.TrimPrefix(strings.TrimPrefix(fn.Pkg().Path(), ModPath), "/")
	name := fn.Name()
	if r := recvNamed(fn); r != "" {
		name = r + "." + name
	}
	f := p.Func(rel, name)
	if f != nil && f.Obj != fn {
		return nil
	}
	return f
}

// installPredicateExpander wires cfgx.PredicateExpander to this program.
func (p *Prog) installPredicateExpander() {
	PredicateExpander = func(call *ast.CallExpr) ast.Expr {
		var info *types.Info
		var fn *types.Func
		for _, pk := range p.RepoPkgs() {
			if f := Callee(pk.TypesInfo, call); f != nil {
				info, fn = pk.TypesInfo, f
				break
			}
		}
		if fn == nil {
			return nil
		}
		h := p.FuncOfObj(fn)
		if h == nil || h.Decl == nil || h.Body == nil || len(h.Body.List) != 1 || h.Decl.Recv != nil {
			return nil
		}
		rs, ok := h.Body.List[0].(*ast.ReturnStmt)
		if !ok || len(rs.Results) != 1 {
			return nil
		}
		if b, ok := info.TypeOf(rs.Results[0]).Underlying().(*types.Basic); !ok || b.Info()&types.IsBoolean == 0 {
			return nil
		}
		subst := map[types.Object]ast.Expr{}
		i := 0
		hinfo := h.Pkg.TypesInfo
		for _, fld := range h.Decl.Type.Params.List {
			for _, nm := range fld.Names {
				if i < len(call.Args) {
					subst[hinfo.ObjectOf(nm)] = call.Args[i]
				}
				i++
			}
		}
		if i != len(call.Args) {
			return nil
		}
		return cloneSubst(hinfo, rs.Results[0], subst)
	}
}

// cloneSubst deep-copies an expression, replacing identifiers of substituted objects by the given
// expressions (shared, not copied) and registering the copies' type information.
func cloneSubst(info *types.Info, e ast.Expr, subst map[types.Object]ast.Expr) ast.Expr {
	reg := func(orig, cp ast.Expr) ast.Expr {
		if tv, ok := info.Types[orig]; ok {
			info.Types[cp] = tv
		}
		return cp
	}
	var cl func(e ast.Expr) ast.Expr
	cl = func(e ast.Expr) ast.Expr {
		switch x := e.(type) {
		case nil:
			return nil
		case *ast.Ident:
			if o := info.ObjectOf(x); o != nil {
				if r, ok := subst[o]; ok {
					return r
				}
			}
			cp := *x
			if o, ok := info.Uses[x]; ok {
				info.Uses[&cp] = o
			}
			return reg(x, &cp)
		case *ast.BasicLit:
			cp := *x
			return reg(x, &cp)
		case *ast.ParenExpr:
			return reg(x, &ast.ParenExpr{Lparen: x.Lparen, X: cl(x.X), Rparen: x.Rparen})
		case *ast.UnaryExpr:
			return reg(x, &ast.UnaryExpr{OpPos: x.OpPos, Op: x.Op, X: cl(x.X)})
		case *ast.StarExpr:
			return reg(x, &ast.StarExpr{Star: x.Star, X: cl(x.X)})
		case *ast.BinaryExpr:
			return reg(x, &ast.BinaryExpr{X: cl(x.X), OpPos: x.OpPos, Op: x.Op, Y: cl(x.Y)})
		case *ast.SelectorExpr:
			sel := *x.Sel
			if o, ok := info.Uses[x.Sel]; ok {
				info.Uses[&sel] = o
			}
			cp := &ast.SelectorExpr{X: cl(x.X), Sel: &sel}
			if s, ok := info.Selections[x]; ok {
				info.Selections[cp] = s
			}
			return reg(x, cp)
		case *ast.IndexExpr:
			return reg(x, &ast.IndexExpr{X: cl(x.X), Lbrack: x.Lbrack, Index: cl(x.Index), Rbrack: x.Rbrack})
		case *ast.SliceExpr:
			return reg(x, &ast.SliceExpr{X: cl(x.X), Lbrack: x.Lbrack, Low: cl(x.Low), High: cl(x.High), Max: cl(x.Max), Slice3: x.Slice3, Rbrack: x.Rbrack})
		case *ast.CallExpr:
			cp := &ast.CallExpr{Fun: cl(x.Fun), Lparen: x.Lparen, Ellipsis: x.Ellipsis, Rparen: x.Rparen}
			for _, a := range x.Args {
				cp.Args = append(cp.Args, cl(a))
			}
			return reg(x, cp)
		}
		return e
	}
	return cl(e)
}
