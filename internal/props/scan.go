package props

import (
	"fmt"
	"go/ast"
	"go/constant"
	"go/types"
	"sort"
	"strings"

	"daecheck/internal/core"
	"daecheck/internal/fdt"

	"golang.org/x/tools/go/cfg"
)

// scanSpec describes one first-match scan loop (routing / DNS matchers).
type scanSpec struct {
	Rel, Fn    string // function holding the loop
	RangeOver  string // suffix of the ranged expression
	NotField   string // rendered expr of the entry's negation flag, e.g. "match.not"
	OutField   string // rendered expr of the entry's outbound/upstream byte
	MustField  string // "" when the matcher has no must flag
	Or, And    int64
	Mask       int64
	MustRules  int64 // -1 when absent
	UserKinds  []int64
	HasMustVar bool
}

type scanState struct{ good, bad, must bool }

// refScan is the reference transition written from the property text.
// It returns the set of outcomes for one abstract input.
func refScan(sp scanSpec, st scanState, not, mustFlag bool, kind int64) []string {
	var outs []string
	goods := []bool{st.good}
	if !(st.bad || st.good) {
		goods = []bool{false, true} // the entry's predicate may or may not hit
	}
	for _, g := range goods {
		bad := st.bad
		must := st.must
		if kind != sp.Or {
			if g == not {
				bad = true
			}
			g = false
		}
		if kind&sp.Mask != sp.Mask { // tail of a rule
			if !bad {
				if sp.MustRules >= 0 && kind == sp.MustRules {
					must = true
					outs = append(outs, nextStr(sp, scanState{g, bad, must}))
					continue
				}
				if sp.MustField != "" {
					outs = append(outs, fmt.Sprintf("return(%d, sym:mark, %v)", kind, mustFlag || must))
				} else {
					outs = append(outs, fmt.Sprintf("return(%d)", kind))
				}
				continue
			}
			bad = false
		}
		outs = append(outs, nextStr(sp, scanState{g, bad, must}))
	}
	return uniqSorted(outs)
}

func nextStr(sp scanSpec, s scanState) string {
	if sp.HasMustVar {
		return fmt.Sprintf("next{bad=%v good=%v must=%v}", s.bad, s.good, s.must)
	}
	return fmt.Sprintf("next{bad=%v good=%v}", s.bad, s.good)
}

func uniqSorted(in []string) []string {
	m := map[string]bool{}
	for _, s := range in {
		m[s] = true
	}
	var out []string
	for s := range m {
		out = append(out, s)
	}
	sort.Strings(out)
	return out
}

// checkScan extracts the loop body's decision table with the FDT interpreter
// and compares it, cell by cell, with refScan.  Returns the number of cells.
func checkScan(c *Ctx, rule string, sp scanSpec) int {
	f := c.fn(rule, sp.Rel, sp.Fn)
	if f == nil {
		return 0
	}
	info := f.Info()
	var rng *ast.RangeStmt
	ast.Inspect(f.Body, func(m ast.Node) bool {
		if rs, ok := m.(*ast.RangeStmt); ok && strings.HasSuffix(core.ExprStr(rs.X), sp.RangeOver) && rng == nil {
			rng = rs
		}
		return true
	})
	if rng == nil {
		c.R.Unresolved(rule, sp.Fn+": loop over "+sp.RangeOver)
		return 0
	}
	g := f.Graph()
	var body *cfg.Block
	heads := map[*cfg.Block]bool{}
	for _, b := range g.CFG.Blocks {
		if b.Stmt == ast.Stmt(rng) {
			switch b.Kind {
			case cfg.KindRangeBody:
				body = b
			case cfg.KindRangeLoop:
				heads[b] = true
			}
		}
	}
	if body == nil {
		c.R.Unresolved(rule, sp.Fn+": loop body block")
		return 0
	}
	// tracked locals by name
	find := func(name string) types.Object {
		var o types.Object
		ast.Inspect(f.Decl, func(m ast.Node) bool {
			if id, ok := m.(*ast.Ident); ok && id.Name == name && o == nil {
				if d := info.Defs[id]; d != nil {
					o = d
				}
			}
			return true
		})
		return o
	}
	good, bad := find("goodSubrule"), find("badRule")
	var must types.Object
	if sp.HasMustVar {
		must = find("must")
	}
	if good == nil || bad == nil || (sp.HasMustVar && must == nil) {
		c.R.Unresolved(rule, sp.Fn+": state variables goodSubrule/badRule/must")
		return 0
	}
	tracked := map[types.Object]string{good: "good", bad: "bad"}
	if must != nil {
		tracked[must] = "must"
	}
	kinds := append([]int64{sp.Or, sp.And}, sp.UserKinds...)
	if sp.MustRules >= 0 {
		kinds = append(kinds, sp.MustRules)
	}
	cells, mism := 0, 0
	bools := []bool{false, true}
	musts := []bool{false}
	if sp.HasMustVar {
		musts = bools
	}
	mflags := []bool{false}
	if sp.MustField != "" {
		mflags = bools
	}
	var firstMismatch string
	for _, sg := range bools {
		for _, sb := range bools {
			for _, sm := range musts {
				for _, not := range bools {
					for _, mf := range mflags {
						for _, kind := range kinds {
							in := map[string]constant.Value{
								sp.NotField: constant.MakeBool(not),
								sp.OutField: constant.MakeInt64(kind),
							}
							if sp.MustField != "" {
								in[sp.MustField] = constant.MakeBool(mf)
							}
							init := map[types.Object]constant.Value{good: constant.MakeBool(sg), bad: constant.MakeBool(sb)}
							if must != nil {
								init[must] = constant.MakeBool(sm)
							}
							job := &fdt.Job{F: f, Start: core.Point{B: body, I: 0}, Tracked: tracked, Init: init, Inputs: in, StopAt: heads}
							outs := job.Run()
							var got []string
							errRets := 0
							for _, o := range outs {
								switch o.Kind {
								case "next":
									got = append(got, nextStr(sp, scanState{o.State["good"] == "true", o.State["bad"] == "true", o.State["must"] == "true"}))
									if o.State["good"] == "?" || o.State["bad"] == "?" {
										got = append(got, "undecided-state")
									}
								case "return":
									last := o.Vals[len(o.Vals)-1]
									if last != "sym:nil" && last != "nil" {
										errRets++
										if sg || sb {
											got = append(got, "error-return-while-skipping@"+c.pos(o.Pos))
										}
										continue
									}
									if sp.MustField != "" {
										mark := o.Vals[1]
										if strings.HasPrefix(mark, "sym:") && strings.HasSuffix(mark, "ark") {
											mark = "sym:mark"
										}
										got = append(got, fmt.Sprintf("return(%s, %s, %s)", o.Vals[0], mark, o.Vals[2]))
									} else {
										got = append(got, fmt.Sprintf("return(%s)", o.Vals[0]))
									}
								default:
									got = append(got, o.Kind)
								}
							}
							got = uniqSorted(got)
							want := refScan(sp, scanState{sg, sb, sm}, not, mf, kind)
							cells++
							if strings.Join(got, " | ") != strings.Join(want, " | ") {
								mism++
								if firstMismatch == "" {
									firstMismatch = fmt.Sprintf("state{good=%v bad=%v must=%v} entry{not=%v must=%v outbound=%#x}: code gives [%s], the property requires [%s]", sg, sb, sm, not, mf, kind, strings.Join(got, " | "), strings.Join(want, " | "))
								}
							}
							if len(job.Undecided) > 0 && firstMismatch == "" {
								mism++
								firstMismatch = "undecided: " + strings.Join(job.Undecided, "; ")
							}
						}
					}
				}
			}
		}
	}
	c.R.Checkf(rule, "scan-automaton@"+sp.Rel+"."+sp.Fn, c.pos(rng.Pos()), mism == 0,
		"decision table of the scan loop body (%d abstract inputs: state × not × must-flag × sentinel kind, exhaustive) equals the first-match reference%s", cells, func() string {
			if mism == 0 {
				return ""
			}
			return fmt.Sprintf(" — %d cell(s) differ; first: %s", mism, firstMismatch)
		}())
	// falling off the loop is an error
	after := g.ExitsAvoiding(core.Point{B: body, I: 0}, func(n ast.Node) bool { return false })
	okEnd := true
	for _, w := range after {
		if rs, ok := w.Block.Nodes[len(w.Block.Nodes)-1].(*ast.ReturnStmt); ok {
			last := core.ExprStr(rs.Results[len(rs.Results)-1])
			first := core.ExprStr(rs.Results[0])
			if last == "nil" && first == "0" {
				okEnd = false
			}
		}
	}
	c.R.Checkf(rule, "no-silent-miss@"+sp.Rel+"."+sp.Fn, c.pos(rng.Pos()), okEnd, "no path returns a zero outbound with a nil error")
	return cells
}
