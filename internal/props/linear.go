package props

// A very small linear-inequality reasoner over integer expressions, used by the
// index-bound rules.  A linear form is sum(coef[v]*v) + k; a fact is "form >= 0".
// Entailment of a target is decided by subtracting one fact, or the sum of two
// facts, and finding a non-negative constant left.  Nothing is executed and no
// solver is involved; what cannot be put into this shape is simply not proved
// (and the obligation that needed it fails, naming the call).

import (
	"go/ast"
	"go/constant"
	"go/token"
	"go/types"
	"sort"
	"strconv"
	"strings"

	"daecheck/internal/core"
)

type linForm struct {
	c map[string]int64
	k int64
}

func (a linForm) add(b linForm, f int64) linForm {
	r := linForm{c: map[string]int64{}, k: a.k + f*b.k}
	for v, x := range a.c {
		r.c[v] = x
	}
	for v, x := range b.c {
		r.c[v] += f * x
		if r.c[v] == 0 {
			delete(r.c, v)
		}
	}
	return r
}

func (a linForm) isConst() bool { return len(a.c) == 0 }

func (a linForm) String() string {
	var ks []string
	for v := range a.c {
		ks = append(ks, v)
	}
	sort.Strings(ks)
	s := ""
	for _, v := range ks {
		s += strconv.FormatInt(a.c[v], 10) + "*" + v + " + "
	}
	return s + strconv.FormatInt(a.k, 10)
}

// linEnv renders expressions as linear forms; opaque sub-expressions become
// variables named by their rendered text (pure calls such as x.Len(), len(x)).
type linEnv struct {
	info *types.Info
	// subst: local object -> defining expression (single definition, linear)
	subst map[types.Object]ast.Expr
	depth int
}

func (e *linEnv) varKey(x ast.Expr) string {
	if id, ok := x.(*ast.Ident); ok {
		if o := e.info.ObjectOf(id); o != nil {
			return id.Name + "#" + strconv.Itoa(int(o.Pos()))
		}
	}
	return nospace(core.ExprStr(x))
}

func (e *linEnv) form(x ast.Expr) linForm {
	x = ast.Unparen(x)
	if tv, ok := e.info.Types[x]; ok && tv.Value != nil && tv.Value.Kind() == constant.Int {
		if v, exact := constant.Int64Val(tv.Value); exact {
			return linForm{c: map[string]int64{}, k: v}
		}
	}
	switch y := x.(type) {
	case *ast.Ident:
		if o := e.info.ObjectOf(y); o != nil && e.subst != nil && e.depth < 4 {
			if def, ok := e.subst[o]; ok {
				e.depth++
				f := e.form(def)
				e.depth--
				return f
			}
		}
	case *ast.BinaryExpr:
		switch y.Op {
		case token.ADD:
			return e.form(y.X).add(e.form(y.Y), 1)
		case token.SUB:
			return e.form(y.X).add(e.form(y.Y), -1)
		case token.MUL:
			a, b := e.form(y.X), e.form(y.Y)
			if a.isConst() {
				return linForm{c: map[string]int64{}}.add(b, a.k)
			}
			if b.isConst() {
				return linForm{c: map[string]int64{}}.add(a, b.k)
			}
		}
	case *ast.CallExpr:
		// int(x), uint(x) … of an integer: the value itself (the index rules only see non-negative quantities)
		if tv, ok := e.info.Types[y.Fun]; ok && tv.IsType() && len(y.Args) == 1 {
			if b, ok := tv.Type.Underlying().(*types.Basic); ok && b.Info()&types.IsInteger != 0 {
				if at := e.info.TypeOf(y.Args[0]); at != nil {
					if ab, ok := at.Underlying().(*types.Basic); ok && ab.Info()&types.IsInteger != 0 {
						return e.form(y.Args[0])
					}
				}
			}
		}
	}
	return linForm{c: map[string]int64{e.varKey(x): 1}}
}

// factOf turns a comparison known to hold into "form >= 0" (ok=false if it is not an integer comparison).
func (e *linEnv) factOf(be *ast.BinaryExpr) (linForm, bool) {
	t := e.info.TypeOf(be.X)
	if t == nil {
		return linForm{}, false
	}
	if b, ok := t.Underlying().(*types.Basic); !ok || b.Info()&types.IsInteger == 0 {
		return linForm{}, false
	}
	x, y := e.form(be.X), e.form(be.Y)
	one := linForm{c: map[string]int64{}, k: 1}
	switch be.Op {
	case token.GEQ: // x - y >= 0
		return x.add(y, -1), true
	case token.GTR: // x - y - 1 >= 0
		return x.add(y, -1).add(one, -1), true
	case token.LEQ:
		return y.add(x, -1), true
	case token.LSS:
		return y.add(x, -1).add(one, -1), true
	}
	return linForm{}, false
}

// entailed: target >= 0 follows from the facts (each >= 0) by subtracting at most two of them.
func entailed(target linForm, facts []linForm) bool {
	if target.isConst() {
		return target.k >= 0
	}
	for i, f := range facts {
		r := target.add(f, -1)
		if r.isConst() && r.k >= 0 {
			return true
		}
		for j := i; j < len(facts); j++ {
			r2 := r.add(facts[j], -1)
			if r2.isConst() && r2.k >= 0 {
				return true
			}
			for k := j; k < len(facts); k++ {
				r3 := r2.add(facts[k], -1)
				if r3.isConst() && r3.k >= 0 {
					return true
				}
			}
		}
	}
	return false
}

// varsOfExpr lists the local objects an expression reads.
func varsOfExpr(info *types.Info, x ast.Expr) []types.Object {
	var out []types.Object
	ast.Inspect(x, func(n ast.Node) bool {
		if id, ok := n.(*ast.Ident); ok {
			if v, ok := info.ObjectOf(id).(*types.Var); ok && !v.IsField() {
				out = append(out, v)
			}
		}
		return true
	})
	return out
}

// assignsTo reports whether node n (a CFG node) assigns one of the objects.
func assignsTo(info *types.Info, n ast.Node, objs []types.Object) bool {
	hit := false
	chk := func(l ast.Expr) {
		if id, ok := ast.Unparen(l).(*ast.Ident); ok {
			o := info.ObjectOf(id)
			for _, w := range objs {
				if o == w {
					hit = true
				}
			}
		}
	}
	switch s := n.(type) {
	case *ast.AssignStmt:
		for _, l := range s.Lhs {
			chk(l)
		}
	case *ast.IncDecStmt:
		chk(s.X)
	case *ast.RangeStmt:
		if s.Key != nil {
			chk(s.Key)
		}
		if s.Value != nil {
			chk(s.Value)
		}
	}
	return hit
}

// stableBetween: no assignment to objs lies on a path from the node `from` (exclusive) to the node
// `to` that does not pass `from` again.
func stableBetween(g *core.Graph, info *types.Info, from ast.Node, to ast.Node, objs []types.Object) bool {
	if len(objs) == 0 {
		return true
	}
	isFrom := func(n ast.Node) bool { return n == from }
	isTo := func(n ast.Node) bool { return n == to }
	fp := g.Find(isFrom)
	if len(fp) == 0 {
		return false
	}
	for _, a := range g.Find(func(n ast.Node) bool { return n != from && assignsTo(info, n, objs) }) {
		an := a.Node()
		if an == to {
			continue
		}
		_, _, r1 := g.ReachesAvoiding(fp[0].After(), isFrom, func(n ast.Node) bool { return n == an })
		if !r1 {
			continue
		}
		_, _, r2 := g.ReachesAvoiding(a.After(), isFrom, isTo)
		if r2 {
			return false
		}
	}
	return true
}

var _ = strings.Contains
