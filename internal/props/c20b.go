package props

import (
	"go/ast"
	"go/token"
	"go/types"
	"sort"
	"strings"

	"daecheck/internal/core"

	"golang.org/x/tools/go/cfg"
)

// GATE: the flag the admission function acquires (the one it
// compare-and-swaps false->true) is the flag every outcome releases.
func c20Gate(c *Ctx) {
	const rule = "GATE"
	adm := c.fn(rule, "cmd", "tryQueueReloadRequest")
	if adm == nil {
		return
	}
	info := adm.Info()
	casIdx := -1
	var params []types.Object
	for _, fl := range adm.Decl.Type.Params.List {
		for _, nm := range fl.Names {
			params = append(params, info.ObjectOf(nm))
		}
	}
	ast.Inspect(adm.Body, func(m ast.Node) bool {
		call, ok := m.(*ast.CallExpr)
		if !ok {
			return true
		}
		recv, name, ok := methodCall(call)
		if !ok || name != "CompareAndSwap" || len(call.Args) != 2 || core.ExprStr(call.Args[0]) != "false" || core.ExprStr(call.Args[1]) != "true" {
			return true
		}
		if id, ok := ast.Unparen(recv).(*ast.Ident); ok {
			for i, p := range params {
				if info.ObjectOf(id) == p {
					casIdx = i
				}
			}
		}
		return true
	})
	if casIdx < 0 {
		c.R.Unresolved(rule, "tryQueueReloadRequest: parameter that is compare-and-swapped false->true")
		return
	}
	fieldOfAddr := func(info *types.Info, e ast.Expr) string {
		u, ok := ast.Unparen(e).(*ast.UnaryExpr)
		if !ok || u.Op != token.AND {
			return ""
		}
		return core.FieldOf(info, u.X)
	}
	acquired := map[string]string{}
	released := map[string]string{}
	for _, f := range c.P.FuncsIn("cmd") {
		fi := f.Info()
		core.EachCall(f.Body, core.Deep, func(call *ast.CallExpr) {
			cal := core.Callee(fi, call)
			if cal == nil || cal.Pkg() == nil || !strings.HasSuffix(cal.Pkg().Path(), "/cmd") {
				return
			}
			switch cal.Name() {
			case "tryQueueReloadRequest":
				if casIdx < len(call.Args) {
					if fld := fieldOfAddr(fi, call.Args[casIdx]); fld != "" {
						acquired[fld] = c.pos(call.Pos())
					} else if f.Name != "cmd.tryQueueReloadRequest" {
						acquired["?"+core.ExprStr(call.Args[casIdx])] = c.pos(call.Pos())
					}
				}
			case "clearReloadPending", "releaseReloadPendingAfterRetirement":
				if len(call.Args) > 0 {
					if fld := fieldOfAddr(fi, call.Args[0]); fld != "" {
						released[fld] = c.pos(call.Pos())
					}
				}
			}
		})
	}
	ks := func(m map[string]string) []string {
		var out []string
		for k := range m {
			out = append(out, k)
		}
		sort.Strings(out)
		return out
	}
	a, r := ks(acquired), ks(released)
	ok := len(a) == 1 && len(r) == 1 && a[0] == r[0] && !strings.HasPrefix(a[0], "?")
	pos := c.pos(adm.Pos())
	if len(a) > 0 {
		pos = acquired[a[0]]
	}
	c.R.Checkf(rule, "acquired-flag-is-the-released-flag", pos, ok,
		"the admission function compare-and-swaps its parameter #%d, bound at its call sites to %v; the outcomes release %v — the gate that admits a request must be the gate every outcome reopens (a swapped pair of *atomic.Bool arguments type-checks)", casIdx+1, a, r)
	c.R.Floor(rule+"/release-sites", len(released), 1)

	// release order: the flag is cleared before the rejected-request progress report is erased
	if f := c.fn(rule, "cmd", "clearReloadPending"); f != nil {
		fi := f.Info()
		g := f.Graph()
		var flag types.Object
		if len(f.Decl.Type.Params.List) > 0 && len(f.Decl.Type.Params.List[0].Names) > 0 {
			flag = fi.ObjectOf(f.Decl.Type.Params.List[0].Names[0])
		}
		store := func(n ast.Node) bool {
			hit := false
			ownCalls(n, func(call *ast.CallExpr, _ bool) {
				if recv, name, ok := methodCall(call); ok && name == "Store" && len(call.Args) == 1 && core.ExprStr(call.Args[0]) == "false" {
					if id, ok := ast.Unparen(recv).(*ast.Ident); ok && fi.ObjectOf(id) == flag {
						hit = true
					}
				}
			})
			return hit
		}
		erase := nodeCalls(fi, "cmd.clearRejectedReloadProgress")
		if len(g.Find(erase)) == 0 {
			c.R.Note("clearReloadPending does not erase a rejected-request report; release-order rule has nothing to order")
		} else {
			var hit ast.Node
			w := &core.Walker{G: g,
				Visit: func(n ast.Node) core.Verdict {
					if store(n) {
						return core.Stop
					}
					if erase(n) {
						return core.Hit
					}
					return core.Go
				},
				Edge: func(from *cfg.Block, si int) bool {
					cond, _, _, ok := g.Cond(from)
					return !ok || !absentEdge(fi, cond, si == 0)
				},
				OnHit: func(n ast.Node, _ []token.Pos) { hit = n }}
			w.Run(g.Entry())
			c.R.Checkf(rule, "flag-cleared-before-busy-report-erased@clearReloadPending", c.pos(f.Pos()), hit == nil,
				"the pending flag is stored false before the rejected-request ('busy') report is erased: a request refused while the flag is still set writes its busy report, and if the erase already ran nothing ever clears that report (dae reload then refuses to signal)")
		}
	}
}

// RECHECK: the refusal path writes its busy report *after* its compare-and-swap
// failed; the request that held the flag may have finished in between, and the
// finisher's erase of the busy report has then already run.  After writing the
// report the refusal path therefore loads the flag again and erases the report
// on the edge where the flag is clear (write-then-recheck).
func c20Recheck(c *Ctx) {
	const rule = "REFUSAL"
	f := c.fn(rule, "cmd", "tryQueueReloadRequest")
	if f == nil {
		return
	}
	info := f.Info()
	g := f.Graph()
	var flag types.Object
	ast.Inspect(f.Body, func(m ast.Node) bool {
		if call, ok := m.(*ast.CallExpr); ok {
			if recv, name, ok := methodCall(call); ok && name == "CompareAndSwap" {
				if id, ok := ast.Unparen(recv).(*ast.Ident); ok {
					flag = info.ObjectOf(id)
				}
			}
		}
		return true
	})
	if flag == nil {
		c.R.Unresolved(rule, "tryQueueReloadRequest: compare-and-swapped flag")
		return
	}
	busy := nodeCalls(info, "cmd.restoreRejectedReloadProgress")
	loadsFlag := func(e ast.Node) bool {
		hit := false
		ast.Inspect(e, func(m ast.Node) bool {
			if call, ok := m.(*ast.CallExpr); ok {
				if recv, name, ok := methodCall(call); ok && name == "Load" {
					if id, ok := ast.Unparen(recv).(*ast.Ident); ok && info.ObjectOf(id) == flag {
						hit = true
					}
				}
			}
			return true
		})
		return hit
	}
	// refusal edge: the true edge of the condition that holds the failed CAS
	var refusal *cfg.Block
	for _, cs := range g.Conds(func(e ast.Expr) bool { return strings.Contains(core.ExprStr(e), "CompareAndSwap(false, true)") }) {
		refusal = cs.True
	}
	if refusal == nil {
		c.R.Unresolved(rule, "tryQueueReloadRequest: refusal edge of the admission CAS")
		return
	}
	var busyPt *core.Point
	w := &core.Walker{G: g, Visit: func(n ast.Node) core.Verdict {
		if busy(n) {
			return core.Hit
		}
		return core.Go
	}, OnHit: func(n ast.Node, _ []token.Pos) {
		if busyPt == nil {
			p := pointOf(g, n)
			busyPt = &p
		}
	}}
	w.Run(core.Point{B: refusal, I: 0})
	if busyPt == nil {
		// the refusal may be delegated to a helper that writes the report: follow it, with the flag bound to the
		// parameter it is passed as, and decide the re-check inside the helper
		var helper *core.Func
		var hcall *ast.CallExpr
		w2 := &core.Walker{G: g, Visit: func(n ast.Node) core.Verdict {
			hit := false
			ownCalls(n, func(call *ast.CallExpr, _ bool) {
				if cal := core.Callee(info, call); cal != nil && helper == nil {
					if h := c.P.FuncOfObj(cal); h != nil && len(h.FindCalls(core.ParseRefs("cmd.restoreRejectedReloadProgress"))) > 0 {
						helper, hcall, hit = h, call, true
					}
				}
			})
			if hit {
				return core.Hit
			}
			return core.Go
		}}
		w2.Run(core.Point{B: refusal, I: 0})
		if helper != nil && helper.Decl != nil {
			var bound types.Object
			i := 0
			for _, fld := range helper.Decl.Type.Params.List {
				for _, nm := range fld.Names {
					if i < len(hcall.Args) {
						if id, ok := ast.Unparen(hcall.Args[i]).(*ast.Ident); ok && info.ObjectOf(id) == flag {
							bound = helper.Info().ObjectOf(nm)
						}
					}
					i++
				}
			}
			if bound != nil {
				f, info, g, flag = helper, helper.Info(), helper.Graph(), bound
				busy = nodeCalls(info, "cmd.restoreRejectedReloadProgress")
				w3 := &core.Walker{G: g, Visit: func(n ast.Node) core.Verdict {
					if busy(n) {
						return core.Hit
					}
					return core.Go
				}, OnHit: func(n ast.Node, _ []token.Pos) {
					if busyPt == nil {
						p := pointOf(g, n)
						busyPt = &p
					}
				}}
				w3.Run(g.Entry())
			}
		}
	}
	if busyPt == nil {
		c.R.Checkf(rule, "busy-report-written-on-refusal", c.pos(f.Pos()), false, "the refusal edge does not write a busy report")
		return
	}
	ex := g.ExitsAvoiding(busyPt.After(), func(n ast.Node) bool { return loadsFlag(n) })
	okRecheck := len(ex) == 0
	okErase := false
	if okRecheck {
		erase := nodeCalls(info, "cmd.clearRejectedReloadProgress")
		for _, cs := range g.Conds(func(e ast.Expr) bool { return loadsFlag(e) }) {
			// the edge on which the flag is clear
			clear := cs.False
			if u, ok := ast.Unparen(cs.Cond).(*ast.UnaryExpr); ok && u.Op == token.NOT {
				clear = cs.True
			}
			if len(g.ExitsAvoiding(core.Point{B: clear, I: 0}, erase)) == 0 {
				okErase = true
			}
		}
	}
	pos := c.pos(busyPt.Node().Pos())
	c.R.Checkf(rule, "busy-report-rechecked-against-the-flag@tryQueueReloadRequest", pos, okRecheck && okErase,
		"after the refused request wrote its busy report every path loads the admission flag again and erases the report when the flag is clear (re-check present: %v, erase on the clear edge: %v) — otherwise a reload that finishes between the failed CAS and the report leaves 'busy' in the progress file for ever and `dae reload` refuses to signal", okRecheck, okErase)
}

// c20AdmissionAffecting: the functions of package cmd that can (directly or through
// static calls inside the package) change the admission state of a reload:
// write one of the admission flags (or an *atomic.Bool handed in as a
// parameter), send on a channel, or begin/end the failure suppression.
// Everything else (logging, counters, formatting, the progress file) leaves
// the admission state alone.
func c20AdmissionAffecting(c *Ctx) map[types.Object]bool {
	direct := map[types.Object]bool{}
	calls := map[types.Object][]types.Object{}
	for _, f := range c.P.FuncsIn("cmd") {
		if f.Decl == nil {
			continue
		}
		info := f.Info()
		self := info.ObjectOf(f.Decl.Name)
		ast.Inspect(f.Body, func(m ast.Node) bool {
			switch x := m.(type) {
			case *ast.SendStmt:
				direct[self] = true
			case *ast.UnaryExpr:
				if x.Op == token.AND && strings.HasPrefix(core.FieldOf(info, x.X), "reloadManager.reload") {
					direct[self] = true
				}
			case *ast.CallExpr:
				if recv, name, ok := methodCall(x); ok && (name == "Store" || name == "CompareAndSwap" || name == "Swap") {
					if t := info.TypeOf(recv); t != nil && strings.Contains(t.String(), "atomic.Bool") {
						direct[self] = true
					}
				}
				if cal := core.CalleeObj(info, x); cal != nil {
					if nm := cal.Name(); nm == "BeginReloadProxyFailureSuppression" || nm == "EndReloadProxyFailureSuppression" {
						direct[self] = true
					}
					calls[self] = append(calls[self], cal)
				}
			}
			return true
		})
	}
	for changed := true; changed; {
		changed = false
		for fn, cs := range calls {
			if direct[fn] {
				continue
			}
			for _, cal := range cs {
				if direct[cal] {
					direct[fn] = true
					changed = true
					break
				}
			}
		}
	}
	return direct
}

// c20HarmlessCall: a call that cannot change the admission state.
func c20HarmlessCall(c *Ctx, info *types.Info, call *ast.CallExpr, affecting map[types.Object]bool) bool {
	cal := core.CalleeObj(info, call)
	if cal == nil {
		if id, ok := call.Fun.(*ast.Ident); ok {
			if _, isB := info.Uses[id].(*types.Builtin); isB {
				return true
			}
			if tv, ok := info.Types[call.Fun]; ok && tv.IsType() {
				return true
			}
		}
		if tv, ok := info.Types[call.Fun]; ok && tv.IsType() {
			return true
		}
		return false // a function value: unknown effect
	}
	if affecting[cal] {
		return false
	}
	if recv, name, ok := methodCall(call); ok && (name == "Store" || name == "CompareAndSwap" || name == "Swap") {
		if t := info.TypeOf(recv); t != nil && strings.Contains(t.String(), "atomic.Bool") {
			return false
		}
	}
	return true
}
