package props

// CFacts is filled by ctool/cfacts.py (clang JSON AST -> facts).
type CFacts struct {
	Raw map[string]any
}
