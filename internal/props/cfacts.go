package props

import (
	"encoding/json"
	"fmt"
	"os/exec"
	"path/filepath"
)

// CFacts is filled by ctool/cfacts.py (clang front end -> facts).
type CField struct {
	Path   string `json:"path"`
	Name   string `json:"name"`
	Type   string `json:"type"`
	Offset int    `json:"offset"`
	Depth  int    `json:"depth"`
	Bits   []int  `json:"bits"`
}
type CRecord struct {
	Size   int      `json:"size"`
	Align  int      `json:"align"`
	Fields []CField `json:"fields"`
}
type CMap struct {
	Type       *int   `json:"type"`
	MaxEntries *int   `json:"max_entries"`
	Key        string `json:"key"`
	Value      string `json:"value"`
	KeySize    *int   `json:"key_size"`
	ValueSize  *int   `json:"value_size"`
}
type CFacts struct {
	Errors    []string                     `json:"errors"`
	Warnings  int                          `json:"warnings"`
	Records   map[string]CRecord           `json:"records"`
	Enums     map[string]map[string]int    `json:"enums"`
	Maps      map[string]CMap              `json:"maps"`
	Macros    map[string]int64             `json:"macros"`
	Functions []string                     `json:"functions"`
	RecFields map[string]map[string]string `json:"record_fields"`
	TopLevel  int                          `json:"top_level_decls"`
	FuncSrc   map[string]struct {
		Line int    `json:"line"`
		Text string `json:"text"`
	} `json:"func_src"`
}

// CF runs clang over tproxy.c (through the shim) and returns the facts; any
// clang error is a check failure.
func (c *Ctx) CF(rule string, defs ...string) *CFacts {
	key := fmt.Sprint(defs)
	if c.cfCache == nil {
		c.cfCache = map[string]*CFacts{}
	}
	if f, ok := c.cfCache[key]; ok {
		return f
	}
	args := append([]string{filepath.Join(c.Dir, "ctool/cfacts.py"), c.Repo, c.Dir}, defs...)
	out, err := exec.Command("python3", args...).Output()
	var f CFacts
	if err != nil {
		c.R.Check(rule, "clang front end over control/kern/tproxy.c", "-", false, "cfacts.py failed: "+err.Error())
		c.cfCache[key] = nil
		return nil
	}
	if err := json.Unmarshal(out, &f); err != nil {
		c.R.Check(rule, "clang front end over control/kern/tproxy.c", "-", false, "cannot decode facts: "+err.Error())
		c.cfCache[key] = nil
		return nil
	}
	if len(f.Errors) > 0 {
		c.R.Check(rule, "clang front end over control/kern/tproxy.c", "-", false, "clang reported errors: "+f.Errors[0])
		c.cfCache[key] = nil
		return nil
	}
	c.R.Extra["c_functions"] = len(f.Functions)
	c.R.Extra["c_records"] = len(f.Records)
	c.R.Extra["c_top_level_decls"] = f.TopLevel
	c.cfCache[key] = &f
	return &f
}
