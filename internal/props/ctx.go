// Package props holds one file per property: the rule instances (anchored in
// /repo's current source) that decide the structural clauses claimed in
// DESIGN.md.
package props

import (
	"fmt"
	"go/ast"
	"go/token"
	"sort"

	"daecheck/internal/core"
)

// Ctx is what a property checker gets.
type Ctx struct {
	P    *core.Prog // stub build, linux/amd64
	R    *core.Report
	Tier string
	Repo string
	Dir  string // /verif

	realOnce bool
	real     *core.Prog
	realErr  error
	cfCache  map[string]*CFacts
}

// Real returns package control type-checked without the stub tag (the real
// encoders of bpf_utils.go), using the synthesized overlay; a failure to
// type-check it is a check failure.
func (c *Ctx) Real(rule string) *core.Prog {
	if !c.realOnce {
		c.realOnce = true
		ov, err := core.RealBuildOverlay(c.Repo)
		if err == nil {
			c.real, err = core.Load(core.LoadOpts{Repo: c.Repo, Tags: "", Variant: "real", Overlay: ov, Pattern: "./control"})
		}
		c.realErr = err
		if err == nil {
			vs, _ := c.R.Extra["variants"].([]string)
			c.R.Extra["variants"] = append(vs, "real build of package control (no tag; bpf_stub.go residue as overlay)")
		}
	}
	if c.realErr != nil {
		c.R.Check(rule, "real-build variant of package control", "-", false, "cannot type-check the !dae_stub_ebpf configuration: "+c.realErr.Error())
		return nil
	}
	return c.real
}

// Checker is one property's rule set.
type Checker struct {
	ID      string
	Explain string
	Run     func(*Ctx)
}

var Registry = map[string]*Checker{}

func register(c *Checker) { Registry[c.ID] = c }

func IDs() []string {
	var out []string
	for k := range Registry {
		out = append(out, k)
	}
	sort.Strings(out)
	return out
}

// fn resolves a function anchor or records it as unresolved.
func (c *Ctx) fn(rule, rel, name string) *core.Func {
	f := c.P.Func(rel, name)
	if f == nil {
		c.R.Unresolved(rule, rel+"."+name)
		return nil
	}
	c.R.Saw(f)
	return f
}

func (c *Ctx) pos(p token.Pos) string { return c.P.Pos(p) }

func traceStr(p *core.Prog, tr []token.Pos) string {
	s := ""
	for i, t := range tr {
		if i > 0 {
			s += " -> "
		}
		ps := p.Fset.Position(t)
		s += fmt.Sprint(ps.Line)
		if i > 14 {
			s += " ..."
			break
		}
	}
	return s
}

// mustPassToExit: every path from the point after `from` to a normal exit
// passes through a node satisfying sat.
func (c *Ctx) mustPassToExit(rule, construct string, f *core.Func, from core.Point, sat func(ast.Node) bool, what string) bool {
	g := f.Graph()
	ex := g.ExitsAvoiding(from.After(), sat)
	if len(ex) == 0 {
		return c.R.Checkf(rule, construct, c.pos(from.Node().Pos()), true, "every path from here to exit of %s passes %s", f.Name, what)
	}
	w := ex[0]
	return c.R.Checkf(rule, construct, c.pos(from.Node().Pos()), false,
		"path from %s to exit at %s (lines %s) passes no %s", c.pos(from.Node().Pos()), c.pos(w.Pos), traceStr(c.P, w.Trace), what)
}

// dominated: every path from function entry to a node satisfying target
// passes through a node satisfying guard first.
func (c *Ctx) dominated(rule, construct string, f *core.Func, target, guard func(ast.Node) bool, targetWhat, guardWhat string) bool {
	g := f.Graph()
	pts := g.Find(target)
	if len(pts) == 0 {
		c.R.Checkf(rule, construct, c.pos(f.Pos()), false, "no %s found in %s: rule lost its anchor", targetWhat, f.Name)
		return false
	}
	n, tr, reach := g.ReachesAvoiding(g.Entry(), guard, target)
	if !reach {
		return c.R.Checkf(rule, construct, c.pos(pts[0].Node().Pos()), true, "%s is dominated by %s in %s (%d site(s))", targetWhat, guardWhat, f.Name, len(pts))
	}
	return c.R.Checkf(rule, construct, c.pos(n.Pos()), false, "%s at %s is reachable from entry of %s without passing %s (lines %s)", targetWhat, c.pos(n.Pos()), f.Name, guardWhat, traceStr(c.P, tr))
}
