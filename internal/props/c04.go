package props

import (
	"go/ast"
	"go/constant"
	"go/token"
	"go/types"
	"sort"
	"strings"

	"daecheck/internal/core"
)

func init() {
	register(&Checker{ID: "C04", Run: runC04, Explain: "Structural necessary conditions of 'normalisation preserves meaning', decided on the type-checked optimizers of component/routing and their three pipelines: " +
		"(1) MERGE: the conditions dominating every rule-merge site entail single-condition rules, equal function name, equal outbound *including parameters*, and that neither condition is negated ((!a->o);(!b->o) is !(a&&b)->o, not !(a||b)->o); " +
		"(2) REORDER: the only sort calls reorder AndFunctions of one rule or Params of one function; the rule slice is only appended to in index order / written by original index; " +
		"(3) DEDUP: values are de-duplicated by key+value, never by value alone; (4) ALIAS: the complete table of Name/Key rewrites equals the documented alias table and nothing else writes Function.Name/Not or Param.Key/Val; " +
		"(5) PIPELINE: every optimizer pipeline is built from audited optimizers, deep-clones first, and geodata expansion keeps every non-geodata parameter and errors on unsupported combinations. " +
		"(6) MEMOKEY: the cache key of each memoising geodata loader carries all the information of every parameter the cached expansion is computed from (forward dataflow through strings.Cut). " +
		"Not decided: equality of decisions on concrete packets, geodata file content."})
}

func runC04(c *Ctx) {
	c04Merge(c)
	c04Reorder(c)
	c04Dedup(c)
	c04Alias(c)
	c04Pipelines(c)
	c04MemoKey(c)
	domainPatternsIndependent(c, "DEDUP")
	c04CacheAlias(c)
	c04NegateWhole(c)
	rangeVarsNotAssigned(c, "ALIAS", "component/routing/domain_matcher", nil)
}

// optimizerMethods returns the Optimize methods of every RulesOptimizer
// implementer declared in the repository.
func optimizerMethods(c *Ctx, rule string) []*core.Func {
	pk := c.P.Pkg("component/routing")
	if pk == nil {
		c.R.Unresolved(rule, "package component/routing")
		return nil
	}
	iface := lookupIface(pk.Types, "RulesOptimizer")
	if iface == nil {
		c.R.Unresolved(rule, "routing.RulesOptimizer")
		return nil
	}
	var out []*core.Func
	for _, rp := range c.P.RepoPkgs() {
		rel := strings.TrimPrefix(strings.TrimPrefix(rp.PkgPath, core.ModPath), "/")
		for _, name := range rp.Types.Scope().Names() {
			tn, ok := rp.Types.Scope().Lookup(name).(*types.TypeName)
			if !ok {
				continue
			}
			if _, isIf := tn.Type().Underlying().(*types.Interface); isIf {
				continue
			}
			if types.Implements(tn.Type(), iface) || types.Implements(types.NewPointer(tn.Type()), iface) {
				if f := c.fn(rule, rel, name+".Optimize"); f != nil {
					out = append(out, f)
				}
			}
		}
	}
	return out
}

func c04Merge(c *Ctx) {
	const rule = "MERGE"
	sites := 0
	for _, f := range optimizerMethods(c, rule) {
		info := f.Info()
		g := f.Graph()
		for _, b := range g.CFG.Blocks {
			if !b.Live {
				continue
			}
			for i, n := range b.Nodes {
				as, ok := n.(*ast.AssignStmt)
				if !ok || len(as.Rhs) != 1 {
					continue
				}
				call, ok := as.Rhs[0].(*ast.CallExpr)
				if !ok || !call.Ellipsis.IsValid() || len(call.Args) != 2 {
					continue
				}
				if id, ok := call.Fun.(*ast.Ident); !ok || id.Name != "append" {
					continue
				}
				a, bb := core.ExprStr(call.Args[0]), core.ExprStr(call.Args[1])
				if !strings.HasSuffix(a, ".Params") || !strings.HasSuffix(bb, ".Params") || a == bb {
					continue
				}
				if core.FieldOf(info, call.Args[0]) != "Function.Params" {
					continue
				}
				sites++
				X, Y := strings.TrimSuffix(a, ".Params"), strings.TrimSuffix(bb, ".Params")
				rX, rY := ruleRoot(X), ruleRoot(Y)
				guards := g.Guards(core.Point{B: b, I: i})
				var atoms []string
				for _, gd := range guards {
					s := core.ExprStr(gd.Cond)
					if !gd.Polarity {
						s = "!(" + s + ")"
					}
					atoms = append(atoms, s)
				}
				has := func(pred func(gd core.Guard) bool) bool {
					for _, gd := range guards {
						if pred(gd) {
							return true
						}
					}
					return false
				}
				eq := func(gd core.Guard, l, r string) bool {
					be, ok := gd.Cond.(*ast.BinaryExpr)
					if !ok || !gd.Polarity || be.Op != token.EQL {
						return false
					}
					x, y := core.ExprStr(be.X), core.ExprStr(be.Y)
					return (x == l && y == r) || (x == r && y == l)
				}
				pos := c.pos(as.Pos())
				site := f.Name
				single := has(func(gd core.Guard) bool { return eq(gd, "len("+rX+".AndFunctions)", "1") }) &&
					has(func(gd core.Guard) bool { return eq(gd, "len("+rY+".AndFunctions)", "1") })
				c.R.Checkf(rule, "single-condition@"+site, pos, single, "merge of %s into %s is dominated by len(AndFunctions)==1 for both rules; guards: %s", Y, X, strings.Join(atoms, " ∧ "))
				name := has(func(gd core.Guard) bool { return eq(gd, X+".Name", Y+".Name") })
				c.R.Checkf(rule, "same-function@"+site, pos, name, "merge is dominated by %s.Name == %s.Name", X, Y)
				// outbound equality including parameters: both sides are Function.String(...) of .Outbound
				outb := has(func(gd core.Guard) bool {
					be, ok := gd.Cond.(*ast.BinaryExpr)
					if !ok || !gd.Polarity || be.Op != token.EQL {
						return false
					}
					isOutStr := func(e ast.Expr, root string) bool {
						cl, ok := e.(*ast.CallExpr)
						if !ok {
							return false
						}
						cal := core.Callee(info, cl)
						if cal == nil || cal.Name() != "String" {
							return false
						}
						recv, _, _ := methodCall(cl)
						return core.ExprStr(recv) == root+".Outbound" && core.FieldOf(info, recv) == "RoutingRule.Outbound"
					}
					return (isOutStr(be.X, rX) && isOutStr(be.Y, rY)) || (isOutStr(be.X, rY) && isOutStr(be.Y, rX))
				})
				c.R.Checkf(rule, "same-outbound-with-params@"+site, pos, outb, "merge is dominated by equality of the rendered outbounds (name and mark/must parameters) of %s and %s; comparing Outbound.Name alone would merge rules that differ in mark or must", rX, rY)
				notX := has(func(gd core.Guard) bool { return isNegOf(gd, X+".Not") })
				notY := has(func(gd core.Guard) bool { return isNegOf(gd, Y+".Not") })
				sameNot := has(func(gd core.Guard) bool { return eq(gd, X+".Not", Y+".Not") })
				nonNeg := (notX && notY) || (sameNot && (notX || notY))
				c.R.Checkf(rule, "not-negated@"+site, pos, nonNeg,
					"merging two negated conditions changes meaning: `!f(a)->o; !f(b)->o` is !(a&&b)->o but the merged `!f(a,b)->o` is !(a||b)->o. The guards dominating the merge (%s) must entail !%s.Not and !%s.Not", strings.Join(atoms, " ∧ "), X, Y)
				// a condition without values is a catch-all (the internal selectors sub() / node() / subnode());
				// the union of its value list with a neighbour's is the neighbour's list, i.e. the catch-all is lost
				nonEmpty := func(fn string) bool {
					return has(func(gd core.Guard) bool {
						be, ok := gd.Cond.(*ast.BinaryExpr)
						if !ok || nospace(core.ExprStr(be.X)) != "len("+fn+".Params)" {
							return false
						}
						y := core.ExprStr(be.Y)
						return (be.Op == token.GTR && y == "0" && gd.Polarity) || (be.Op == token.NEQ && y == "0" && gd.Polarity) || (be.Op == token.GEQ && y == "1" && gd.Polarity) ||
							(be.Op == token.EQL && y == "0" && !gd.Polarity)
					})
				}
				c.R.Checkf(rule, "both-value-lists-non-empty@"+site, pos, nonEmpty(X) && nonEmpty(Y),
					"a condition with no values is a catch-all (sub() / node() / subnode()): merging `f(a)->o; f()->o` into `f(a)->o` loses it. The guards dominating the merge (%s) must entail len(%s.Params) > 0 and len(%s.Params) > 0", strings.Join(atoms, " ∧ "), X, Y)
			}
		}
	}
	c.R.Floor(rule+"/sites", sites, 1)
}

func isNegOf(gd core.Guard, field string) bool {
	if u, ok := ast.Unparen(gd.Cond).(*ast.UnaryExpr); ok && u.Op == token.NOT && gd.Polarity {
		return core.ExprStr(u.X) == field
	}
	if !gd.Polarity && core.ExprStr(gd.Cond) == field {
		return true
	}
	return false
}

func ruleRoot(fn string) string {
	if i := strings.Index(fn, ".AndFunctions"); i >= 0 {
		return fn[:i]
	}
	return fn
}

func c04Reorder(c *Ctx) {
	const rule = "REORDER"
	n := 0
	for _, f := range optimizerMethods(c, rule) {
		info := f.Info()
		core.EachCall(f.Body, core.Deep, func(call *ast.CallExpr) {
			cal := core.Callee(info, call)
			if cal == nil || cal.Pkg() == nil || (cal.Pkg().Path() != "sort" && cal.Pkg().Path() != "slices") {
				return
			}
			if len(call.Args) == 0 {
				return
			}
			n++
			fld := core.FieldOf(info, call.Args[0])
			ok := fld == "RoutingRule.AndFunctions" || fld == "Function.Params"
			c.R.Checkf(rule, "sort-target@"+f.Name, c.pos(call.Pos()), ok, "%s.%s reorders %s (%s): only the &&-conditions of one rule or the alternatives of one condition commute; the rule list itself is order-sensitive", cal.Pkg().Name(), cal.Name(), core.ExprStr(call.Args[0]), fld)
		})
		// rule-slice writes: appends keep order (x = append(x, …)), index writes use the original index
		ast.Inspect(f.Body, func(m ast.Node) bool {
			as, ok := m.(*ast.AssignStmt)
			if !ok {
				return true
			}
			for i, l := range as.Lhs {
				lt := info.TypeOf(l)
				if lt == nil || i >= len(as.Rhs) {
					continue
				}
				if isRuleSlice(lt) {
					if call, ok := as.Rhs[i].(*ast.CallExpr); ok {
						if id, ok := call.Fun.(*ast.Ident); ok && id.Name == "append" {
							n++
							okA := core.ExprStr(call.Args[0]) == core.ExprStr(l) && !call.Ellipsis.IsValid()
							c.R.Checkf(rule, "append-order@"+f.Name, c.pos(as.Pos()), okA, "rule list %s grows only by appending at its end (no prepend/splice): %s", core.ExprStr(l), core.ExprStr(as.Rhs[i]))
						}
					}
				}
				if ix, ok := l.(*ast.IndexExpr); ok && isRuleSlice(info.TypeOf(ix.X)) {
					n++
					okI := strings.HasSuffix(core.ExprStr(ix.Index), ".index") && strings.HasSuffix(core.ExprStr(as.Rhs[i]), ".rule")
					c.R.Checkf(rule, "index-write@"+f.Name, c.pos(as.Pos()), okI && datReaderIndexFlow(f), "rule list slot write %s = %s uses the (index, rule) pair captured from the range over the input rules", core.ExprStr(l), core.ExprStr(as.Rhs[i]))
				}
			}
			return true
		})
	}
	c.R.Floor(rule, n, 6)
}

func isRuleSlice(t types.Type) bool {
	s, ok := t.Underlying().(*types.Slice)
	if !ok {
		return false
	}
	n := namedOf(s.Elem())
	return n != nil && n.Obj().Name() == "RoutingRule"
}

// datReaderIndexFlow: the worker goroutine is started as go func(idx, r){…}(i, rule)
// with (i, rule) the key/value of `range rules`, and its results are built as {idx, r|nil, …}.
func datReaderIndexFlow(f *core.Func) bool {
	ok := false
	ast.Inspect(f.Body, func(m ast.Node) bool {
		rs, isR := m.(*ast.RangeStmt)
		if !isR || rs.Key == nil || rs.Value == nil || !isRuleSlice(f.Info().TypeOf(rs.X)) {
			return true
		}
		k, v := core.ExprStr(rs.Key), core.ExprStr(rs.Value)
		ast.Inspect(rs.Body, func(x ast.Node) bool {
			gs, isG := x.(*ast.GoStmt)
			if !isG {
				return true
			}
			lit, isL := gs.Call.Fun.(*ast.FuncLit)
			if !isL || len(gs.Call.Args) != 2 || core.ExprStr(gs.Call.Args[0]) != k || core.ExprStr(gs.Call.Args[1]) != v {
				return true
			}
			var pn []string
			for _, fl := range lit.Type.Params.List {
				for _, nm := range fl.Names {
					pn = append(pn, nm.Name)
				}
			}
			if len(pn) != 2 {
				return true
			}
			good := true
			cnt := 0
			ast.Inspect(lit.Body, func(y ast.Node) bool {
				cl, isC := y.(*ast.CompositeLit)
				if !isC || len(cl.Elts) != 3 {
					return true
				}
				if nt := namedOf(f.Info().TypeOf(cl)); nt == nil || nt.Obj().Name() != "ruleResult" {
					return true
				}
				cnt++
				if core.ExprStr(cl.Elts[0]) != pn[0] {
					good = false
				}
				if s := core.ExprStr(cl.Elts[1]); s != pn[1] && s != "nil" {
					good = false
				}
				return true
			})
			if good && cnt > 0 {
				ok = true
			}
			return true
		})
		return true
	})
	return ok
}

func c04Dedup(c *Ctx) {
	const rule = "DEDUP"
	f := c.fn(rule, "component/routing", "deduplicateParams")
	if f == nil {
		return
	}
	info := f.Info()
	keys := 0
	ast.Inspect(f.Body, func(m ast.Node) bool {
		ix, ok := m.(*ast.IndexExpr)
		if !ok {
			return true
		}
		if _, isMap := info.TypeOf(ix.X).Underlying().(*types.Map); !isMap {
			return true
		}
		keys++
		call, isCall := ast.Unparen(throughSingleDef(info, f.Body, ix.Index)).(*ast.CallExpr)
		good := false
		if isCall {
			if cal := core.Callee(info, call); cal != nil && cal.Name() == "String" && recvName(cal) == "Param" {
				good = true
			}
		}
		c.R.Checkf(rule, "dedup-key@deduplicateParams", c.pos(ix.Pos()), good, "duplicate detection is keyed by %s; it must be the rendered key+value of the parameter (Param.String), because the same value under two keys (full:x, suffix:x) are different alternatives", core.ExprStr(ix.Index))
		return true
	})
	c.R.Floor(rule+"/keys", keys, 2)
	// Param.String renders the key when there is one
	if ps := c.fn(rule, "pkg/config_parser", "Param.String"); ps != nil {
		readsKey, readsVal := false, false
		ast.Inspect(ps.Body, func(m ast.Node) bool {
			if se, ok := m.(*ast.SelectorExpr); ok {
				switch core.FieldOf(ps.Info(), se) {
				case "Param.Key":
					readsKey = true
				case "Param.Val":
					readsVal = true
				}
			}
			return true
		})
		c.R.Checkf(rule, "param-string-renders-key", c.pos(ps.Pos()), readsKey && readsVal, "Param.String reads both Key and Val")
	}
	// DeduplicateParamsOptimizer applies it per function, assigning back to the same function
	if o := c.fn(rule, "component/routing", "DeduplicateParamsOptimizer.Optimize"); o != nil {
		good := false
		ast.Inspect(o.Body, func(m ast.Node) bool {
			if as, ok := m.(*ast.AssignStmt); ok && len(as.Lhs) == 1 && len(as.Rhs) == 1 {
				if call, ok := as.Rhs[0].(*ast.CallExpr); ok && len(call.Args) == 1 && core.ExprStr(call.Args[0]) == core.ExprStr(as.Lhs[0]) {
					if cal := core.Callee(o.Info(), call); cal != nil && cal.Name() == "deduplicateParams" {
						good = true
					}
				}
			}
			return true
		})
		c.R.Checkf(rule, "dedup-in-place", c.pos(o.Pos()), good, "f.Params = deduplicateParams(f.Params): values never move between conditions")
	}
}

func recvName(fn *types.Func) string {
	sig := fn.Type().(*types.Signature)
	if sig.Recv() == nil {
		return ""
	}
	if n := namedOf(sig.Recv().Type()); n != nil {
		return n.Obj().Name()
	}
	return ""
}

func constStr(info *types.Info, e ast.Expr) (string, bool) {
	tv, ok := info.Types[e]
	if !ok || tv.Value == nil || tv.Value.Kind() != constant.String {
		return "", false
	}
	return constant.StringVal(tv.Value), true
}

func c04Alias(c *Ctx) {
	const rule = "ALIAS"
	// reference table from the documentation: function aliases and domain-key aliases
	ref := map[string]string{
		"Function.Name|dport": "port",
		"Function.Name|dip":   "ip",
		"Param.Key|":          "suffix",
		"Param.Key|domain":    "suffix",
		"Param.Key|contains":  "keyword",
	}
	got := map[string]string{}
	var gotPos = map[string]string{}
	writers := 0
	pk := c.P.Pkg("component/routing")
	for _, f := range c.P.FuncsIn("component/routing") {
		if !strings.HasSuffix(f.File(), "optimizer.go") && !strings.HasSuffix(f.File(), "normalize.go") {
			continue
		}
		info := f.Info()
		// map each assignment to its enclosing case clause values
		var stack []ast.Node
		ast.Inspect(f.Body, func(m ast.Node) bool {
			if m == nil {
				stack = stack[:len(stack)-1]
				return true
			}
			stack = append(stack, m)
			as, ok := m.(*ast.AssignStmt)
			if !ok {
				return true
			}
			for i, l := range as.Lhs {
				fld := core.FieldOf(info, l)
				switch fld {
				case "Function.Name", "Function.Not", "Param.Key", "Param.Val", "RoutingRule.Outbound", "Param.AndFunctions":
				default:
					continue
				}
				writers++
				c.R.Saw(f)
				val, isConst := "", false
				if i < len(as.Rhs) {
					val, isConst = constStr(info, as.Rhs[i])
				}
				var cc *ast.CaseClause
				for j := len(stack) - 1; j >= 0; j-- {
					if x, ok := stack[j].(*ast.CaseClause); ok {
						cc = x
						break
					}
				}
				if f.Name == "component/routing.AliasOptimizer.Optimize" && cc == nil && isConst {
					// if-chain form of the table: the old values are the constants the same field is compared equal to
					// on the edge that reaches the rewrite (a == "x" || a == "y" counts for both)
					fg := f.Graph()
					lhsStr := core.ExprStr(l)
					var olds []string
					var collect func(e ast.Expr)
					collect = func(e ast.Expr) {
						be, ok := ast.Unparen(e).(*ast.BinaryExpr)
						if !ok {
							return
						}
						if be.Op == token.LOR {
							collect(be.X)
							collect(be.Y)
							return
						}
						if be.Op == token.EQL {
							for _, pr := range [][2]ast.Expr{{be.X, be.Y}, {be.Y, be.X}} {
								if core.ExprStr(pr[0]) == lhsStr {
									if v, ok := constStr(info, pr[1]); ok {
										olds = append(olds, v)
									}
								}
							}
						}
					}
					for _, p := range fg.Find(func(n ast.Node) bool { return n == ast.Node(as) }) {
						for _, gd := range fg.Guards(p) {
							if gd.Polarity {
								collect(gd.Cond)
							}
						}
					}
					if len(olds) > 0 {
						for _, old := range olds {
							got[fld+"|"+old] = val
							gotPos[fld+"|"+old] = c.pos(as.Pos())
						}
						continue
					}
				}
				if f.Name != "component/routing.AliasOptimizer.Optimize" || cc == nil || !isConst {
					c.R.Checkf(rule, "writer@"+f.Name+"/"+fld, c.pos(as.Pos()), false, "%s rewrites %s outside the alias table (only AliasOptimizer may rewrite names/keys, from a constant, under a case of the old value)", f.Name, fld)
					continue
				}
				for _, e := range cc.List {
					old, ok := constStr(info, e)
					if !ok {
						c.R.Checkf(rule, "alias-case", c.pos(e.Pos()), false, "non-constant case value %s", core.ExprStr(e))
						continue
					}
					got[fld+"|"+old] = val
					gotPos[fld+"|"+old] = c.pos(as.Pos())
				}
			}
			return true
		})
	}
	_ = pk
	var keys []string
	for k := range ref {
		keys = append(keys, k)
	}
	for k := range got {
		if _, ok := ref[k]; !ok {
			keys = append(keys, k)
		}
	}
	sort.Strings(keys)
	for _, k := range keys {
		want, inRef := ref[k]
		have, inGot := got[k]
		pos := gotPos[k]
		if pos == "" {
			pos = "component/routing/optimizer.go"
		}
		parts := strings.SplitN(k, "|", 2)
		switch {
		case inRef && inGot:
			c.R.Checkf(rule, "alias@"+k, pos, want == have, "%s %q is rewritten to %q (documented: %q)", parts[0], parts[1], have, want)
		case inRef:
			c.R.Checkf(rule, "alias@"+k, pos, false, "documented alias %s %q -> %q is not implemented by AliasOptimizer", parts[0], parts[1], want)
		default:
			c.R.Checkf(rule, "alias@"+k, pos, false, "undocumented rewrite %s %q -> %q", parts[0], parts[1], have)
		}
	}
	// the Key rewrites apply to the domain function only
	if f := c.fn(rule, "component/routing", "AliasOptimizer.Optimize"); f != nil {
		g := f.Graph()
		okDom := true
		n := 0
		for _, b := range g.CFG.Blocks {
			for i, nd := range b.Nodes {
				as, ok := nd.(*ast.AssignStmt)
				if !ok || len(as.Lhs) != 1 || core.FieldOf(f.Info(), as.Lhs[0]) != "Param.Key" {
					continue
				}
				n++
				dom := false
				for _, gd := range g.Guards(core.Point{B: b, I: i}) {
					if be, ok := gd.Cond.(*ast.BinaryExpr); ok && gd.Polarity && be.Op == token.EQL {
						if v, ok := constStr(f.Info(), be.Y); ok && v == "domain" && core.FieldOf(f.Info(), be.X) == "Function.Name" {
							dom = true
						}
					}
				}
				if !dom {
					okDom = false
				}
			}
		}
		c.R.Checkf(rule, "key-alias-domain-only", c.pos(f.Pos()), okDom && n >= 2, "the %d key rewrites are dominated by function.Name == \"domain\"", n)
	}
	c.R.Floor(rule+"/writers", writers, 4)
}

func c04Pipelines(c *Ctx) {
	const rule = "PIPELINE"
	audited := map[string]bool{"AliasOptimizer": true, "DatReaderOptimizer": true, "MergeAndSortRulesOptimizer": true, "DeduplicateParamsOptimizer": true}
	sites := 0
	for _, rp := range c.P.RepoPkgs() {
		rel := strings.TrimPrefix(strings.TrimPrefix(rp.PkgPath, core.ModPath), "/")
		for _, f := range c.P.FuncsIn(rel) {
			info := f.Info()
			core.EachCall(f.Body, core.Deep, func(call *ast.CallExpr) {
				cal := core.Callee(info, call)
				if cal == nil || cal.Pkg() == nil || !strings.HasPrefix(cal.Pkg().Path(), core.ModPath) {
					return
				}
				sig := cal.Type().(*types.Signature)
				if !sig.Variadic() {
					return
				}
				last := sig.Params().At(sig.Params().Len() - 1).Type().(*types.Slice).Elem()
				if n := namedOf(last); n == nil || n.Obj().Name() != "RulesOptimizer" {
					return
				}
				first := sig.Params().Len() - 1
				if len(call.Args) <= first {
					return // no optimizers: clone only
				}
				c.R.Saw(f)
				if call.Ellipsis.IsValid() {
					// forwarding a variadic parameter: audited at the callers
					id, _ := call.Args[first].(*ast.Ident)
					v, _ := info.ObjectOf(id).(*types.Var)
					c.R.Checkf(rule, "forwarder@"+f.Name, c.pos(call.Pos()), id != nil && v != nil && isParamOfFunc(f, v), "forwards its own variadic optimizer list unchanged")
					return
				}
				sites++
				var names []string
				okAll := true
				for _, a := range call.Args[first:] {
					t := info.TypeOf(a)
					n := namedOf(t)
					if n == nil || !audited[n.Obj().Name()] || !strings.HasSuffix(n.Obj().Pkg().Path(), "component/routing") {
						okAll = false
						names = append(names, "?"+core.ExprStr(a))
						continue
					}
					names = append(names, n.Obj().Name())
				}
				// order constraints: geodata expansion before merge/dedup; alias first if present
				idx := func(s string) int {
					for i, n := range names {
						if n == s {
							return i
						}
					}
					return -1
				}
				order := true
				if d, m := idx("DatReaderOptimizer"), idx("MergeAndSortRulesOptimizer"); d >= 0 && m >= 0 && d > m {
					order = false
				}
				if a := idx("AliasOptimizer"); a > 0 {
					order = false
				}
				if m, d := idx("MergeAndSortRulesOptimizer"), idx("DeduplicateParamsOptimizer"); m >= 0 && d >= 0 && d < m {
					order = false
				}
				c.R.Checkf(rule, "pipeline@"+f.Name, c.pos(call.Pos()), okAll && order, "optimizer pipeline [%s]: audited optimizers only, alias -> geodata -> merge -> dedup order", strings.Join(names, ", "))
			})
		}
	}
	c.R.Floor(rule+"/sites", sites, 4)
	// deep clone dominates the optimizer loop
	if f := c.fn(rule, "component/routing", "ApplyRulesOptimizers"); f != nil {
		c.dominated(rule, "clone-before-optimize", f, nodeCalls(f.Info(), "component/routing.RulesOptimizer.Optimize"), nodeCalls(f.Info(), "component/routing.DeepCloneRules"), "Optimizer.Optimize", "DeepCloneRules (the user's rule list is never mutated)")
	}
	// geodata expansion: default keeps the param; unsupported ext combination is an error
	if f := c.fn(rule, "component/routing", "DatReaderOptimizer.Optimize"); f != nil {
		info := f.Info()
		keeps, extErr := false, false
		ast.Inspect(f.Body, func(m ast.Node) bool {
			cc, ok := m.(*ast.CaseClause)
			if !ok || cc.List != nil {
				return true
			}
			for _, st := range cc.Body {
				as, ok := st.(*ast.AssignStmt)
				if !ok || len(as.Rhs) != 1 {
					continue
				}
				if cl, ok := as.Rhs[0].(*ast.CompositeLit); ok && len(cl.Elts) == 1 {
					if id, ok := cl.Elts[0].(*ast.Ident); ok && strings.HasSuffix(info.TypeOf(id).String(), "config_parser.Param") {
						keeps = true
					}
				}
				if call, ok := as.Rhs[0].(*ast.CallExpr); ok {
					if cal := core.Callee(info, call); cal != nil && cal.Name() == "Errorf" {
						extErr = true
					}
				}
			}
			return true
		})
		c.R.Checkf(rule, "geodata-default-keeps-param", c.pos(f.Pos()), keeps, "a parameter that is not geosite/geoip/ext is kept as is")
		c.R.Checkf(rule, "geodata-unsupported-is-error", c.pos(f.Pos()), extErr, "ext: in a function that has no geodata form is reported as an error, not dropped")
	}
}

func isParamOfFunc(f *core.Func, v *types.Var) bool {
	if f.Obj == nil {
		return false
	}
	sig := f.Obj.Type().(*types.Signature)
	for i := 0; i < sig.Params().Len(); i++ {
		if sig.Params().At(i) == v {
			return true
		}
	}
	return false
}
