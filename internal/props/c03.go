package props

import (
	"go/ast"
	"go/token"
	"go/types"
	"sort"
	"strings"

	"daecheck/internal/core"
)

func init() {
	register(&Checker{ID: "C03", Run: runC03, Explain: "Structural necessary conditions of 'datapath verdicts and hand-over', decided from clang's JSON AST of tproxy.c (CFG rebuilt in /verif/ctool) and the type-checked control plane: " +
		"(1) PARSER: every TCP/UDP/ICMPv6 header member read outside the two header parsers is copied by the direct-access parser in both its IPv4 and IPv6 branch (the byte-load parser copies whole headers); both parsers use the same fragment-offset mask; so no verdict depends on which parser ran; " +
		"(2) LIVENESS: every redirect to the control plane is dominated by the outbound-alive test whose dead edge only drops; (3) VERDICT: block edges only reach TC_ACT_SHOT, LAN direct edges only TC_ACT_OK with the mark set, WAN 'needs no control plane' edges only TC_ACT_OK, and that predicate is false exactly for direct with mark 0; a negative route() result only drops; " +
		"(4) LOOPGUARD: in the WAN-egress hooks route() is dominated by the pid/socket-mark test of dae's own traffic, whose true edge passes; (5) STICKY: route() is unreachable from any edge on which the flow has a cached decision; (6) RECORD: the hand-off record and routing meta are filled completely by the kernel, and the control plane reads every member of the record from conn-state first and the hand-off map second. " +
		"Not decided: packet-sequence behaviour (timeouts, map overflow races), bpf_sk_lookup outcomes, MAC rewriting, anything the verifier changes."})
}

func runC03(c *Ctx) {
	c.runCRules("C03", nil)
	// the health bit the kernel tests is the slot the control plane writes (key constructor agreement, shared with C19)
	if cf := c.CF("KEY"); cf != nil {
		c19Keys(c, cf)
	}
	c03HandoffAge(c)
	const rule = "RECORD"
	// Go side: the per-flow record
	if f := c.fn(rule, "control", "controlPlaneCore.RetrieveRoutingResult"); f != nil {
		g := f.Graph()
		emb := nodeCalls(f.Info(), "control.controlPlaneCore.retrieveEmbeddedRoutingResult")
		hand := nodeCalls(f.Info(), "control.controlPlaneCore.retrieveRoutingHandoffResult")
		_, _, r := g.ReachesAvoiding(g.Entry(), emb, hand)
		c.R.Checkf(rule, "conn-state-before-handoff-map", c.pos(f.Pos()), !r && len(g.Find(emb)) == 1 && len(g.Find(hand)) == 1, "the control plane consults the flow's conn-state entry first and the hand-off map only when that has no decision")
		key := false
		for _, call := range f.FindCalls(core.ParseRefs("control.bpfTuplesKeyFromAddrPorts")) {
			if len(call.Args) == 3 && core.ExprStr(call.Args[0]) == "src" && core.ExprStr(call.Args[1]) == "dst" {
				key = true
			}
		}
		c.R.Checkf(rule, "lookup-key-from-flow-tuple", c.pos(f.Pos()), key, "the lookup key is built from (src, dst, l4proto) of the accepted flow")
	}
	if f := c.fn(rule, "control", "routingResultFromConnState"); f != nil {
		info := f.Info()
		written := map[string]bool{}
		ast.Inspect(f.Body, func(m ast.Node) bool {
			if as, ok := m.(*ast.AssignStmt); ok {
				for _, l := range as.Lhs {
					if fld := core.FieldOf(info, l); strings.HasPrefix(fld, "bpfRoutingResult.") {
						written[strings.TrimPrefix(fld, "bpfRoutingResult.")] = true
					}
				}
			}
			return true
		})
		var miss []string
		if tn, ok := c.P.Pkg("control").Types.Scope().Lookup("bpfRoutingResult").(*types.TypeName); ok {
			st := tn.Type().Underlying().(*types.Struct)
			for i := 0; i < st.NumFields(); i++ {
				n := st.Field(i).Name()
				if n == "_" {
					continue
				}
				if !written[n] {
					miss = append(miss, n)
				}
			}
		}
		sort.Strings(miss)
		c.R.Checkf(rule, "control-plane-reads-every-member", c.pos(f.Pos()), len(miss) == 0 && len(written) >= 7, "the control plane recovers every member of the kernel's decision (mark, must, outbound, mac, dscp, pname, pid) from the conn-state entry (missing: %v)", miss)
	}
	if f := c.fn(rule, "control", "controlPlaneCore.retrieveEmbeddedRoutingResult"); f != nil {
		// each call passes the members in the order of the parameters
		ok, n := true, 0
		want := []string{".Meta.Data.Mark", ".Meta.Data.Must", ".Meta.Data.Outbound", ".Mac", ".Meta.Data.Dscp", ".Pname", ".Pid"}
		for _, call := range f.FindCalls(core.ParseRefs("control.routingResultFromConnState")) {
			n++
			for i, w := range want {
				if i >= len(call.Args) || !strings.HasSuffix(core.ExprStr(call.Args[i]), w) {
					ok = false
				}
			}
		}
		// every call reads an entry that carries a decision: the call is guarded by has_routing != 0 on that
		// entry, or the entry comes from a repo function that returns an entry only under that guard
		info := f.Info()
		g := f.Graph()
		guarded := func(fg *core.Graph, finfo *types.Info, p core.Point) bool {
			for _, gd := range fg.Guards(p) {
				be, ok := gd.Cond.(*ast.BinaryExpr)
				if !ok || !gd.Polarity {
					continue
				}
				for _, pr := range [][2]ast.Expr{{be.X, be.Y}, {be.Y, be.X}} {
					if strings.HasSuffix(core.FieldOf(finfo, pr[0]), ".HasRouting") {
						if tv := finfo.Types[pr[1]]; tv.Value != nil && tv.Value.String() == "0" && (be.Op == token.NEQ || (be.Op == token.GTR && pr[0] == be.X) || (be.Op == token.LSS && pr[0] == be.Y)) {
							return true
						}
					}
				}
			}
			return false
		}
		providerOK := func(h *core.Func) bool {
			if h == nil || h.Body == nil {
				return false
			}
			hg := h.Graph()
			all, some := true, false
			for _, p := range hg.Find(func(n ast.Node) bool { _, ok := n.(*ast.ReturnStmt); return ok }) {
				rs := p.Node().(*ast.ReturnStmt)
				if len(rs.Results) == 0 {
					all = false
					continue
				}
				if id, ok := ast.Unparen(rs.Results[0]).(*ast.Ident); ok && id.Name == "nil" {
					continue
				}
				some = true
				if !guarded(hg, h.Info(), p) {
					all = false
				}
			}
			return all && some
		}
		hr := 0
		protos := map[string]bool{}
		for _, p := range g.Find(nodeCalls(info, "control.routingResultFromConnState")) {
			okHere := guarded(g, info, p)
			if !okHere {
				// provider: the entry variable is defined by a call of a repo function
				var root types.Object
				ast.Inspect(p.Node(), func(m ast.Node) bool {
					if call, ok := m.(*ast.CallExpr); ok && root == nil {
						if cal := core.Callee(info, call); cal != nil && cal.Name() == "routingResultFromConnState" && len(call.Args) > 0 {
							root = core.RootObj(info, call.Args[0])
						}
					}
					return true
				})
				ast.Inspect(f.Body, func(m ast.Node) bool {
					as, ok := m.(*ast.AssignStmt)
					if !ok || len(as.Rhs) != 1 || root == nil {
						return true
					}
					call, ok := ast.Unparen(as.Rhs[0]).(*ast.CallExpr)
					if !ok {
						return true
					}
					if id, ok := as.Lhs[0].(*ast.Ident); ok && info.ObjectOf(id) == root {
						if cal := core.Callee(info, call); cal != nil && cal.Pkg() != nil {
							if providerOK(c.P.FuncOfObj(cal)) {
								okHere = true
							}
						}
					}
					return true
				})
			}
			if okHere {
				hr++
			}
			for _, gd := range g.Guards(p) {
				if be, ok := gd.Cond.(*ast.BinaryExpr); ok && gd.Polarity && be.Op == token.EQL {
					for _, e := range []ast.Expr{be.X, be.Y} {
						if tv := info.Types[e]; tv.Value != nil {
							protos[tv.Value.String()] = true
						}
					}
				}
			}
		}
		// switch-form: the case clause that holds the call lists the protocol constant
		ast.Inspect(f.Body, func(m ast.Node) bool {
			cc, ok := m.(*ast.CaseClause)
			if !ok {
				return true
			}
			has := false
			ast.Inspect(cc, func(k ast.Node) bool {
				if call, ok := k.(*ast.CallExpr); ok {
					if cal := core.Callee(info, call); cal != nil && cal.Name() == "routingResultFromConnState" {
						has = true
					}
				}
				return true
			})
			if has {
				for _, e := range cc.List {
					if tv := info.Types[e]; tv.Value != nil {
						protos[tv.Value.String()] = true
					}
				}
			}
			return true
		})
		c.R.Checkf(rule, "conn-state-members-in-order", c.pos(f.Pos()), ok && n >= 1 && hr == n && protos["6"] && protos["17"], "for TCP and for UDP the control plane passes (mark, must, outbound, mac, dscp, pname, pid) of the conn-state entry in parameter order and treats an entry without has_routing as 'no decision' (%d call(s), %d guarded by has_routing, protocols %v)", n, hr, protos)
	}
}
