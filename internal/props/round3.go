package props

// Rules added after the third round of independently seeded changes
// (DESIGN.md §9.8): each is the structural necessary condition the seed broke.

import (
	"fmt"
	"go/ast"
	"go/constant"
	"go/token"
	"go/types"
	"strings"

	"daecheck/internal/core"
	"daecheck/internal/fdt"

	"golang.org/x/tools/go/cfg"
)

var _ = fdt.Key
var _ = strings.Contains
var _ = constant.MakeBool
var _ cfg.Block

// perItemLoop: in function f, the range loop over the parameter/expr named
// ranged processes every element independently: (1) no break leaves the loop
// (only returns, which must be error exits of the function, and continues);
// (2) no boolean declared outside the loop is set inside it and read inside it
// without being re-assigned earlier in the same iteration (a flag that sticks
// from one element to the next).
func perItemLoop(c *Ctx, rule string, f *core.Func, ranged string, what string) {
	info := f.Info()
	var loop *ast.RangeStmt
	var label string
	ast.Inspect(f.Body, func(m ast.Node) bool {
		switch x := m.(type) {
		case *ast.LabeledStmt:
			if rs, ok := x.Stmt.(*ast.RangeStmt); ok && core.ExprStr(rs.X) == ranged && loop == nil {
				loop, label = rs, x.Label.Name
			}
		case *ast.RangeStmt:
			if core.ExprStr(x.X) == ranged && loop == nil {
				loop = x
			}
		}
		return true
	})
	construct := "every-" + what + "-processed-independently@" + f.Name
	if loop == nil {
		c.R.Unresolved(rule, f.Name+": range over "+ranged)
		return
	}
	bad := ""
	// (1) breaks that leave the loop
	var walk func(n ast.Node, depth int)
	walk = func(n ast.Node, depth int) {
		ast.Inspect(n, func(m ast.Node) bool {
			if m == nil || m == n {
				return true
			}
			switch x := m.(type) {
			case *ast.FuncLit:
				return false
			case *ast.ForStmt:
				walk(x.Body, depth+1)
				return false
			case *ast.RangeStmt:
				walk(x.Body, depth+1)
				return false
			case *ast.SwitchStmt:
				walk(x.Body, depth+1)
				return false
			case *ast.TypeSwitchStmt:
				walk(x.Body, depth+1)
				return false
			case *ast.SelectStmt:
				walk(x.Body, depth+1)
				return false
			case *ast.BranchStmt:
				if x.Tok == token.BREAK {
					if (x.Label != nil && x.Label.Name == label && label != "") || (x.Label == nil && depth == 0) {
						if bad == "" {
							bad = fmt.Sprintf("`%s` at %s leaves the loop: every later %s of the same list is silently dropped", core.ExprStr2(x), c.pos(x.Pos()), what)
						}
					}
				}
			}
			return true
		})
	}
	walk(loop.Body, 0)
	// (2) loop-carried boolean flags
	g := f.Graph()
	flags := map[types.Object]bool{}
	ast.Inspect(loop.Body, func(m ast.Node) bool {
		if as, ok := m.(*ast.AssignStmt); ok {
			for _, l := range as.Lhs {
				if id, ok := l.(*ast.Ident); ok {
					if o := info.ObjectOf(id); o != nil && o.Pos() < loop.Pos() {
						if bt, ok := o.Type().Underlying().(*types.Basic); ok && bt.Kind() == types.Bool {
							flags[o] = true
						}
					}
				}
			}
		}
		return true
	})
	for o := range flags {
		// first block of the loop body
		var entry *cfg.Block
		for _, b := range g.CFG.Blocks {
			if b.Live && len(b.Nodes) > 0 && len(loop.Body.List) > 0 && b.Nodes[0].Pos() == firstNodePos(loop.Body.List[0]) {
				entry = b
			}
		}
		if entry == nil {
			continue
		}
		assigns := func(n ast.Node) bool {
			if as, ok := n.(*ast.AssignStmt); ok {
				for _, l := range as.Lhs {
					if id, ok := l.(*ast.Ident); ok && info.ObjectOf(id) == o {
						return true
					}
				}
			}
			return false
		}
		reads := func(n ast.Node) bool {
			if assigns(n) {
				return false
			}
			if n.Pos() < loop.Body.Pos() || n.End() > loop.Body.End() {
				return false
			}
			hit := false
			ast.Inspect(n, func(m ast.Node) bool {
				if id, ok := m.(*ast.Ident); ok && info.ObjectOf(id) == o {
					hit = true
				}
				return true
			})
			return hit
		}
		if rd, _, reach := g.ReachesAvoiding(core.Point{B: entry, I: 0}, assigns, reads); reach && bad == "" {
			bad = fmt.Sprintf("the flag %s is declared outside the loop, set inside it and read at %s without being re-assigned earlier in the same iteration: once set for one %s it also affects every later one", o.Name(), c.pos(rd.Pos()), what)
		}
	}
	c.R.Checkf(rule, construct, c.pos(loop.Pos()), bad == "", "the loop over %s handles each %s on its own (no break out of the loop, no flag carried from one iteration to the next)%s", ranged, what, func() string {
		if bad != "" {
			return " — VIOLATED: " + bad
		}
		return ""
	}())
}

// alternatives of one domain condition are independent: a rejected pattern must not affect the others
func domainPatternsIndependent(c *Ctx, rule string) {
	if f := c.fn(rule, "component/routing/domain_matcher", "AhocorasickSlimtrie.AddSet"); f != nil {
		perItemLoop(c, rule, f, "patterns", "domain pattern")
	}
}

// C01 PNAME: a pname() value is compared on all TaskCommLen (16) bytes: the
// encoder copies the configured name into the whole array (no byte reserved
// for a terminator — the datapath's pname is 16 raw bytes, not a C string).
func c01PnameWidth(c *Ctx) {
	const rule = "FACET"
	f := c.fn(rule, "component/routing", "toProcessName")
	if f == nil {
		return
	}
	info := f.Info()
	want, okc := constInt(c, rule, "common/consts", "TaskCommLen")
	if !okc {
		return
	}
	n, ok := 0, true
	detail := ""
	ast.Inspect(f.Body, func(m ast.Node) bool {
		call, isC := m.(*ast.CallExpr)
		if !isC {
			return true
		}
		id, isId := call.Fun.(*ast.Ident)
		if !isId || id.Name != "copy" || len(call.Args) != 2 {
			return true
		}
		n++
		width := int64(-1)
		switch d := ast.Unparen(call.Args[0]).(type) {
		case *ast.SliceExpr:
			if arr, isArr := info.TypeOf(d.X).Underlying().(*types.Array); isArr {
				lo, hi := int64(0), arr.Len()
				if d.Low != nil {
					if tv, has := info.Types[d.Low]; has && tv.Value != nil {
						lo, _ = constant.Int64Val(tv.Value)
					} else {
						lo = -1
					}
				}
				if d.High != nil {
					if tv, has := info.Types[d.High]; has && tv.Value != nil {
						hi, _ = constant.Int64Val(tv.Value)
					} else {
						hi = -1
					}
				}
				if lo == 0 && hi >= 0 {
					width = hi
				}
			}
		}
		if width != want {
			ok = false
			detail = fmt.Sprintf("copy destination %s covers %d byte(s)", core.ExprStr(call.Args[0]), width)
		}
		return true
	})
	c.R.Checkf(rule, "pname-encoded-on-all-16-bytes@toProcessName", c.pos(f.Pos()), ok && n == 1,
		"the configured process name is copied into all %d bytes of the match-set value (%d copy site(s))%s", want, n, func() string {
			if !ok {
				return " — VIOLATED: " + detail + ": a 16-byte name no longer equals the 16 raw bytes the datapath reports, and matches its 15-byte prefix instead"
			}
			return ""
		}())
}

// C02 SNAPSHOT: the slices KernspaceSnapshot hands to the deferred kernel build
// share their backing arrays with the builder.  The builder may re-slice or
// drop its own reference, but must never store into an element: the kernel
// side would be built from different data than the userspace matcher.
func c02SnapshotImmutable(c *Ctx) {
	const rule = "DUAL"
	snap := c.fn(rule, "control", "RoutingMatcherBuilder.KernspaceSnapshot")
	if snap == nil {
		return
	}
	shared := map[string]bool{}
	ast.Inspect(snap.Body, func(m ast.Node) bool {
		if kv, ok := m.(*ast.KeyValueExpr); ok {
			if fld := core.FieldOf(snap.Info(), kv.Value); strings.HasPrefix(fld, "RoutingMatcherBuilder.") {
				if _, isSlice := snap.Info().TypeOf(kv.Value).Underlying().(*types.Slice); isSlice {
					shared[fld] = true
				}
			}
		}
		return true
	})
	if len(shared) == 0 {
		c.R.Unresolved(rule, "KernspaceSnapshot: slice fields of the builder copied into the snapshot")
		return
	}
	bad := ""
	n := 0
	for _, f := range c.P.FuncsIn("control") {
		info := f.Info()
		ast.Inspect(f.Body, func(m ast.Node) bool {
			as, ok := m.(*ast.AssignStmt)
			if !ok {
				return true
			}
			for _, l := range as.Lhs {
				e := ast.Unparen(l)
				// walk down to the innermost index expression
				for {
					switch x := e.(type) {
					case *ast.SelectorExpr:
						e = x.X
						continue
					case *ast.IndexExpr:
						if shared[core.FieldOf(info, x.X)] {
							n++
							if bad == "" {
								bad = fmt.Sprintf("%s stores into an element of %s at %s", f.Name, core.ExprStr(x.X), c.pos(as.Pos()))
							}
						}
						e = x.X
						continue
					}
					break
				}
			}
			return true
		})
	}
	var names []string
	for k := range shared {
		names = append(names, strings.TrimPrefix(k, "RoutingMatcherBuilder."))
	}
	c.R.Checkf(rule, "snapshot-shared-slices-not-stored-into", c.pos(snap.Pos()), bad == "",
		"the builder fields shared with the kernel-side snapshot (%v) are only appended to, re-sliced or dropped as a whole, never stored into element-wise%s", names, func() string {
			if bad != "" {
				return " — VIOLATED: " + bad + ": the deferred kernel build (staged reload / rollback) installs different sets than the userspace matcher was built from"
			}
			return ""
		}())
}

// C03 HANDOFF-AGE: the age of a hand-off record is computed only after
// excluding records stamped later than the janitor's clock sample (unsigned
// subtraction underflows for a record published during the scan).
func c03HandoffAge(c *Ctx) {
	const rule = "RECORD"
	f := c.fn(rule, "control", "routingHandoffExpired")
	if f == nil {
		return
	}
	info := f.Info()
	g := f.Graph()
	ps := f.Decl.Type.Params.List
	var now, seen types.Object
	var objs []types.Object
	for _, fl := range ps {
		for _, nm := range fl.Names {
			objs = append(objs, info.ObjectOf(nm))
		}
	}
	if len(objs) != 2 {
		c.R.Unresolved(rule, "routingHandoffExpired(nowNano, lastSeenNs)")
		return
	}
	now, seen = objs[0], objs[1]
	n, ok := 0, true
	for _, b := range g.CFG.Blocks {
		if !b.Live {
			continue
		}
		for i, nd := range b.Nodes {
			ast.Inspect(nd, func(m ast.Node) bool {
				be, isB := m.(*ast.BinaryExpr)
				if !isB || be.Op != token.SUB {
					return true
				}
				x, okx := ast.Unparen(be.X).(*ast.Ident)
				y, oky := ast.Unparen(be.Y).(*ast.Ident)
				if !okx || !oky || info.ObjectOf(x) != now || info.ObjectOf(y) != seen {
					return true
				}
				n++
				guarded := false
				for _, gd := range g.Guards(core.Point{B: b, I: i}) {
					for _, at := range core.Atoms(gd.Cond, gd.Polarity) {
						c2, isC := at.Cond.(*ast.BinaryExpr)
						if !isC {
							continue
						}
						l, okl := ast.Unparen(c2.X).(*ast.Ident)
						r, okr := ast.Unparen(c2.Y).(*ast.Ident)
						if !okl || !okr {
							continue
						}
						lo, ro := info.ObjectOf(l), info.ObjectOf(r)
						op := c2.Op
						if lo == seen && ro == now {
							op = map[token.Token]token.Token{token.LSS: token.GTR, token.LEQ: token.GEQ, token.GTR: token.LSS, token.GEQ: token.LEQ}[op]
						} else if !(lo == now && ro == seen) {
							continue
						}
						// normalised: now OP seen
						if ((op == token.LEQ || op == token.LSS) && !at.Polarity) || ((op == token.GTR || op == token.GEQ) && at.Polarity) {
							guarded = true
						}
					}
				}
				if !guarded {
					ok = false
				}
				return true
			})
		}
	}
	c.R.Checkf(rule, "handoff-age-subtraction-guarded@routingHandoffExpired", c.pos(f.Pos()), ok && n > 0,
		"%s - %s (unsigned) is evaluated only on paths where %s > %s (%d site(s)): the janitor samples the clock once and then walks the map, so a record the datapath publishes during the walk carries a later stamp; without the guard its age underflows and the fresh record is deleted as expired", now.Name(), seen.Name(), now.Name(), seen.Name(), n)
}

// C04 CACHEALIAS: a memoised expansion is never shared by reference: what is
// read from the cache is returned only through a copying call, and what is
// stored in the cache is a copy of what is returned.  (Callers append the
// expansion to their own value list; a shared backing array lets one rule's
// values overwrite another's.)
func c04CacheAlias(c *Ctx) {
	const rule = "MEMOKEY"
	n := 0
	for _, f := range c.P.FuncsIn("component/routing") {
		if f.Decl == nil || f.Decl.Recv == nil {
			continue
		}
		info := f.Info()
		cached := map[types.Object]string{}
		var stores []*ast.AssignStmt
		ast.Inspect(f.Body, func(m ast.Node) bool {
			as, ok := m.(*ast.AssignStmt)
			if !ok {
				return true
			}
			// v, ok := recv.cache[key]
			if len(as.Lhs) == 2 && len(as.Rhs) == 1 {
				if ix, ok := as.Rhs[0].(*ast.IndexExpr); ok {
					if fld := core.FieldOf(info, ix.X); strings.Contains(strings.ToLower(fld), "cache") {
						if id, ok := as.Lhs[0].(*ast.Ident); ok {
							cached[info.ObjectOf(id)] = core.ExprStr(ix.X)
						}
					}
				}
			}
			// recv.cache[key] = v
			if len(as.Lhs) == 1 && len(as.Rhs) == 1 {
				if ix, ok := as.Lhs[0].(*ast.IndexExpr); ok {
					if fld := core.FieldOf(info, ix.X); strings.Contains(strings.ToLower(fld), "cache") {
						if _, isMap := info.TypeOf(ix.X).Underlying().(*types.Map); isMap {
							stores = append(stores, as)
						}
					}
				}
			}
			return true
		})
		if len(cached) == 0 && len(stores) == 0 {
			continue
		}
		bad := ""
		ast.Inspect(f.Body, func(m ast.Node) bool {
			rs, ok := m.(*ast.ReturnStmt)
			if !ok {
				return true
			}
			for _, r := range rs.Results {
				if id, ok := ast.Unparen(r).(*ast.Ident); ok {
					if mp, isCached := cached[info.ObjectOf(id)]; isCached && bad == "" {
						bad = fmt.Sprintf("%s returns the slice read from %s itself at %s", f.Name, mp, c.pos(rs.Pos()))
					}
				}
			}
			return true
		})
		for _, st := range stores {
			if _, isCall := ast.Unparen(st.Rhs[0]).(*ast.CallExpr); !isCall && bad == "" {
				if _, isSlice := info.TypeOf(st.Rhs[0]).Underlying().(*types.Slice); isSlice {
					bad = fmt.Sprintf("%s stores %s (not a copy) into the cache at %s while also returning it", f.Name, core.ExprStr(st.Rhs[0]), c.pos(st.Pos()))
				}
			}
		}
		n++
		c.R.Saw(f)
		c.R.Checkf(rule, "cached-expansion-never-shared-by-reference@"+strings.TrimPrefix(f.Name, "component/routing."), c.pos(f.Pos()), bad == "",
			"cache hits are returned through a copying call and cache stores are copies (%d lookup(s), %d store(s))%s", len(cached), len(stores), func() string {
				if bad != "" {
					return " — VIOLATED: " + bad + ": two rules that reference the same geodata tag then share one backing array, and appending one rule's further values overwrites the other's"
				}
				return ""
			}())
	}
	c.R.Floor(rule+"/cache-alias", n, 2)
}

// C04 NEGATE-WHOLE: in the internal selectors the negation applies to the
// disjunction of all key conditions, never to each key condition.
func c04NegateWhole(c *Ctx) {
	const rule = "ALIAS"
	f := c.fn(rule, "component/daedns", "wrapNotPredicate")
	if f == nil {
		return
	}
	info := f.Info()
	var notObj types.Object
	for _, fl := range f.Decl.Type.Params.List {
		for _, nm := range fl.Names {
			if bt, ok := info.TypeOf(nm).Underlying().(*types.Basic); ok && bt.Kind() == types.Bool {
				notObj = info.ObjectOf(nm)
			}
		}
	}
	if notObj == nil {
		c.R.Unresolved(rule, "wrapNotPredicate: boolean negation parameter")
		return
	}
	loops, inLoop := 0, false
	ast.Inspect(f.Body, func(m ast.Node) bool {
		if rs, ok := m.(*ast.RangeStmt); ok {
			loops++
			ast.Inspect(rs.Body, func(k ast.Node) bool {
				if id, ok := k.(*ast.Ident); ok && info.ObjectOf(id) == notObj {
					inLoop = true
				}
				return true
			})
		}
		return true
	})
	c.R.Checkf(rule, "negation-applies-to-the-whole-selector@wrapNotPredicate", c.pos(f.Pos()), loops == 1 && !inLoop,
		"the negation flag is not consulted inside the loop over the per-key conditions: `!f(k1: a, k2: b)` is !(k1(a) || k2(b)); applying it per key gives !k1(a) || !k2(b), which selects exactly the excluded nodes")
}

// C05 READTHENWRITE: io.Reader may return n > 0 together with io.EOF (or any
// error).  In every Read/Write copy loop the data test (nr > 0 => write) comes
// before any test of the read error.
func c05ReadThenWrite(c *Ctx) {
	const rule = "SHORTWRITE"
	n := 0
	for _, rel := range []string{"control", "component/sniffing"} {
		for _, f := range units(c.P, rel, nil) {
			info := f.Info()
			g := f.Graph()
			for _, b := range g.CFG.Blocks {
				if !b.Live {
					continue
				}
				for i, nd := range b.Nodes {
					as, ok := nd.(*ast.AssignStmt)
					if !ok || len(as.Lhs) != 2 || len(as.Rhs) != 1 {
						continue
					}
					call, ok := as.Rhs[0].(*ast.CallExpr)
					if !ok {
						continue
					}
					if _, name, isM := methodCall(call); !isM || name != "Read" || len(call.Args) != 1 {
						continue
					}
					nrId, ok1 := as.Lhs[0].(*ast.Ident)
					erId, ok2 := as.Lhs[1].(*ast.Ident)
					if !ok1 || !ok2 || nrId.Name == "_" || erId.Name == "_" {
						continue
					}
					nr, er := info.ObjectOf(nrId), info.ObjectOf(erId)
					// only loops that also write what they read
					writes := false
					ast.Inspect(f.Body, func(m ast.Node) bool {
						if cl, ok := m.(*ast.CallExpr); ok {
							if _, nm, isM := methodCall(cl); isM && nm == "Write" && len(cl.Args) == 1 {
								if sl, ok := ast.Unparen(cl.Args[0]).(*ast.SliceExpr); ok && sl.High != nil {
									if hid, ok := ast.Unparen(sl.High).(*ast.Ident); ok && info.ObjectOf(hid) == nr {
										writes = true
									}
								}
							}
						}
						return true
					})
					if !writes {
						continue
					}
					n++
					c.R.Saw(f)
					mentions := func(obj types.Object) func(ast.Node) bool {
						return func(m ast.Node) bool {
							if m == ast.Node(as) {
								return false
							}
							e, isExpr := m.(ast.Expr)
							if !isExpr {
								return false
							}
							hit := false
							ast.Inspect(e, func(k ast.Node) bool {
								if id, ok := k.(*ast.Ident); ok && info.ObjectOf(id) == obj {
									hit = true
								}
								return true
							})
							return hit
						}
					}
					bad, tr, reach := g.ReachesAvoiding(core.Point{B: b, I: i}.After(), mentions(nr), mentions(er))
					construct := "data-handled-before-read-error@" + strings.TrimPrefix(f.Name, rel+".")
					if !reach {
						c.R.Checkf(rule, construct, c.pos(as.Pos()), true, "after %s the count %s is tested (and the bytes written) before the error %s is looked at", core.ExprStr(as.Rhs[0]), nrId.Name, erId.Name)
					} else {
						c.R.Checkf(rule, construct, c.pos(bad.Pos()), false, "after %s the read error %s is tested at %s (lines %s) before the count %s: a Read that returns the last bytes together with io.EOF (quic-go streams do) loses those bytes and the relay reports a clean end of stream", core.ExprStr(as.Rhs[0]), erId.Name, c.pos(bad.Pos()), traceStr(c.P, tr), nrId.Name)
					}
				}
			}
		}
	}
	c.R.Floor(rule+"/read-then-write", n, 3)
}

// C05 UNCONSUMED: when the first port-53 detection read fails nothing was
// taken from the stream; the fast path then always reports handled=false so
// that the buffered bytes and the connection go to the relay.
func c05Unconsumed(c *Ctx) {
	const rule = "CONSUME"
	f := c.fn(rule, "control", "ControlPlane.handleTCPDnsFastPath")
	if f == nil {
		return
	}
	info := f.Info()
	g := f.Graph()
	read := nodeCalls(info, "control.readDnsMsgFromBufio")
	var first *core.Point
	for _, p := range g.Find(read) {
		p := p
		// first = reachable from entry without passing another read
		if _, _, reach := g.ReachesAvoiding(g.Entry(), func(n ast.Node) bool { return read(n) && n != p.Node() }, func(n ast.Node) bool { return n == p.Node() }); reach {
			first = &p
		}
	}
	if first == nil {
		c.R.Unresolved(rule, "handleTCPDnsFastPath: first readDnsMsgFromBufio")
		return
	}
	cond, tr, _, ok := g.Cond(first.B)
	if !ok || !strings.Contains(core.ExprStr(cond), "err != nil") {
		c.R.Checkf(rule, "failed-detection-falls-through-to-the-relay", c.pos(first.Node().Pos()), false, "the result of the first detection read is not tested right after the call")
		return
	}
	good := true
	var badPos token.Pos
	w := &core.Walker{G: g, Visit: func(n ast.Node) core.Verdict {
		if read(n) {
			return core.Stop
		}
		return core.Go
	}, OnExit: func(b *cfg.Block, _ []token.Pos) {
		if len(b.Nodes) == 0 {
			good = false
			return
		}
		rs, isRet := b.Nodes[len(b.Nodes)-1].(*ast.ReturnStmt)
		if !isRet || len(rs.Results) < 1 || core.ExprStr(rs.Results[0]) != "false" {
			good = false
			badPos = b.Nodes[len(b.Nodes)-1].Pos()
		}
	}}
	w.Run(core.Point{B: tr, I: 0})
	c.R.Checkf(rule, "failed-detection-falls-through-to-the-relay", c.pos(first.Node().Pos()), good,
		"when the first detection read fails (not DNS, too short, end of stream, timeout) every return reports handled=false: nothing was consumed, so the buffered bytes and the client's half-close must reach the relay%s", func() string {
			if !good {
				return " — VIOLATED: handled=true at " + c.pos(badPos) + " drops the buffered bytes and never dials the upstream"
			}
			return ""
		}())
}

// C06 WINDOW: the sniffing window is one absolute deadline fixed when the
// sniffer is constructed; nothing assigns Sniffer.deadline afterwards (a
// deadline re-armed per read slides forward with every chunk and sniffing
// waits past its timeout).
func c06WindowFixed(c *Ctx) {
	const rule = "TIMEOUT"
	n, bad := 0, ""
	for _, f := range c.P.FuncsIn("component/sniffing") {
		info := f.Info()
		ast.Inspect(f.Body, func(m ast.Node) bool {
			switch x := m.(type) {
			case *ast.AssignStmt:
				for _, l := range x.Lhs {
					if core.FieldOf(info, l) == "Sniffer.deadline" {
						n++
						if bad == "" {
							bad = fmt.Sprintf("%s assigns %s at %s", f.Name, core.ExprStr(l), c.pos(x.Pos()))
						}
					}
				}
			case *ast.KeyValueExpr:
				if id, ok := x.Key.(*ast.Ident); ok && id.Name == "deadline" {
					if v, ok := info.ObjectOf(id).(*types.Var); ok && v.IsField() {
						n++ // composite literal in a constructor
					}
				}
			}
			return true
		})
	}
	c.R.Checkf(rule, "sniff-window-fixed-at-construction", "component/sniffing/sniffer.go", bad == "" && n >= 2,
		"Sniffer.deadline is set only in the constructors' literals (%d site(s)) and never assigned afterwards%s", n, func() string {
			if bad != "" {
				return " — VIOLATED: " + bad + ": the window restarts with every read, so a ClientHello dripped in chunks keeps sniffing (and the connection) waiting past the timeout"
			}
			return ""
		}())
}

// C06 LOCATOR-BOUNDS: inside LinearLocator.Range the inclusive upper index j
// is turned into a slice bound the same way at every site that slices the
// current block (sibling agreement between the in-block fast path and the
// cross-block tail copy).
func c06LocatorBounds(c *Ctx) {
	const rule = "LOCATOR"
	f := c.fn(rule, "component/sniffing/internal/quicutils", "LinearLocator.Range")
	if f == nil {
		return
	}
	highs := map[string]int{}
	lows := map[string]int{}
	n := 0
	ast.Inspect(f.Body, func(m ast.Node) bool {
		sl, ok := m.(*ast.SliceExpr)
		if !ok || !strings.HasSuffix(core.ExprStr(sl.X), ".baseData") || sl.High == nil {
			return true
		}
		n++
		highs[nospace(core.ExprStr(sl.High))]++
		if sl.Low != nil {
			lows[nospace(core.ExprStr(sl.Low))]++
		} else {
			lows["<none>"]++
		}
		return true
	})
	c.R.Checkf(rule, "block-slices-agree-on-bounds@LinearLocator.Range", c.pos(f.Pos()), n >= 2 && len(highs) == 1 && len(lows) == 1,
		"the %d bounded slices of the current block in Range use one lower and one upper bound expression (lower %v, upper %v): the tail copy of a range that crosses CRYPTO frames must end at the same inclusive index as the in-block fast path, otherwise a field that straddles a frame boundary loses its last byte", n, keysI(lows), keysI(highs))
}

func keysI(m map[string]int) []string {
	var out []string
	for k := range m {
		out = append(out, k)
	}
	return out
}

// C07 INDEXSPACE: an upstream index that dns.New accepts is never one that
// DnsResponseOutboundIndex.IsReserved classifies as reserved (ResponseSelect
// returns no upstream for a reserved index, and the re-ask then goes to the
// client's own resolver until the depth bound).
func c07IndexSpace(c *Ctx) {
	const rule = "SENTINEL"
	nf := c.fn(rule, "component/dns", "New")
	rf := c.fn(rule, "common/consts", "DnsResponseOutboundIndex.IsReserved")
	if nf == nil || rf == nil {
		return
	}
	accept, ok1 := constInt(c, rule, "common/consts", "DnsResponseOutboundIndex_Accept")
	if !ok1 {
		return
	}
	// the guard in New
	var guard ast.Expr
	var idx string
	ast.Inspect(nf.Body, func(m ast.Node) bool {
		if is, ok := m.(*ast.IfStmt); ok && guard == nil && strings.Contains(core.ExprStr(is.Cond), "UserDefinedMax") {
			guard = is.Cond
			ast.Inspect(is.Cond, func(k ast.Node) bool {
				if be, ok := k.(*ast.BinaryExpr); ok {
					if id, ok := ast.Unparen(be.X).(*ast.Ident); ok && idx == "" {
						idx = id.Name
					}
				}
				return true
			})
		}
		return true
	})
	// the reserved predicate
	var resExpr ast.Expr
	var recv string
	if len(rf.Decl.Recv.List[0].Names) > 0 {
		recv = rf.Decl.Recv.List[0].Names[0].Name
	}
	ast.Inspect(rf.Body, func(m ast.Node) bool {
		if rs, ok := m.(*ast.ReturnStmt); ok && len(rs.Results) == 1 && resExpr == nil {
			resExpr = rs.Results[0]
		}
		return true
	})
	if guard == nil || idx == "" || resExpr == nil || recv == "" {
		c.R.Unresolved(rule, "dns.New upstream-count guard / IsReserved return expression")
		return
	}
	bad := ""
	rows := 0
	for v := accept - 6; v <= accept+3; v++ {
		rows++
		gj := &fdt.Job{F: nf}
		gv := gj.Eval(&fdt.Env{Syms: map[string]constant.Value{idx: constant.MakeInt64(v)}}, guard)
		if gv == nil {
			bad = "the upstream-count guard of dns.New cannot be folded for index " + fmt.Sprint(v)
			break
		}
		accepted := !constant.BoolVal(gv)
		rj := &fdt.Job{F: rf}
		rv := rj.Eval(&fdt.Env{Syms: map[string]constant.Value{recv: constant.MakeInt64(v)}}, resExpr)
		reserved := v >= accept // the named constants: the reading of the string form
		if rv != nil {
			reserved = constant.BoolVal(rv)
		}
		if accepted && reserved && bad == "" {
			bad = fmt.Sprintf("index %#x is accepted as an upstream by dns.New but classified reserved by IsReserved", v)
		}
		if !reserved && v >= accept && bad == "" {
			bad = fmt.Sprintf("the reserved constant %#x is not classified reserved by IsReserved", v)
		}
	}
	c.R.Checkf(rule, "accepted-upstream-index-is-never-reserved", c.pos(guard.Pos()), bad == "",
		"over %d indexes around the boundary, every index dns.New accepts for an upstream is classified user-defined by IsReserved, and every named reserved constant is classified reserved%s", rows, func() string {
			if bad != "" {
				return " — VIOLATED: " + bad + ": a response rule that routes to that upstream gets no upstream back and re-asks the client's own resolver until the depth bound"
			}
			return ""
		}())
}

// C07 VERDICT-FROM-MATCHER: the response verdict is the response matcher's
// result alone: every non-error return of ResponseSelect returns the variable
// assigned from respMatcher.Match, unmodified (never a literal accept/reject
// substituted on the way).
func c07VerdictFromMatcher(c *Ctx) {
	const rule = "RESP"
	f := c.fn(rule, "component/dns", "Dns.ResponseSelect")
	if f == nil {
		return
	}
	info := f.Info()
	var verdict types.Object
	writes := 0
	ast.Inspect(f.Body, func(m ast.Node) bool {
		as, ok := m.(*ast.AssignStmt)
		if !ok {
			return true
		}
		if len(as.Rhs) == 1 {
			if call, ok := as.Rhs[0].(*ast.CallExpr); ok {
				if _, name, isM := methodCall(call); isM && name == "Match" && len(as.Lhs) >= 1 {
					if id, ok := as.Lhs[0].(*ast.Ident); ok {
						verdict = info.ObjectOf(id)
					}
					return true
				}
			}
		}
		for _, l := range as.Lhs {
			if id, ok := l.(*ast.Ident); ok && verdict != nil && info.ObjectOf(id) == verdict {
				writes++
			}
		}
		return true
	})
	if verdict == nil {
		c.R.Unresolved(rule, "ResponseSelect: verdict variable assigned from respMatcher.Match")
		return
	}
	n, bad := 0, ""
	ast.Inspect(f.Body, func(m ast.Node) bool {
		rs, ok := m.(*ast.ReturnStmt)
		if !ok || len(rs.Results) != 3 {
			return true
		}
		if core.ExprStr(rs.Results[2]) != "nil" {
			return true // error return
		}
		n++
		if id, ok := ast.Unparen(rs.Results[0]).(*ast.Ident); !ok || info.ObjectOf(id) != verdict {
			if bad == "" {
				bad = fmt.Sprintf("return at %s yields %s", c.pos(rs.Pos()), core.ExprStr(rs.Results[0]))
			}
		}
		return true
	})
	c.R.Checkf(rule, "verdict-is-the-matchers-result@ResponseSelect", c.pos(f.Pos()), bad == "" && writes == 0 && n >= 1,
		"every non-error return of ResponseSelect (%d) returns the index the response matcher produced, and nothing else assigns it (%d other assignment(s))%s", n, writes, func() string {
			if bad != "" {
				return " — VIOLATED: " + bad + ": the verdict no longer follows the rule list (e.g. `ip(geoip:private) -> alidns` must re-ask alidns even when alidns produced the polluted answer)"
			}
			return ""
		}())
}

// C08/C09 KEYTYPE: the cache key is injective in the query type: the
// pre-computed suffix table maps each type to its own decimal string, and
// cacheKey never narrows the 16-bit type before using it.
func cacheKeyTypeInjective(c *Ctx, rule string) {
	pk := c.P.Pkg("control")
	v, _ := pk.Types.Scope().Lookup("qtypeStrCache").(*types.Var)
	if v == nil {
		c.R.Unresolved(rule, "control.qtypeStrCache")
		return
	}
	// its initialiser
	var lit *ast.CompositeLit
	var litInfo *types.Info
	for i, file := range pk.Syntax {
		_ = i
		ast.Inspect(file, func(m ast.Node) bool {
			vs, ok := m.(*ast.ValueSpec)
			if !ok {
				return true
			}
			for j, nm := range vs.Names {
				if pk.TypesInfo.Defs[nm] == v && j < len(vs.Values) {
					if cl, ok := vs.Values[j].(*ast.CompositeLit); ok {
						lit, litInfo = cl, pk.TypesInfo
					}
				}
			}
			return true
		})
	}
	if lit == nil {
		c.R.Unresolved(rule, "control.qtypeStrCache initialiser")
		return
	}
	bad := ""
	n := 0
	for _, el := range lit.Elts {
		kv, ok := el.(*ast.KeyValueExpr)
		if !ok {
			continue
		}
		ktv, ok1 := litInfo.Types[kv.Key]
		vtv, ok2 := litInfo.Types[kv.Value]
		if !ok1 || !ok2 || ktv.Value == nil || vtv.Value == nil {
			bad = "non-constant entry " + core.ExprStr(kv)
			break
		}
		n++
		k, _ := constant.Int64Val(constant.ToInt(ktv.Value))
		if constant.StringVal(vtv.Value) != fmt.Sprint(k) && bad == "" {
			bad = fmt.Sprintf("entry %s maps type %d to suffix %s", core.ExprStr(kv.Key), k, vtv.Value.ExactString())
		}
	}
	c.R.Checkf(rule, "qtype-suffix-table-is-the-decimal-type", c.P.Pos(lit.Pos()), bad == "" && n > 0,
		"each of the %d pre-computed cache-key suffixes is the decimal value of its own query type%s", n, func() string {
			if bad != "" {
				return " — VIOLATED: " + bad + ": two query types then share a cache (and singleflight) key and one is served the other's answer"
			}
			return ""
		}())
	if f := c.fn(rule, "control", "DnsController.cacheKey"); f != nil {
		info := f.Info()
		var qt types.Object
		for _, fl := range f.Decl.Type.Params.List {
			for _, nm := range fl.Names {
				if bt, ok := info.TypeOf(nm).Underlying().(*types.Basic); ok && bt.Kind() == types.Uint16 {
					qt = info.ObjectOf(nm)
				}
			}
		}
		narrow := ""
		ast.Inspect(f.Body, func(m ast.Node) bool {
			call, ok := m.(*ast.CallExpr)
			if !ok || len(call.Args) != 1 {
				return true
			}
			tv, ok := info.Types[call.Fun]
			if !ok || !tv.IsType() {
				return true
			}
			bt, ok := tv.Type.Underlying().(*types.Basic)
			if !ok || bt.Info()&types.IsInteger == 0 {
				return true
			}
			uses := false
			ast.Inspect(call.Args[0], func(k ast.Node) bool {
				if id, ok := k.(*ast.Ident); ok && info.ObjectOf(id) == qt {
					uses = true
				}
				return true
			})
			if uses && types.SizesFor("gc", "amd64").Sizeof(bt) < 2 && narrow == "" {
				narrow = core.ExprStr(call)
			}
			return true
		})
		c.R.Checkf(rule, "cache-key-uses-the-full-qtype@cacheKey", c.pos(f.Pos()), qt != nil && narrow == "", "cacheKey never narrows the 16-bit query type%s", func() string {
			if narrow != "" {
				return " — VIOLATED: " + narrow + ": CAA (257) gets the key of A (1), and a CAA client is served the cached A answer"
			}
			return ""
		}())
	}
}

// C08 LRU-WRITERS: the last-access stamp is written only where an entry is
// actually served (the lookup) or copied field by field (the clones).
func c08LruWriters(c *Ctx) {
	const rule = "LRU"
	n, bad := 0, ""
	for _, f := range c.P.FuncsIn("control") {
		info := f.Info()
		core.EachCall(f.Body, core.Deep, func(call *ast.CallExpr) {
			recv, name, ok := methodCall(call)
			if !ok || (name != "Store" && name != "Swap" && name != "CompareAndSwap" && name != "Add") || core.FieldOf(info, recv) != "DnsCache.lastAccessNano" {
				return
			}
			n++
			short := strings.TrimPrefix(f.Name, "control.")
			okSite := strings.HasPrefix(short, "DnsController.LookupDnsRespCache") || strings.HasPrefix(short, "DnsCache.Clone")
			if !okSite && bad == "" {
				bad = fmt.Sprintf("%s writes the last-access stamp at %s", short, c.pos(call.Pos()))
			}
		})
	}
	c.R.Checkf(rule, "last-access-stamp-writers", "control/dns_control.go", bad == "" && n >= 2,
		"DnsCache.lastAccessNano is written only by the serving lookup and by the clones that copy it (%d site(s))%s", n, func() string {
			if bad != "" {
				return " — VIOLATED: " + bad + ": stamping entries that were not used flattens the access order, and the size-limit pass evicts arbitrary entries instead of the least recently used"
			}
			return ""
		}())
}

// mustReachUnlessAbsent: every exit of f passes a node satisfying sat, except
// exits taken because an operand is absent / an error is present.
func mustReachUnlessAbsent(c *Ctx, rule, construct string, f *core.Func, sat func(ast.Node) bool, msg string) {
	info := f.Info()
	g := f.Graph()
	if len(g.Find(sat)) == 0 {
		c.R.Checkf(rule, construct, c.pos(f.Pos()), false, "%s: the call is gone from %s", msg, f.Name)
		return
	}
	ex := g.ExitsAvoidingE(g.Entry(), sat, func(from *cfg.Block, si int) bool {
		cond, _, _, ok := g.Cond(from)
		return !ok || !absentEdge(info, cond, si == 0)
	})
	if len(ex) == 0 {
		c.R.Checkf(rule, construct, c.pos(f.Pos()), true, "%s: holds on every exit of %s that is not taken for a nil operand or an error", msg, f.Name)
	} else {
		c.R.Checkf(rule, construct, c.pos(ex[0].Pos), false, "%s — VIOLATED: %s returns at %s (lines %s) without it although nothing is absent", msg, f.Name, c.pos(ex[0].Pos), traceStr(c.P, ex[0].Trace))
	}
}

func c10DeleteCallbackUnconditional(c *Ctx) {
	if f := c.fn("WIRING", "control", "DnsController.invokeCacheDeleteCallback"); f != nil {
		sat := func(n ast.Node) bool {
			hit := false
			ownCalls(n, func(call *ast.CallExpr, _ bool) {
				if strings.HasSuffix(core.ExprStr(call.Fun), ".cacheDeleteCallback") {
					hit = true
				}
			})
			return hit
		}
		mustReachUnlessAbsent(c, "WIRING", "delete-callback-invoked-for-every-removed-entry@invokeCacheDeleteCallback", f, sat,
			"the owner-delete callback runs whenever an entry and a callback are present (a guard that skips it, e.g. because a newer entry is stored under the key, leaves the removed entry's addresses in the kernel table)")
	}
	// the refresh path installs the new entry through the access callback whenever one is configured
	if f := c.fn("WIRING", "control", "DnsController.__updateDnsCacheDeadline"); f != nil {
		info := f.Info()
		g := f.Graph()
		n := 0
		for _, b := range g.CFG.Blocks {
			if !b.Live {
				continue
			}
			for i, nd := range b.Nodes {
				hit := false
				ownCalls(nd, func(call *ast.CallExpr, _ bool) {
					if strings.HasSuffix(core.ExprStr(call.Fun), ".cacheAccessCallback") {
						hit = true
					}
				})
				if !hit {
					continue
				}
				n++
				var extra []string
				for _, gd := range g.Guards(core.Point{B: b, I: i}) {
					for _, at := range core.Atoms(gd.Cond, gd.Polarity) {
						s := core.ExprStr(at.Cond)
						if strings.Contains(s, "IncludeAnyIp") || strings.Contains(s, "len(") && strings.Contains(strings.ToLower(s), "ip") {
							extra = append(extra, s)
						}
					}
				}
				_ = info
				c.R.Checkf("WIRING", "refresh-installs-regardless-of-answer-content@__updateDnsCacheDeadline", c.pos(nd.Pos()), len(extra) == 0,
					"the access callback (which replaces the owner's snapshot, also with an empty one) is not conditional on the refreshed answer carrying addresses; conditions found: %v", extra)
			}
		}
		if n == 0 {
			c.R.Checkf("WIRING", "refresh-installs-regardless-of-answer-content@__updateDnsCacheDeadline", c.pos(f.Pos()), false, "no cacheAccessCallback invocation in __updateDnsCacheDeadline")
		}
	}
}

// C09: inFlight decrements that can reach zero close a retired forwarder
func c09DecrementCloses(c *Ctx) {
	const rule = "LIFECYCLE"
	n := 0
	for _, f := range c.P.FuncsIn("control") {
		if f.Decl == nil || !strings.HasPrefix(f.Name, "control.cachedDnsForwarder.") {
			continue
		}
		info := f.Info()
		g := f.Graph()
		closeNow := nodeCalls(info, "control.cachedDnsForwarder.closeNow")
		for _, b := range g.CFG.Blocks {
			if !b.Live {
				continue
			}
			for _, nd := range b.Nodes {
				var dec *ast.CallExpr
				ast.Inspect(nd, func(m ast.Node) bool {
					if call, ok := m.(*ast.CallExpr); ok {
						if recv, name, isM := methodCall(call); isM && name == "Add" && core.FieldOf(info, recv) == "cachedDnsForwarder.inFlight" && len(call.Args) == 1 {
							if tv, ok := info.Types[call.Args[0]]; ok && tv.Value != nil {
								if v, _ := constant.Int64Val(tv.Value); v < 0 {
									dec = call
								}
							}
						}
					}
					return true
				})
				if dec == nil {
					continue
				}
				n++
				// the decrement is the condition of this block and its "reached zero" edge closes
				good := false
				if cond, tr, fl, ok := g.Cond(b); ok && nd == ast.Node(cond) {
					// the edge on which the count reached zero (either branch, after normalisation), then every path
					// closes — except the ones leaving on a "not retired" edge, where there is nothing to close
					notRetired := func(from *cfg.Block, si int) bool {
						c2, _, _, ok := g.Cond(from)
						if !ok {
							return true
						}
						for _, at := range core.Atoms(c2, si == 0) {
							if !at.Polarity && strings.HasSuffix(nospace(core.ExprStr(at.Cond)), ".retired.Load()") {
								return false
							}
						}
						return true
					}
					for pi, succ := range []*cfg.Block{tr, fl} {
						for _, at := range core.Atoms(cond, pi == 0) {
							if be, ok := at.Cond.(*ast.BinaryExpr); ok && be.Op == token.EQL && core.ExprStr(be.Y) == "0" && at.Polarity && strings.Contains(core.ExprStr(be.X), ".Add(") {
								// the same condition may carry the retired test (a && b): its false edge is the other successor and is not explored
								if len(g.ExitsAvoidingE(core.Point{B: succ, I: 0}, closeNow, notRetired)) == 0 {
									good = true
								}
							}
						}
					}
				}
				c.R.Checkf(rule, "last-in-flight-decrement-closes-a-retired-forwarder@"+strings.TrimPrefix(f.Name, "control."), c.pos(dec.Pos()), good,
					"%s is tested for having reached zero and that edge calls closeNow (together with the retired flag): the goroutine that takes the in-flight count to zero after retire() has run is the only one left to close the forwarder", core.ExprStr(dec))
			}
		}
	}
	c.R.Floor(rule+"/decrements", n, 2)
}

// C12: every key of the userspace trie is the Prefix2bin128 of one prefix of
// the set, and every prefix contributes one (no shortcut key, no early exit).
func c12TrieKeys(c *Ctx) {
	const rule = "PREFIXLEN"
	f := c.fn(rule, "pkg/trie", "NewTrieFromPrefixes")
	if f == nil {
		return
	}
	info := f.Info()
	var ranged string
	ast.Inspect(f.Body, func(m ast.Node) bool {
		if rs, ok := m.(*ast.RangeStmt); ok && ranged == "" {
			ranged = core.ExprStr(rs.X)
		}
		return true
	})
	if ranged == "" {
		c.R.Unresolved(rule, "NewTrieFromPrefixes: loop over the prefixes")
		return
	}
	perItemLoop(c, rule, f, ranged, "prefix")
	n, bad := 0, ""
	ast.Inspect(f.Body, func(m ast.Node) bool {
		call, ok := m.(*ast.CallExpr)
		if !ok {
			return true
		}
		id, ok := call.Fun.(*ast.Ident)
		if !ok || id.Name != "append" || len(call.Args) < 2 {
			return true
		}
		if bt, ok := info.TypeOf(call.Args[1]).Underlying().(*types.Basic); !ok || bt.Info()&types.IsString == 0 {
			return true
		}
		n++
		for _, a := range call.Args[1:] {
			ok2 := false
			if inner, isC := ast.Unparen(a).(*ast.CallExpr); isC {
				if cal := core.Callee(info, inner); cal != nil && cal.Name() == "Prefix2bin128" {
					ok2 = true
				}
			}
			if !ok2 && bad == "" {
				bad = fmt.Sprintf("append of %s at %s", core.ExprStr(a), c.pos(call.Pos()))
			}
		}
		return true
	})
	c.R.Checkf(rule, "trie-keys-are-prefix2bin128-of-each-prefix@NewTrieFromPrefixes", c.pos(f.Pos()), bad == "" && n >= 1,
		"every key handed to the trie is Prefix2bin128(prefix) (%d append site(s))%s", n, func() string {
			if bad != "" {
				return " — VIOLATED: " + bad + ": a key that is not derived by the one length rule (bits + 96 for IPv4) — e.g. the empty key for 0.0.0.0/0 — makes the userspace set cover addresses the kernel key does not"
			}
			return ""
		}())
}

// C13: the overflow FIFO's shrink copies the whole backlog
func c13ShrinkCopies(c *Ctx) {
	const rule = "DRAIN"
	f := c.fn(rule, "control", "UdpTaskQueue.popOverflowTask")
	if f == nil {
		return
	}
	info := f.Info()
	n, bad := 0, ""
	ast.Inspect(f.Body, func(m ast.Node) bool {
		call, ok := m.(*ast.CallExpr)
		if !ok {
			return true
		}
		id, ok := call.Fun.(*ast.Ident)
		if !ok || id.Name != "copy" || len(call.Args) != 2 {
			return true
		}
		dst, ok := ast.Unparen(call.Args[0]).(*ast.Ident)
		if !ok {
			return true
		}
		n++
		obj := info.ObjectOf(dst)
		var mk *ast.CallExpr
		ast.Inspect(f.Body, func(k ast.Node) bool {
			if as, ok := k.(*ast.AssignStmt); ok && len(as.Lhs) == 1 && len(as.Rhs) == 1 {
				if lid, ok := as.Lhs[0].(*ast.Ident); ok && info.ObjectOf(lid) == obj {
					if cl, ok := as.Rhs[0].(*ast.CallExpr); ok {
						if fid, ok := cl.Fun.(*ast.Ident); ok && fid.Name == "make" {
							mk = cl
						}
					}
				}
			}
			return true
		})
		want := "len(" + core.ExprStr(call.Args[1]) + ")"
		if mk == nil || len(mk.Args) < 2 || nospace(core.ExprStr(mk.Args[1])) != nospace(want) {
			got := "?"
			if mk != nil && len(mk.Args) >= 2 {
				got = core.ExprStr(mk.Args[1])
			}
			bad = fmt.Sprintf("copy(%s, %s): the destination was made with length %s, not %s", dst.Name, core.ExprStr(call.Args[1]), got, want)
		}
		return true
	})
	c.R.Checkf(rule, "overflow-shrink-keeps-the-backlog@popOverflowTask", c.pos(f.Pos()), bad == "" && n >= 1,
		"the shrunk overflow slice is made with the length of the backlog it is copied from (%d copy site(s))%s", n, func() string {
			if bad != "" {
				return " — VIOLATED: " + bad + ": copy() copies min(len(dst), len(src)) elements, so the remaining backlog of accepted tasks is dropped"
			}
			return ""
		}())
}

// C13: a core always re-joins the shared tuple-owner tracker (nil only for a nil core)
func c13TrackerAlways(c *Ctx) {
	const rule = "TRACKED"
	f := c.fn(rule, "control", "controlPlaneCore.getUdpConnStateTracker")
	if f == nil {
		return
	}
	info := f.Info()
	g := f.Graph()
	var recv types.Object
	if len(f.Decl.Recv.List[0].Names) > 0 {
		recv = info.ObjectOf(f.Decl.Recv.List[0].Names[0])
	}
	bad := ""
	for _, b := range g.CFG.Blocks {
		if !b.Live {
			continue
		}
		for i, nd := range b.Nodes {
			rs, ok := nd.(*ast.ReturnStmt)
			if !ok || len(rs.Results) != 1 || core.ExprStr(rs.Results[0]) != "nil" {
				continue
			}
			okGuard := false
			for _, gd := range g.Guards(core.Point{B: b, I: i}) {
				for _, at := range core.Atoms(gd.Cond, gd.Polarity) {
					if be, isB := at.Cond.(*ast.BinaryExpr); isB && be.Op == token.EQL && at.Polarity && core.ExprStr(be.Y) == "nil" {
						if id, isId := ast.Unparen(be.X).(*ast.Ident); isId && info.ObjectOf(id) == recv {
							okGuard = true
						}
					}
				}
			}
			if !okGuard && bad == "" {
				bad = "return nil at " + c.pos(rs.Pos())
			}
		}
	}
	c.R.Checkf(rule, "core-always-joins-the-shared-tuple-tracker@getUdpConnStateTracker", c.pos(f.Pos()), bad == "",
		"getUdpConnStateTracker returns no tracker only for a nil core%s", func() string {
			if bad != "" {
				return " — VIOLATED: " + bad + ": an endpoint of a closed (old-generation) core then releases its tuples without the shared owner accounting — the kernel entries are deleted while another endpoint still owns them, and the tracker never reaches zero for them"
			}
			return ""
		}())
}

// rangeVarsNotAssigned: no loop of the package assigns to its own range key /
// value variable (a value that is re-used for the remaining inner iterations
// — e.g. the subscription tag of the nodes that follow a bad link).
var rangeVarWhy = map[string]string{
	"component/routing/domain_matcher": "a pattern is compiled as the user wrote it — rewriting it (case folding, trimming) before the per-kind handling changes what a regex or keyword means (\\D becomes \\d)",
}

func rangeVarsNotAssigned(c *Ctx, rule, rel string, keepFile func(string) bool) {
	loops, bad := 0, ""
	for _, f := range c.P.FuncsIn(rel) {
		if keepFile != nil && !keepFile(filepathBase(f.File())) {
			continue
		}
		info := f.Info()
		ast.Inspect(f.Body, func(m ast.Node) bool {
			rs, ok := m.(*ast.RangeStmt)
			if !ok || rs.Tok != token.DEFINE {
				return true
			}
			loops++
			vars := map[types.Object]bool{}
			for _, e := range []ast.Expr{rs.Key, rs.Value} {
				if id, ok := e.(*ast.Ident); ok && id.Name != "_" {
					vars[info.ObjectOf(id)] = true
				}
			}
			ast.Inspect(rs.Body, func(k ast.Node) bool {
				switch x := k.(type) {
				case *ast.AssignStmt:
					for _, l := range x.Lhs {
						if id, ok := l.(*ast.Ident); ok && vars[info.ObjectOf(id)] && x.Tok != token.DEFINE && bad == "" {
							bad = fmt.Sprintf("%s assigns its range variable %s at %s", f.Name, id.Name, c.pos(x.Pos()))
						}
					}
				case *ast.IncDecStmt:
					if id, ok := x.X.(*ast.Ident); ok && vars[info.ObjectOf(id)] && bad == "" {
						bad = fmt.Sprintf("%s modifies its range variable %s at %s", f.Name, id.Name, c.pos(x.Pos()))
					}
				}
				return true
			})
			return true
		})
	}
	c.R.Checkf(rule, "range-variables-not-reassigned@"+rel, rel, bad == "" && loops > 0,
		"none of the %d range loops of %s assigns to its own key/value variable%s", loops, rel, func() string {
			if bad != "" {
				if w, ok := rangeVarWhy[rel]; ok {
					return " — VIOLATED: " + bad + ": " + w
				}
				return " — VIOLATED: " + bad + ": the changed value stays in force for the rest of that iteration's inner loops (the nodes after an unparsable link inherit the placeholder tag and change group membership under subtag filters)"
			}
			return ""
		}())
}

// C14: every annotation value is validated, also when it is not the one used
func c14AnnotationValidated(c *Ctx) {
	const rule = "NODEFAULT"
	f := c.fn(rule, "component/outbound/dialer", "NewAnnotation")
	if f == nil {
		return
	}
	info := f.Info()
	g := f.Graph()
	// every parse call (time.ParseDuration, strconv.*) in a case clause is reached from the clause head unconditionally
	n, bad := 0, ""
	ast.Inspect(f.Body, func(m ast.Node) bool {
		cc, ok := m.(*ast.CaseClause)
		if !ok || cc.List == nil {
			return true
		}
		var parse ast.Node
		for _, st := range cc.Body {
			ast.Inspect(st, func(k ast.Node) bool {
				if call, ok := k.(*ast.CallExpr); ok && parse == nil {
					if cal := core.Callee(info, call); cal != nil && cal.Pkg() != nil && (cal.Pkg().Path() == "time" || cal.Pkg().Path() == "strconv") && strings.HasPrefix(cal.Name(), "Parse") {
						parse = st
					}
				}
				return true
			})
		}
		if parse == nil || len(cc.Body) == 0 {
			return true
		}
		n++
		// from the first node of the clause body, the parse is reached on every path to the next loop iteration
		var start *core.Point
		for _, b := range g.CFG.Blocks {
			if b.Live && len(b.Nodes) > 0 && b.Nodes[0].Pos() == firstNodePos(cc.Body[0]) {
				start = &core.Point{B: b, I: 0}
			}
		}
		if start == nil {
			return true
		}
		isParse := func(nd ast.Node) bool { return nd.Pos() >= parse.Pos() && nd.End() <= parse.End() }
		heads := map[*cfg.Block]bool{}
		for _, b := range g.CFG.Blocks {
			if b.Kind == cfg.KindRangeLoop {
				heads[b] = true
			}
		}
		if pos, _, reach := reachesHeadAvoiding(g, *start, heads, isParse); reach && bad == "" {
			bad = fmt.Sprintf("the %s clause goes on to the next parameter at %s without parsing its value", core.ExprStr(cc.List[0]), c.pos(pos))
		}
		return true
	})
	c.R.Checkf(rule, "every-annotation-value-is-parsed@NewAnnotation", c.pos(f.Pos()), bad == "" && n >= 1,
		"in every annotation key clause that parses its value (%d), the parse is on every path to the next parameter: a value that is ignored (a repeated key) is still validated%s", n, func() string {
			if bad != "" {
				return " — VIOLATED: " + bad + ": `[add_latency: 300ms, add_latency: soon]` is silently accepted instead of being a configuration error"
			}
			return ""
		}())
}

// loopSkipConditions: rendered conditions under which the first range loop over
// `ranged` in f skips an element (`continue`).
func loopSkipConditions(f *core.Func, ranged string) ([]string, bool) {
	var loop *ast.RangeStmt
	ast.Inspect(f.Body, func(m ast.Node) bool {
		if rs, ok := m.(*ast.RangeStmt); ok && loop == nil && core.ExprStr(rs.X) == ranged {
			loop = rs
		}
		return true
	})
	if loop == nil {
		return nil, false
	}
	var out []string
	ast.Inspect(loop.Body, func(m ast.Node) bool {
		if is, ok := m.(*ast.IfStmt); ok {
			for _, st := range is.Body.List {
				if br, ok := st.(*ast.BranchStmt); ok && br.Tok == token.CONTINUE {
					out = append(out, nospace(core.ExprStr(is.Cond)))
				}
			}
		}
		return true
	})
	return out, true
}

func c16SnapshotSameIndexes(c *Ctx) {
	const rule = "SNAPSHOT"
	a := c.fn(rule, "component/outbound/dialer", "Dialer.HealthSnapshot")
	b := c.fn(rule, "component/outbound/dialer", "Dialer.RestoreHealthSnapshot")
	if a == nil || b == nil {
		return
	}
	sa, ok1 := loopSkipConditions(a, "d.collections")
	sb, ok2 := loopSkipConditions(b, "d.collections")
	if !ok1 || !ok2 {
		c.R.Unresolved(rule, "HealthSnapshot / RestoreHealthSnapshot: loop over d.collections")
		return
	}
	same := strings.Join(sa, ";") == strings.Join(sb, ";")
	c.R.Checkf(rule, "snapshot-and-restore-walk-the-same-collections", c.pos(a.Pos()), same,
		"HealthSnapshot skips collections under %v, RestoreHealthSnapshot under %v: a slot that is restored but was never captured is restored from the zero value — the shared TCP collection is marked dead with no history and then revived, firing alive-transition callbacks (and flapping the kernel connectivity bit) for zero actual transitions on every reload", sa, sb)
}

func c16SuccessAlwaysNotified(c *Ctx) {
	const rule = "RESET"
	f := c.fn(rule, "component/outbound/dialer", "Dialer.markAvailable")
	if f == nil {
		return
	}
	info := f.Info()
	g := f.Graph()
	n := 0
	for _, b := range g.CFG.Blocks {
		if !b.Live {
			continue
		}
		for i, nd := range b.Nodes {
			hit := false
			ownCalls(nd, func(call *ast.CallExpr, _ bool) {
				if cal := core.Callee(info, call); cal != nil && cal.Name() == "NotifyHealthCheckResult" && len(call.Args) >= 2 && core.ExprStr(call.Args[1]) == "true" {
					hit = true
				}
			})
			if !hit {
				continue
			}
			n++
			var conds []string
			for _, gd := range g.Guards(core.Point{B: b, I: i}) {
				for _, at := range core.Atoms(gd.Cond, gd.Polarity) {
					s := core.ExprStr(at.Cond)
					if strings.Contains(s, "wasAlive") || strings.Contains(strings.ToLower(s), "revival") {
						conds = append(conds, s)
					}
				}
			}
			c.R.Checkf(rule, "every-probe-success-is-reported@markAvailable", c.pos(nd.Pos()), len(conds) == 0,
				"the success report (which clears the per-address death streak) is not conditional on a dead->alive edge; revival conditions found: %v", conds)
		}
	}
	if n == 0 {
		c.R.Checkf(rule, "every-probe-success-is-reported@markAvailable", c.pos(f.Pos()), false, "markAvailable no longer reports a successful probe")
	}
}

func c15Round3(c *Ctx) {
	// (a) re-applying the unchanged policy does not recompute the selection state
	setF := c.fn("TOLERANCE", "component/outbound/dialer", "AliveDialerSet.SetSelectionPolicy")
	grpF := c.fn("TOLERANCE", "component/outbound", "DialerGroup.SetSelectionPolicy")
	guardedBy := func(f *core.Func, target func(ast.Node) bool, isSame func(string) (bool, bool)) bool {
		if f == nil {
			return false
		}
		g := f.Graph()
		pts := g.Find(target)
		if len(pts) == 0 {
			return false
		}
		for _, p := range pts {
			ok := false
			for _, gd := range g.Guards(p) {
				for _, at := range core.Atoms(gd.Cond, gd.Polarity) {
					if be, isB := at.Cond.(*ast.BinaryExpr); isB && (be.Op == token.EQL || be.Op == token.NEQ) {
						if rel, eq := isSame(nospace(core.ExprStr(be))); rel {
							different := (be.Op == token.NEQ) == at.Polarity
							_ = eq
							if different {
								ok = true
							}
						}
					}
				}
			}
			if !ok {
				return false
			}
		}
		return true
	}
	isPolicyCmp := func(s string) (bool, bool) {
		return strings.Contains(strings.ToLower(s), "policy"), true
	}
	var setOK, grpOK bool
	if setF != nil {
		setOK = guardedBy(setF, nodeCalls(setF.Info(), "component/outbound/dialer.AliveDialerSet.recomputeSelectionStateLocked"), isPolicyCmp)
	}
	if grpF != nil {
		grpOK = guardedBy(grpF, nodeCalls(grpF.Info(), "component/outbound/dialer.AliveDialerSet.SetSelectionPolicy"), isPolicyCmp)
	}
	pos := "component/outbound/dialer/alive_dialer_set.go"
	if setF != nil {
		pos = c.pos(setF.Pos())
	}
	c.R.Checkf("TOLERANCE", "same-policy-does-not-recompute", pos, setOK || grpOK,
		"recomputing the selection state (which re-elects the plain minimum, ignoring the tolerance) happens only on the edge where the policy really changes — guarded in AliveDialerSet.SetSelectionPolicy: %v, in DialerGroup.SetSelectionPolicy: %v; without either, re-applying the policy a group already has moves its choice to a candidate that is better by less than the tolerance", setOK, grpOK)

	// (b) recompute forgets the cached best entirely
	if f := c.fn("ALIVEONLY", "component/outbound/dialer", "AliveDialerSet.recomputeSelectionStateLocked"); f != nil {
		info := f.Info()
		g := f.Graph()
		clears := func(n ast.Node) bool {
			as, ok := n.(*ast.AssignStmt)
			if !ok || len(as.Lhs) != 1 {
				return false
			}
			switch core.FieldOf(info, as.Lhs[0]) {
			case "AliveDialerSet.minLatency":
				_, isLit := ast.Unparen(as.Rhs[0]).(*ast.CompositeLit)
				return isLit
			case "minLatency.dialer":
				return core.ExprStr(as.Rhs[0]) == "nil"
			}
			return false
		}
		ex := g.ExitsAvoiding(g.Entry(), clears)
		c.R.Checkf("ALIVEONLY", "recompute-forgets-the-cached-best@recomputeSelectionStateLocked", c.pos(f.Pos()), len(ex) == 0,
			"every exit of recomputeSelectionStateLocked has reset the cached best node (whole minLatency or its dialer): a node kept across a policy round trip through `random` may have died meanwhile and would be handed out with no alive entry behind it")
	}
	// (c) the 'no alive node' sentinel is returned as it is (callers compare it by identity)
	if f := c.fn("CHAIN", "component/outbound", "DialerGroup.SelectWithExclusionResult"); f != nil {
		bad := ""
		ast.Inspect(f.Body, func(m ast.Node) bool {
			rs, ok := m.(*ast.ReturnStmt)
			if !ok || len(rs.Results) == 0 {
				return true
			}
			last := ast.Unparen(rs.Results[len(rs.Results)-1])
			if call, isC := last.(*ast.CallExpr); isC && bad == "" {
				if cal := core.Callee(f.Info(), call); cal != nil && cal.Pkg() != nil && (cal.Pkg().Path() == "fmt" || cal.Pkg().Path() == "errors") {
					bad = fmt.Sprintf("return at %s yields the error %s", c.pos(rs.Pos()), core.ExprStr(call))
				}
			}
			return true
		})
		c.R.Checkf("CHAIN", "no-alive-sentinel-returned-unwrapped@SelectWithExclusionResult", c.pos(f.Pos()), bad == "",
			"SelectWithExclusionResult hands its callee's error on unchanged: the control plane decides on the other-family retry by comparing it with ErrNoAliveDialer%s", func() string {
				if bad != "" {
					return " — VIOLATED: " + bad + ": a wrapped error no longer equals the sentinel, so the documented fallback to the other IP family is never tried"
				}
				return ""
			}())
	}
}

// C17 REFLECT-ELEM: reflect.Type.Elem panics for a type that has no element
// type.  In ParamParser (which runs on user input and has no recover) every
// Type().Elem() call sits inside the `case reflect.Slice` (array/pointer/map)
// clause of a switch over the same value's Kind().
func c17ReflectElem(c *Ctx) {
	const rule = "PANICSET"
	f := c.fn(rule, "config", "ParamParser")
	if f == nil {
		return
	}
	info := f.Info()
	n, bad := 0, ""
	var stack []ast.Node
	ast.Inspect(f.Body, func(m ast.Node) bool {
		if m == nil {
			stack = stack[:len(stack)-1]
			return true
		}
		stack = append(stack, m)
		call, ok := m.(*ast.CallExpr)
		if !ok {
			return true
		}
		recv, name, isM := methodCall(call)
		if !isM || name != "Elem" || len(call.Args) != 0 {
			return true
		}
		if t := info.TypeOf(recv); t == nil || t.String() != "reflect.Type" {
			return true
		}
		// X in X.Type().Elem()
		x := ""
		if inner, ok := ast.Unparen(recv).(*ast.CallExpr); ok {
			if r2, n2, ok := methodCall(inner); ok && n2 == "Type" {
				x = core.ExprStr(r2)
			}
		}
		n++
		guarded := false
		for i := len(stack) - 1; i >= 0; i-- {
			cc, ok := stack[i].(*ast.CaseClause)
			if !ok || i < 2 {
				continue
			}
			sw, ok := stack[i-2].(*ast.SwitchStmt)
			if !ok || sw.Tag == nil || core.ExprStr(sw.Tag) != x+".Kind()" {
				continue
			}
			for _, e := range cc.List {
				switch core.ExprStr(e) {
				case "reflect.Slice", "reflect.Array", "reflect.Pointer", "reflect.Ptr", "reflect.Map", "reflect.Chan":
					guarded = true
				}
			}
		}
		if !guarded && bad == "" {
			bad = fmt.Sprintf("%s at %s is not inside a `case reflect.Slice` clause of a switch over %s.Kind()", core.ExprStr(call), c.pos(call.Pos()), x)
		}
		return true
	})
	c.R.Checkf(rule, "type-elem-only-for-element-types@ParamParser", c.pos(f.Pos()), bad == "" && n >= 1,
		"each of the %d reflect.Type.Elem() calls of ParamParser is made for a value whose kind was switched to slice/array/pointer/map%s", n, func() string {
			if bad != "" {
				return " — VIOLATED: " + bad + ": for a scalar field (e.g. `tproxy_port: foo(bar)`) Elem panics with 'reflect: Elem of invalid type' instead of config.New returning an error"
			}
			return ""
		}())
}

// C18: the single normalisation point strips a port from every sniffed value
func c18NormalizeStripsPort(c *Ctx) {
	const rule = "NORMALISE"
	f := c.fn(rule, "component/sniffing", "NormalizeDomain")
	if f == nil {
		return
	}
	info := f.Info()
	ok := false
	ast.Inspect(f.Body, func(m ast.Node) bool {
		is, isIf := m.(*ast.IfStmt)
		if !isIf || is.Init == nil {
			return true
		}
		as, isAs := is.Init.(*ast.AssignStmt)
		if !isAs || len(as.Rhs) != 1 {
			return true
		}
		call, isC := as.Rhs[0].(*ast.CallExpr)
		if !isC {
			return true
		}
		if cal := core.Callee(info, call); cal == nil || cal.Pkg() == nil || cal.Pkg().Path() != "net" || cal.Name() != "SplitHostPort" {
			return true
		}
		hostId, isId := as.Lhs[0].(*ast.Ident)
		if !isId {
			return true
		}
		for _, st := range is.Body.List {
			if rs, isR := st.(*ast.ReturnStmt); isR && len(rs.Results) == 1 {
				ast.Inspect(rs.Results[0], func(k ast.Node) bool {
					if id, isI := k.(*ast.Ident); isI && info.ObjectOf(id) == info.ObjectOf(hostId) {
						ok = true
					}
					return true
				})
			}
		}
		return true
	})
	c.R.Checkf(rule, "sniffed-name-with-port-is-stripped@NormalizeDomain", c.pos(f.Pos()), ok,
		"NormalizeDomain (applied to the result of every sniffer: TLS SNI, QUIC SNI, HTTP Host) splits host:port and returns the host part: a name that already carries a port must not reach ChooseDialTarget with it, or domain+/domain++ dial `name:8443` for a connection to port 443")
}

// C18: DNS knowledge is filed under the base key (name + type), the key HasDnsKnowledge looks up
func c18KnowledgeKey(c *Ctx) {
	const rule = "KNOWLEDGE"
	n := 0
	for _, f := range c.P.FuncsIn("control") {
		info := f.Info()
		core.EachCall(f.Body, core.Deep, func(call *ast.CallExpr) {
			cal := core.Callee(info, call)
			if cal == nil || cal.Name() != "rememberDnsKnowledge" || len(call.Args) != 2 {
				return
			}
			n++
			arg := ast.Unparen(call.Args[0])
			isBase := func(e ast.Expr) bool {
				if cl, ok := ast.Unparen(e).(*ast.CallExpr); ok {
					if cc := core.Callee(info, cl); cc != nil && cc.Name() == "dnsCacheBaseKey" {
						return true
					}
				}
				return false
			}
			ok := isBase(arg)
			if id, isId := arg.(*ast.Ident); isId && !ok {
				obj := info.ObjectOf(id)
				ast.Inspect(f.Body, func(k ast.Node) bool {
					if as, isAs := k.(*ast.AssignStmt); isAs && len(as.Lhs) == 1 && len(as.Rhs) == 1 {
						if lid, isL := as.Lhs[0].(*ast.Ident); isL && info.ObjectOf(lid) == obj && isBase(as.Rhs[0]) {
							ok = true
						}
					}
					return true
				})
			}
			c.R.Checkf(rule, "knowledge-filed-under-the-base-key@"+strings.TrimPrefix(f.Name, "control."), c.pos(call.Pos()), ok,
				"rememberDnsKnowledge is keyed by %s: it must be dnsCacheBaseKey(…) (name + type without the upstream scope), the key HasDnsKnowledge looks up — under a scoped key the name is unknown after a reload and domain mode dials the IP", core.ExprStr(arg))
		})
	}
	c.R.Floor(rule+"/keys", n, 2)
}

// C19: the address-to-words converter is the plain four-word copy
func c19WordsConverter(c *Ctx) {
	const rule = "KEY"
	f := c.fn(rule, "common", "Ipv6ByteSliceToUint32Array")
	if f == nil {
		return
	}
	rets, stores, bad := 0, 0, ""
	ast.Inspect(f.Body, func(m ast.Node) bool {
		switch x := m.(type) {
		case *ast.ReturnStmt:
			rets++
		case *ast.AssignStmt:
			if len(x.Lhs) != 1 || len(x.Rhs) != 1 {
				return true
			}
			ix, ok := x.Lhs[0].(*ast.IndexExpr)
			if !ok || core.ExprStr(ix.X) != "ip" {
				return true
			}
			stores++
			call, isC := x.Rhs[0].(*ast.CallExpr)
			okForm := false
			if isC && strings.HasSuffix(core.ExprStr(call.Fun), "NativeEndian.Uint32") && len(call.Args) == 1 {
				if sl, isS := call.Args[0].(*ast.SliceExpr); isS && sl.Low != nil && sl.High != nil {
					lo, hi, idx := nospace(core.ExprStr(sl.Low)), nospace(core.ExprStr(sl.High)), nospace(core.ExprStr(ix.Index))
					if hi == lo+"+4" && idx == lo+"/4" {
						okForm = true
					}
				}
			}
			if !okForm && bad == "" {
				bad = core.ExprStr2(x)
			}
		}
		return true
	})
	c.R.Checkf(rule, "address-words-are-the-16-bytes-in-order@Ipv6ByteSliceToUint32Array", c.pos(f.Pos()), bad == "" && rets == 1 && stores >= 1,
		"word k of the key is the native-endian load of bytes 4k..4k+3 for every k, with a single exit (no per-shape fast path): %d store(s), %d return(s)%s", stores, rets, func() string {
			if bad != "" {
				return " — VIOLATED: " + bad
			}
			if rets != 1 {
				return " — VIOLATED: an early return builds the key differently for some addresses (two distinct addresses can get one domain_routing_map / LPM key)"
			}
			return ""
		}())
}

// C20: ending a suppression scope decrements the counter by one, whatever its value
func c20EndDecrements(c *Ctx) {
	const rule = "SUPPRESS"
	f := c.fn(rule, "component/outbound/dialer", "EndReloadProxyFailureSuppression")
	if f == nil {
		return
	}
	info := f.Info()
	n, ok := 0, false
	detail := ""
	ast.Inspect(f.Body, func(m ast.Node) bool {
		call, isC := m.(*ast.CallExpr)
		if !isC {
			return true
		}
		_, name, isM := methodCall(call)
		if !isM || name != "CompareAndSwap" || len(call.Args) != 2 {
			return true
		}
		n++
		oldId, isId := ast.Unparen(call.Args[0]).(*ast.Ident)
		be, isB := ast.Unparen(call.Args[1]).(*ast.BinaryExpr)
		if isId && isB && be.Op == token.SUB && core.ExprStr(be.Y) == "1" {
			if xid, isX := ast.Unparen(be.X).(*ast.Ident); isX && info.ObjectOf(xid) == info.ObjectOf(oldId) {
				ok = true
			}
		}
		detail = core.ExprStr(call)
		return true
	})
	c.R.Checkf(rule, "end-decrements-any-positive-count@EndReloadProxyFailureSuppression", c.pos(f.Pos()), ok && n == 1,
		"the scope counter is lowered by compare-and-swap from the value just loaded to that value minus one (%s): scopes can overlap (a new request is admitted between the release of the flag and the end of the previous scope), and a release that only handles the count 1 leaves node-failure reports muted for ever at 2", detail)
}

// C05 STICKYERR: a bufio.Reader remembers a read error (here: the expired
// detection deadline) and returns it from a later Read once its buffer is
// empty.  bufioConn.Read therefore goes through the bufio.Reader only while it
// still holds buffered bytes and reads the connection directly otherwise.
func c05StickyErr(c *Ctx) {
	const rule = "PREFIX"
	f := c.fn(rule, "control", "bufioConn.Read")
	if f == nil {
		return
	}
	info := f.Info()
	g := f.Graph()
	n, ok := 0, true
	for _, b := range g.CFG.Blocks {
		if !b.Live {
			continue
		}
		for i, nd := range b.Nodes {
			hit := false
			ownCalls(nd, func(call *ast.CallExpr, _ bool) {
				if recv, name, isM := methodCall(call); isM && name == "Read" && core.FieldOf(info, recv) == "bufioConn.reader" {
					hit = true
				}
			})
			if !hit {
				continue
			}
			n++
			guarded := false
			for _, gd := range g.Guards(core.Point{B: b, I: i}) {
				for _, at := range core.Atoms(gd.Cond, gd.Polarity) {
					be, isB := at.Cond.(*ast.BinaryExpr)
					if !isB || !strings.HasSuffix(core.ExprStr(be.X), ".Buffered()") || core.ExprStr(be.Y) != "0" {
						continue
					}
					if (be.Op == token.EQL && !at.Polarity) || (be.Op == token.GTR && at.Polarity) || (be.Op == token.NEQ && at.Polarity) {
						guarded = true
					}
				}
			}
			if !guarded {
				ok = false
			}
		}
	}
	c.R.Checkf(rule, "drained-bufio-reader-is-bypassed@bufioConn.Read", c.pos(f.Pos()), ok,
		"bufioConn.Read calls the bufio.Reader only on the edge where it still has buffered bytes (%d call(s)); with an empty buffer the reader would return its remembered error — the detection window's timeout — as the result of the relay's first read, and the connection is cut although it is healthy", n)
}

// C10 LIVEINSTALL: the asynchronous installer (queued on a cache hit) installs
// the routing of an entry only after checking that this very entry is still
// the one stored in the cache; otherwise a task that outlives its entry's
// eviction puts the entry's addresses back into the kernel table for ever.
func c10LiveInstall(c *Ctx) {
	const rule = "WIRING"
	f := c.fn(rule, "control", "DnsController.processBpfUpdateTask")
	if f == nil {
		return
	}
	info := f.Info()
	// local closures that consult the cache
	loaders := map[types.Object]bool{}
	loadsCache := func(n ast.Node) bool {
		hit := false
		ast.Inspect(n, func(m ast.Node) bool {
			if call, ok := m.(*ast.CallExpr); ok {
				if recv, name, isM := methodCall(call); isM && name == "Load" && strings.HasSuffix(core.ExprStr(recv), ".dnsCache") {
					hit = true
				}
			}
			return true
		})
		return hit
	}
	ast.Inspect(f.Body, func(m ast.Node) bool {
		if as, ok := m.(*ast.AssignStmt); ok && len(as.Lhs) == 1 && len(as.Rhs) == 1 {
			if lit, ok := as.Rhs[0].(*ast.FuncLit); ok && loadsCache(lit.Body) {
				if id, ok := as.Lhs[0].(*ast.Ident); ok {
					loaders[info.ObjectOf(id)] = true
				}
			}
		}
		return true
	})
	checks := func(n ast.Node) bool {
		if _, isAssign := n.(*ast.AssignStmt); isAssign {
			if as := n.(*ast.AssignStmt); len(as.Rhs) == 1 {
				if _, isLit := as.Rhs[0].(*ast.FuncLit); isLit {
					return false // defining the closure is not running it
				}
			}
		}
		hit := false
		ownCalls(n, func(call *ast.CallExpr, _ bool) {
			if id, ok := call.Fun.(*ast.Ident); ok && loaders[info.ObjectOf(id)] {
				hit = true
			}
			if recv, name, isM := methodCall(call); isM && name == "Load" && strings.HasSuffix(core.ExprStr(recv), ".dnsCache") {
				hit = true
			}
		})
		return hit
	}
	install := func(n ast.Node) bool {
		hit := false
		ownCalls(n, func(call *ast.CallExpr, deferred bool) {
			if !deferred && strings.HasSuffix(core.ExprStr(call.Fun), ".cacheAccessCallback") {
				hit = true
			}
		})
		return hit
	}
	c.dominated(rule, "async-install-only-for-the-live-entry@processBpfUpdateTask", f, install, checks, "the asynchronous install (cacheAccessCallback)", "a look-up of the entry in dnsCache (is the queued entry still the stored one?)")
	// the look-up decides by identity: the stored value is compared with the queued entry (a key that was refreshed
	// meanwhile holds another entry, with other addresses)
	loaded := map[types.Object]bool{}
	ast.Inspect(f.Body, func(m ast.Node) bool {
		if as, ok := m.(*ast.AssignStmt); ok && len(as.Rhs) == 1 && len(as.Lhs) >= 1 {
			if call, ok := ast.Unparen(as.Rhs[0]).(*ast.CallExpr); ok {
				if recv, name, isM := methodCall(call); isM && name == "Load" && strings.HasSuffix(core.ExprStr(recv), ".dnsCache") {
					if id, ok := as.Lhs[0].(*ast.Ident); ok && id.Name != "_" {
						loaded[info.ObjectOf(id)] = true
					}
				}
			}
		}
		return true
	})
	byIdentity := false
	unwrap := func(e ast.Expr) ast.Expr {
		for {
			e = ast.Unparen(e)
			if call, ok := e.(*ast.CallExpr); ok && len(call.Args) == 1 {
				if tv, ok := info.Types[call.Fun]; ok && tv.IsType() {
					e = call.Args[0]
					continue
				}
			}
			if ta, ok := e.(*ast.TypeAssertExpr); ok {
				e = ta.X
				continue
			}
			return e
		}
	}
	ast.Inspect(f.Body, func(m ast.Node) bool {
		be, ok := m.(*ast.BinaryExpr)
		if !ok || (be.Op != token.EQL && be.Op != token.NEQ) {
			return true
		}
		for _, pr := range [][2]ast.Expr{{be.X, be.Y}, {be.Y, be.X}} {
			a, b := unwrap(pr[0]), unwrap(pr[1])
			if id, ok := a.(*ast.Ident); ok && loaded[info.ObjectOf(id)] && core.FieldOf(info, b) == "bpfUpdateTask.cache" {
				byIdentity = true
			}
		}
		return true
	})
	c.R.Checkf(rule, "live-entry-test-is-by-identity@processBpfUpdateTask", c.pos(f.Pos()), byIdentity,
		"the value stored under the owner key is compared with the queued entry itself: presence of the key alone lets a stale task overwrite the owner with the addresses of an entry that a refresh has replaced")
}
