package props

// Rules added after the third round of independently seeded changes
// (DESIGN.md §9.8): each is the structural necessary condition the seed broke.

import (
	"fmt"
	"go/ast"
	"go/constant"
	"go/token"
	"go/types"
	"strings"

	"daecheck/internal/core"
	"daecheck/internal/fdt"

	"golang.org/x/tools/go/cfg"
)

var _ = fdt.Key
var _ = strings.Contains
var _ = constant.MakeBool
var _ cfg.Block

// perItemLoop: in function f, the range loop over the parameter/expr named
// ranged processes every element independently: (1) no break leaves the loop
// (only returns, which must be error exits of the function, and continues);
// (2) no boolean declared outside the loop is set inside it and read inside it
// without being re-assigned earlier in the same iteration (a flag that sticks
// from one element to the next).
func perItemLoop(c *Ctx, rule string, f *core.Func, ranged string, what string) {
	info := f.Info()
	var loop *ast.RangeStmt
	var label string
	ast.Inspect(f.Body, func(m ast.Node) bool {
		switch x := m.(type) {
		case *ast.LabeledStmt:
			if rs, ok := x.Stmt.(*ast.RangeStmt); ok && core.ExprStr(rs.X) == ranged && loop == nil {
				loop, label = rs, x.Label.Name
			}
		case *ast.RangeStmt:
			if core.ExprStr(x.X) == ranged && loop == nil {
				loop = x
			}
		}
		return true
	})
	construct := "every-" + what + "-processed-independently@" + f.Name
	if loop == nil {
		c.R.Unresolved(rule, f.Name+": range over "+ranged)
		return
	}
	bad := ""
	// (1) breaks that leave the loop
	var walk func(n ast.Node, depth int)
	walk = func(n ast.Node, depth int) {
		ast.Inspect(n, func(m ast.Node) bool {
			if m == nil || m == n {
				return true
			}
			switch x := m.(type) {
			case *ast.FuncLit:
				return false
			case *ast.ForStmt:
				walk(x.Body, depth+1)
				return false
			case *ast.RangeStmt:
				walk(x.Body, depth+1)
				return false
			case *ast.SwitchStmt:
				walk(x.Body, depth+1)
				return false
			case *ast.TypeSwitchStmt:
				walk(x.Body, depth+1)
				return false
			case *ast.SelectStmt:
				walk(x.Body, depth+1)
				return false
			case *ast.BranchStmt:
				if x.Tok == token.BREAK {
					if (x.Label != nil && x.Label.Name == label && label != "") || (x.Label == nil && depth == 0) {
						if bad == "" {
							bad = fmt.Sprintf("`%s` at %s leaves the loop: every later %s of the same list is silently dropped", core.ExprStr2(x), c.pos(x.Pos()), what)
						}
					}
				}
			}
			return true
		})
	}
	walk(loop.Body, 0)
	// (2) loop-carried boolean flags
	g := f.Graph()
	flags := map[types.Object]bool{}
	ast.Inspect(loop.Body, func(m ast.Node) bool {
		if as, ok := m.(*ast.AssignStmt); ok {
			for _, l := range as.Lhs {
				if id, ok := l.(*ast.Ident); ok {
					if o := info.ObjectOf(id); o != nil && o.Pos() < loop.Pos() {
						if bt, ok := o.Type().Underlying().(*types.Basic); ok && bt.Kind() == types.Bool {
							flags[o] = true
						}
					}
				}
			}
		}
		return true
	})
	for o := range flags {
		// first block of the loop body
		var entry *cfg.Block
		for _, b := range g.CFG.Blocks {
			if b.Live && len(b.Nodes) > 0 && len(loop.Body.List) > 0 && b.Nodes[0].Pos() == firstNodePos(loop.Body.List[0]) {
				entry = b
			}
		}
		if entry == nil {
			continue
		}
		assigns := func(n ast.Node) bool {
			if as, ok := n.(*ast.AssignStmt); ok {
				for _, l := range as.Lhs {
					if id, ok := l.(*ast.Ident); ok && info.ObjectOf(id) == o {
						return true
					}
				}
			}
			return false
		}
		reads := func(n ast.Node) bool {
			if assigns(n) {
				return false
			}
			if n.Pos() < loop.Body.Pos() || n.End() > loop.Body.End() {
				return false
			}
			hit := false
			ast.Inspect(n, func(m ast.Node) bool {
				if id, ok := m.(*ast.Ident); ok && info.ObjectOf(id) == o {
					hit = true
				}
				return true
			})
			return hit
		}
		if rd, _, reach := g.ReachesAvoiding(core.Point{B: entry, I: 0}, assigns, reads); reach && bad == "" {
			bad = fmt.Sprintf("the flag %s is declared outside the loop, set inside it and read at %s without being re-assigned earlier in the same iteration: once set for one %s it also affects every later one", o.Name(), c.pos(rd.Pos()), what)
		}
	}
	c.R.Checkf(rule, construct, c.pos(loop.Pos()), bad == "", "the loop over %s handles each %s on its own (no break out of the loop, no flag carried from one iteration to the next)%s", ranged, what, func() string {
		if bad != "" {
			return " — VIOLATED: " + bad
		}
		return ""
	}())
}

// alternatives of one domain condition are independent: a rejected pattern must not affect the others
func domainPatternsIndependent(c *Ctx, rule string) {
	if f := c.fn(rule, "component/routing/domain_matcher", "AhocorasickSlimtrie.AddSet"); f != nil {
		perItemLoop(c, rule, f, "patterns", "domain pattern")
	}
}

// C01 PNAME: a pname() value is compared on all TaskCommLen (16) bytes: the
// encoder copies the configured name into the whole array (no byte reserved
// for a terminator — the datapath's pname is 16 raw bytes, not a C string).
func c01PnameWidth(c *Ctx) {
	const rule = "FACET"
	f := c.fn(rule, "component/routing", "toProcessName")
	if f == nil {
		return
	}
	info := f.Info()
	want, okc := constInt(c, rule, "common/consts", "TaskCommLen")
	if !okc {
		return
	}
	n, ok := 0, true
	detail := ""
	ast.Inspect(f.Body, func(m ast.Node) bool {
		call, isC := m.(*ast.CallExpr)
		if !isC {
			return true
		}
		id, isId := call.Fun.(*ast.Ident)
		if !isId || id.Name != "copy" || len(call.Args) != 2 {
			return true
		}
		n++
		width := int64(-1)
		switch d := ast.Unparen(call.Args[0]).(type) {
		case *ast.SliceExpr:
			if arr, isArr := info.TypeOf(d.X).Underlying().(*types.Array); isArr {
				lo, hi := int64(0), arr.Len()
				if d.Low != nil {
					if tv, has := info.Types[d.Low]; has && tv.Value != nil {
						lo, _ = constant.Int64Val(tv.Value)
					} else {
						lo = -1
					}
				}
				if d.High != nil {
					if tv, has := info.Types[d.High]; has && tv.Value != nil {
						hi, _ = constant.Int64Val(tv.Value)
					} else {
						hi = -1
					}
				}
				if lo == 0 && hi >= 0 {
					width = hi
				}
			}
		}
		if width != want {
			ok = false
			detail = fmt.Sprintf("copy destination %s covers %d byte(s)", core.ExprStr(call.Args[0]), width)
		}
		return true
	})
	c.R.Checkf(rule, "pname-encoded-on-all-16-bytes@toProcessName", c.pos(f.Pos()), ok && n == 1,
		"the configured process name is copied into all %d bytes of the match-set value (%d copy site(s))%s", want, n, func() string {
			if !ok {
				return " — VIOLATED: " + detail + ": a 16-byte name no longer equals the 16 raw bytes the datapath reports, and matches its 15-byte prefix instead"
			}
			return ""
		}())
}

// C02 SNAPSHOT: the slices KernspaceSnapshot hands to the deferred kernel build
// share their backing arrays with the builder.  The builder may re-slice or
// drop its own reference, but must never store into an element: the kernel
// side would be built from different data than the userspace matcher.
func c02SnapshotImmutable(c *Ctx) {
	const rule = "DUAL"
	snap := c.fn(rule, "control", "RoutingMatcherBuilder.KernspaceSnapshot")
	if snap == nil {
		return
	}
	shared := map[string]bool{}
	ast.Inspect(snap.Body, func(m ast.Node) bool {
		if kv, ok := m.(*ast.KeyValueExpr); ok {
			if fld := core.FieldOf(snap.Info(), kv.Value); strings.HasPrefix(fld, "RoutingMatcherBuilder.") {
				if _, isSlice := snap.Info().TypeOf(kv.Value).Underlying().(*types.Slice); isSlice {
					shared[fld] = true
				}
			}
		}
		return true
	})
	if len(shared) == 0 {
		c.R.Unresolved(rule, "KernspaceSnapshot: slice fields of the builder copied into the snapshot")
		return
	}
	bad := ""
	n := 0
	for _, f := range c.P.FuncsIn("control") {
		info := f.Info()
		ast.Inspect(f.Body, func(m ast.Node) bool {
			as, ok := m.(*ast.AssignStmt)
			if !ok {
				return true
			}
			for _, l := range as.Lhs {
				e := ast.Unparen(l)
				// walk down to the innermost index expression
				for {
					switch x := e.(type) {
					case *ast.SelectorExpr:
						e = x.X
						continue
					case *ast.IndexExpr:
						if shared[core.FieldOf(info, x.X)] {
							n++
							if bad == "" {
								bad = fmt.Sprintf("%s stores into an element of %s at %s", f.Name, core.ExprStr(x.X), c.pos(as.Pos()))
							}
						}
						e = x.X
						continue
					}
					break
				}
			}
			return true
		})
	}
	var names []string
	for k := range shared {
		names = append(names, strings.TrimPrefix(k, "RoutingMatcherBuilder."))
	}
	c.R.Checkf(rule, "snapshot-shared-slices-not-stored-into", c.pos(snap.Pos()), bad == "",
		"the builder fields shared with the kernel-side snapshot (%v) are only appended to, re-sliced or dropped as a whole, never stored into element-wise%s", names, func() string {
			if bad != "" {
				return " — VIOLATED: " + bad + ": the deferred kernel build (staged reload / rollback) installs different sets than the userspace matcher was built from"
			}
			return ""
		}())
}

// C03 HANDOFF-AGE: the age of a hand-off record is computed only after
// excluding records stamped later than the janitor's clock sample (unsigned
// subtraction underflows for a record published during the scan).
func c03HandoffAge(c *Ctx) {
	const rule = "RECORD"
	f := c.fn(rule, "control", "routingHandoffExpired")
	if f == nil {
		return
	}
	info := f.Info()
	g := f.Graph()
	ps := f.Decl.Type.Params.List
	var now, seen types.Object
	var objs []types.Object
	for _, fl := range ps {
		for _, nm := range fl.Names {
			objs = append(objs, info.ObjectOf(nm))
		}
	}
	if len(objs) != 2 {
		c.R.Unresolved(rule, "routingHandoffExpired(nowNano, lastSeenNs)")
		return
	}
	now, seen = objs[0], objs[1]
	n, ok := 0, true
	for _, b := range g.CFG.Blocks {
		if !b.Live {
			continue
		}
		for i, nd := range b.Nodes {
			ast.Inspect(nd, func(m ast.Node) bool {
				be, isB := m.(*ast.BinaryExpr)
				if !isB || be.Op != token.SUB {
					return true
				}
				x, okx := ast.Unparen(be.X).(*ast.Ident)
				y, oky := ast.Unparen(be.Y).(*ast.Ident)
				if !okx || !oky || info.ObjectOf(x) != now || info.ObjectOf(y) != seen {
					return true
				}
				n++
				guarded := false
				for _, gd := range g.Guards(core.Point{B: b, I: i}) {
					for _, at := range core.Atoms(gd.Cond, gd.Polarity) {
						c2, isC := at.Cond.(*ast.BinaryExpr)
						if !isC {
							continue
						}
						l, okl := ast.Unparen(c2.X).(*ast.Ident)
						r, okr := ast.Unparen(c2.Y).(*ast.Ident)
						if !okl || !okr {
							continue
						}
						lo, ro := info.ObjectOf(l), info.ObjectOf(r)
						op := c2.Op
						if lo == seen && ro == now {
							op = map[token.Token]token.Token{token.LSS: token.GTR, token.LEQ: token.GEQ, token.GTR: token.LSS, token.GEQ: token.LEQ}[op]
						} else if !(lo == now && ro == seen) {
							continue
						}
						// normalised: now OP seen
						if ((op == token.LEQ || op == token.LSS) && !at.Polarity) || ((op == token.GTR || op == token.GEQ) && at.Polarity) {
							guarded = true
						}
					}
				}
				if !guarded {
					ok = false
				}
				return true
			})
		}
	}
	c.R.Checkf(rule, "handoff-age-subtraction-guarded@routingHandoffExpired", c.pos(f.Pos()), ok && n > 0,
		"%s - %s (unsigned) is evaluated only on paths where %s > %s (%d site(s)): the janitor samples the clock once and then walks the map, so a record the datapath publishes during the walk carries a later stamp; without the guard its age underflows and the fresh record is deleted as expired", now.Name(), seen.Name(), now.Name(), seen.Name(), n)
}

// C04 CACHEALIAS: a memoised expansion is never shared by reference: what is
// read from the cache is returned only through a copying call, and what is
// stored in the cache is a copy of what is returned.  (Callers append the
// expansion to their own value list; a shared backing array lets one rule's
// values overwrite another's.)
func c04CacheAlias(c *Ctx) {
	const rule = "MEMOKEY"
	n := 0
	for _, f := range c.P.FuncsIn("component/routing") {
		if f.Decl == nil || f.Decl.Recv == nil {
			continue
		}
		info := f.Info()
		cached := map[types.Object]string{}
		var stores []*ast.AssignStmt
		ast.Inspect(f.Body, func(m ast.Node) bool {
			as, ok := m.(*ast.AssignStmt)
			if !ok {
				return true
			}
			// v, ok := recv.cache[key]
			if len(as.Lhs) == 2 && len(as.Rhs) == 1 {
				if ix, ok := as.Rhs[0].(*ast.IndexExpr); ok {
					if fld := core.FieldOf(info, ix.X); strings.Contains(strings.ToLower(fld), "cache") {
						if id, ok := as.Lhs[0].(*ast.Ident); ok {
							cached[info.ObjectOf(id)] = core.ExprStr(ix.X)
						}
					}
				}
			}
			// recv.cache[key] = v
			if len(as.Lhs) == 1 && len(as.Rhs) == 1 {
				if ix, ok := as.Lhs[0].(*ast.IndexExpr); ok {
					if fld := core.FieldOf(info, ix.X); strings.Contains(strings.ToLower(fld), "cache") {
						if _, isMap := info.TypeOf(ix.X).Underlying().(*types.Map); isMap {
							stores = append(stores, as)
						}
					}
				}
			}
			return true
		})
		if len(cached) == 0 && len(stores) == 0 {
			continue
		}
		bad := ""
		ast.Inspect(f.Body, func(m ast.Node) bool {
			rs, ok := m.(*ast.ReturnStmt)
			if !ok {
				return true
			}
			for _, r := range rs.Results {
				if id, ok := ast.Unparen(r).(*ast.Ident); ok {
					if mp, isCached := cached[info.ObjectOf(id)]; isCached && bad == "" {
						bad = fmt.Sprintf("%s returns the slice read from %s itself at %s", f.Name, mp, c.pos(rs.Pos()))
					}
				}
			}
			return true
		})
		for _, st := range stores {
			if _, isCall := ast.Unparen(st.Rhs[0]).(*ast.CallExpr); !isCall && bad == "" {
				if _, isSlice := info.TypeOf(st.Rhs[0]).Underlying().(*types.Slice); isSlice {
					bad = fmt.Sprintf("%s stores %s (not a copy) into the cache at %s while also returning it", f.Name, core.ExprStr(st.Rhs[0]), c.pos(st.Pos()))
				}
			}
		}
		n++
		c.R.Saw(f)
		c.R.Checkf(rule, "cached-expansion-never-shared-by-reference@"+strings.TrimPrefix(f.Name, "component/routing."), c.pos(f.Pos()), bad == "",
			"cache hits are returned through a copying call and cache stores are copies (%d lookup(s), %d store(s))%s", len(cached), len(stores), func() string {
				if bad != "" {
					return " — VIOLATED: " + bad + ": two rules that reference the same geodata tag then share one backing array, and appending one rule's further values overwrites the other's"
				}
				return ""
			}())
	}
	c.R.Floor(rule+"/cache-alias", n, 2)
}

// C04 NEGATE-WHOLE: in the internal selectors the negation applies to the
// disjunction of all key conditions, never to each key condition.
func c04NegateWhole(c *Ctx) {
	const rule = "ALIAS"
	f := c.fn(rule, "component/daedns", "wrapNotPredicate")
	if f == nil {
		return
	}
	info := f.Info()
	var notObj types.Object
	for _, fl := range f.Decl.Type.Params.List {
		for _, nm := range fl.Names {
			if bt, ok := info.TypeOf(nm).Underlying().(*types.Basic); ok && bt.Kind() == types.Bool {
				notObj = info.ObjectOf(nm)
			}
		}
	}
	if notObj == nil {
		c.R.Unresolved(rule, "wrapNotPredicate: boolean negation parameter")
		return
	}
	loops, inLoop := 0, false
	ast.Inspect(f.Body, func(m ast.Node) bool {
		if rs, ok := m.(*ast.RangeStmt); ok {
			loops++
			ast.Inspect(rs.Body, func(k ast.Node) bool {
				if id, ok := k.(*ast.Ident); ok && info.ObjectOf(id) == notObj {
					inLoop = true
				}
				return true
			})
		}
		return true
	})
	c.R.Checkf(rule, "negation-applies-to-the-whole-selector@wrapNotPredicate", c.pos(f.Pos()), loops == 1 && !inLoop,
		"the negation flag is not consulted inside the loop over the per-key conditions: `!f(k1: a, k2: b)` is !(k1(a) || k2(b)); applying it per key gives !k1(a) || !k2(b), which selects exactly the excluded nodes")
}
