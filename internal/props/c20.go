package props

import (
	"go/ast"
	"go/token"
	"go/types"
	"sort"
	"strings"

	"daecheck/internal/core"

	"golang.org/x/tools/go/cfg"
)

func init() {
	register(&Checker{ID: "C20", Run: runC20, Explain: "Structural necessary conditions of 'reload requests are serialised, answered, and never leave dae wedged', decided on the type-checked source of package cmd: " +
		"(1) RELEASE: in the reload worker every path from the head of the request loop back to it passes clearReloadPending or beginHandoff; in the main loop's reloading branch every path back to the loop passes finishReloadSuccess/finishReloadFailure/clearReloadPending or leaves the loop; " +
		"(2) SUPPRESS: begin…Suppression is called only in the admission function, only after the admission CAS succeeded; every path after it either hands the request to the worker or ends the suppression; each release function ends it exactly once per path; " +
		"(3) REFUSAL: the CAS-failed edge performs no store, send or suppression call; (4) FLAGS: the writers of reloadPending/reloadActive/reloading are exactly the reviewed set; (5) RETIRE: the retirement goroutine closes its done channel by defer, the channel is published under the manager lock, the release waits for it; " +
		"(6) BOUNDED: every blocking select of the retirement drain has a timeout case whose timer is armed on every path to the select. " +
		"(7) GATE: the flag the admission function compare-and-swaps is, at its call sites, the same field every outcome releases; clearReloadPending clears the flag before it erases a rejected request's busy report. " +
		"Not decided: interleavings of signals with the worker's stages, progress-file races."})
}

func runC20(c *Ctx) {
	c20Release(c)
	c20Suppress(c)
	c20Flags(c)
	c20Retire(c)
	c20Bounded(c)
	c20Gate(c)
	c20Recheck(c)
	c20EndDecrements(c)
}

// back-edge check: from start, is the loop head (any block in heads) reachable
// without passing a sat node?  Returns the position of the jump back.
func reachesHeadAvoiding(g *core.Graph, start core.Point, heads map[*cfg.Block]bool, sat func(ast.Node) bool) (token.Pos, []token.Pos, bool) {
	return reachesHeadAvoidingStop(g, start, heads, nil, sat)
}

// reachesHeadAvoidingStop additionally cuts paths at the blocks in stop.
func reachesHeadAvoidingStop(g *core.Graph, start core.Point, heads, stop map[*cfg.Block]bool, sat func(ast.Node) bool) (token.Pos, []token.Pos, bool) {
	var badPos token.Pos
	var badTrace []token.Pos
	found := false
	type item struct {
		p  core.Point
		tr []token.Pos
	}
	seen := map[*cfg.Block]bool{}
	work := []item{{start, nil}}
	for len(work) > 0 && !found {
		it := work[len(work)-1]
		work = work[:len(work)-1]
		b := it.p.B
		tr := it.tr
		if it.p.I < len(b.Nodes) {
			tr = append(append([]token.Pos{}, tr...), b.Nodes[it.p.I].Pos())
		}
		cut := false
		last := token.NoPos
		for i := it.p.I; i < len(b.Nodes); i++ {
			last = b.Nodes[i].Pos()
			if sat(b.Nodes[i]) {
				cut = true
				break
			}
		}
		if cut {
			continue
		}
		for _, s := range b.Succs {
			if heads[s] {
				found = true
				badPos = last
				if badPos == token.NoPos && len(tr) > 0 {
					badPos = tr[len(tr)-1]
				}
				badTrace = tr
				break
			}
			if seen[s] || !s.Live || stop[s] {
				continue
			}
			seen[s] = true
			work = append(work, item{core.Point{B: s, I: 0}, tr})
		}
	}
	return badPos, badTrace, found
}

func c20Release(c *Ctx) {
	const rule = "RELEASE"
	run := c.fn(rule, "cmd", "Runner.Run")
	if run == nil {
		return
	}
	// --- worker literal: contains `for req := range reloadManager.reloadReqs`
	var worker *core.Func
	var rng *ast.RangeStmt
	for _, u := range litUnits(run) {
		for _, st := range u.Body.List {
			if rs, ok := st.(*ast.RangeStmt); ok && strings.HasSuffix(core.ExprStr(rs.X), ".reloadReqs") {
				worker, rng = u, rs
			}
		}
	}
	if worker == nil {
		c.R.Unresolved(rule, "reload worker (literal ranging over reloadManager.reloadReqs) in Runner.Run")
	} else {
		info := worker.Info()
		g := worker.Graph()
		heads := map[*cfg.Block]bool{}
		var body *cfg.Block
		for _, b := range g.CFG.Blocks {
			if b.Stmt == ast.Stmt(rng) {
				switch b.Kind {
				case cfg.KindRangeLoop:
					heads[b] = true
				case cfg.KindRangeBody:
					body = b
				}
			}
		}
		sat := Or(nodeCalls(info, "cmd.clearReloadPending", "cmd.reloadManager.beginHandoff", "cmd.reloadManager.finishReloadFailure", "cmd.reloadManager.finishReloadSuccess"))
		if body == nil || len(heads) == 0 {
			c.R.Checkf(rule, "worker-loop", c.pos(rng.Pos()), false, "cannot locate the request loop's blocks")
		} else {
			pos, tr, bad := reachesHeadAvoiding(g, core.Point{B: body, I: 0}, heads, sat)
			conts := 0
			ast.Inspect(rng.Body, func(m ast.Node) bool {
				if _, isLit := m.(*ast.FuncLit); isLit {
					return false
				}
				if bs, ok := m.(*ast.BranchStmt); ok && bs.Tok == token.CONTINUE {
					conts++
				}
				return true
			})
			c.R.Extra["worker_continue_exits"] = conts
			if !bad {
				c.R.Checkf(rule, "every-accepted-request-released@worker", c.pos(rng.Pos()), true, "all paths of the request loop body (%d continue exits + fall-through) pass clearReloadPending or beginHandoff before taking the next request", conts)
			} else {
				c.R.Checkf(rule, "every-accepted-request-released@worker", c.pos(pos), false, "a path through the reload worker (lines %s) returns to the head of the request loop at %s without clearReloadPending/beginHandoff: reloadPending stays set and every later reload is refused as busy", traceStr(c.P, tr), c.pos(pos))
			}
			c.R.Floor(rule+"/worker-exits", conts, 6)
			// reloadActive.Store(true) is the first thing the body does
			first := ""
			atHead := false
			for _, st := range rng.Body.List {
				first = core.ExprStr2(st)
				if strings.HasSuffix(first, ".reloadActive.Store(true)") {
					atHead = true
					break
				}
				// only straight-line statements (logging, counters) may precede it: nothing that can leave the iteration
				switch st.(type) {
				case *ast.ExprStmt, *ast.AssignStmt, *ast.DeclStmt, *ast.IncDecStmt:
					continue
				}
				break
			}
			c.R.Checkf(rule, "active-set-at-head@worker", c.pos(rng.Body.Pos()), atHead, "the worker marks the reload active before anything that can leave the iteration: %s", first)
		}
	}
	// --- main loop: true edge of reloadManager.reloading.Load()
	g := run.Graph()
	info := run.Info()
	conds := g.Conds(func(e ast.Expr) bool { return strings.HasSuffix(core.ExprStr(e), ".reloading.Load()") })
	if len(conds) != 1 {
		c.R.Checkf(rule, "main-loop-branch", c.pos(run.Pos()), false, "expected one `reloading.Load()` branch in Runner.Run, found %d", len(conds))
		return
	}
	// loop heads: blocks of the enclosing labeled for statement that `continue` targets
	var loop *ast.ForStmt
	ast.Inspect(run.Body, func(m ast.Node) bool {
		if ls, ok := m.(*ast.LabeledStmt); ok && ls.Label.Name == "loop" {
			loop, _ = ls.Stmt.(*ast.ForStmt)
		}
		return true
	})
	if loop == nil {
		c.R.Unresolved(rule, "labeled main loop in Runner.Run")
		return
	}
	heads := map[*cfg.Block]bool{}
	for _, b := range g.CFG.Blocks {
		if b.Stmt == ast.Stmt(loop) && (b.Kind == cfg.KindForLoop || b.Kind == cfg.KindForBody || b.Kind == cfg.KindForPost) {
			heads[b] = true
		}
	}
	sat := nodeCalls(info, "cmd.clearReloadPending", "cmd.reloadManager.finishReloadFailure", "cmd.reloadManager.finishReloadSuccess")
	pos, tr, bad := reachesHeadAvoiding(g, core.Point{B: conds[0].True, I: 0}, heads, sat)
	if !bad {
		c.R.Checkf(rule, "handoff-released@main-loop", c.pos(conds[0].Cond.Pos()), true, "every path of the reloading branch back to the main loop passes finishReloadSuccess/finishReloadFailure/clearReloadPending (or leaves the loop)")
	} else {
		c.R.Checkf(rule, "handoff-released@main-loop", c.pos(pos), false, "a path of the reloading branch (lines %s) returns to the main loop without finishing the reload: reloadPending stays set", traceStr(c.P, tr))
	}
	// finish* helpers themselves clear
	for _, nm := range []string{"reloadManager.finishReloadFailure", "reloadManager.finishReloadSuccess"} {
		if f := c.fn(rule, "cmd", nm); f != nil {
			fi := f.Info()
			ex := f.Graph().ExitsAvoiding(f.Graph().Entry(), nodeCalls(fi, "cmd.clearReloadPending", "cmd.releaseReloadPendingAfterRetirement"))
			c.R.Checkf(rule, "finish-clears@"+nm, c.pos(f.Pos()), len(ex) == 0, "%s releases reloadPending on every path", nm)
		}
	}
}

func c20Suppress(c *Ctx) {
	const rule = "SUPPRESS"
	begin := core.ParseRefs("cmd.beginReloadProxyFailureSuppression")
	end := core.ParseRefs("cmd.endReloadProxyFailureSuppression")
	callers := func(rs core.Refs) map[string]int {
		out := map[string]int{}
		for _, f := range c.P.FuncsIn("cmd") {
			n := len(f.FindCalls(rs))
			if n > 0 {
				out[strings.TrimPrefix(f.Name, "cmd.")] = n
			}
		}
		return out
	}
	bc := callers(begin)
	okB := len(bc) == 1 && bc["tryQueueReloadRequest"] == 1
	c.R.Checkf(rule, "begin-callers", "cmd/run.go", okB, "beginReloadProxyFailureSuppression is called only from tryQueueReloadRequest, once: %v", keysOf(bc))
	ec := callers(end)
	allowed := map[string]bool{"clearReloadPending": true, "releaseReloadPendingAfterRetirement": true, "tryQueueReloadRequest": true}
	okE := len(ec) > 0
	for k := range ec {
		if !allowed[k] {
			okE = false
		}
	}
	c.R.Checkf(rule, "end-callers", "cmd/run.go", okE, "endReloadProxyFailureSuppression is called only from the release functions and the full-queue branch: %v", keysOf(ec))

	f := c.fn(rule, "cmd", "tryQueueReloadRequest")
	if f == nil {
		return
	}
	info := f.Info()
	g := f.Graph()
	isBegin := nodeCalls(info, "cmd.beginReloadProxyFailureSuppression")
	isEnd := nodeCalls(info, "cmd.endReloadProxyFailureSuppression")
	cas := g.Conds(func(e ast.Expr) bool { return strings.Contains(core.ExprStr(e), "CompareAndSwap(false, true)") })
	if len(cas) != 1 {
		c.R.Checkf(rule, "admission-cas", c.pos(f.Pos()), false, "expected one admission CompareAndSwap(false, true) test in tryQueueReloadRequest, found %d", len(cas))
		return
	}
	// which edge is the refusal edge: the one on which CAS is known false
	refusal := cas[0].True
	for _, at := range core.Atoms(cas[0].Cond, false) {
		if _, isCall := at.Cond.(*ast.CallExpr); isCall && strings.Contains(core.ExprStr(at.Cond), "CompareAndSwap") && !at.Polarity {
			refusal = cas[0].False
		}
	}
	casNode := ast.Node(cas[0].Cond)
	_, _, reachNoCas := g.ReachesAvoiding(g.Entry(), func(n ast.Node) bool { return n == casNode }, isBegin)
	_, _, reachRefusal := g.ReachesAvoiding(core.Point{B: refusal, I: 0}, nil, isBegin)
	c.R.Checkf(rule, "begin-after-admission", c.pos(cas[0].Cond.Pos()), !reachNoCas && !reachRefusal && len(g.Find(isBegin)) == 1,
		"the suppression is begun only after the admission CAS succeeded (not before it: %v, not on the refusal edge: %v); otherwise every refused request leaves node-failure reports muted", !reachNoCas, !reachRefusal)
	// after begin: hand-over to the worker or end
	isSendReq := func(n ast.Node) bool {
		s, ok := n.(*ast.SendStmt)
		return ok && core.ExprStr(s.Chan) == "reloadReqs"
	}
	for _, p := range g.Find(isBegin) {
		ex := g.ExitsAvoiding(p.After(), Or(isEnd, isSendReq))
		c.R.Checkf(rule, "begin-paired", c.pos(p.Node().Pos()), len(ex) == 0, "after beginning the suppression every path either queues the request for the worker (which releases it) or ends the suppression")
	}
	// refusal edge is effect free
	var effects []string
	affecting := c20AdmissionAffecting(c)
	w := &core.Walker{G: g, Visit: func(n ast.Node) core.Verdict {
		if isSend(n) {
			effects = append(effects, "send@"+c.pos(n.Pos()))
		}
		ownCalls(n, func(call *ast.CallExpr, _ bool) {
			cal := core.CalleeObj(info, call)
			if cal == nil {
				if !c20HarmlessCall(c, info, call, affecting) {
					effects = append(effects, core.ExprStr(call.Fun)+"@"+c.pos(call.Pos()))
				}
				return
			}
			// logging, reads of the flags, the busy report and its erase change nothing of the admission state;
			// a call is an effect when it can (transitively) write a flag, send a request or touch the suppression
			if !c20HarmlessCall(c, info, call, affecting) {
				effects = append(effects, cal.Name()+"@"+c.pos(call.Pos()))
			}
		})
		return core.Go
	}}
	w.Run(core.Point{B: refusal, I: 0})
	okRet, _ := onlyReturns(g, core.Point{B: refusal, I: 0}, "false")
	c.R.Checkf("REFUSAL", "refusal-effect-free", c.pos(cas[0].Cond.Pos()), len(effects) == 0 && okRet, "on the refused edge the only calls are logging, the busy report, reads of the flags and the erase of that same report; false is returned; other effects: %v", effects)
	if rf := c.fn("REFUSAL", "cmd", "restoreRejectedReloadProgress"); rf != nil {
		var eff []string
		core.EachCall(rf.Body, core.Deep, func(call *ast.CallExpr) {
			if id, ok := call.Fun.(*ast.Ident); ok && id.Name == "setRunSignalProgress" {
				return // the busy report itself (a package-level function variable)
			}
			if !c20HarmlessCall(c, rf.Info(), call, affecting) {
				eff = append(eff, core.ExprStr(call.Fun))
			}
		})
		c.R.Checkf("REFUSAL", "busy-report-only", c.pos(rf.Pos()), len(eff) == 0, "restoreRejectedReloadProgress only reads reloadActive and writes the busy report; other calls: %v", eff)
	}

	// release functions: exactly one end per path
	for _, nm := range []string{"clearReloadPending", "releaseReloadPendingAfterRetirement"} {
		rf := c.fn(rule, "cmd", nm)
		if rf == nil {
			continue
		}
		ri := rf.Info()
		rg := rf.Graph()
		one := func(n ast.Node) bool {
			found := false
			ownCalls(n, func(call *ast.CallExpr, _ bool) {
				if cal := core.CalleeObj(ri, call); cal != nil && (cal.Name() == "endReloadProxyFailureSuppression" || cal.Name() == "clearReloadPending") {
					found = true
				}
			})
			if gs, ok := n.(*ast.GoStmt); ok {
				if lit, ok := gs.Call.Fun.(*ast.FuncLit); ok {
					core.EachCall(lit.Body, core.Deep, func(call *ast.CallExpr) {
						if cal := core.Callee(ri, call); cal != nil && cal.Name() == "clearReloadPending" {
							found = true
						}
					})
				}
			}
			return found
		}
		ex := rg.ExitsAvoiding(rg.Entry(), one)
		twice := false
		for _, p := range rg.Find(one) {
			if _, _, r := rg.ReachesAvoiding(p.After(), nil, one); r {
				twice = true
			}
		}
		c.R.Checkf(rule, "ends-exactly-once@"+nm, c.pos(rf.Pos()), len(ex) == 0 && !twice, "%s ends the suppression exactly once on every path (at least once: %v, never twice: %v)", nm, len(ex) == 0, !twice)
	}
	// the goroutine in releaseReloadPendingAfterRetirement waits for the retirement before clearing
	if rf := c.fn(rule, "cmd", "releaseReloadPendingAfterRetirement"); rf != nil {
		ok := false
		for _, u := range litUnits(rf) {
			ug := u.Graph()
			_, _, reach := ug.ReachesAvoiding(ug.Entry(), func(n ast.Node) bool {
				found := false
				ast.Inspect(n, func(m ast.Node) bool {
					if ue, isU := m.(*ast.UnaryExpr); isU && ue.Op == token.ARROW && core.ExprStr(ue.X) == "retirementDone" {
						found = true
					}
					return true
				})
				return found
			}, nodeCalls(u.Info(), "cmd.clearReloadPending"))
			if !reach && len(ug.Find(nodeCalls(u.Info(), "cmd.clearReloadPending"))) == 1 {
				ok = true
			}
		}
		c.R.Checkf(rule, "release-waits-for-retirement", c.pos(rf.Pos()), ok, "the deferred release clears reloadPending only after <-retirementDone")
	}
}

// onlyReturns: every exit from start is `return <lit>`.
func onlyReturns(g *core.Graph, start core.Point, lit string) (bool, token.Pos) {
	ok := true
	var bad token.Pos
	w := &core.Walker{G: g, OnExit: func(b *cfg.Block, _ []token.Pos) {
		if len(b.Nodes) == 0 {
			ok = false
			return
		}
		rs, isRet := b.Nodes[len(b.Nodes)-1].(*ast.ReturnStmt)
		if !isRet || len(rs.Results) != 1 || core.ExprStr(rs.Results[0]) != lit {
			ok = false
			bad = b.Nodes[len(b.Nodes)-1].Pos()
		}
	}}
	w.Run(start)
	return ok, bad
}

func keysOf(m map[string]int) []string {
	var out []string
	for k := range m {
		out = append(out, k)
	}
	sort.Strings(out)
	return out
}

// reviewed writers of the three reload flags: "<flag>|<function>|<op>"
var reloadFlagWriters = map[string]string{
	"reloadActive|Runner.Run|Store":                        "worker head sets true; worker failure exits and the main loop's listener-failure exit set false",
	"reloadActive|reloadManager.finishReloadFailure|Store": "release",
	"reloadActive|reloadManager.finishReloadSuccess|Store": "release",
	"reloadActive|reloadManager.queueReloadRequest|&":      "passed to the admission function, which only reads it for the busy message",
	"reloadPending|Runner.Run|&":                           "passed to clearReloadPending",
	"reloadPending|reloadManager.finishReloadFailure|&":    "passed to clearReloadPending",
	"reloadPending|reloadManager.finishReloadSuccess|&":    "passed to releaseReloadPendingAfterRetirement",
	"reloadPending|reloadManager.queueReloadRequest|&":     "passed to the admission function (CAS)",
	"reloading|Runner.Run|Store":                           "main loop clears it when it starts serving the new generation",
	"reloading|reloadManager.finishReloadFailure|Store":    "release",
	"reloading|reloadManager.finishReloadSuccess|Store":    "release",
	"reloading|reloadManager.beginHandoff|&":               "passed to beginReloadHandoff (Store(true))",
}

func c20Flags(c *Ctx) {
	const rule = "FLAGS"
	got := map[string]string{}
	for _, f := range c.P.FuncsIn("cmd") {
		info := f.Info()
		fn := strings.TrimPrefix(f.Name, "cmd.")
		ast.Inspect(f.Body, func(m ast.Node) bool {
			switch x := m.(type) {
			case *ast.CallExpr:
				recv, name, ok := methodCall(x)
				if !ok {
					return true
				}
				fld := core.FieldOf(info, recv)
				if !strings.HasPrefix(fld, "reloadManager.") {
					return true
				}
				flag := strings.TrimPrefix(fld, "reloadManager.")
				if flag != "reloadPending" && flag != "reloadActive" && flag != "reloading" {
					return true
				}
				if name == "Store" || name == "CompareAndSwap" || name == "Swap" {
					got[flag+"|"+fn+"|"+name] = c.pos(x.Pos())
				}
			case *ast.UnaryExpr:
				if x.Op != token.AND {
					return true
				}
				fld := core.FieldOf(info, x.X)
				flag := strings.TrimPrefix(fld, "reloadManager.")
				if strings.HasPrefix(fld, "reloadManager.") && (flag == "reloadPending" || flag == "reloadActive" || flag == "reloading") {
					got[flag+"|"+fn+"|&"] = c.pos(x.Pos())
				}
			}
			return true
		})
	}
	var keys []string
	for k := range got {
		keys = append(keys, k)
	}
	sort.Strings(keys)
	for _, k := range keys {
		why, ok := reloadFlagWriters[k]
		if ok {
			c.R.Checkf(rule, "writer@"+k, got[k], true, "reviewed: %s", why)
		} else {
			c.R.Checkf(rule, "writer@"+k, got[k], false, "%s writes (or takes the address of) a reload admission flag and is not in the reviewed writer set", k)
		}
	}
	c.R.Floor(rule, len(keys), 10)
	// helpers that receive the flag pointers only store what their name says
	type hp struct{ fn, param, op, arg string }
	for _, h := range []hp{{"clearReloadPending", "flag", "Store", "false"}, {"beginReloadHandoff", "reloading", "Store", "true"}, {"tryQueueReloadRequest", "reloadPending", "Store", "false"}} {
		f := c.fn(rule, "cmd", h.fn)
		if f == nil {
			continue
		}
		ok := true
		n := 0
		core.EachCall(f.Body, core.Deep, func(call *ast.CallExpr) {
			recv, name, isM := methodCall(call)
			if !isM || core.ExprStr(recv) != h.param {
				return
			}
			if name == "Store" {
				n++
				if core.ExprStr(call.Args[0]) != h.arg {
					ok = false
				}
			}
		})
		c.R.Checkf(rule, "helper-store@"+h.fn, c.pos(f.Pos()), ok && n >= 1, "%s only stores %s into %s (%d store(s))", h.fn, h.arg, h.param, n)
	}
	// in tryQueueReloadRequest the Store(false) happens only on the full-queue (default) branch, i.e. after a successful CAS by this very call
	if f := c.fn(rule, "cmd", "tryQueueReloadRequest"); f != nil {
		g := f.Graph()
		cas := g.Conds(func(e ast.Expr) bool { return strings.Contains(core.ExprStr(e), "CompareAndSwap(false, true)") })
		if len(cas) == 1 {
			casNode := ast.Node(cas[0].Cond)
			isStore := func(n ast.Node) bool {
				found := false
				ownCalls(n, func(call *ast.CallExpr, _ bool) {
					if recv, name, ok := methodCall(call); ok && name == "Store" && core.ExprStr(recv) == "reloadPending" {
						found = true
					}
				})
				return found
			}
			_, _, reach := g.ReachesAvoiding(g.Entry(), func(n ast.Node) bool { return n == casNode }, isStore)
			c.R.Checkf(rule, "undo-only-own-admission", c.pos(cas[0].Cond.Pos()), !reach, "reloadPending is reset in the admission function only after this call's own CAS")
		}
	}
}

func c20Retire(c *Ctx) {
	const rule = "RETIRE"
	f := c.fn(rule, "cmd", "reloadManager.startControlPlaneRetirement")
	if f == nil {
		return
	}
	// goroutine literal: first statement is `defer close(<param>)`, started with the done channel
	okDefer, okArg := false, false
	ast.Inspect(f.Body, func(m ast.Node) bool {
		gs, ok := m.(*ast.GoStmt)
		if !ok {
			return true
		}
		lit, ok := gs.Call.Fun.(*ast.FuncLit)
		if !ok || len(lit.Body.List) == 0 || len(lit.Type.Params.List) != 1 {
			return true
		}
		p := lit.Type.Params.List[0].Names[0].Name
		for _, st := range lit.Body.List {
			if ds, ok := st.(*ast.DeferStmt); ok && core.ExprStr(ds.Call) == "close("+p+")" {
				okDefer = true
				break
			}
			// only straight-line statements (logging, counters) may precede the defer: nothing that can return first
			if _, plain := st.(*ast.ExprStmt); !plain {
				break
			}
		}
		if len(gs.Call.Args) == 1 && core.ExprStr(gs.Call.Args[0]) == "retirementDone" {
			okArg = true
		}
		return true
	})
	c.R.Checkf(rule, "done-closed-by-defer", c.pos(f.Pos()), okDefer && okArg, "the retirement goroutine's first statement is `defer close(done)` on the published channel: the release is reached even if retirement panics or returns early")
	// published under m.mu
	info := f.Info()
	g := f.Graph()
	pub := func(n ast.Node) bool {
		as, ok := n.(*ast.AssignStmt)
		return ok && len(as.Lhs) == 1 && core.FieldOf(info, as.Lhs[0]) == "reloadManager.pendingRetirementDone"
	}
	lock := func(n ast.Node) bool {
		found := false
		ownCalls(n, func(call *ast.CallExpr, def bool) {
			if recv, name, ok := methodCall(call); ok && name == "Lock" && core.FieldOf(info, recv) == "reloadManager.mu" && !def {
				found = true
			}
		})
		return found
	}
	unlock := func(n ast.Node) bool {
		found := false
		ownCalls(n, func(call *ast.CallExpr, def bool) {
			if recv, name, ok := methodCall(call); ok && name == "Unlock" && core.FieldOf(info, recv) == "reloadManager.mu" && !def {
				found = true
			}
		})
		return found
	}
	pts := g.Find(pub)
	okPub := len(pts) == 1
	if okPub {
		_, _, r1 := g.ReachesAvoiding(g.Entry(), lock, pub)
		var r2 bool
		for _, lp := range g.Find(lock) {
			_, _, r := g.ReachesAvoiding(lp.After(), pub, unlock)
			r2 = r2 || r
		}
		okPub = !r1 && !r2
	}
	c.R.Checkf(rule, "done-published-under-lock", c.pos(f.Pos()), okPub, "pendingRetirementDone is assigned between m.mu.Lock and m.mu.Unlock on every path")
	// previous retirement cancelled under lastRetirementMu before the new cancel is stored
	prevCancel := func(n ast.Node) bool {
		found := false
		ownCalls(n, func(call *ast.CallExpr, _ bool) {
			if core.FieldOf(info, call.Fun) == "reloadManager.lastRetirementCancel" {
				found = true
			}
		})
		return found
	}
	storeCancel := func(n ast.Node) bool {
		as, ok := n.(*ast.AssignStmt)
		return ok && len(as.Lhs) == 1 && core.FieldOf(info, as.Lhs[0]) == "reloadManager.lastRetirementCancel"
	}
	okC := len(g.Find(prevCancel)) == 1 && len(g.Find(storeCancel)) == 1
	c.R.Checkf(rule, "previous-retirement-cancelled", c.pos(f.Pos()), okC, "the previous retirement is cancelled and the new cancel function recorded")
	// finishReloadSuccess hands the done channel to the release
	if fs := c.fn(rule, "cmd", "reloadManager.finishReloadSuccess"); fs != nil {
		ok := false
		core.EachCall(fs.Body, core.Shallow, func(call *ast.CallExpr) {
			if cal := core.Callee(fs.Info(), call); cal != nil && cal.Name() == "releaseReloadPendingAfterRetirement" && len(call.Args) == 2 && strings.HasSuffix(core.ExprStr(call.Args[1]), ".takePendingRetirementDone()") {
				ok = true
			}
		})
		c.R.Checkf(rule, "success-waits-for-retirement", c.pos(fs.Pos()), ok, "finishReloadSuccess releases reloadPending through releaseReloadPendingAfterRetirement(…, takePendingRetirementDone())")
	}
	c.R.Floor(rule, 4, 4)
}

// c20Bounded: every select inside a `for` in the retirement drain waiters has
// a timeout case whose channel is armed on every path to the select.
func c20Bounded(c *Ctx) {
	const rule = "BOUNDED"
	n := 0
	for _, nm := range []string{"waitForControlPlaneDrain"} {
		f := c.fn(rule, "cmd", nm)
		if f == nil {
			continue
		}
		info := f.Info()
		g := f.Graph()
		ast.Inspect(f.Body, func(m ast.Node) bool {
			sel, ok := m.(*ast.SelectStmt)
			if !ok {
				return true
			}
			n++
			// the select's first CFG node: the first comm statement
			var firstComm ast.Node
			armed := false
			why := "no case receives from a timer channel"
			for _, cl := range sel.Body.List {
				cc := cl.(*ast.CommClause)
				if cc.Comm == nil {
					continue
				}
				if firstComm == nil {
					firstComm = cc.Comm
				}
				var recv ast.Expr
				ast.Inspect(cc.Comm, func(k ast.Node) bool {
					if ue, ok := k.(*ast.UnaryExpr); ok && ue.Op == token.ARROW {
						recv = ue.X
					}
					return true
				})
				if recv == nil {
					continue
				}
				// resolve recv to a timer: X.C with X := time.NewTimer(..), or ident assigned from such X.C, or time.After(..)
				var defNode func(ast.Node) bool
				switch r := ast.Unparen(recv).(type) {
				case *ast.SelectorExpr:
					if r.Sel.Name == "C" {
						tobj := core.RootObj(info, r.X)
						if tobj != nil && isTimerType(tobj.Type()) {
							defNode = func(nd ast.Node) bool { return assignsFromCall(info, nd, tobj, "time", "NewTimer") }
						}
					}
				case *ast.Ident:
					chObj := info.ObjectOf(r)
					if chObj != nil && strings.Contains(chObj.Type().String(), "time.Time") {
						defNode = func(nd ast.Node) bool {
							as, ok := nd.(*ast.AssignStmt)
							if !ok {
								return false
							}
							for i, l := range as.Lhs {
								if id, ok := l.(*ast.Ident); ok && info.ObjectOf(id) == chObj && i < len(as.Rhs) {
									if se, ok := as.Rhs[i].(*ast.SelectorExpr); ok && se.Sel.Name == "C" {
										if t := core.RootObj(info, se.X); t != nil && isTimerType(t.Type()) {
											return true
										}
									}
									if call, ok := as.Rhs[i].(*ast.CallExpr); ok {
										if cal := core.Callee(info, call); cal != nil && cal.Pkg() != nil && cal.Pkg().Path() == "time" && cal.Name() == "After" {
											return true
										}
									}
								}
							}
							return false
						}
					}
				}
				if defNode == nil || len(g.Find(defNode)) == 0 {
					continue
				}
				// the arming definition must dominate the select
				target := func(nd ast.Node) bool { return nd == firstCommNode(g, sel) }
				_, tr, reach := g.ReachesAvoiding(g.Entry(), defNode, target)
				if !reach {
					armed = true
				} else {
					why = "the timer behind case `" + core.ExprStr2(cc.Comm) + "` is not armed on the path lines " + traceStr(c.P, tr) + " (a nil channel blocks forever)"
				}
			}
			c.R.Checkf(rule, "drain-wait-has-armed-timeout@"+nm, c.pos(sel.Pos()), armed, "the blocking select of %s has a timeout case whose timer is armed on every path reaching it%s", nm, func() string {
				if armed {
					return ""
				}
				return " — " + why + ": with a zero budget the retirement never finishes and reloadPending is never released"
			}())
			return true
		})
	}
	c.R.Floor(rule, n, 1)
}

func firstCommNode(g *core.Graph, sel *ast.SelectStmt) ast.Node {
	var best ast.Node
	for _, b := range g.CFG.Blocks {
		if !b.Live {
			continue
		}
		for _, n := range b.Nodes {
			if n.Pos() >= sel.Body.Pos() && n.End() <= sel.Body.End() {
				if best == nil || n.Pos() < best.Pos() {
					best = n
				}
			}
		}
	}
	return best
}

func isTimerType(t types.Type) bool {
	n := namedOf(t)
	return n != nil && n.Obj().Pkg() != nil && n.Obj().Pkg().Path() == "time" && n.Obj().Name() == "Timer"
}

func assignsFromCall(info *types.Info, nd ast.Node, obj types.Object, pkg, fn string) bool {
	as, ok := nd.(*ast.AssignStmt)
	if !ok {
		return false
	}
	for i, l := range as.Lhs {
		id, ok := l.(*ast.Ident)
		if !ok || info.ObjectOf(id) != obj || i >= len(as.Rhs) {
			continue
		}
		if call, ok := as.Rhs[i].(*ast.CallExpr); ok {
			if cal := core.Callee(info, call); cal != nil && cal.Pkg() != nil && cal.Pkg().Path() == pkg && cal.Name() == fn {
				return true
			}
		}
	}
	return false
}
