package props

// Rules added after the second round of independently seeded changes
// (DESIGN.md §9.7).  Each is a structural necessary condition of the clause
// the seed broke.

import (
	"fmt"
	"go/ast"
	"go/constant"
	"go/token"
	"go/types"
	"strings"

	"daecheck/internal/core"
	"daecheck/internal/fdt"
)

// C13 IDENTITY: UdpEndpointPool.Remove deletes the map entry only when the
// slot still holds the endpoint it was asked to remove.
func c13RemoveIdentity(c *Ctx) {
	const rule = "REMOVED"
	f := c.fn(rule, "control", "UdpEndpointPool.Remove")
	if f == nil {
		return
	}
	info := f.Info()
	var param types.Object
	ps := f.Decl.Type.Params.List
	if len(ps) >= 2 && len(ps[1].Names) > 0 {
		param = info.ObjectOf(ps[1].Names[0])
	}
	var cmpKey string
	var cmpEq bool
	var okKey string
	ast.Inspect(f.Body, func(m ast.Node) bool {
		switch x := m.(type) {
		case *ast.BinaryExpr:
			if x.Op == token.EQL || x.Op == token.NEQ {
				for _, pair := range [][2]ast.Expr{{x.X, x.Y}, {x.Y, x.X}} {
					if id, ok := ast.Unparen(pair[0]).(*ast.Ident); ok && info.ObjectOf(id) == param {
						if _, ok := ast.Unparen(pair[1]).(*ast.Ident); ok {
							cmpKey, cmpEq = core.ExprStr(x), x.Op == token.EQL
						}
					}
				}
			}
		case *ast.AssignStmt:
			if len(x.Lhs) == 2 && len(x.Rhs) == 1 {
				if ix, ok := x.Rhs[0].(*ast.IndexExpr); ok {
					if _, isMap := info.TypeOf(ix.X).Underlying().(*types.Map); isMap {
						okKey = core.ExprStr(x.Lhs[1])
					}
				}
			}
		}
		return true
	})
	if param == nil || cmpKey == "" || okKey == "" {
		c.R.Unresolved(rule, "UdpEndpointPool.Remove: comma-ok lookup and comparison with the endpoint argument")
		return
	}
	bad := ""
	for _, present := range []bool{true, false} {
		for _, same := range []bool{true, false} {
			job := &fdt.Job{F: f, Start: f.Graph().Entry(), Inputs: map[string]constant.Value{okKey: constant.MakeBool(present), cmpKey: constant.MakeBool(same == cmpEq)},
				Event: func(n ast.Node, ev func(ast.Expr) string) string {
					out := ""
					ownCalls(n, func(call *ast.CallExpr, _ bool) {
						if id, ok := call.Fun.(*ast.Ident); ok && id.Name == "delete" {
							out = "delete"
						}
					})
					return out
				}}
			deleted := map[bool]bool{}
			for _, o := range job.Run() {
				deleted[len(o.Events) > 0] = true
			}
			want := present && same
			if (len(deleted) != 1 || deleted[true] != want) && bad == "" {
				bad = fmt.Sprintf("slot occupied=%v, occupant is the endpoint to remove=%v: map entry deleted=%v, must be %v", present, same, keysB2(deleted), want)
			}
		}
	}
	c.R.Checkf(rule, "remove-deletes-only-its-own-endpoint@UdpEndpointPool.Remove", c.pos(f.Pos()), bad == "",
		"Remove deletes the shard map entry exactly when the slot holds the endpoint it was given (4-row table)%s", func() string {
			if bad != "" {
				return " — VIOLATED: " + bad + ": a retired endpoint's late clean-up removes the live successor from the pool without closing it (orphaned socket, extra dial)"
			}
			return ""
		}())
}

// C17 accumulate: every call of mergeItems has the shape x = mergeItems(x', new)
// where x' is the value previously stored in x: what is already there stays first.
func c17MergeSites(c *Ctx) {
	const rule = "INCLUDE"
	n := 0
	for _, f := range c.P.FuncsIn("config") {
		info := f.Info()
		ast.Inspect(f.Body, func(m ast.Node) bool {
			as, ok := m.(*ast.AssignStmt)
			if !ok || len(as.Lhs) != 1 || len(as.Rhs) != 1 {
				return true
			}
			call, ok := as.Rhs[0].(*ast.CallExpr)
			if !ok {
				return true
			}
			cal := core.Callee(info, call)
			if cal == nil || cal.Name() != "mergeItems" || len(call.Args) != 2 {
				return true
			}
			n++
			c.R.Saw(f)
			// the accumulated side: the expression the result is stored back to, or a local read from it
			target := core.ExprStr(as.Lhs[0])
			first := core.ExprStr(call.Args[0])
			accum := first == target
			if !accum {
				// items := m.mergeItems(father[sec], own[sec]); father[sec] = items
				if id, ok := as.Lhs[0].(*ast.Ident); ok {
					obj := info.ObjectOf(id)
					ast.Inspect(f.Body, func(k ast.Node) bool {
						if a2, ok := k.(*ast.AssignStmt); ok && len(a2.Lhs) == 1 && len(a2.Rhs) == 1 {
							if rid, ok := a2.Rhs[0].(*ast.Ident); ok && info.ObjectOf(rid) == obj && core.ExprStr(a2.Lhs[0]) == first {
								accum = true
							}
						}
						return true
					})
				}
			}
			if !accum {
				// items, ok := sectionMap[name]; sectionMap[name] = mergeItems(items, new)
				if id, ok := ast.Unparen(call.Args[0]).(*ast.Ident); ok {
					obj := info.ObjectOf(id)
					ast.Inspect(f.Body, func(k ast.Node) bool {
						if a2, ok := k.(*ast.AssignStmt); ok && len(a2.Rhs) == 1 && len(a2.Lhs) >= 1 {
							if lid, ok := a2.Lhs[0].(*ast.Ident); ok && info.ObjectOf(lid) == obj && core.ExprStr(a2.Rhs[0]) == target {
								accum = true
							}
						}
						return true
					})
				}
			}
			c.R.Checkf(rule, "accumulated-items-stay-first@"+strings.TrimPrefix(f.Name, "config.")+"/"+nospace(target), c.pos(call.Pos()), accum,
				"mergeItems(%s, %s) stores into %s: its first argument is what was accumulated there before, so earlier items (the including file, an earlier block of the same section) stay in front of later ones", first, core.ExprStr(call.Args[1]), target)
			return true
		})
	}
	c.R.Floor(rule+"/merge-sites", n, 2)
}

// C18 KNOWLEDGE: the lifetime of "this name was resolved through dae" is the
// upstream (original) deadline at every writer, never the pinned cache deadline.
func c18Knowledge(c *Ctx) {
	const rule = "KNOWLEDGE"
	n := 0
	for _, f := range c.P.FuncsIn("control") {
		info := f.Info()
		core.EachCall(f.Body, core.Deep, func(call *ast.CallExpr) {
			cal := core.Callee(info, call)
			if cal == nil || cal.Name() != "rememberDnsKnowledge" || len(call.Args) != 2 {
				return
			}
			n++
			c.R.Saw(f)
			arg := ast.Unparen(call.Args[1])
			ok := core.FieldOf(info, arg) == "DnsCache.OriginalDeadline"
			if id, isId := arg.(*ast.Ident); isId && !ok {
				// a local/parameter that this function also stores into DnsCache.OriginalDeadline
				obj := info.ObjectOf(id)
				ast.Inspect(f.Body, func(k ast.Node) bool {
					if kv, isKV := k.(*ast.KeyValueExpr); isKV && core.ExprStr(kv.Key) == "OriginalDeadline" {
						if vid, isV := ast.Unparen(kv.Value).(*ast.Ident); isV && info.ObjectOf(vid) == obj {
							ok = true
						}
					}
					if cl, isCall := k.(*ast.CallExpr); isCall && cl != call {
						// handed to the entry constructor in its originalDeadline position
						if sig, isSig := info.TypeOf(cl.Fun).(*types.Signature); isSig {
							for i, a := range cl.Args {
								if vid, isV := ast.Unparen(a).(*ast.Ident); isV && info.ObjectOf(vid) == obj && i < sig.Params().Len() && strings.EqualFold(core.CanonName(sig.Params().At(i)), "originalDeadline") && cl.Fun != nil && !strings.HasSuffix(core.ExprStr(cl.Fun), "rememberDnsKnowledge") {
									ok = true
								}
							}
						}
					}
					if as, isAs := k.(*ast.AssignStmt); isAs && len(as.Lhs) == 1 && len(as.Rhs) == 1 && core.FieldOf(info, as.Lhs[0]) == "DnsCache.OriginalDeadline" {
						if vid, isV := ast.Unparen(as.Rhs[0]).(*ast.Ident); isV && info.ObjectOf(vid) == obj {
							ok = true
						}
					}
					return true
				})
			}
			c.R.Checkf(rule, "knowledge-lives-until-original-deadline@"+strings.TrimPrefix(f.Name, "control."), c.pos(call.Pos()), ok,
				"rememberDnsKnowledge is given %s: it must be the entry's OriginalDeadline (the upstream TTL) — with the pinned/extended cache deadline a name stays 'known genuine' past its TTL and domain mode dials a spoofed SNI by name", core.ExprStr(arg))
		})
	}
	c.R.Floor(rule, n, 2)
}

// PARSENUM: numeric rule values are parsed with base 0 or 10 (what the
// configuration documents: decimal, with 0x/0o/0b prefixes under base 0) and
// with a bit size that is not wider than the integer type the value is then
// converted to — otherwise qtype(65) is read as 0x65, or an out-of-range
// value is silently truncated instead of rejected.
func parseNumSites(c *Ctx, rule string, rels []string, keepFile func(string) bool) int {
	n := 0
	for _, rel := range rels {
		for _, f := range c.P.FuncsIn(rel) {
			if keepFile != nil && !keepFile(filepathBase(f.File())) {
				continue
			}
			info := f.Info()
			ast.Inspect(f.Body, func(m ast.Node) bool {
				var lhs []ast.Expr
				var call *ast.CallExpr
				switch x := m.(type) {
				case *ast.AssignStmt:
					if len(x.Rhs) == 1 {
						if cl, ok := x.Rhs[0].(*ast.CallExpr); ok {
							call, lhs = cl, x.Lhs
						}
					}
				}
				if call == nil {
					return true
				}
				cal := core.Callee(info, call)
				if cal == nil || cal.Pkg() == nil || cal.Pkg().Path() != "strconv" || (cal.Name() != "ParseUint" && cal.Name() != "ParseInt") || len(call.Args) != 3 {
					return true
				}
				n++
				c.R.Saw(f)
				construct := "numeric-literal-parse@" + f.Name + "/" + nospace(core.ExprStr(call.Args[0]))
				base, bits := int64(-1), int64(-1)
				if tv, ok := info.Types[call.Args[1]]; ok && tv.Value != nil {
					base, _ = constant.Int64Val(tv.Value)
				}
				if tv, ok := info.Types[call.Args[2]]; ok && tv.Value != nil {
					bits, _ = constant.Int64Val(tv.Value)
				}
				if base != 0 && base != 10 {
					c.R.Checkf(rule, construct, c.pos(call.Pos()), false, "%s parses a rule value with base %s: configuration numbers are decimal (base 10, or base 0 for 0x/0o/0b prefixes); under base 16 the documented value 65 is read as 101", core.ExprStr(call), core.ExprStr(call.Args[1]))
					return true
				}
				// destination width: narrowest integer conversion applied to the parsed value
				width := int64(64)
				if len(lhs) > 0 {
					if id, ok := lhs[0].(*ast.Ident); ok {
						obj := info.ObjectOf(id)
						ast.Inspect(f.Body, func(k ast.Node) bool {
							cv, ok := k.(*ast.CallExpr)
							if !ok || len(cv.Args) != 1 {
								return true
							}
							tv, ok := info.Types[cv.Fun]
							if !ok || !tv.IsType() {
								return true
							}
							if aid, ok := ast.Unparen(cv.Args[0]).(*ast.Ident); !ok || info.ObjectOf(aid) != obj {
								return true
							}
							if bt, ok := tv.Type.Underlying().(*types.Basic); ok && bt.Info()&types.IsInteger != 0 {
								w := types.SizesFor("gc", "amd64").Sizeof(bt) * 8
								if cal.Name() == "ParseUint" && bt.Info()&types.IsUnsigned == 0 {
									w-- // an unsigned parse converted to a signed type loses the top bit: 2^63.. becomes negative
								}
								if w < width {
									width = w
								}
							}
							return true
						})
					}
				}
				if bits < 0 {
					c.R.Checkf(rule, construct, c.pos(call.Pos()), true, "%s: base %d; the bit size %s is computed from the destination type's size", core.ExprStr(call), base, core.ExprStr(call.Args[2]))
					return true
				}
				eff := bits
				if eff == 0 {
					eff = 64
				}
				c.R.Checkf(rule, construct, c.pos(call.Pos()), eff <= width, "%s: base %d, bit size %d; the value is then converted to an integer with %d value bits — a wider parse accepts out-of-range values and truncates (or, for an unsigned parse into a signed type, negates) them silently", core.ExprStr(call), base, bits, width)
				return true
			})
		}
	}
	return n
}

// C09 PRIVATE: in the reply paths the client's id is written only into bytes
// this call owns (a fresh make/Pack result or a pool buffer it copied into),
// never into the packed bytes that are shared with every other hit of the
// same cache entry.
func c09PrivateBytes(c *Ctx) {
	const rule = "IDPATCH"
	n := 0
	for _, f := range c.P.FuncsIn("control") {
		if filepathBase(f.File()) != "dns_control.go" {
			continue
		}
		info := f.Info()
		var fresh func(e ast.Expr, depth int) (bool, string)
		fresh = func(e ast.Expr, depth int) (bool, string) {
			e = ast.Unparen(e)
			if depth > 6 {
				return false, "alias chain too long"
			}
			switch x := e.(type) {
			case *ast.SliceExpr:
				return fresh(x.X, depth+1)
			case *ast.StarExpr:
				// *bufPtr where bufPtr came out of a sync.Pool
				return fresh(x.X, depth+1)
			case *ast.TypeAssertExpr:
				return fresh(x.X, depth+1)
			case *ast.CallExpr:
				if id, ok := x.Fun.(*ast.Ident); ok && id.Name == "make" {
					return true, "make"
				}
				if _, name, ok := methodCall(x); ok && (name == "Get" || name == "Pack" || name == "PackBuffer") {
					return true, name + "()"
				}
				if id, ok := x.Fun.(*ast.Ident); ok && id.Name == "append" && len(x.Args) > 0 {
					return fresh(x.Args[0], depth+1)
				}
				return false, "result of " + core.ExprStr(x.Fun)
			case *ast.Ident:
				obj := info.ObjectOf(x)
				if v, ok := obj.(*types.Var); ok && isParamOf(f, v) {
					return false, "parameter " + x.Name
				}
				var defs []ast.Expr
				ast.Inspect(f.Body, func(k ast.Node) bool {
					if as, ok := k.(*ast.AssignStmt); ok {
						for i, l := range as.Lhs {
							if lid, ok := l.(*ast.Ident); ok && info.ObjectOf(lid) == obj {
								if len(as.Rhs) == len(as.Lhs) {
									defs = append(defs, as.Rhs[i])
								} else if len(as.Rhs) == 1 {
									defs = append(defs, as.Rhs[0])
								}
							}
						}
					}
					return true
				})
				if len(defs) == 0 {
					return false, "no definition of " + x.Name + " in this function"
				}
				for _, d := range defs {
					if ok, why := fresh(d, depth+1); !ok {
						return false, x.Name + " = " + core.ExprStr(d) + " (" + why + ")"
					}
				}
				return true, "local"
			case *ast.SelectorExpr:
				return false, "field " + core.ExprStr(x)
			case *ast.BasicLit, *ast.CompositeLit:
				return true, "literal"
			}
			return false, core.ExprStr(e)
		}
		core.EachCall(f.Body, core.Deep, func(call *ast.CallExpr) {
			cal := core.Callee(info, call)
			if cal == nil || cal.Name() != "PutUint16" || len(call.Args) != 2 {
				return
			}
			n++
			c.R.Saw(f)
			ok, why := fresh(call.Args[0], 0)
			c.R.Checkf(rule, "id-written-into-private-bytes@"+strings.TrimPrefix(f.Name, "control.")+"/"+nospace(core.ExprStr(call.Args[0])), c.pos(call.Pos()), ok,
				"the transaction id is stored into %s, which is %s%s", core.ExprStr(call.Args[0]), map[bool]string{true: "owned by this call (", false: "NOT private to this call ("}[ok]+why+")", map[bool]string{true: "", false: ": the packed bytes of a cache entry are shared by every concurrent hit, so a second client's id can be on the wire in the first client's reply"}[ok])
		})
	}
	c.R.Floor(rule+"/private-bytes", n, 3)
}

// C08 TOUCH / PACKTTL
func c08Round2(c *Ctx) {
	if f := c.fn("LRU", "control", "DnsController.LookupDnsRespCache_"); f != nil {
		touch := func(n ast.Node) bool {
			hit := false
			ownCalls(n, func(call *ast.CallExpr, _ bool) {
				if recv, name, ok := methodCall(call); ok && name == "Store" && strings.HasSuffix(core.ExprStr(recv), ".lastAccessNano") {
					hit = true
				}
			})
			return hit
		}
		served := func(n ast.Node) bool {
			rs, ok := n.(*ast.ReturnStmt)
			return ok && len(rs.Results) >= 1 && core.ExprStr(rs.Results[0]) != "nil"
		}
		c.dominated("LRU", "every-served-hit-is-recorded-as-a-use@LookupDnsRespCache_", f, served, touch, "a return that serves cached bytes", "an unconditional lastAccessNano.Store (the eviction pass orders entries by this stamp: a use that is not recorded makes a hot entry the 'least recently used' one)")
	}
	if f := c.fn("BOUNDARY", "control", "DnsController.__updateDnsCacheDeadline"); f != nil {
		info := f.Info()
		var ttlSrc, entryDeadline types.Object
		var pos token.Pos
		core.EachCall(f.Body, core.Deep, func(call *ast.CallExpr) {
			if _, name, ok := methodCall(call); ok && name == "prepackResponseBeforeStore" {
				for _, a := range call.Args {
					if inner, ok := ast.Unparen(a).(*ast.CallExpr); ok {
						if cal := core.Callee(info, inner); cal != nil && cal.Name() == "ttlFromDeadline" && len(inner.Args) >= 1 {
							if id, ok := ast.Unparen(inner.Args[0]).(*ast.Ident); ok {
								ttlSrc = info.ObjectOf(id)
								pos = inner.Pos()
							}
						}
					}
				}
			}
			if sig, ok := info.TypeOf(call.Fun).(*types.Signature); ok {
				for i, a := range call.Args {
					if i < sig.Params().Len() && core.CanonName(sig.Params().At(i)) == "deadline" && strings.HasSuffix(core.ExprStr(call.Fun), "newCache") {
						if id, ok := ast.Unparen(a).(*ast.Ident); ok {
							entryDeadline = info.ObjectOf(id)
						}
					}
				}
			}
		})
		if ttlSrc == nil || entryDeadline == nil {
			c.R.Unresolved("BOUNDARY", "__updateDnsCacheDeadline: ttlFromDeadline(<deadline>) handed to prepackResponseBeforeStore / deadline handed to newCache")
		} else {
			c.R.Checkf("BOUNDARY", "prepacked-ttl-from-the-entry-deadline@__updateDnsCacheDeadline", c.pos(pos), ttlSrc == entryDeadline,
				"the TTL packed into the stored answer is computed from %s; the entry lives until %s — they must be the same deadline, otherwise (fixed_domain_ttl) the client is shown a TTL that exceeds the entry's remaining lifetime", ttlSrc.Name(), entryDeadline.Name())
		}
	}
}

// lowerCasedAt: forward must-dataflow over f's CFG: is the string variable obj
// lower-cased on every path when node `at` is reached?  A value is lower-cased
// if it is the result of strings.ToLower / dns.CanonicalName, or a slice / copy
// of a lower-cased variable.
func lowerCasedAt(f *core.Func, at ast.Node, obj types.Object) bool {
	info := f.Info()
	g := f.Graph()
	var isLower func(env map[types.Object]bool, e ast.Expr) bool
	isLower = func(env map[types.Object]bool, e ast.Expr) bool {
		switch x := ast.Unparen(e).(type) {
		case *ast.CallExpr:
			if cal := core.Callee(info, x); cal != nil {
				if (cal.Pkg() != nil && cal.Pkg().Path() == "strings" && cal.Name() == "ToLower") || cal.Name() == "CanonicalName" {
					return true
				}
			}
		case *ast.SliceExpr:
			return isLower(env, x.X)
		case *ast.Ident:
			return env[info.ObjectOf(x)]
		case *ast.BasicLit:
			return true
		}
		return false
	}
	type env = map[types.Object]bool
	in := map[int]env{0: {}}
	work := []int{0}
	result, seen := false, false
	blocks := g.CFG.Blocks
	for iter := 0; len(work) > 0 && iter < 5000; iter++ {
		bi := work[0]
		work = work[1:]
		b := blocks[bi]
		e := env{}
		for k, v := range in[bi] {
			e[k] = v
		}
		for _, nd := range b.Nodes {
			if nd == at {
				if !seen {
					result, seen = e[obj], true
				} else {
					result = result && e[obj]
				}
			}
			if as, ok := nd.(*ast.AssignStmt); ok && len(as.Lhs) == len(as.Rhs) {
				for i, l := range as.Lhs {
					if id, ok := l.(*ast.Ident); ok {
						if o := info.ObjectOf(id); o != nil {
							e[o] = as.Tok.String() != "+=" && isLower(e, as.Rhs[i])
						}
					}
				}
			}
		}
		for _, s := range b.Succs {
			old, ok := in[int(s.Index)]
			changed := false
			if !ok {
				n := env{}
				for k, v := range e {
					n[k] = v
				}
				in[int(s.Index)] = n
				changed = true
			} else {
				for k, v := range old {
					if v && !e[k] {
						old[k] = false
						changed = true
					}
				}
			}
			if changed {
				work = append(work, int(s.Index))
			}
		}
	}
	return seen && result
}

// C08 fixed-TTL key: names are case-insensitive; the fixed_domain_ttl table is
// looked up with, and keyed by, the lower-case form.
func c08FixedTtlKey(c *Ctx) {
	const rule = "KEY"
	f := c.fn(rule, "control", "DnsController.__updateDnsCacheDeadline")
	if f != nil {
		info := f.Info()
		g := f.Graph()
		done := false
		for _, b := range g.CFG.Blocks {
			if !b.Live {
				continue
			}
			for _, nd := range b.Nodes {
				ownCalls(nd, func(call *ast.CallExpr, _ bool) {
					id, ok := call.Fun.(*ast.Ident)
					if !ok || done {
						return
					}
					v, isVar := info.ObjectOf(id).(*types.Var)
					if !isVar || !isParamOf(f, v) {
						return
					}
					if _, isSig := v.Type().Underlying().(*types.Signature); !isSig || len(call.Args) != 2 {
						return
					}
					hid, ok := ast.Unparen(call.Args[1]).(*ast.Ident)
					if !ok {
						return
					}
					done = true
					ok2 := lowerCasedAt(f, nd, info.ObjectOf(hid))
					c.R.Checkf(rule, "fixed-ttl-lookup-name-is-lower-cased@__updateDnsCacheDeadline", c.pos(call.Pos()), ok2,
						"the name handed to the deadline function (the key of the fixed_domain_ttl lookup) is lower-cased on every path: a question name in mixed case (DNS 0x20) must get the TTL configured for that name, as the cache key (fqdn) already is case-insensitive")
				})
			}
		}
		if !done {
			c.R.Unresolved(rule, "__updateDnsCacheDeadline: call of the deadline function parameter")
		}
	}
	if p := c.fn(rule, "control", "ParseFixedDomainTtl"); p != nil {
		info := p.Info()
		ok, n := true, 0
		ast.Inspect(p.Body, func(m ast.Node) bool {
			as, isAs := m.(*ast.AssignStmt)
			if !isAs || len(as.Lhs) != 1 {
				return true
			}
			ix, isIx := as.Lhs[0].(*ast.IndexExpr)
			if !isIx {
				return true
			}
			if _, isMap := info.TypeOf(ix.X).Underlying().(*types.Map); !isMap {
				return true
			}
			n++
			lowered := false
			ast.Inspect(ix.Index, func(k ast.Node) bool {
				if call, isC := k.(*ast.CallExpr); isC {
					if cal := core.Callee(info, call); cal != nil && cal.Name() == "ToLower" {
						lowered = true
					}
				}
				return true
			})
			if !lowered {
				ok = false
			}
			return true
		})
		c.R.Checkf(rule, "fixed-ttl-table-keys-are-lower-cased@ParseFixedDomainTtl", c.pos(p.Pos()), ok && n > 0, "the fixed_domain_ttl table is keyed by the lower-cased configured name (%d store(s))", n)
	}
}

// C09 QMATCH: an upstream response is used (routed, cached, written to the
// client) only after it was tested to carry the question that was asked; the
// transaction id alone does not make it an answer to this query.
func c09QuestionMatch(c *Ctx) {
	const rule = "QMATCH"
	f := c.fn(rule, "control", "DnsController.dialSend")
	if f == nil {
		return
	}
	info := f.Info()
	g := f.Graph()
	// the response variable: first result of forwardWithFallback
	var resp types.Object
	var recvPt *core.Point
	for _, b := range g.CFG.Blocks {
		if !b.Live {
			continue
		}
		for i, nd := range b.Nodes {
			as, ok := nd.(*ast.AssignStmt)
			if !ok || len(as.Rhs) != 1 || len(as.Lhs) < 1 {
				continue
			}
			call, ok := as.Rhs[0].(*ast.CallExpr)
			if !ok {
				continue
			}
			if cal := core.Callee(info, call); cal != nil && cal.Name() == "forwardWithFallback" {
				if id, ok := as.Lhs[0].(*ast.Ident); ok {
					resp = info.ObjectOf(id)
					recvPt = &core.Point{B: b, I: i}
				}
			}
		}
	}
	if resp == nil {
		c.R.Unresolved(rule, "dialSend: respMsg, … = c.forwardWithFallback(…)")
		return
	}
	// a question-agreement guard: a condition containing a call that receives the
	// response and whose callee compares the question's name and type; its failing edge only returns errors
	comparesQuestion := func(cal *types.Func) bool {
		for _, rp := range c.P.RepoPkgs() {
			rel := strings.TrimPrefix(strings.TrimPrefix(rp.PkgPath, core.ModPath), "/")
			for _, cf := range c.P.FuncsIn(rel) {
				if cf.Obj == cal {
					s := core.FullStr(cf.Body)
					literalTrue := false
					ast.Inspect(cf.Body, func(m ast.Node) bool {
						if rs, ok := m.(*ast.ReturnStmt); ok && len(rs.Results) == 1 && core.ExprStr(rs.Results[0]) == "true" {
							literalTrue = true // an unconditional "yes" bypasses the comparison
						}
						return true
					})
					return !literalTrue && strings.Contains(s, ".Question") && strings.Contains(s, "Qtype") && strings.Contains(s, ".Name")
				}
			}
		}
		return false
	}
	var guardConds []ast.Node
	for _, cs := range g.Conds(func(e ast.Expr) bool { return true }) {
		usesResp := false
		var callee *types.Func
		ast.Inspect(cs.Cond, func(m ast.Node) bool {
			call, ok := m.(*ast.CallExpr)
			if !ok {
				return true
			}
			for _, a := range call.Args {
				if id, ok := ast.Unparen(a).(*ast.Ident); ok && info.ObjectOf(id) == resp {
					usesResp = true
					callee = core.Callee(info, call)
				}
			}
			return true
		})
		if !usesResp || callee == nil || !comparesQuestion(callee) {
			continue
		}
		// the mismatch edge: the one on which the call's result is false
		pol := true
		if u, ok := ast.Unparen(cs.Cond).(*ast.UnaryExpr); ok && u.Op == token.NOT {
			pol = false
		}
		mismatch := cs.False
		if !pol {
			mismatch = cs.True
		}
		if good, _ := onlyErrorReturns(g, core.Point{B: mismatch, I: 0}, nil); good {
			guardConds = append(guardConds, cs.Cond)
		}
	}
	isGuard := func(n ast.Node) bool {
		for _, gc := range guardConds {
			if n == gc {
				return true
			}
		}
		return false
	}
	uses := func(n ast.Node) bool {
		hit := false
		ownCalls(n, func(call *ast.CallExpr, _ bool) {
			cal := core.Callee(info, call)
			name := ""
			if cal != nil {
				name = cal.Name()
			} else if _, nm, ok := methodCall(call); ok {
				name = nm
			}
			switch name {
			case "ResponseSelect", "NormalizeAndCacheDnsResp_", "WriteMsg", "applyPreferenceWait":
				for _, a := range call.Args {
					if id, ok := ast.Unparen(a).(*ast.Ident); ok && info.ObjectOf(id) == resp {
						hit = true
					}
				}
			case "Pack":
				if recv, _, ok := methodCall(call); ok {
					if id, ok := ast.Unparen(recv).(*ast.Ident); ok && info.ObjectOf(id) == resp {
						hit = true
					}
				}
			}
		})
		return hit
	}
	n := len(g.Find(uses))
	bad, tr, reach := g.ReachesAvoiding(recvPt.After(), isGuard, uses)
	if !reach && n > 0 {
		c.R.Checkf(rule, "response-question-tested-before-use@dialSend", c.pos(recvPt.Node().Pos()), true, "all %d uses of the upstream response (response routing, caching, writing to the client) are behind a test that it carries the asked question, whose mismatch edge only returns errors", n)
	} else if n == 0 {
		c.R.Checkf(rule, "response-question-tested-before-use@dialSend", c.pos(recvPt.Node().Pos()), false, "no use of the upstream response found in dialSend: rule lost its anchors")
	} else {
		c.R.Checkf(rule, "response-question-tested-before-use@dialSend", c.pos(bad.Pos()), false, "the upstream response is used at %s (lines %s) without having been tested to carry the question that was asked: an upstream that answers a different question under the right id gets its answer handed to the client and cached under the asked name and type", c.pos(bad.Pos()), traceStr(c.P, tr))
	}
	c.R.Floor(rule+"/uses", n, 3)
}

// C06 QUICPARAM: the per-version Initial parameters agree with the RFCs
// (reference table: RFC 9001 section 5.2 / RFC 9369 section 3): salt, key/iv/hp
// labels, the client initial secret label (unchanged in v2), and the long
// header packet type that marks an Initial packet (0b00 in v1, 0b01 in v2).
func c06QuicParams(c *Ctx) {
	const rule = "QUICPARAM"
	pk := c.P.Pkg("component/sniffing/internal/quicutils")
	if pk == nil {
		c.R.Unresolved(rule, "component/sniffing/internal/quicutils")
		return
	}
	type ref struct {
		konst, salt, key, iv, hp, secret string
		initialType                      int64
		wire                             uint32
	}
	refs := []ref{
		{"Version_V1", "38762cf7f55934b34d179ae6a4c80cadccbb7f0a", "quic key", "quic iv", "quic hp", "client in", 0, 1},
		{"Version_V2", "0dede3def700a6db819381be6e269dcbf9bd2ed9", "quicv2 key", "quicv2 iv", "quicv2 hp", "client in", 1, 0x6b3343cf},
	}
	// value returned by method m of Version for the constant k (switch on the receiver, fallthrough chains, default)
	retFor := func(m string, k types.Object) ast.Expr {
		f := c.P.Func("component/sniffing/internal/quicutils", "Version."+m)
		if f == nil {
			return nil
		}
		c.R.Saw(f)
		info := f.Info()
		var out, dflt ast.Expr
		sawSwitch := false
		ast.Inspect(f.Body, func(n ast.Node) bool {
			sw, ok := n.(*ast.SwitchStmt)
			if !ok {
				return true
			}
			sawSwitch = true
			take := false
			for _, cl := range sw.Body.List {
				cc := cl.(*ast.CaseClause)
				match := take
				for _, e := range cc.List {
					if usesObj(info, e, k) {
						match = true
					}
				}
				take = false
				var ret ast.Expr
				for _, st := range cc.Body {
					if rs, ok := st.(*ast.ReturnStmt); ok && len(rs.Results) == 1 {
						ret = rs.Results[0]
					}
					if bs, ok := st.(*ast.BranchStmt); ok && bs.Tok == token.FALLTHROUGH && match {
						take = true
					}
				}
				if cc.List == nil {
					dflt = ret
				}
				if match && ret != nil && out == nil {
					out = ret
				}
			}
			return false
		})
		if !sawSwitch {
			// a single unconditional return
			ast.Inspect(f.Body, func(n ast.Node) bool {
				if rs, ok := n.(*ast.ReturnStmt); ok && len(rs.Results) == 1 && out == nil {
					out = rs.Results[0]
				}
				return true
			})
		}
		if out == nil {
			out = dflt
		}
		return out
	}
	bytesOf := func(info *types.Info, e ast.Expr) (string, bool) {
		if e == nil {
			return "", false
		}
		switch x := ast.Unparen(e).(type) {
		case *ast.CallExpr: // []byte("…")
			if len(x.Args) == 1 {
				if tv, ok := info.Types[x.Args[0]]; ok && tv.Value != nil && tv.Value.Kind() == constant.String {
					return constant.StringVal(tv.Value), true
				}
			}
		case *ast.CompositeLit:
			s := ""
			for _, el := range x.Elts {
				tv, ok := info.Types[el]
				if !ok || tv.Value == nil {
					return "", false
				}
				v, _ := constant.Int64Val(tv.Value)
				s += fmt.Sprintf("%02x", v)
			}
			return s, true
		}
		return "", false
	}
	n := 0
	for _, r := range refs {
		k := pk.Types.Scope().Lookup(r.konst)
		if k == nil {
			c.R.Unresolved(rule, "quicutils."+r.konst)
			continue
		}
		for _, it := range []struct{ method, want, what string }{
			{"InitialSalt", r.salt, "initial salt"}, {"KeyLabel", r.key, "key label"}, {"IvLabel", r.iv, "iv label"}, {"HpLabel", r.hp, "header-protection label"}, {"InitialSecretLabel", r.secret, "client initial secret label"},
		} {
			f := c.P.Func("component/sniffing/internal/quicutils", "Version."+it.method)
			if f == nil {
				c.R.Unresolved(rule, "quicutils.Version."+it.method)
				continue
			}
			got, ok := bytesOf(f.Info(), retFor(it.method, k))
			n++
			c.R.Checkf(rule, r.konst+"/"+it.method, c.pos(f.Pos()), ok && got == it.want, "%s of %s is %q (RFC: %q); with another value the Initial keys differ from the client's and the ClientHello of that QUIC version is never recognised", it.what, r.konst, got, it.want)
		}
	}
	// Initial packet type per version at both classification sites
	for _, site := range []string{"IsLikelyQuicInitialPacket", "sniffQuicBlock"} {
		f := c.fn(rule, "component/sniffing", site)
		if f == nil {
			continue
		}
		info := f.Info()
		var rhs ast.Expr
		ast.Inspect(f.Body, func(m ast.Node) bool {
			if be, ok := m.(*ast.BinaryExpr); ok && (be.Op == token.NEQ || be.Op == token.EQL) && strings.Contains(core.ExprStr(be.X), "QuicFlag_LongPacketType") {
				rhs = be.Y
			}
			return true
		})
		if rhs == nil {
			c.R.Unresolved(rule, site+": comparison of the long-header packet type bits")
			continue
		}
		for _, r := range refs {
			n++
			got := int64(-1)
			if tv, ok := info.Types[rhs]; ok && tv.Value != nil {
				got, _ = constant.Int64Val(tv.Value) // the same constant for every version
			} else if call, ok := ast.Unparen(rhs).(*ast.CallExpr); ok {
				if cal := core.Callee(info, call); cal != nil {
					for _, hf := range c.P.FuncsIn("component/sniffing") {
						if hf.Obj != cal {
							continue
						}
						in := map[string]constant.Value{}
						ast.Inspect(hf.Body, func(m ast.Node) bool {
							if cl, ok := m.(*ast.CallExpr); ok {
								if cc := core.Callee(hf.Info(), cl); cc != nil && strings.HasPrefix(cc.Name(), "Uint32") {
									in[core.ExprStr(cl)] = constant.MakeUint64(uint64(r.wire))
								}
							}
							if be, ok := m.(*ast.BinaryExpr); ok && strings.HasPrefix(core.ExprStr(be.X), "len(") {
								switch be.Op {
								case token.GEQ, token.GTR:
									in[core.ExprStr(be)] = constant.MakeBool(true) // the header is long enough
								case token.LSS, token.LEQ:
									in[core.ExprStr(be)] = constant.MakeBool(false)
								}
							}
							return true
						})
						outs := (&fdt.Job{F: hf, Start: hf.Graph().Entry(), Inputs: in}).Run()
						if len(outs) == 1 && len(outs[0].Vals) == 1 {
							if v, err := parseInt(outs[0].Vals[0]); err == nil {
								got = v
							}
						}
					}
				}
			}
			c.R.Checkf(rule, r.konst+"/initial-packet-type@"+site, c.pos(rhs.Pos()), got == r.initialType, "%s treats long-header packet type %d as Initial for %s; the RFC value is %d (QUIC v2 renumbers the long packet types, RFC 9369 section 3.2)", site, got, r.konst, r.initialType)
		}
	}
	c.R.Floor(rule, n, 14)
}

func parseInt(s string) (int64, error) {
	var v int64
	_, err := fmt.Sscanf(s, "%d", &v)
	return v, err
}

// C09 ONLYCLOSENOW: the forwarder held by a cachedDnsForwarder is closed only
// inside closeNow (its once-guard, reached through retire/endUse/beginUse).  A
// direct Close of entry.forwarder bypasses the retired flag and the in-flight
// count: a query that already holds the entry keeps using a closed forwarder.
func c09OnlyCloseNow(c *Ctx) {
	const rule = "LIFECYCLE"
	n := 0
	for _, f := range c.P.FuncsIn("control") {
		if f.Decl == nil {
			continue
		}
		info := f.Info()
		tainted := map[types.Object]string{}
		isFwdField := func(e ast.Expr) bool { return core.FieldOf(info, e) == "cachedDnsForwarder.forwarder" }
		for changed := true; changed; {
			changed = false
			mark := func(id *ast.Ident, why string) {
				if o := info.ObjectOf(id); o != nil {
					if _, ok := tainted[o]; !ok {
						tainted[o] = why
						changed = true
					}
				}
			}
			fromTainted := func(e ast.Expr) (string, bool) {
				why, hit := "", false
				ast.Inspect(e, func(m ast.Node) bool {
					switch x := m.(type) {
					case *ast.SelectorExpr:
						if isFwdField(x) {
							why, hit = core.ExprStr(x), true
						}
					case *ast.Ident:
						if w, ok := tainted[info.ObjectOf(x)]; ok {
							why, hit = w, true
						}
					}
					return true
				})
				return why, hit
			}
			ast.Inspect(f.Body, func(m ast.Node) bool {
				switch x := m.(type) {
				case *ast.AssignStmt:
					if len(x.Lhs) == len(x.Rhs) {
						for i, l := range x.Lhs {
							if id, ok := l.(*ast.Ident); ok {
								if w, hit := fromTainted(x.Rhs[i]); hit {
									mark(id, w)
								}
							}
						}
					}
				case *ast.RangeStmt:
					if id, ok := x.Value.(*ast.Ident); ok && x.Value != nil {
						if w, hit := fromTainted(x.X); hit {
							mark(id, w)
						}
					}
				}
				return true
			})
		}
		core.EachCall(f.Body, core.Deep, func(call *ast.CallExpr) {
			recv, name, ok := methodCall(call)
			if !ok || name != "Close" {
				return
			}
			why := ""
			if isFwdField(recv) {
				why = core.ExprStr(recv)
			} else if id, isId := ast.Unparen(recv).(*ast.Ident); isId {
				why = tainted[info.ObjectOf(id)]
			}
			if why == "" {
				return
			}
			n++
			c.R.Saw(f)
			inCloseNow := strings.HasSuffix(f.Name, "cachedDnsForwarder.closeNow")
			c.R.Checkf(rule, "entry-forwarder-closed-only-in-closeNow@"+strings.TrimPrefix(f.Name, "control."), c.pos(call.Pos()), inCloseNow,
				"%s closes %s (the forwarder of a cached entry): outside closeNow's once-guard this bypasses the retired flag and the in-flight count, so a query that already holds the entry begins use of a closed forwarder and the forwarder is closed before its last in-flight query", strings.TrimPrefix(f.Name, "control."), why)
		})
	}
	c.R.Floor(rule+"/entry-forwarder-close-sites", n, 1)
}

// C06 NEEDMORE: the packet sniffer asks its caller to hold the flow for more
// datagrams only when more datagrams can change the outcome.  extractSniFromTls
// returns ErrNotFound exactly when it walked a complete extension block that
// has no server name; on that edge SniffQuic must not set needMore (the control
// plane withholds every datagram of a flow whose sniffer says NeedMore).
func c06NeedMore(c *Ctx) {
	const rule = "NEEDMORE"
	f := c.fn(rule, "component/sniffing", "Sniffer.SniffQuic")
	if f == nil {
		return
	}
	info := f.Info()
	g := f.Graph()
	notFound := c.P.Pkg("component/sniffing").Types.Scope().Lookup("ErrNotFound")
	n := 0
	for _, b := range g.CFG.Blocks {
		if !b.Live {
			continue
		}
		for i, nd := range b.Nodes {
			as, ok := nd.(*ast.AssignStmt)
			if !ok || len(as.Lhs) != 1 || len(as.Rhs) != 1 || core.FieldOf(info, as.Lhs[0]) != "Sniffer.needMore" || core.ExprStr(as.Rhs[0]) != "true" {
				continue
			}
			n++
			excluded := false
			for _, gd := range g.Guards(core.Point{B: b, I: i}) {
				for _, at := range core.Atoms(gd.Cond, gd.Polarity) {
					isNF, eq := false, true
					switch x := ast.Unparen(at.Cond).(type) {
					case *ast.CallExpr:
						if cal := core.Callee(info, x); cal != nil && cal.Pkg() != nil && cal.Pkg().Path() == "errors" && cal.Name() == "Is" && len(x.Args) == 2 && usesObj(info, x.Args[1], notFound) {
							isNF = true
						}
					case *ast.BinaryExpr:
						if (x.Op == token.EQL || x.Op == token.NEQ) && usesObj(info, x.Y, notFound) {
							isNF, eq = true, x.Op == token.EQL
						}
					}
					if isNF && at.Polarity != eq {
						excluded = true // on this path the error is known not to be ErrNotFound
					}
				}
			}
			c.R.Checkf(rule, "needMore-not-set-for-a-definitive-not-found@SniffQuic", c.pos(as.Pos()), excluded,
				"needMore is set only on paths where the ClientHello parser's error is not ErrNotFound (ErrNotFound = a complete extension block without a server name, e.g. HTTP/3 to an IP literal): asking for more there makes the control plane withhold every datagram of the flow although nothing further can be learnt")
		}
	}
	c.R.Floor(rule, n, 1)
}
