package props

import (
	"go/ast"
	"go/token"
	"go/types"
	"sort"
	"strings"

	"daecheck/internal/core"

	"golang.org/x/tools/go/cfg"
)

func init() {
	register(&Checker{ID: "C17", Run: runC17, Explain: "Structural necessary conditions of 'configuration parsing and building never crash / unknown is an error / include hygiene', decided on the type-checked source: " +
		"(1) BARRIER: config_parser.Parse walks the ANTLR tree only after the syntax-error test returned (the walker's positional indexes, single-value type assertions and explicit panics assume a grammatical tree; without the barrier each of them is reported); " +
		"(2) NILRET: for every helper in pkg/config_parser and config that returns a literal nil pointer on some path, every call site tests the result before dereferencing it (Engler's contradiction rule, the callee's own returns are the belief source); " +
		"(3) CAPACITY: every DomainMatcher.AddSet used by the build pipelines bounds-checks its match-set index before indexing its per-set slices and records an error; LPM ring reservation rejects counts above the limit; " +
		"(4) UNKNOWN: key/section lookups that miss, unsupported item types and missing required keys all flow to a non-nil error return; (5) INCLUDE: every file read is dominated by the circular-include, .dae-suffix, directory-containment tests, content is read only after the permission test, includes are merged after the including file in listed order; " +
		"(6) PANICSET: the set of explicit panic() sites reachable (CHA call graph) from the configuration entry points equals the reviewed set. " +
		"(7) QUOTE: getValueFromLiteral folded over the finite table delimiter x edge-character class: a quoted value is the token text minus its two delimiters, a bare value the token text; (8) CONTAIN: EnsureFileInSubDir folded over the escaping relations (\"..\", \"../x\", …): every path returns an error. " +
		"Not decided: the ANTLR grammar/runtime itself, reflection panics inside config.New beyond the listed sources, one-to-one order fidelity of the whole tree."})
}

func runC17(c *Ctx) {
	c17Barrier(c)
	c17NilRet(c)
	c17Capacity(c)
	c17Unknown(c)
	c17Include(c)
	c17PanicSet(c)
	c17Quote(c)
	c17Contain(c)
	c17MergeSites(c)
	c17ReflectElem(c)
	c17RequiredCheckedOnEverySuccess(c, "UNKNOWN")
	c17IncludeOrderKept(c, "INCLUDE")
}

// onlyErrorReturns: every normal exit reachable from start is a return whose
// last result is not the nil literal, and no node satisfying forbid is reached.
func onlyErrorReturns(g *core.Graph, start core.Point, forbid func(ast.Node) bool) (bool, token.Pos) {
	ok := true
	var bad token.Pos
	w := &core.Walker{G: g,
		Visit: func(n ast.Node) core.Verdict {
			if forbid != nil && forbid(n) {
				ok = false
				bad = n.Pos()
				return core.Stop
			}
			return core.Go
		},
		OnExit: func(b *cfg.Block, tr []token.Pos) {
			if len(b.Nodes) == 0 {
				ok = false
				bad = g.F.Body.Rbrace
				return
			}
			rs, isRet := b.Nodes[len(b.Nodes)-1].(*ast.ReturnStmt)
			if !isRet || len(rs.Results) == 0 {
				// naked return with named results, or falling off: accept naked return only if
				// the function has a named error result assigned on the path (not tracked) => reject
				ok = false
				bad = b.Nodes[len(b.Nodes)-1].Pos()
				return
			}
			last := rs.Results[len(rs.Results)-1]
			if core.ExprStr(last) == "nil" {
				ok = false
				bad = rs.Pos()
			}
		}}
	w.Run(start)
	return ok, bad
}

func c17Barrier(c *Ctx) {
	const rule = "BARRIER"
	f := c.fn(rule, "pkg/config_parser", "Parse")
	if f == nil {
		return
	}
	info := f.Info()
	g := f.Graph()
	isWalk := func(n ast.Node) bool {
		found := false
		ownCalls(n, func(call *ast.CallExpr, _ bool) {
			if cal := core.Callee(info, call); cal != nil && cal.Name() == "Walk" && cal.Pkg() != nil && strings.Contains(cal.Pkg().Path(), "antlr") {
				found = true
			}
		})
		return found
	}
	walks := g.Find(isWalk)
	if len(walks) != 1 {
		c.R.Checkf(rule, "walk-site", c.pos(f.Pos()), false, "expected one ParseTreeWalker.Walk call in Parse, found %d", len(walks))
		return
	}
	// a syntax-error test: condition over errorListener…Len() whose true edge only returns errors
	barrier := false
	var barrierPos token.Pos
	for _, cs := range g.Conds(func(e ast.Expr) bool { return strings.Contains(core.ExprStr(e), "ErrorBuilder.Len()") }) {
		be, ok := cs.Cond.(*ast.BinaryExpr)
		if !ok || be.Op != token.NEQ {
			continue
		}
		okErr, _ := onlyErrorReturns(g, core.Point{B: cs.True, I: 0}, isWalk)
		if !okErr {
			continue
		}
		// does it dominate the walk?  (walk unreachable from entry when this condition node is removed)
		cond := cs.Cond
		_, _, reach := g.ReachesAvoiding(g.Entry(), func(n ast.Node) bool { return n == ast.Node(cond) }, isWalk)
		if !reach {
			barrier = true
			barrierPos = cs.Cond.Pos()
		}
	}
	// the walker's assumption sites
	type src struct {
		kind, fn, pos string
	}
	var srcs []src
	for _, wf := range c.P.FuncsIn("pkg/config_parser") {
		if !strings.HasSuffix(wf.File(), "walker.go") {
			continue
		}
		c.R.Saw(wf)
		winfo := wf.Info()
		wg := wf.Graph()
		// single-value type assertions
		ast.Inspect(wf.Body, func(m ast.Node) bool {
			switch x := m.(type) {
			case *ast.AssignStmt:
				if len(x.Lhs) == 2 && len(x.Rhs) == 1 {
					if _, ok := x.Rhs[0].(*ast.TypeAssertExpr); ok {
						return false // comma-ok form
					}
				}
			case *ast.TypeSwitchStmt:
				// the guard of a type switch is not a failing assertion
				ast.Inspect(x.Body, func(k ast.Node) bool { return true })
				// still visit the body for nested assertions
				for _, st := range x.Body.List {
					ast.Inspect(st, func(k ast.Node) bool {
						if ta, ok := k.(*ast.TypeAssertExpr); ok && ta.Type != nil {
							srcs = append(srcs, src{"type-assertion", wf.Name, c.pos(ta.Pos())})
						}
						return true
					})
				}
				return false
			case *ast.TypeAssertExpr:
				if x.Type != nil {
					srcs = append(srcs, src{"type-assertion", wf.Name, c.pos(x.Pos())})
				}
			case *ast.CallExpr:
				if id, ok := x.Fun.(*ast.Ident); ok && id.Name == "panic" {
					if _, isB := winfo.Uses[id].(*types.Builtin); isB {
						srcs = append(srcs, src{"explicit-panic", wf.Name, c.pos(x.Pos())})
					}
				}
			}
			return true
		})
		// positional child indexes not dominated by a length test of the same slice
		for _, b := range wg.CFG.Blocks {
			if !b.Live {
				continue
			}
			for i, n := range b.Nodes {
				ast.Inspect(n, func(m ast.Node) bool {
					if _, isLit := m.(*ast.FuncLit); isLit {
						return false
					}
					ix, ok := m.(*ast.IndexExpr)
					if !ok {
						return true
					}
					if _, isSlice := winfo.TypeOf(ix.X).Underlying().(*types.Slice); !isSlice {
						return true
					}
					name := core.ExprStr(ix.X)
					guarded := false
					for _, gd := range wg.Guards(core.Point{B: b, I: i}) {
						if strings.Contains(core.ExprStr(gd.Cond), "len("+name+")") {
							guarded = true
						}
					}
					if !guarded {
						srcs = append(srcs, src{"unguarded-index " + core.ExprStr(ix), wf.Name, c.pos(ix.Pos())})
					}
					return true
				})
			}
		}
	}
	sort.Slice(srcs, func(i, j int) bool { return srcs[i].pos < srcs[j].pos })
	c.R.Extra["walker_assumption_sites"] = len(srcs)
	if barrier {
		c.R.Checkf(rule, "syntax-error-test-dominates-walk", c.pos(barrierPos), true,
			"Walk is dominated by the syntax-error test whose true edge only returns errors; %d walker sites (type assertions, positional indexes, explicit panics) therefore only see grammatical trees", len(srcs))
		samples := []string{}
		for i, s := range srcs {
			if i < 8 {
				samples = append(samples, s.kind+"@"+s.pos)
			}
		}
		c.R.Note("walker assumption sites discharged by the barrier (first 8): %s", strings.Join(samples, "; "))
	} else {
		c.R.Checkf(rule, "syntax-error-test-dominates-walk", c.pos(walks[0].Node().Pos()), false,
			"ParseTreeWalker.Walk at %s is reachable without passing a syntax-error test that returns: the walker then runs over ANTLR's error-recovered tree, where its %d assumption sites can crash (e.g. %s)", c.pos(walks[0].Node().Pos()), len(srcs), func() string {
				if len(srcs) > 0 {
					return srcs[0].kind + " at " + srcs[0].pos
				}
				return "-"
			}())
	}
	c.R.Floor(rule+"/assumption-sites", len(srcs), 20)
}

// ---- NILRET ---------------------------------------------------------------

func c17NilRet(c *Ctx) {
	const rule = "NILRET"
	// callee set: functions whose single result is a pointer and that `return nil` somewhere
	nilRet := map[*types.Func]*core.Func{}
	for _, rel := range []string{"pkg/config_parser", "config"} {
		for _, f := range c.P.FuncsIn(rel) {
			if f.Obj == nil {
				continue
			}
			sig := f.Obj.Type().(*types.Signature)
			if sig.Results().Len() != 1 {
				continue
			}
			if _, isPtr := sig.Results().At(0).Type().Underlying().(*types.Pointer); !isPtr {
				continue
			}
			has := false
			ast.Inspect(f.Body, func(m ast.Node) bool {
				if _, isLit := m.(*ast.FuncLit); isLit {
					return false
				}
				if rs, ok := m.(*ast.ReturnStmt); ok && len(rs.Results) == 1 && core.ExprStr(rs.Results[0]) == "nil" {
					has = true
				}
				return true
			})
			if has {
				nilRet[f.Obj] = f
			}
		}
	}
	helpers := len(nilRet)
	sites := 0
	for _, rel := range []string{"pkg/config_parser", "config"} {
		for _, f := range c.P.FuncsIn(rel) {
			info := f.Info()
			g := f.Graph()
			for _, b := range g.CFG.Blocks {
				if !b.Live {
					continue
				}
				for i, n := range b.Nodes {
					// direct deref of a call result
					ast.Inspect(n, func(m ast.Node) bool {
						if _, isLit := m.(*ast.FuncLit); isLit {
							return false
						}
						var inner ast.Expr
						switch x := m.(type) {
						case *ast.StarExpr:
							inner = x.X
						case *ast.SelectorExpr:
							inner = x.X
						}
						if call, ok := inner.(*ast.CallExpr); ok {
							if cal := core.Callee(info, call); cal != nil && nilRet[cal] != nil {
								if se, isSel := m.(*ast.SelectorExpr); isSel {
									if _, isMethod := info.Uses[se.Sel].(*types.Func); isMethod {
										return true // method call on result: the method may handle nil
									}
								}
								sites++
								c.R.Checkf(rule, "deref@"+f.Name+"/"+cal.Name(), c.pos(m.Pos()), false, "result of %s (which returns nil on some path, e.g. after reporting an error) is dereferenced directly", cal.Name())
							}
						}
						return true
					})
					as, ok := n.(*ast.AssignStmt)
					if !ok || len(as.Rhs) != 1 || len(as.Lhs) != 1 {
						continue
					}
					call, ok := as.Rhs[0].(*ast.CallExpr)
					if !ok {
						continue
					}
					cal := core.Callee(info, call)
					if cal == nil || nilRet[cal] == nil {
						continue
					}
					id, ok := as.Lhs[0].(*ast.Ident)
					if !ok {
						continue
					}
					obj := info.ObjectOf(id)
					sites++
					c.R.Saw(f)
					derefs := func(nd ast.Node) bool {
						found := false
						ast.Inspect(nd, func(m ast.Node) bool {
							if _, isLit := m.(*ast.FuncLit); isLit {
								return false
							}
							switch x := m.(type) {
							case *ast.StarExpr:
								if xi, ok := ast.Unparen(x.X).(*ast.Ident); ok && info.ObjectOf(xi) == obj {
									found = true
								}
							case *ast.SelectorExpr:
								if xi, ok := ast.Unparen(x.X).(*ast.Ident); ok && info.ObjectOf(xi) == obj {
									if _, isField := info.Selections[x]; isField && info.Selections[x].Kind() == types.FieldVal {
										found = true
									}
								}
							}
							return true
						})
						return found
					}
					reassigned := func(nd ast.Node) bool {
						if a2, ok := nd.(*ast.AssignStmt); ok && nd != ast.Node(as) {
							for _, l := range a2.Lhs {
								if li, ok := l.(*ast.Ident); ok && info.ObjectOf(li) == obj {
									return true
								}
							}
						}
						return false
					}
					var hit ast.Node
					var trace []token.Pos
					w := &core.Walker{G: g,
						Visit: func(nd ast.Node) core.Verdict {
							if hit != nil {
								return core.Stop
							}
							if derefs(nd) {
								return core.Hit
							}
							if reassigned(nd) {
								return core.Stop
							}
							return core.Go
						},
						Edge: func(from *cfg.Block, si int) bool {
							cond, _, _, ok := g.Cond(from)
							if !ok {
								return true
							}
							for _, at := range core.Atoms(cond, si == 0) {
								be, ok := at.Cond.(*ast.BinaryExpr)
								if !ok || core.ExprStr(be.Y) != "nil" {
									continue
								}
								xi, ok := ast.Unparen(be.X).(*ast.Ident)
								if !ok || info.ObjectOf(xi) != obj {
									continue
								}
								nonNil := (be.Op == token.NEQ && at.Polarity) || (be.Op == token.EQL && !at.Polarity)
								if nonNil {
									return false // on this edge the result is known non-nil: protected
								}
							}
							return true
						},
						OnHit: func(nd ast.Node, tr []token.Pos) {
							if hit == nil {
								hit, trace = nd, tr
							}
						}}
					w.Run(core.Point{B: b, I: i}.After())
					construct := "nil-checked@" + f.Name + "/" + id.Name + "=" + cal.Name()
					if hit == nil {
						c.R.Checkf(rule, construct, c.pos(as.Pos()), true, "%s may return nil; every dereference of %s is on a path that tested it against nil", cal.Name(), id.Name)
					} else {
						c.R.Checkf(rule, construct, c.pos(hit.Pos()), false, "%s returns nil on some path (its error convention) and its siblings' callers test for that; here %s is dereferenced at %s (path lines %s) without a nil test", cal.Name(), id.Name, c.pos(hit.Pos()), traceStr(c.P, trace))
					}
				}
			}
		}
	}
	c.R.Floor(rule+"/helpers", helpers, 4)
	c.R.Floor(rule+"/call-sites", sites, 5)
}

// ---- CAPACITY --------------------------------------------------------------

func c17Capacity(c *Ctx) {
	const rule = "CAPACITY"
	pk := c.P.Pkg("component/routing")
	dm := lookupIface(pk.Types, "DomainMatcher")
	if dm == nil {
		c.R.Unresolved(rule, "routing.DomainMatcher")
		return
	}
	// which implementations are constructed by non-test code?
	used := map[string]bool{}
	for _, rp := range c.P.RepoPkgs() {
		rel := strings.TrimPrefix(strings.TrimPrefix(rp.PkgPath, core.ModPath), "/")
		for _, f := range c.P.FuncsIn(rel) {
			core.EachCall(f.Body, core.Deep, func(call *ast.CallExpr) {
				cal := core.Callee(f.Info(), call)
				if cal == nil || cal.Pkg() == nil || !strings.HasSuffix(cal.Pkg().Path(), "domain_matcher") {
					return
				}
				sig := cal.Type().(*types.Signature)
				if sig.Results().Len() == 1 {
					if n := namedOf(sig.Results().At(0).Type()); n != nil {
						used[n.Obj().Name()] = true
					}
				}
			})
		}
	}
	dmp := c.P.Pkg("component/routing/domain_matcher")
	n := 0
	for _, name := range dmp.Types.Scope().Names() {
		tn, ok := dmp.Types.Scope().Lookup(name).(*types.TypeName)
		if !ok || !types.Implements(types.NewPointer(tn.Type()), dm) {
			continue
		}
		if !used[name] {
			c.R.Note("DomainMatcher implementation %s is not constructed by non-test code; its AddSet is outside the build pipelines", name)
			continue
		}
		f := c.fn(rule, "component/routing/domain_matcher", name+".AddSet")
		if f == nil {
			continue
		}
		info := f.Info()
		g := f.Graph()
		idxParam := info.ObjectOf(f.Decl.Type.Params.List[0].Names[0])
		var recvObj types.Object
		if len(f.Decl.Recv.List[0].Names) > 0 {
			recvObj = info.ObjectOf(f.Decl.Recv.List[0].Names[0])
		}
		uses := 0
		bad := 0
		var badPos token.Pos
		for _, b := range g.CFG.Blocks {
			if !b.Live {
				continue
			}
			for i, nd := range b.Nodes {
				ast.Inspect(nd, func(m ast.Node) bool {
					ix, ok := m.(*ast.IndexExpr)
					if !ok {
						return true
					}
					id, ok := ast.Unparen(ix.Index).(*ast.Ident)
					if !ok || info.ObjectOf(id) != idxParam || core.RootObj(info, ix.X) != recvObj {
						return true
					}
					uses++
					guarded := false
					for _, gd := range g.Guards(core.Point{B: b, I: i}) {
						s := core.ExprStr(gd.Cond)
						be, isBin := gd.Cond.(*ast.BinaryExpr)
						if !isBin || !strings.Contains(s, id.Name) {
							continue
						}
						// upper bound: !(idx >= len(x)) or idx < len(x)
						upper := (be.Op == token.GEQ && !gd.Polarity) || (be.Op == token.LSS && gd.Polarity)
						if upper && core.ExprStr(be.X) == id.Name && strings.HasPrefix(core.ExprStr(be.Y), "len(") {
							guarded = true
						}
					}
					if !guarded {
						bad++
						if badPos == token.NoPos {
							badPos = ix.Pos()
						}
					}
					return true
				})
			}
		}
		n++
		if bad == 0 && uses > 0 {
			c.R.Checkf(rule, "index-bounded@"+name+".AddSet", c.pos(f.Pos()), true, "all %d uses of the match-set index into per-set slices are dominated by an upper-bound test against the slice length", uses)
		} else {
			c.R.Checkf(rule, "index-bounded@"+name+".AddSet", c.pos(badPos), false, "%d of %d uses of %s to index the matcher's fixed-capacity per-set slices are not dominated by a bound test: a rule program with a domain condition beyond the match-set limit crashes the build (index out of range) instead of being rejected", bad, uses, idxParam.Name())
		}
	}
	c.R.Floor(rule+"/matchers", n, 1)
	// ring reservation rejects too many tries
	if f := c.fn(rule, "control", "reserveLpmRingSlots"); f != nil {
		g := f.Graph()
		ok := false
		for _, cs := range g.Conds(func(e ast.Expr) bool {
			be, isB := e.(*ast.BinaryExpr)
			if !isB {
				return false
			}
			_, op, _, isCmp := core.Oriented(be, func(x ast.Expr) bool { return strings.Contains(core.ExprStr(x), "count") })
			return isCmp && (op == token.GTR || op == token.GEQ)
		}) {
			if good, _ := onlyErrorReturns(g, core.Point{B: cs.True, I: 0}, nil); good {
				ok = true
			}
		}
		c.R.Checkf(rule, "lpm-count-bounded@reserveLpmRingSlots", c.pos(f.Pos()), ok, "reserveLpmRingSlots returns an error when the requested trie count exceeds the ring size")
	}
}

// ---- UNKNOWN ---------------------------------------------------------------

func c17Unknown(c *Ctx) {
	const rule = "UNKNOWN"
	n := 0
	for _, fname := range []string{"ParamParser", "SectionParser", "StringListParser"} {
		f := c.fn(rule, "config", fname)
		if f == nil {
			continue
		}
		info := f.Info()
		g := f.Graph()
		// comma-ok map lookups: the miss edge only returns errors
		for _, b := range g.CFG.Blocks {
			if !b.Live {
				continue
			}
			for _, nd := range b.Nodes {
				as, ok := nd.(*ast.AssignStmt)
				if !ok || len(as.Lhs) != 2 || len(as.Rhs) != 1 {
					continue
				}
				ix, ok := as.Rhs[0].(*ast.IndexExpr)
				if !ok {
					continue
				}
				if _, isMap := info.TypeOf(ix.X).Underlying().(*types.Map); !isMap {
					continue
				}
				okId, isId := as.Lhs[1].(*ast.Ident)
				if !isId || core.ExprStr(ix.X) != "keyToField" {
					continue
				}
				okObj := info.ObjectOf(okId)
				found := false
				for _, cs := range g.Conds(func(e ast.Expr) bool {
					u, ok := ast.Unparen(e).(*ast.UnaryExpr)
					if !ok || u.Op != token.NOT {
						return false
					}
					xi, ok := u.X.(*ast.Ident)
					return ok && info.ObjectOf(xi) == okObj
				}) {
					found = true
					n++
					good, bad := onlyErrorReturns(g, core.Point{B: cs.True, I: 0}, nil)
					c.R.Checkf(rule, "unknown-key-is-error@"+fname+"/"+core.ExprStr(ix.Index), c.pos(cs.Cond.Pos()), good, "a key/section name that the target struct does not declare only leads to error returns%s", func() string {
						if !good {
							return " — non-error exit at " + c.pos(bad)
						}
						return ""
					}())
				}
				if !found {
					n++
					c.R.Checkf(rule, "unknown-key-is-error@"+fname+"/"+core.ExprStr(ix.Index), c.pos(as.Pos()), false, "lookup miss of %s is not tested", core.ExprStr(ix))
				}
			}
		}
		// type switches over item values: default clause only returns errors (or is the ignore-set idiom)
		ast.Inspect(f.Body, func(m ast.Node) bool {
			ts, ok := m.(*ast.TypeSwitchStmt)
			if !ok {
				return true
			}
			hasDefault := false
			for _, cl := range ts.Body.List {
				cc := cl.(*ast.CaseClause)
				if cc.List != nil {
					continue
				}
				hasDefault = true
				n++
				// find the block of the default body
				good := false
				var bad token.Pos
				for _, b := range g.CFG.Blocks {
					if b.Live && len(b.Nodes) > 0 && len(cc.Body) > 0 && b.Nodes[0].Pos() == firstNodePos(cc.Body[0]) {
						good, bad = onlyErrorReturns(g, core.Point{B: b, I: 0}, nil)
						if !good {
							// ignore-set idiom: `if _, ignore := set[T]; !ignore { return err }`
							var ifs []*ast.IfStmt
							plain := true
							for _, st := range cc.Body {
								switch x := st.(type) {
								case *ast.IfStmt:
									ifs = append(ifs, x)
								case *ast.ExprStmt, *ast.AssignStmt, *ast.DeclStmt, *ast.IncDecStmt:
								default:
									plain = false
								}
							}
							if len(ifs) == 1 && plain {
								is := ifs[0]
								var rets []*ast.ReturnStmt
								for _, st := range is.Body.List {
									if rs, ok := st.(*ast.ReturnStmt); ok {
										rets = append(rets, rs)
									}
								}
								if strings.Contains(core.ExprStr(is.Cond), "ignore") && is.Else == nil && len(rets) == 1 && len(rets[0].Results) == 1 && core.ExprStr(rets[0].Results[0]) != "nil" && is.Body.List[len(is.Body.List)-1] == ast.Stmt(rets[0]) {
									good = true
								}
							}
						}
					}
				}
				c.R.Checkf(rule, "unsupported-item-is-error@"+fname+"/"+lineKeyless(ts, info), c.pos(cc.Pos()), good, "the default clause of the item type switch only returns errors%s", func() string {
					if !good {
						return " — non-error exit at " + c.pos(bad)
					}
					return ""
				}())
			}
			if !hasDefault {
				n++
				c.R.Checkf(rule, "unsupported-item-is-error@"+fname+"/"+lineKeyless(ts, info), c.pos(ts.Pos()), false, "item type switch has no default clause: unsupported items are silently ignored")
			}
			return true
		})
	}
	// required keys
	if f := c.fn(rule, "config", "ParamParser"); f != nil {
		g := f.Graph()
		ok := false
		for _, cs := range g.Conds(func(e ast.Expr) bool { return core.ExprStr(e) == "required" }) {
			if good, _ := onlyErrorReturns(g, core.Point{B: cs.True, I: 0}, nil); good {
				ok = true
			}
		}
		n++
		c.R.Checkf(rule, "missing-required-is-error@ParamParser", c.pos(f.Pos()), ok, "an unset field tagged `required` only leads to an error return")
	}
	c.R.Floor(rule, n, 6)
}

// firstNodePos: position of the first CFG node a statement contributes.
func firstNodePos(st ast.Stmt) token.Pos {
	switch x := st.(type) {
	case *ast.IfStmt:
		if x.Init != nil {
			return x.Init.Pos()
		}
		return x.Cond.Pos()
	case *ast.SwitchStmt:
		if x.Init != nil {
			return x.Init.Pos()
		}
		if x.Tag != nil {
			return x.Tag.Pos()
		}
	case *ast.LabeledStmt:
		return firstNodePos(x.Stmt)
	case *ast.ForStmt:
		if x.Init != nil {
			return x.Init.Pos()
		}
		if x.Cond != nil {
			return x.Cond.Pos()
		}
	case *ast.RangeStmt:
		return x.X.Pos()
	}
	return st.Pos()
}

func nodeWithin(n ast.Node, outer ast.Node) bool {
	return n.Pos() >= outer.Pos() && n.End() <= outer.End()
}

func lineKeyless(ts *ast.TypeSwitchStmt, info *types.Info) string {
	var e ast.Expr
	switch a := ts.Assign.(type) {
	case *ast.AssignStmt:
		e = a.Rhs[0]
	case *ast.ExprStmt:
		e = a.X
	}
	if ta, ok := e.(*ast.TypeAssertExpr); ok {
		return core.ExprStr(ta.X)
	}
	return "?"
}

// ---- INCLUDE ----------------------------------------------------------------

func c17Include(c *Ctx) {
	const rule = "INCLUDE"
	f := c.fn(rule, "config", "Merger.readEntry")
	if f == nil {
		return
	}
	info := f.Info()
	g := f.Graph()
	open := nodeCalls(info, "os.Open", "os.ReadFile", "os.OpenFile")
	read := nodeCalls(info, "io.ReadAll", "os.ReadFile", "pkg/config_parser.Parse")
	// each guard is a condition whose diverting edge only returns errors
	type guard struct {
		name string
		pred func(ast.Expr) bool
		pol  bool // edge that must return an error
		tgt  func(ast.Node) bool
		what string
	}
	guards := []guard{
		{"circular", func(e ast.Expr) bool { return core.ExprStr(e) == "exist" }, true, open, "file open"},
		{"dae-suffix", func(e ast.Expr) bool {
			return core.ExprStr(e) == "strings.HasSuffix(entry, \".dae\")"
		}, false, open, "file open"},
		{"in-entry-dir", func(e ast.Expr) bool { return strings.Contains(core.ExprStr(e), "err") && true }, true, open, "file open"},
		{"permissions", func(e ast.Expr) bool {
			return strings.Contains(core.ExprStr(e), "Mode()") && strings.Contains(core.ExprStr(e), "> 0")
		}, true, read, "content read/parse"},
		{"not-a-directory", func(e ast.Expr) bool { return strings.Contains(core.ExprStr(e), "IsDir()") }, true, read, "content read/parse"},
	}
	for _, gd := range guards {
		if gd.name == "in-entry-dir" {
			// call to EnsureFileInSubDir with the merger's entry dir dominates open; its error edge returns
			c.dominated(rule, "in-entry-dir@readEntry", f, open, nodeCalls(info, "common.EnsureFileInSubDir"), "file open", "common.EnsureFileInSubDir(entry, entryDir)")
			for _, p := range g.Find(nodeCalls(info, "common.EnsureFileInSubDir")) {
				cond, t, _, ok := g.Cond(p.B)
				good := false
				if ok && strings.Contains(core.ExprStr(cond), "err != nil") {
					good, _ = onlyErrorReturns(g, core.Point{B: t, I: 0}, open)
				}
				arg2 := ""
				ownCalls(p.Node(), func(call *ast.CallExpr, _ bool) {
					if cal := core.Callee(info, call); cal != nil && cal.Name() == "EnsureFileInSubDir" && len(call.Args) == 2 {
						arg2 = core.ExprStr(call.Args[1])
					}
				})
				c.R.Checkf(rule, "in-entry-dir-error-returns@readEntry", c.pos(p.Node().Pos()), good && strings.HasSuffix(arg2, ".entryDir"), "a containment failure against %s only returns errors, before any open", arg2)
			}
			continue
		}
		// find the condition block containing the atom, and the edge on which the atom has its failing polarity
		var edgeB *cfg.Block
		var condNode ast.Node
		for _, b := range g.CFG.Blocks {
			cnd, t, fl, ok := g.Cond(b)
			if !ok || !b.Live {
				continue
			}
			for pi, pol := range []bool{true, false} {
				for _, at := range core.Atoms(cnd, pol) {
					if gd.pred(at.Cond) && at.Polarity == gd.pol && edgeB == nil {
						condNode = cnd
						if pi == 0 {
							edgeB = t
						} else {
							edgeB = fl
						}
					}
				}
			}
		}
		if edgeB == nil {
			c.R.Checkf(rule, gd.name+"@readEntry", c.pos(f.Pos()), false, "no %s test found in readEntry", gd.name)
			continue
		}
		good, bad := onlyErrorReturns(g, core.Point{B: edgeB, I: 0}, gd.tgt)
		_, _, reach := g.ReachesAvoiding(g.Entry(), func(n ast.Node) bool { return n == condNode }, gd.tgt)
		c.R.Checkf(rule, gd.name+"@readEntry", c.pos(condNode.Pos()), good && !reach, "the %s test dominates every %s and its failing edge only returns errors%s", gd.name, gd.what, func() string {
			if !good {
				return " — but the failing edge reaches " + c.pos(bad)
			}
			if reach {
				return " — but a path bypasses the test"
			}
			return ""
		}())
	}
	// registration of the visited entry happens only after a successful parse (so a failed file is not "visited")
	// dfsMerge: own file first, then children in listed order, recursion passes the current entry as father
	if d := c.fn(rule, "config", "Merger.dfsMerge"); d != nil {
		di := d.Info()
		dg := d.Graph()
		c.dominated(rule, "including-file-first@dfsMerge", d, nodeCalls(di, "config.Merger.dfsMerge", "config.unsqueezeEntries"), nodeCalls(di, "config.Merger.readEntry"), "child expansion / recursion", "readEntry of the including file")
		// the recursion happens inside a range over the unsqueezed list, in order, with early return on error
		okOrder := false
		ast.Inspect(d.Body, func(m ast.Node) bool {
			rs, ok := m.(*ast.RangeStmt)
			if !ok {
				return true
			}
			if core.ExprStr(rs.X) == "childEntries" && rs.Value != nil {
				core.EachCall(rs.Body, core.Shallow, func(call *ast.CallExpr) {
					if cal := core.Callee(di, call); cal != nil && cal.Name() == "dfsMerge" && len(call.Args) == 2 && core.ExprStr(call.Args[0]) == core.ExprStr(rs.Value) && core.ExprStr(call.Args[1]) == "entry" {
						okOrder = true
					}
				})
			}
			return true
		})
		c.R.Checkf(rule, "children-in-listed-order@dfsMerge", c.pos(d.Pos()), okOrder, "children are visited by ranging over the expanded include list in order, passing the current file as parent")
		_ = dg
	}
	// mergeItems keeps `to` before `from`
	if m := c.fn(rule, "config", "Merger.mergeItems"); m != nil {
		var copies []string
		core.EachCall(m.Body, core.Shallow, func(call *ast.CallExpr) {
			if id, ok := call.Fun.(*ast.Ident); ok && id.Name == "copy" && len(call.Args) == 2 {
				copies = append(copies, core.ExprStr(call.Args[0])+"<-"+core.ExprStr(call.Args[1]))
			}
		})
		ok := len(copies) == 2 && copies[0] == "items<-to" && copies[1] == "items[len(to):]<-from"
		c.R.Checkf(rule, "merge-order@mergeItems", c.pos(m.Pos()), ok, "merged items are the including file's items followed by the included file's: %v", copies)
	}
	c.R.Floor(rule, 9, 9)
}

// ---- PANICSET --------------------------------------------------------------

// reviewed explicit panic sites reachable from the configuration entry points
// (function -> why it cannot fire on user input)
var reviewedPanics = map[string]string{
	"pkg/config_parser.paramParser.parseParam":   "after the BARRIER a Parameter node has 1 or 3 children by the grammar",
	"pkg/config_parser.Walker.parseRoutingRule":  "after the BARRIER an OutboundExpr is a bare literal or a function prototype by the grammar",
	"pkg/trie.Prefix2bin128":                     "guards n > 128 / invalid prefix; callers pass netip.Prefix values already parsed",
	"common/consts.IpVersionFromAddr":            "not fed from configuration text",
	"common/consts.init":                         "build-time MaxMatchSetLen_ sanity check",
	"common/consts.IpVersionStr.ToIpVersionType": "argument is a compile-time constant at every call site",
	"common/consts.L4ProtoStr.ToL4ProtoType":     "argument is a compile-time constant at every call site",
	"common/consts.L4ProtoStr.ToL4Proto":         "argument is a compile-time constant at every call site",
	"common/bitlist.CompactBitList.Set":          "internal invariant of trie construction (index < size by construction), value-level, not fed by configuration text",
	"pkg/anybuffer.Buffer.grow":                  "allocation-too-large guard mirrored from bytes.Buffer",
	"pkg/anybuffer.makeSlice":                    "allocation-too-large guard mirrored from bytes.Buffer",
	"config.FunctionOrStringToFunction":          "legacy API kept for tests (TestFunctionOrStringToFunctionPreservesLegacyPanicAPI); production uses ParseFunctionOrString",
	"config.FunctionListOrStringToFunctionList":  "legacy API kept for tests; production uses ParseFunctionListOrString",
}

func c17PanicSet(c *Ctx) {
	const rule = "PANICSET"
	// syntactic call graph restricted to repo packages (static callees + interface methods by name: CHA-lite)
	type fkey = *types.Func
	bodies := map[fkey]*core.Func{}
	for _, rp := range c.P.RepoPkgs() {
		rel := strings.TrimPrefix(strings.TrimPrefix(rp.PkgPath, core.ModPath), "/")
		for _, f := range c.P.FuncsIn(rel) {
			if f.Obj != nil {
				bodies[f.Obj] = f
			}
		}
	}
	// methods by name for interface dispatch
	byName := map[string][]fkey{}
	for k := range bodies {
		if recvNamed2(k) != "" {
			byName[k.Name()] = append(byName[k.Name()], k)
		}
	}
	entries := [][2]string{
		{"pkg/config_parser", "Parse"}, {"config", "New"}, {"config", "Merger.Merge"},
		{"component/routing", "NewNormalizedProgram"}, {"component/routing", "NormalizedProgram.Lower"},
		{"control", "RoutingMatcherBuilder.BuildUserspace"}, {"control", "NewRoutingMatcherBuilder"},
		{"component/dns", "RequestMatcherBuilder.Build"}, {"component/dns", "ResponseMatcherBuilder.Build"},
		{"component/dns", "NewRequestMatcherBuilder"}, {"component/dns", "NewResponseMatcherBuilder"},
	}
	seen := map[fkey]bool{}
	var work []fkey
	nEntries := 0
	for _, e := range entries {
		f := c.fn(rule, e[0], e[1])
		if f == nil || f.Obj == nil {
			continue
		}
		nEntries++
		work = append(work, f.Obj)
		seen[f.Obj] = true
	}
	for len(work) > 0 {
		k := work[len(work)-1]
		work = work[:len(work)-1]
		f := bodies[k]
		if f == nil {
			continue
		}
		core.EachCall(f.Body, core.Deep, func(call *ast.CallExpr) {
			cal := core.Callee(f.Info(), call)
			if cal == nil {
				return
			}
			var tgts []fkey
			if _, ok := bodies[cal]; ok {
				tgts = append(tgts, cal)
			} else if sig, ok := cal.Type().(*types.Signature); ok && sig.Recv() != nil {
				if _, isIf := sig.Recv().Type().Underlying().(*types.Interface); isIf && cal.Pkg() != nil && strings.HasPrefix(cal.Pkg().Path(), core.ModPath) {
					tgts = append(tgts, byName[cal.Name()]...)
				}
			}
			for _, t := range tgts {
				if !seen[t] {
					seen[t] = true
					work = append(work, t)
				}
			}
		})
		// function values referenced (callbacks registered as parsers)
		ast.Inspect(f.Body, func(m ast.Node) bool {
			if id, ok := m.(*ast.Ident); ok {
				if fo, ok := f.Info().Uses[id].(*types.Func); ok {
					fo = fo.Origin()
					if _, has := bodies[fo]; has && !seen[fo] {
						seen[fo] = true
						work = append(work, fo)
					}
				}
			}
			return true
		})
	}
	found := map[string]string{}
	for k := range seen {
		f := bodies[k]
		if f == nil {
			continue
		}
		ast.Inspect(f.Body, func(m ast.Node) bool {
			call, ok := m.(*ast.CallExpr)
			if !ok {
				return true
			}
			if id, ok := call.Fun.(*ast.Ident); ok && id.Name == "panic" {
				if _, isB := f.Info().Uses[id].(*types.Builtin); isB {
					if _, dup := found[f.Name]; !dup {
						found[f.Name] = c.pos(call.Pos())
					}
				}
			}
			return true
		})
	}
	c.R.Extra["reachable_repo_functions"] = len(seen)
	var names []string
	for n := range found {
		names = append(names, n)
	}
	sort.Strings(names)
	for _, n := range names {
		why, ok := reviewedPanics[n]
		if ok {
			c.R.Checkf(rule, "panic-site@"+n, found[n], true, "reviewed: %s", why)
		} else {
			c.R.Checkf(rule, "panic-site@"+n, found[n], false, "explicit panic() in %s is reachable from the configuration entry points and is not in the reviewed set: configuration input must produce an error, never a crash", n)
		}
	}
	c.R.Floor(rule+"/entries", nEntries, 11)
	c.R.Floor(rule+"/reachable-functions", len(seen), 140)
}

func recvNamed2(fn *types.Func) string {
	sig, ok := fn.Type().(*types.Signature)
	if !ok || sig.Recv() == nil {
		return ""
	}
	if n := namedOf(sig.Recv().Type()); n != nil {
		return n.Obj().Name()
	}
	return "?"
}
