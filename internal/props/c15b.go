package props

import (
	"go/token"
	"fmt"
	"go/ast"
	"go/constant"
	"go/types"
	"strings"

	"daecheck/internal/core"
	"daecheck/internal/fdt"
)

// TOLERANCE: the latency-update step of the min policies, as a decision table
// over the orderings of (new latency s, current best latency m, tolerance t).
// The guards only compare these three quantities with coefficients in
// {-1,0,1} and no constants, so their truth depends only on the cell of the
// arrangement {s=m, s=m-t, m=t, t=0} the triple lies in; the integer grid
// s,m in 0..6, t in 0..3 meets every cell.  Folded with go/constant over the
// CFG; nothing is executed.
//
// Reference (from the statement): a node that is not the current choice takes
// over iff it is alive, not worse, and better by >= t (or the current latency
// is already below t).  When the current choice worsens (s > m) or stops being
// alive, the set is rescanned (another node may now beat it by >= t); when it
// stops being alive it is cleared before the rescan.  The rescan's own
// take-over test is the same predicate (sibling agreement).
func c15Tolerance(c *Ctx) {
	const rule = "TOLERANCE"
	ref := func(alive bool, s, m, t int64) bool { return alive && s <= m && (m < t || s <= m-t) }
	f := c.fn(rule, "component/outbound/dialer", "AliveDialerSet.NotifyLatencyChange")
	if f == nil {
		return
	}
	info := f.Info()
	g := f.Graph()
	var dialerParam types.Object
	for _, fl := range f.Decl.Type.Params.List {
		for _, nm := range fl.Names {
			if p, ok := info.TypeOf(nm).(*types.Pointer); ok {
				if n := namedOf(p); n != nil && n.Obj().Name() == "Dialer" {
					dialerParam = info.ObjectOf(nm)
				}
			}
		}
	}
	// region start: the block that saves the old best latency
	var start *core.Point
	var sortExpr string
	var isBestKey, minKey string
	for _, b := range g.CFG.Blocks {
		if !b.Live {
			continue
		}
		for _, n := range b.Nodes {
			as, ok := n.(*ast.AssignStmt)
			if !ok || len(as.Lhs) != 1 || len(as.Rhs) != 1 {
				continue
			}
			if strings.HasSuffix(core.ExprStr(as.Rhs[0]), ".minLatency.sortingLatency") && start == nil {
				if _, isId := as.Lhs[0].(*ast.Ident); isId {
					start = &core.Point{B: b, I: 0}
					minKey = core.ExprStr(as.Rhs[0])
				}
			}
			if id, ok := as.Lhs[0].(*ast.Ident); ok && start != nil && id.Name == "sortingLatency" && sortExpr == "" {
				sortExpr = core.ExprStr(as.Rhs[0])
			}
		}
	}
	ast.Inspect(f.Body, func(m ast.Node) bool {
		if be, ok := m.(*ast.BinaryExpr); ok {
			if _, op, y, ok := core.Oriented(be, func(e ast.Expr) bool { return strings.HasSuffix(core.ExprStr(e), ".minLatency.dialer") }); ok && op == token.EQL {
				if id, ok := y.(*ast.Ident); ok && info.ObjectOf(id) == dialerParam {
					isBestKey = core.ExprStr(be)
				}
			}
		}
		return true
	})
	if start == nil || sortExpr == "" || isBestKey == "" || dialerParam == nil {
		c.R.Unresolved(rule, "NotifyLatencyChange: latency-update region (old-best save, sortingLatency assignment, is-current-best test)")
		return
	}
	tolKey := strings.TrimSuffix(minKey, ".minLatency.sortingLatency") + ".tolerance"
	event := func(n ast.Node, ev func(ast.Expr) string) string {
		out := ""
		if as, ok := n.(*ast.AssignStmt); ok && len(as.Lhs) == 1 && len(as.Rhs) == 1 && strings.HasSuffix(core.ExprStr(as.Lhs[0]), ".minLatency.dialer") {
			if id, ok := as.Rhs[0].(*ast.Ident); ok {
				if id.Name == "nil" {
					out = "clear"
				} else if info.ObjectOf(id) == dialerParam {
					out = "switch"
				}
			}
		}
		ownCalls(n, func(call *ast.CallExpr, _ bool) {
			if _, name, ok := methodCall(call); ok && name == "calcMinLatency" {
				out = "rescan"
			}
		})
		return out
	}
	rows, bad := 0, ""
	for _, alive := range []bool{true, false} {
		for _, isBest := range []bool{true, false} {
			for t := int64(0); t <= 3; t++ {
				for m := int64(0); m <= 6; m++ {
					for s := int64(0); s <= 6; s++ {
						job := &fdt.Job{F: f, Start: *start, MaxSteps: 400, Event: event,
							Inputs: map[string]constant.Value{"alive": constant.MakeBool(alive), isBestKey: constant.MakeBool(isBest),
								minKey: constant.MakeInt64(m), tolKey: constant.MakeInt64(t), sortExpr: constant.MakeInt64(s)}}
						outs := job.Run()
						rows++
						seqs := map[string]bool{}
						for _, o := range outs {
							seqs[strings.Join(o.Events, ",")] = true
						}
						desc := fmt.Sprintf("alive=%v current-best=%v s=%d m=%d t=%d", alive, isBest, s, m, t)
						if len(seqs) != 1 || len(job.Undecided) > 0 {
							if bad == "" {
								bad = desc + ": outcome depends on something outside (alive, is-current-best, s, m, t): " + fmt.Sprint(keysB(seqs))
							}
							continue
						}
						var seq string
						for k := range seqs {
							seq = k
						}
						has := func(e string) bool { return strings.Contains(","+seq+",", ","+e+",") }
						if !isBest {
							want := ref(alive, s, m, t)
							if has("switch") != want && bad == "" {
								bad = fmt.Sprintf("%s: a node that is not the current choice %s (events [%s]); the statement requires take-over exactly when it is alive, not worse, and better by >= tolerance (or the current latency is below the tolerance)", desc, map[bool]string{true: "takes over", false: "does not take over"}[has("switch")], seq)
							}
							if has("clear") && bad == "" {
								bad = desc + ": the current choice is cleared by a notification about another node"
							}
						} else {
							needRescan := !alive || s > m
							if needRescan && !has("rescan") && bad == "" {
								bad = fmt.Sprintf("%s: the current choice %s but the alive set is not rescanned (events [%s]): another alive node may now beat it by >= tolerance and is never selected", desc, map[bool]string{true: "worsened", false: "stopped being alive"}[alive], seq)
							}
							if !alive && !(has("clear") && strings.Index(seq, "clear") < strings.Index(seq, "rescan")) && bad == "" {
								bad = desc + ": a choice that stopped being alive is not cleared before the rescan (events [" + seq + "])"
							}
						}
					}
				}
			}
		}
	}
	c.R.Checkf(rule, "latency-update-table@NotifyLatencyChange", c.pos(start.B.Nodes[0].Pos()), bad == "",
		"over %d rows (alive x is-current-choice x every ordering cell of new latency, current latency, tolerance) the update step takes over / rescans / clears as the statement requires%s", rows, func() string {
			if bad != "" {
				return " — VIOLATED: " + bad
			}
			return ""
		}())
	c.R.Floor(rule+"/rows", rows, 784)

	// the rescan's own take-over test
	cm := c.fn(rule, "component/outbound/dialer", "AliveDialerSet.calcMinLatency")
	if cm == nil {
		return
	}
	cg := cm.Graph()
	// start at the first condition over .minLatency.dialer == nil after the scan loop
	var cstart *core.Point
	var nilKey, candVar, candNonNil string
	var candObj types.Object
	for _, cs := range cg.Conds(func(e ast.Expr) bool {
		return strings.HasSuffix(core.ExprStr(e), ".minLatency.dialer == nil")
	}) {
		if cstart == nil {
			for _, b := range cg.CFG.Blocks {
				if b.Live && len(b.Nodes) > 0 && b.Nodes[len(b.Nodes)-1] == ast.Node(cs.Cond) {
					cstart = &core.Point{B: b, I: len(b.Nodes) - 1}
					nilKey = core.ExprStr(cs.Cond)
				}
			}
		}
	}
	// candidate latency: the local compared with .minLatency.sortingLatency by <=
	ast.Inspect(cm.Body, func(m ast.Node) bool {
		if be, ok := m.(*ast.BinaryExpr); ok {
			if _, op, other, ok := core.Oriented(be, func(e ast.Expr) bool { return strings.HasSuffix(core.ExprStr(e), ".minLatency.sortingLatency") }); ok && op == token.GEQ { // current >= candidate
				if id, ok := other.(*ast.Ident); ok && candObj == nil {
					candObj = cm.Info().ObjectOf(id)
					candVar = id.Name
				}
			}
		}
		if be, ok := m.(*ast.BinaryExpr); ok && be.Op.String() == "!=" && core.ExprStr(be.Y) == "nil" {
			if _, isId := be.X.(*ast.Ident); isId {
				candNonNil = core.ExprStr(be)
			}
		}
		return true
	})
	if cstart == nil || candObj == nil {
		c.R.Unresolved(rule, "calcMinLatency: take-over test after the scan")
		return
	}
	cevent := func(n ast.Node, ev func(ast.Expr) string) string {
		if as, ok := n.(*ast.AssignStmt); ok && len(as.Lhs) == 1 && strings.HasSuffix(core.ExprStr(as.Lhs[0]), ".minLatency.dialer") {
			return "switch"
		}
		return ""
	}
	crow, cbad := 0, ""
	for _, haveBest := range []bool{true, false} {
		for t := int64(0); t <= 3; t++ {
			for m := int64(0); m <= 6; m++ {
				for s := int64(0); s <= 6; s++ {
					in := map[string]constant.Value{nilKey: constant.MakeBool(!haveBest), minKey: constant.MakeInt64(m), tolKey: constant.MakeInt64(t)}
					if candNonNil != "" {
						in[candNonNil] = constant.MakeBool(true)
					}
					job := &fdt.Job{F: cm, Start: *cstart, Event: cevent, Inputs: in, Init: map[types.Object]constant.Value{candObj: constant.MakeInt64(s)}, Tracked: map[types.Object]string{candObj: candVar}}
					outs := job.Run()
					crow++
					sw := map[bool]bool{}
					for _, o := range outs {
						sw[len(o.Events) > 0] = true
					}
					want := !haveBest || ref(true, s, m, t)
					if (len(sw) != 1 || sw[true] != want) && cbad == "" {
						cbad = fmt.Sprintf("have-best=%v candidate=%d current=%d t=%d: rescan %v, the update step's rule says %v", haveBest, s, m, t, keysB2(sw), want)
					}
				}
			}
		}
	}
	c.R.Checkf(rule, "rescan-uses-the-same-take-over-test@calcMinLatency", c.pos(cm.Pos()), cbad == "",
		"over %d rows the rescan replaces the current choice exactly when there is none or the scanned minimum passes the same not-worse-and-better-by-tolerance test as the update step%s", crow, func() string {
			if cbad != "" {
				return " — VIOLATED: " + cbad
			}
			return ""
		}())
}

func keysB2(m map[bool]bool) []bool {
	var out []bool
	for k := range m {
		out = append(out, k)
	}
	return out
}

// OFFSET: wherever a raw latency snapshot becomes a sorting latency the
// per-node offset of the same node is added (update step and run-time policy
// switch are siblings).
func c15Offset(c *Ctx) {
	const rule = "OFFSET"
	n := 0
	for _, f := range c.P.FuncsIn("component/outbound/dialer") {
		if f.Decl == nil || f.Decl.Recv == nil || !strings.HasPrefix(f.Name, "component/outbound/dialer.AliveDialerSet.") {
			continue
		}
		info := f.Info()
		raw := map[types.Object]string{} // raw latency local -> rendered node expression
		ast.Inspect(f.Body, func(m ast.Node) bool {
			as, ok := m.(*ast.AssignStmt)
			if !ok || len(as.Rhs) != 1 || len(as.Lhs) != 2 {
				return true
			}
			call, ok := as.Rhs[0].(*ast.CallExpr)
			if !ok {
				return true
			}
			recv, name, ok := methodCall(call)
			if !ok || name != "snapshotLatencyForPolicy" {
				return true
			}
			if id, ok := as.Lhs[0].(*ast.Ident); ok {
				raw[info.ObjectOf(id)] = core.ExprStr(recv)
			}
			return true
		})
		if len(raw) == 0 {
			continue
		}
		mentions := func(e ast.Expr) (types.Object, bool) {
			var hit types.Object
			ast.Inspect(e, func(m ast.Node) bool {
				if id, ok := m.(*ast.Ident); ok {
					if o := info.ObjectOf(id); o != nil {
						if _, isRaw := raw[o]; isRaw {
							hit = o
						}
					}
				}
				return true
			})
			return hit, hit != nil
		}
		ast.Inspect(f.Body, func(m ast.Node) bool {
			as, ok := m.(*ast.AssignStmt)
			if !ok || len(as.Lhs) != len(as.Rhs) {
				return true
			}
			for i, r := range as.Rhs {
				ro, uses := mentions(r)
				if !uses {
					continue
				}
				lhs := core.ExprStr(as.Lhs[i])
				if ix, ok := as.Lhs[i].(*ast.IndexExpr); ok && strings.HasSuffix(core.ExprStr(ix.X), ".dialerToLatency") {
					continue // the raw value is recorded as such
				}
				if !strings.Contains(strings.ToLower(lhs), "sortinglatency") {
					continue
				}
				n++
				c.R.Saw(f)
				ok2 := false
				var key string
				ast.Inspect(r, func(k ast.Node) bool {
					be, isB := k.(*ast.BinaryExpr)
					if !isB || be.Op.String() != "+" {
						return true
					}
					for _, pair := range [][2]ast.Expr{{be.X, be.Y}, {be.Y, be.X}} {
						if id, isId := ast.Unparen(pair[0]).(*ast.Ident); isId && info.ObjectOf(id) == ro {
							if ix, isIx := ast.Unparen(pair[1]).(*ast.IndexExpr); isIx && strings.HasSuffix(core.ExprStr(ix.X), ".dialerToLatencyOffset") {
								key = core.ExprStr(ix.Index)
								ok2 = key == raw[ro]
							}
						}
					}
					return true
				})
				c.R.Checkf(rule, "sorting-latency-includes-offset@"+strings.TrimPrefix(f.Name, "component/outbound/dialer.")+"/"+nospace(lhs), c.pos(as.Pos()), ok2,
					"%s is computed from the raw latency snapshot of %s plus dialerToLatencyOffset[%s] (per-node offsets are part of the ordering the min policies select by; got offset key %q)", lhs, raw[ro], raw[ro], key)
			}
			return true
		})
	}
	c.R.Floor(rule, n, 2)
}

// excluded node threading in the control plane's dial path
func c15ExcludedDial(c *Ctx) {
	const rule = "EXCLUDED"
	f := c.fn(rule, "control", "ControlPlane.chooseProxyDialer")
	if f == nil {
		return
	}
	info := f.Info()
	n, bad := 0, ""
	core.EachCall(f.Body, core.Deep, func(call *ast.CallExpr) {
		cal := core.Callee(info, call)
		if cal == nil {
			return
		}
		sig := cal.Type().(*types.Signature)
		for i := 0; i < sig.Params().Len() && i < len(call.Args); i++ {
			if core.CanonName(sig.Params().At(i)) != "excluded" {
				continue
			}
			n++
			if core.FieldOf(info, call.Args[i]) != "proxyDialParam.Excluded" && bad == "" {
				bad = fmt.Sprintf("%s at %s passes %s", cal.Name(), c.pos(call.Pos()), core.ExprStr(call.Args[i]))
			}
		}
	})
	c.R.Checkf(rule, "threaded@chooseProxyDialer", c.pos(f.Pos()), bad == "" && n >= 2,
		"every node selection in chooseProxyDialer (requested family and the other-family retry, %d calls) passes the caller's excluded node%s", n, func() string {
			if bad != "" {
				return " — VIOLATED: " + bad + ": the fallback may hand back exactly the node the caller excluded after it failed"
			}
			return ""
		}())
}
