package props

import (
	"go/ast"
	"go/token"
	"sort"
	"strings"

	"daecheck/internal/core"
)

func init() {
	register(&Checker{ID: "C13", Run: runC13, Explain: "Structural discipline that every schedule of the UDP task queues and the endpoint pool relies on, decided on the type-checked source of package control (the behaviour itself is schedule-quantified and is not decided): " +
		"(1) LOCK: the overflow list/mode of a task queue are touched only under enqueueMu, the per-flow channel is sent to only by enqueue, under that lock and on the not-in-overflow edge; the shard maps of the endpoint pool only under the shard lock (helpers suffixed Locked only from lock-holding call sites); the endpoint's tuple bookkeeping only under its mutex; " +
		"(2) CLAIM: the queue's channel is recycled by the worker only after the claim CAS succeeded, refs is stored only by close and the failed-delete restore, EmitTask enqueues between acquire and release, acquire admits only on a successful CAS from a non-negative count; (3) DRAIN: the worker tries the channel before the overflow list; " +
		"(4) CLOSEONCE: an endpoint's transport is closed only inside its once-guard and Close releases tuples and the drain ticket there; (5) TRACKED: an endpoint is marked tuple-closed on every close path (also with zero tuples) and tuples are never retained after that mark; release happens outside the mutex with the owner captured inside; " +
		"(6) REMOVED: every removal of an endpoint from a shard map is followed on all paths by Close of that endpoint (directly, through the stale/toClose hand-off, or by the only caller of the self-removal). " +
		"Not decided: exactly-once execution, single dial under races, leak freedom — all need schedule exploration."})
}

func runC13(c *Ctx) {
	c13Lock(c)
	c13Claim(c)
	c13Close(c)
	c13Removed(c)
	c13RemoveIdentity(c)
	c13ShrinkCopies(c)
	c13TrackerAlways(c)
	c13SelfRemoveIdentity(c)
	makeCapCoversLen(c, "DRAIN", units(c.P, "control", func(f string) bool { return strings.HasPrefix(f, "udp_task_pool") || strings.HasPrefix(f, "udp_endpoint_pool") }), "a panic in the flow's worker drops every task still queued for that flow")
}

// heldAt: a Lock/RLock call on a receiver rendered as lockExpr dominates the point and no
// Unlock/RUnlock of it lies between on any path (deferred unlock counts as held to exit).
func heldAt(g *core.Graph, p core.Point, lockExpr string) bool {
	isLock := func(n ast.Node) bool {
		r := false
		ownCalls(n, func(call *ast.CallExpr, def bool) {
			if recv, name, ok := methodCall(call); ok && !def && (name == "Lock" || name == "RLock") && core.ExprStr(recv) == lockExpr {
				r = true
			}
		})
		return r
	}
	isUnlock := func(n ast.Node) bool {
		r := false
		if _, isDefer := n.(*ast.DeferStmt); isDefer {
			return false
		}
		ownCalls(n, func(call *ast.CallExpr, def bool) {
			if recv, name, ok := methodCall(call); ok && !def && (name == "Unlock" || name == "RUnlock") && core.ExprStr(recv) == lockExpr {
				r = true
			}
		})
		return r
	}
	target := p.Node()
	isT := func(n ast.Node) bool { return n == target }
	// every path from entry to target passes a lock
	if _, _, r := g.ReachesAvoiding(g.Entry(), isLock, isT); r {
		return false
	}
	// no path from an unlock to the target without passing a lock again
	for _, up := range g.Find(isUnlock) {
		if _, _, r := g.ReachesAvoiding(up.After(), isLock, isT); r {
			return false
		}
	}
	return true
}

func c13Lock(c *Ctx) {
	const rule = "LOCK"
	type guarded struct {
		field, lockField, file string
	}
	gs := []guarded{
		{"UdpTaskQueue.overflow", "enqueueMu", "udp_task_pool.go"},
		{"UdpTaskQueue.overflowMode", "enqueueMu", "udp_task_pool.go"},
		{"udpEndpointPoolShard.pool", "mu", "udp_endpoint_pool.go"},
		{"UdpEndpoint.udpConnStateTuples", "udpConnStateMu", "udp_endpoint_pool.go"},
		{"UdpEndpoint.udpConnStateClosed", "udpConnStateMu", "udp_endpoint_pool.go"},
		{"UdpEndpoint.udpConnStateOwner", "udpConnStateMu", "udp_endpoint_pool.go"},
	}
	counts := map[string]int{}
	lockedHelpers := map[string]bool{}
	for _, f := range c.P.FuncsIn("control") {
		for _, u := range append([]*core.Func{f}, litUnits(f)...) {
			info := u.Info()
			g := u.Graph()
			short := strings.TrimPrefix(f.Name, "control.")
			for _, b := range g.CFG.Blocks {
				if !b.Live {
					continue
				}
				for i, nd := range b.Nodes {
					ast.Inspect(nd, func(m ast.Node) bool {
						if _, isLit := m.(*ast.FuncLit); isLit {
							return false
						}
						se, ok := m.(*ast.SelectorExpr)
						if !ok {
							return true
						}
						fld := core.FieldOf(info, se)
						for _, gd := range gs {
							if fld != gd.field {
								continue
							}
							counts[gd.field]++
							c.R.Saw(f)
							lockExpr := core.ExprStr(se.X) + "." + gd.lockField
							held := heldAt(g, core.Point{B: b, I: i}, lockExpr)
							if !held && strings.HasSuffix(short, "Locked") {
								lockedHelpers[short] = true
								held = true // decided at the call sites below
							}
							// constructors before publication
							if !held && (strings.HasPrefix(short, "New") || strings.HasPrefix(short, "new")) {
								held = true
							}
							if !held {
								c.R.Checkf(rule, "guarded@"+gd.field+"/"+short, c.pos(se.Pos()), false, "%s is accessed at %s without %s held on every path to the access", gd.field, c.pos(se.Pos()), lockExpr)
							}
						}
						return true
					})
				}
			}
		}
	}
	var fl []string
	for k := range counts {
		fl = append(fl, k)
	}
	sort.Strings(fl)
	for _, k := range fl {
		c.R.Checkf(rule, "all-accesses-guarded@"+k, "control", true, "%d accesses analysed (violations, if any, are listed separately)", counts[k])
	}
	c.R.Floor(rule+"/guarded-fields", len(fl), 6)
	c.R.Floor(rule+"/overflow-accesses", counts["UdpTaskQueue.overflow"], 10)
	c.R.Floor(rule+"/shard-map-accesses", counts["udpEndpointPoolShard.pool"], 10)
	// *Locked helpers: every call site holds the shard lock
	var hs []string
	for h := range lockedHelpers {
		hs = append(hs, h)
	}
	sort.Strings(hs)
	for _, h := range hs {
		okAll, n := true, 0
		nm := h[strings.LastIndex(h, ".")+1:]
		for _, f := range c.P.FuncsIn("control") {
			g := f.Graph()
			for _, p := range g.Find(func(nd ast.Node) bool {
				r := false
				ownCalls(nd, func(call *ast.CallExpr, _ bool) {
					if cal := core.Callee(f.Info(), call); cal != nil && cal.Name() == nm {
						r = true
					}
				})
				return r
			}) {
				n++
				// the helper takes shard.mu itself or the caller holds a creation lock: accept when any Lock dominates the call
				anyLock := func(x ast.Node) bool { return methodNamed("Lock")(x) }
				target := p.Node()
				if _, _, r := g.ReachesAvoiding(g.Entry(), anyLock, func(x ast.Node) bool { return x == target }); r {
					okAll = false
				}
			}
		}
		c.R.Checkf(rule, "locked-helper-callers@"+h, "control/udp_endpoint_pool.go", okAll && n >= 1, "every call of %s (%d) is dominated by a Lock call in its caller", h, n)
	}
	// channel sends
	senders := map[string]bool{}
	for _, f := range c.P.FuncsIn("control") {
		if !strings.HasSuffix(f.File(), "udp_task_pool.go") {
			continue
		}
		for _, u := range append([]*core.Func{f}, litUnits(f)...) {
			info := u.Info()
			g := u.Graph()
			for _, b := range g.CFG.Blocks {
				for i, nd := range b.Nodes {
					ss, ok := nd.(*ast.SendStmt)
					if !ok || core.FieldOf(info, ss.Chan) != "UdpTaskQueue.ch" {
						continue
					}
					short := strings.TrimPrefix(f.Name, "control.")
					senders[short] = true
					p := core.Point{B: b, I: i}
					held := heldAt(g, p, core.ExprStr(ss.Chan.(*ast.SelectorExpr).X)+".enqueueMu")
					notOverflow := false
					// the send must not be reachable from the overflow-mode true edge, and the mode test must dominate it
					for _, cs := range g.Conds(func(e ast.Expr) bool { return strings.HasSuffix(core.ExprStr(e), ".overflowMode") }) {
						cn := ast.Node(cs.Cond)
						_, _, byp := g.ReachesAvoiding(g.Entry(), func(x ast.Node) bool { return x == cn }, func(x ast.Node) bool { return x == nd })
						_, _, fromT := g.ReachesAvoiding(core.Point{B: cs.True, I: 0}, nil, func(x ast.Node) bool { return x == nd })
						if !byp && !fromT {
							notOverflow = true
						}
					}
					c.R.Checkf(rule, "channel-send-under-lock-and-not-in-overflow@"+short, c.pos(ss.Pos()), held && notOverflow,
						"the per-flow channel is sent to with enqueueMu held (%v) and only on the edge where the queue is not in overflow mode (%v): a send that bypasses either lets a later task overtake the tasks parked in the overflow list", held, notOverflow)
				}
			}
		}
	}
	c.R.Checkf(rule, "only-enqueue-sends", "control/udp_task_pool.go", len(senders) == 1 && senders["UdpTaskQueue.enqueue"], "the per-flow channel is sent to only by enqueue: %v", keysB(senders))
}

func c13Claim(c *Ctx) {
	const rule = "CLAIM"
	// refs writers
	writers := map[string]string{}
	for _, f := range c.P.FuncsIn("control") {
		core.EachCall(f.Body, core.Deep, func(call *ast.CallExpr) {
			recv, name, ok := methodCall(call)
			if !ok || core.FieldOf(f.Info(), recv) != "UdpTaskQueue.refs" {
				return
			}
			switch name {
			case "Store", "Add", "CompareAndSwap", "Swap":
				writers[strings.TrimPrefix(f.Name, "control.")+"/"+name] = core.ExprStr(call)
			}
		})
	}
	allowed := map[string]bool{"UdpTaskQueue.convoy/CompareAndSwap": true, "UdpTaskQueue.convoy/Store": true, "UdpTaskQueue.close/Store": true, "UdpTaskPool.EmitTask/Add": true, "UdpTaskPool.acquireQueue/CompareAndSwap": true, "UdpTaskPool.acquireQueue/Add": true}
	var ws []string
	okW := true
	for k := range writers {
		ws = append(ws, k)
		if !allowed[k] {
			okW = false
		}
	}
	sort.Strings(ws)
	c.R.Checkf(rule, "refs-writers", "control/udp_task_pool.go", okW && len(ws) >= 5, "the claim counter is written only by acquire (CAS/Add), EmitTask (release), the worker's claim CAS / failed-delete restore and close: %v", ws)
	if f := c.fn(rule, "control", "UdpTaskQueue.convoy"); f != nil {
		info := f.Info()
		g := f.Graph()
		put := func(n ast.Node) bool {
			r := false
			ownCalls(n, func(call *ast.CallExpr, def bool) {
				if recv, name, ok := methodCall(call); ok && name == "Put" && strings.HasSuffix(core.ExprStr(recv), ".queueChPool") && !def {
					r = true
				}
			})
			return r
		}
		cas := g.Conds(func(e ast.Expr) bool { return strings.Contains(core.ExprStr(e), ".refs.CompareAndSwap(0,") })
		ok := len(cas) == 1
		if ok {
			cn := ast.Node(cas[0].Cond)
			// `if !CAS { continue }`: the failure edge is the true edge of the negated condition
			fail := cas[0].True
			if _, neg := ast.Unparen(cas[0].Cond).(*ast.UnaryExpr); !neg {
				fail = cas[0].False
			}
			_, _, byp := g.ReachesAvoiding(g.Entry(), func(x ast.Node) bool { return x == cn }, put)
			// from the failure edge a Put is reachable only by going round the loop through the CAS again
			_, _, fromFail := g.ReachesAvoiding(core.Point{B: fail, I: 0}, func(x ast.Node) bool { return x == cn }, put)
			ok = !byp && !fromFail && len(g.Find(put)) >= 1
		}
		c.R.Checkf(rule, "recycle-only-after-claim", c.pos(f.Pos()), ok, "the worker hands its channel back to the pool only on paths where the claim CAS (refs 0 -> sentinel) succeeded")
		// the same holds for the worker's deferred handlers (they run on a panic, without any claim): none recycles the
		// channel, and none unmaps the queue by key alone
		badLit := ""
		for _, u := range litUnits(f) {
			core.EachCall(u.Body, core.Deep, func(call *ast.CallExpr) {
				recv, name, isM := methodCall(call)
				if !isM {
					return
				}
				if name == "Put" && strings.HasSuffix(core.ExprStr(recv), ".queueChPool") && badLit == "" {
					badLit = "a function literal of convoy returns the channel to the pool at " + c.pos(call.Pos())
				}
				if name == "Delete" && strings.HasSuffix(core.ExprStr(recv), ".queues") && badLit == "" {
					badLit = "a function literal of convoy unmaps the queue by key at " + c.pos(call.Pos())
				}
			})
		}
		c.R.Checkf(rule, "no-recycle-without-claim-in-deferred-handlers@convoy", c.pos(f.Pos()), badLit == "",
			"no deferred handler of the worker recycles the channel or unmaps the queue by key%s", func() string {
				if badLit != "" {
					return " — VIOLATED: " + badLit + ": after a panicking task the channel still holds this flow's queued tasks; the next flow that takes it from the pool runs them as its own (and a by-key delete can remove a successor queue)"
				}
				return ""
			}())
		// the idle test precedes the claim
		idle := g.Conds(func(e ast.Expr) bool {
			s := core.ExprStr(e)
			return strings.Contains(s, ".refs.Load() > 0") && strings.Contains(s, "len(q.ch) > 0") && strings.Contains(s, ".overflowLen.Load() > 0")
		})
		okIdle := len(idle) == 1 && len(cas) == 1
		if okIdle {
			in := ast.Node(idle[0].Cond)
			_, _, byp := g.ReachesAvoiding(g.Entry(), func(x ast.Node) bool { return x == in }, func(x ast.Node) bool { return x == ast.Node(cas[0].Cond) })
			okIdle = !byp
		}
		c.R.Checkf(rule, "idle-test-before-claim", c.pos(f.Pos()), okIdle, "the claim is attempted only after the idle test (no in-flight producer, empty channel, empty overflow list)")
		_ = info
	}
	if f := c.fn(rule, "control", "UdpTaskPool.EmitTask"); f != nil {
		info := f.Info()
		g := f.Graph()
		acq := nodeCalls(info, "control.UdpTaskPool.acquireQueue")
		enq := nodeCalls(info, "control.UdpTaskQueue.enqueue")
		rel := func(n ast.Node) bool { return strings.Contains(core.ExprStr2(n), ".refs.Add(-1)") }
		_, _, r1 := g.ReachesAvoiding(g.Entry(), acq, enq)
		_, _, r2 := g.ReachesAvoiding(g.Entry(), enq, rel)
		ok := !r1 && !r2
		for _, p := range g.Find(enq) {
			if ex := g.ExitsAvoiding(p.After(), rel); len(ex) > 0 {
				ok = false
			}
		}
		c.R.Checkf(rule, "enqueue-between-acquire-and-release", c.pos(f.Pos()), ok, "EmitTask enqueues while it holds its claim on the queue and always releases it afterwards")
	}
	if f := c.fn(rule, "control", "UdpTaskPool.acquireQueue"); f != nil {
		g := f.Graph()
		okRet := true
		n := 0
		for _, p := range g.Find(func(nd ast.Node) bool {
			rs, ok := nd.(*ast.ReturnStmt)
			return ok && len(rs.Results) == 1 && core.ExprStr(rs.Results[0]) == "q"
		}) {
			n++
			admitted := false
			for _, gd := range g.Guards(p) {
				if gd.Polarity && strings.Contains(strings.ReplaceAll(core.ExprStr(gd.Cond), " ", ""), ".refs.CompareAndSwap(refs,refs+1)") {
					admitted = true
				}
			}
			// or its own fresh queue: refs.Add(1) dominates the return
			if !admitted {
				target := p.Node()
				if _, _, r := g.ReachesAvoiding(g.Entry(), func(x ast.Node) bool { return strings.Contains(core.ExprStr2(x), ".refs.Add(1)") }, func(x ast.Node) bool { return x == target }); !r {
					admitted = true
				}
			}
			if !admitted {
				okRet = false
			}
		}
		neg := 0
		for _, cs := range g.Conds(func(e ast.Expr) bool { return core.ExprStr(e) == "refs < 0" }) {
			_ = cs
			neg++
		}
		c.R.Checkf(rule, "acquire-admits-on-cas-from-non-negative", c.pos(f.Pos()), okRet && n >= 3 && neg >= 2, "acquireQueue returns a queue only after taking a claim on it (CAS from a non-negative count, or Add on its own new queue); a claimed (negative) queue is never returned (%d return sites, %d negative tests)", n, neg)
	}
	if f := c.fn("DRAIN", "control", "UdpTaskQueue.popReadyTask"); f != nil {
		g := f.Graph()
		recv := func(n ast.Node) bool {
			r := false
			ast.Inspect(n, func(m ast.Node) bool {
				if u, ok := m.(*ast.UnaryExpr); ok && u.Op == token.ARROW && strings.HasSuffix(core.ExprStr(u.X), ".ch") {
					r = true
				}
				return true
			})
			return r
		}
		_, _, r := g.ReachesAvoiding(g.Entry(), recv, nodeCalls(f.Info(), "control.UdpTaskQueue.popOverflowTask"))
		c.R.Checkf("DRAIN", "channel-before-overflow", c.pos(f.Pos()), !r, "the worker tries the channel before the overflow list (tasks parked in overflow were accepted after everything in the channel)")
	}
}

func c13Close(c *Ctx) {
	const rule = "CLOSEONCE"
	f := c.fn(rule, "control", "UdpEndpoint.Close")
	if f != nil {
		var once *ast.FuncLit
		outside := false
		for _, st := range f.Body.List {
			if es, ok := st.(*ast.ExprStmt); ok {
				if call, ok := es.X.(*ast.CallExpr); ok && strings.HasSuffix(core.ExprStr(call.Fun), ".closeOnce.Do") && len(call.Args) == 1 {
					once, _ = call.Args[0].(*ast.FuncLit)
					continue
				}
			}
			// anything else at top level (logging, counters) is fine as long as it releases nothing
			if txt := core.FullStr(st); strings.Contains(txt, ".conn.Close()") || strings.Contains(txt, ".releaseTrackedUdpConnState()") || strings.Contains(txt, "drainRelease()") {
				outside = true
			}
		}
		ok := once != nil && !outside
		full := ""
		if once != nil {
			full = core.FullStr(once.Body)
		}
		c.R.Checkf(rule, "close-body-inside-once", c.pos(f.Pos()), ok && strings.Contains(full, ".conn.Close()") && strings.Contains(full, ".releaseTrackedUdpConnState()") && strings.Contains(full, "drainRelease()"), "Close does all its work inside closeOnce.Do: transport close, tuple release and the drain ticket are each released exactly once")
	}
	// conn.Close of the endpoint's transport nowhere else
	closers := map[string]bool{}
	for _, ff := range c.P.FuncsIn("control") {
		core.EachCall(ff.Body, core.Deep, func(call *ast.CallExpr) {
			if recv, name, ok := methodCall(call); ok && name == "Close" && core.FieldOf(ff.Info(), recv) == "UdpEndpoint.conn" {
				closers[strings.TrimPrefix(ff.Name, "control.")] = true
			}
		})
	}
	c.R.Checkf(rule, "transport-closed-only-by-Close", "control/udp_endpoint_pool.go", len(closers) == 1 && closers["UdpEndpoint.Close"], "the endpoint's transport is closed only by UdpEndpoint.Close: %v", keysB(closers))

	const T = "TRACKED"
	if f := c.fn(T, "control", "UdpEndpoint.releaseTrackedUdpConnState"); f != nil {
		g := f.Graph()
		mark := func(n ast.Node) bool { return strings.HasSuffix(core.ExprStr2(n), ".udpConnStateClosed = true") }
		conds := g.Conds(func(e ast.Expr) bool { return strings.HasSuffix(core.ExprStr(e), ".udpConnStateClosed") })
		ok := len(conds) == 1
		if ok {
			ex := g.ExitsAvoiding(core.Point{B: conds[0].False, I: 0}, mark)
			ok = len(ex) == 0
		}
		c.R.Checkf(T, "closed-mark-on-every-close-path", c.pos(f.Pos()), ok, "releaseTrackedUdpConnState marks the endpoint tuple-closed on every path past the already-closed test — also when it has no owner or no tuples yet (otherwise a later TrackUdpConnStateTuplePair on the closed endpoint retains tuples that are never released)")
		// the owner's release is called outside the mutex
		rel := nodeCalls(f.Info(), "control.udpConnStateOwner.ReleaseUdpConnStateTuples")
		okOut := true
		for _, p := range g.Find(rel) {
			if heldAt(g, p, "ue.udpConnStateMu") {
				okOut = false
			}
		}
		c.R.Checkf(T, "release-outside-mutex", c.pos(f.Pos()), okOut && len(g.Find(rel)) == 1, "the tracker's release is called after udpConnStateMu was dropped (with the key list taken under it)")
	}
	if f := c.fn(T, "control", "UdpEndpoint.TrackUdpConnStateTuplePair"); f != nil {
		g := f.Graph()
		retain := nodeCalls(f.Info(), "control.udpConnStateOwner.RetainUdpConnStateTuples")
		ok := false
		for _, cs := range g.Conds(func(e ast.Expr) bool { return strings.Contains(core.ExprStr(e), ".udpConnStateClosed") }) {
			cn := ast.Node(cs.Cond)
			_, _, byp := g.ReachesAvoiding(g.Entry(), func(x ast.Node) bool { return x == cn }, retain)
			_, _, fromT := g.ReachesAvoiding(core.Point{B: cs.True, I: 0}, nil, retain)
			if !byp && !fromT {
				ok = true
			}
		}
		c.R.Checkf(T, "no-retain-after-closed", c.pos(f.Pos()), ok, "tuples are retained only on the edge where the endpoint is not tuple-closed and has an owner")
	}
}

func c13Removed(c *Ctx) {
	const rule = "REMOVED"
	n := 0
	for _, f := range c.P.FuncsIn("control") {
		if !strings.HasSuffix(f.File(), "udp_endpoint_pool.go") {
			continue
		}
		for _, u := range append([]*core.Func{f}, litUnits(f)...) {
			info := u.Info()
			g := u.Graph()
			short := strings.TrimPrefix(f.Name, "control.")
			for _, b := range g.CFG.Blocks {
				if !b.Live {
					continue
				}
				for i, nd := range b.Nodes {
					es, ok := nd.(*ast.ExprStmt)
					if !ok {
						continue
					}
					call, ok := es.X.(*ast.CallExpr)
					if !ok || core.ExprStr(call.Fun) != "delete" || len(call.Args) != 2 || core.FieldOf(info, call.Args[0]) != "udpEndpointPoolShard.pool" {
						continue
					}
					n++
					c.R.Saw(f)
					if short == "UdpEndpoint.selfRemoveFromPool" {
						// only caller closes
						callers := map[string]bool{}
						closes := true
						for _, cf := range c.P.FuncsIn("control") {
							for _, cc := range cf.FindCalls(core.ParseRefs("control.UdpEndpoint.selfRemoveFromPool")) {
								callers[strings.TrimPrefix(cf.Name, "control.")] = true
								cg := cf.Graph()
								for _, p := range cg.Find(func(x ast.Node) bool {
									r := false
									ownCalls(x, func(c2 *ast.CallExpr, _ bool) {
										if c2 == cc {
											r = true
										}
									})
									return r
								}) {
									if ex := cg.ExitsAvoiding(p.After(), methodNamed("Close")); len(ex) > 0 {
										closes = false
									}
								}
							}
						}
						c.R.Checkf(rule, "removed=>closed@"+short, c.pos(call.Pos()), closes && len(callers) == 1 && callers["UdpEndpoint.retire"], "self-removal is only called by retire, which closes the endpoint on every path: %v", keysB(callers))
						continue
					}
					// closes directly, or hands the endpoint to a stale/toClose variable that is closed after the lock is dropped
					closed := func(x ast.Node) bool {
						if methodNamed("Close")(x) {
							return true
						}
						if as, ok := x.(*ast.AssignStmt); ok && len(as.Lhs) == 1 {
							l := core.ExprStr(as.Lhs[0])
							if l == "staleToClose" || l == "toClose" {
								return true
							}
						}
						return false
					}
					ex := g.ExitsAvoiding(core.Point{B: b, I: i}.After(), closed)
					// loops: next iteration without close
					okH := len(ex) == 0
					c.R.Checkf(rule, "removed=>closed@"+short+"#"+itoa(n), c.pos(call.Pos()), okH, "after delete(shard.pool, …) every path closes the removed endpoint or records it for closing once the shard lock is dropped")
				}
			}
			// hand-off variables really are closed
			for _, hv := range []string{"staleToClose", "toClose"} {
				uses := strings.Contains(core.FullStr(u.Body), hv+" = ") || strings.Contains(core.FullStr(u.Body), hv+" = append(")
				if !uses || u.Lit == nil && f != u {
					continue
				}
				full := core.FullStr(u.Body)
				ok := strings.Contains(full, hv+".Close()") || (strings.Contains(full, "range "+hv) && strings.Contains(full, "ue.Close()"))
				if strings.Contains(full, hv+" = ue") || strings.Contains(full, hv+" = append("+hv+", ue)") {
					c.R.Checkf(rule, "handoff-closed@"+short+"/"+hv, c.pos(u.Pos()), ok, "endpoints recorded in %s are closed", hv)
				}
			}
		}
	}
	c.R.Floor(rule+"/delete-sites", n, 5)
}
