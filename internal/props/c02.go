package props

import (
	"encoding/json"
	"fmt"
	"go/ast"
	"go/token"
	"regexp"
	"sort"
	"strings"

	"daecheck/internal/core"
)

func init() {
	register(&Checker{ID: "C02", Run: runC02, Explain: "Structural necessary conditions of 'the kernel routing program and the userspace matcher decide identically', decided from both front ends (clang JSON AST of tproxy.c, go/types of package control in both build variants): " +
		"(1) CAUTOMATON: the decision table of the kernel scan step (route_finalize_match composed with the skip test of route_loop_cb and the only-set-GOOD discipline of the per-type predicates), extracted by constant propagation over the C CFG for 448 abstract inputs, equals the same first-match reference the userspace matcher's table is compared with (C01), the only difference being the documented DNS hand-over cell; the DNS bit is initialised from (port 53, tcp|udp); " +
		"(2) CPACK: outbound | mark<<8 | must<<40 at both result sites and the three unpack expressions in the callers; (3) OPERAND: for every match type the packet operand, the rule operand and the comparison are the same on both sides (ports inclusive range on dport/sport, mask AND, equality, 16-byte name equality, LPM lookup keyed by daddr/saddr/mac, bit index%32 of word index/32); " +
		"(4) ENC: every rule operand is written by Go at the offset, width and (little-endian) order at which the C union member of that match type reads it; the probe keys route() builds are /128 keys of the raw 16 bytes; (5) RING: the LPM slot rewrite touches exactly the three LPM match types and uses the same (start + i) mod MaxMatchSetLen expression as the slot the trie is installed at; the array has at least that many slots. " +
		"Not decided: LPM-trie lookup equals trie.HasPrefix on values (C12 covers lengths), content equality of domain_routing_map (C10 covers ownership), verifier-imposed behaviour, big-endian targets."})
}

func runC02(c *Ctx) {
	c02SnapshotImmutable(c)
	facts := c.runCRules("C02", map[string]bool{"COPERAND": true})
	c02Operands(c, facts["COPERAND/facts"])
	c02Enc(c)
	c02Ring(c)
	// the two representations of every emitted match set (kernel bytes / userspace struct) agree
	c01Dual(c)
	// the userspace scan step equals the same first-match reference the kernel step is compared with
	c02GoScan(c)
	scanIsStateless(c, "SCAN", "control", "RoutingMatcher.Match", []string{"goodSubrule", "badRule", "must"})
}

func c02GoScan(c *Ctx) {
	or, ok1 := constInt(c, "SCAN", "common/consts", "OutboundLogicalOr")
	and, ok2 := constInt(c, "SCAN", "common/consts", "OutboundLogicalAnd")
	mask, ok3 := constInt(c, "SCAN", "common/consts", "OutboundLogicalMask")
	mr, ok4 := constInt(c, "SCAN", "common/consts", "OutboundMustRules")
	cpr, ok5 := constInt(c, "SCAN", "common/consts", "OutboundControlPlaneRouting")
	if !(ok1 && ok2 && ok3 && ok4 && ok5) {
		return
	}
	cells := checkScan(c, "SCAN", scanSpec{Rel: "control", Fn: "RoutingMatcher.Match", RangeOver: "matches", NotField: "match.not", OutField: "match.outbound", MustField: "match.must",
		Or: or, And: and, Mask: mask, MustRules: mr, UserKinds: []int64{0, 1, 2, cpr}, HasMustVar: true})
	c.R.Floor("SCAN/cells", cells, 224)
}

var reSpace = regexp.MustCompile(`\s+`)

func nospace(s string) string { return reSpace.ReplaceAllString(s, "") }

func c02Operands(c *Ctx, raw string) {
	const rule = "OPERAND"
	var cf struct {
		Good   map[string][]string `json:"good"`
		LpmKey map[string][]string `json:"lpm_key"`
		Domain []string            `json:"domain"`
		Lpm    []string            `json:"lpm"`
	}
	if raw == "" || json.Unmarshal([]byte(raw), &cf) != nil {
		c.R.Check(rule, "c-facts", "control/kern/tproxy.c", false, "operand facts of route_eval_match were not produced")
		return
	}
	// canonical form of the C side
	cside := map[string]string{}
	for typ, paths := range cf.Good {
		s := strings.Join(paths, " | ")
		switch {
		case strings.Contains(s, "ctx->h_dport >= match_set->.port_range.port_start") && strings.Contains(s, "ctx->h_dport <= match_set->.port_range.port_end"):
			cside[typ] = "dport in [start,end] inclusive"
		case strings.Contains(s, "ctx->h_sport >= match_set->.port_range.port_start") && strings.Contains(s, "ctx->h_sport <= match_set->.port_range.port_end"):
			cside[typ] = "sport in [start,end] inclusive"
		case strings.Contains(s, "(l4proto_type & match_set->.l4proto_type)"):
			cside[typ] = "l4proto & mask"
		case strings.Contains(s, "(ipversion_type & match_set->.ip_version)"):
			cside[typ] = "ipversion & mask"
		case strings.Contains(s, "(dscp == match_set->.dscp)"):
			cside[typ] = "dscp == value"
		case strings.Contains(s, "equal16(match_set->.pname, pname)"):
			cside[typ] = "pname == value (16 bytes)"
			if strings.Contains(s, "is_wan &&") {
				cside[typ] += " [gate: is_wan]"
			}
		case strings.Contains(s, "route_match_lpm(ctx, match_set, route_select_lpm_key(ctx, match_type))"):
			key := strings.Join(cf.LpmKey[typ], ",")
			key = strings.TrimPrefix(key, "sym:&ctx->lpm_key_")
			cside[typ] = "lpm(" + key + ", set index)"
		case s == "GOOD":
			cside[typ] = "always"
		}
	}
	// domain: bit index%32 of word index/32
	dom := strings.Join(cf.Domain, " ")
	if strings.Contains(dom, "(index / 32)") && strings.Contains(dom, "(index % 32)) & 1") {
		cside["MatchType_DomainSet"] = "bit (index%32) of word (index/32) of the daddr entry"
	}
	lpmIdx := false
	for _, l := range cf.Lpm {
		if strings.Contains(l, "bpf_map_lookup_elem(&lpm_array_map, &match_set->.index)") {
			lpmIdx = true
		}
	}
	c.R.Checkf(rule, "kernel-lpm-set-by-index", "control/kern/tproxy.c", lpmIdx, "the kernel selects the trie by match_set->index in lpm_array_map and then looks the probe key up in it")
	// Go side
	f := c.fn(rule, "control", "RoutingMatcher.Match")
	if f == nil {
		return
	}
	gside := map[string]string{}
	var rngKey string
	ast.Inspect(f.Body, func(m ast.Node) bool {
		if rs, ok := m.(*ast.RangeStmt); ok && strings.HasSuffix(core.ExprStr(rs.X), "matches") && rs.Key != nil {
			rngKey = core.ExprStr(rs.Key)
		}
		return true
	})
	ast.Inspect(f.Body, func(m ast.Node) bool {
		cc, ok := m.(*ast.CaseClause)
		if !ok {
			return true
		}
		body := reSpace.ReplaceAllString(core.FullStr(cc), " ")
		for _, e := range cc.List {
			typ := strings.TrimPrefix(core.ExprStr(e), "consts.")
			if !strings.HasPrefix(typ, "MatchType_") {
				continue
			}
			conds := ""
			for _, st := range cc.Body {
				if is, ok := st.(*ast.IfStmt); ok {
					conds += core.NormCond(is.Cond) + ";;"
				}
			}
			switch {
			case strings.Contains(conds, core.NormPat("destPort>=match.portStart&&destPort<=match.portEnd")):
				gside[typ] = "dport in [start,end] inclusive"
			case strings.Contains(conds, core.NormPat("sourcePort>=match.portStart&&sourcePort<=match.portEnd")):
				gside[typ] = "sport in [start,end] inclusive"
			case strings.Contains(conds, core.NormPat("l4proto&consts.L4ProtoType(match.mask)>0")):
				gside[typ] = "l4proto & mask"
			case strings.Contains(conds, core.NormPat("ipVersion&consts.IpVersionType(match.mask)>0")):
				gside[typ] = "ipversion & mask"
			case strings.Contains(conds, core.NormPat("dscp==match.dscp")):
				gside[typ] = "dscp == value"
			case strings.Contains(conds, core.NormPat("match.pname==processName")):
				gside[typ] = "pname == value (16 bytes)"
				if strings.Contains(conds, core.NormPat("processName[0]!=0")) {
					gside[typ] += " [gate: name known]"
				}
			case strings.Contains(body, "lpm.HasPrefix(targetBin)"):
				// which probe per type is decided by the inner switch
			case strings.Contains(conds, core.NormPat("(domainMatchBitmap["+rngKey+"/32]>>("+rngKey+"%32))&1>0")) || domainBitByKey(f, cc, rngKey):
				gside[typ] = "bit (index%32) of word (index/32) of the daddr entry"
			case strings.Contains(body, "goodSubrule = true") && conds == "":
				gside[typ] = "always"
			}
		}
		// inner switch: probe selection
		if len(cc.List) == 1 {
			typ := strings.TrimPrefix(core.ExprStr(cc.List[0]), "consts.")
			var sets []*ast.AssignStmt
			for _, st := range cc.Body {
				if as, ok := st.(*ast.AssignStmt); ok && len(as.Lhs) == 1 && len(as.Rhs) == 1 && core.ExprStr(as.Lhs[0]) == "targetBin" {
					sets = append(sets, as)
				}
			}
			if len(sets) == 1 {
				probe := map[string]string{"ipSetBin": "daddr", "sourceIpSetBin": "saddr", "macBin": "mac"}[core.ExprStr(sets[0].Rhs[0])]
				gside[typ] = "lpm(" + probe + ", set index)"
			}
		}
		return true
	})
	// the probes are built from the right arguments
	full := reSpace.ReplaceAllString(core.FullStr(f.Body), " ")
	okProbe := strings.Contains(full, "ipSetBin := trie.Prefix2bin128(netip.PrefixFrom(netip.AddrFrom16(destAddr), 128))") &&
		strings.Contains(full, "sourceIpSetBin := trie.Prefix2bin128(netip.PrefixFrom(netip.AddrFrom16(sourceAddr), 128))") &&
		strings.Contains(full, "macBin := trie.Prefix2bin128(netip.PrefixFrom(netip.AddrFrom16(mac), 128))")
	c.R.Checkf(rule, "userspace-probes", c.pos(f.Pos()), okProbe, "the userspace probes are built from the destination address, the source address and the MAC respectively")
	okIdx := strings.Contains(full, "lpm := m.lpmMatcher[lpmIndex]") && strings.Contains(full, "lpmIndex := int(match.lpmIndex)")
	c.R.Checkf(rule, "userspace-lpm-set-by-index", c.pos(f.Pos()), okIdx, "the userspace matcher selects the trie by the match set's index")
	var types []string
	for t := range cside {
		types = append(types, t)
	}
	for t := range gside {
		if _, ok := cside[t]; !ok {
			types = append(types, t)
		}
	}
	sort.Strings(types)
	n := 0
	for _, t := range types {
		cs, gs := cside[t], gside[t]
		same := cs == gs
		note := ""
		if t == "MatchType_ProcessName" && strings.HasPrefix(cs, "pname == value (16 bytes)") && strings.HasPrefix(gs, "pname == value (16 bytes)") {
			same = true
			note = " (accepted asymmetry: the kernel gates on is_wan, userspace on a non-empty process name — LAN records carry no name)"
		}
		n++
		c.R.Checkf(rule, "predicate@"+t, "control/routing_matcher_userspace.go", same && cs != "", "kernel: %s ; userspace: %s%s", cs, gs, note)
	}
	c.R.Floor(rule+"/match-types", n, 11)
}

func c02Enc(c *Ctx) {
	const rule = "ENC"
	cf := c.CF(rule)
	rp := c.Real(rule)
	if cf == nil || rp == nil {
		return
	}
	ms := cf.Records["match_set"]
	off := map[string][2]int{}
	for _, f := range ms.Fields {
		off[f.Path] = [2]int{f.Offset, cLeafSize(f.Type, cf)}
	}
	// port range
	if f := rp.Func("control", "bpfPortRange.Encode"); f != nil {
		c.R.Saw(f)
		full := reSpace.ReplaceAllString(core.FullStr(f.Body), " ")
		ok := strings.Contains(full, "binary.LittleEndian.PutUint16(b[:2], r.PortStart)") && strings.Contains(full, "binary.LittleEndian.PutUint16(b[2:], r.PortEnd)")
		cOK := off["port_range.port_start"] == [2]int{0, 2} && off["port_range.port_end"] == [2]int{2, 2}
		c.R.Checkf(rule, "port-range-encode", rp.Pos(f.Pos()), ok && cOK, "Go writes port start at bytes [0,2) and port end at [2,4) little-endian; C reads port_range.port_start at offset %d (width %d) and port_end at %d (width %d)", off["port_range.port_start"][0], off["port_range.port_start"][1], off["port_range.port_end"][0], off["port_range.port_end"][1])
	} else {
		c.R.Unresolved(rule, "control.bpfPortRange.Encode (real build)")
	}
	if f := rp.Func("control", "ParsePortRange"); f != nil {
		full := reSpace.ReplaceAllString(core.FullStr(f.Body), " ")
		ok := strings.Contains(full, "portStart = binary.LittleEndian.Uint16(b[:2])") && strings.Contains(full, "portEnd = binary.LittleEndian.Uint16(b[2:])")
		c.R.Checkf(rule, "port-range-decode", rp.Pos(f.Pos()), ok, "ParsePortRange reads the two ports from the same offsets, little-endian")
	} else {
		c.R.Unresolved(rule, "control.ParsePortRange (real build)")
	}
	// union members start at offset 0 with the widths Go writes
	want := map[string]int{"index": 4, "l4proto_type": 1, "ip_version": 1, "pname": 16, "dscp": 1, "__value": 16}
	var bad []string
	for m, w := range want {
		o, ok := off[m]
		if !ok || o[0] != 0 || (o[1] >= 0 && o[1] < w) {
			bad = append(bad, fmt.Sprintf("%s@%v", m, o))
		}
	}
	c.R.Checkf(rule, "operand-union-members", "control/kern/tproxy.c", len(bad) == 0, "every operand view of struct match_set (index, l4proto_type, ip_version, pname, dscp, raw value) starts at offset 0 and is at least as wide as what the control plane writes%s", func() string {
		if len(bad) > 0 {
			return " — " + strings.Join(bad, ", ")
		}
		return ""
	}())
	// the probe keys route() builds
	if fs, ok := cf.FuncSrc["route"]; ok {
		t := reSpace.ReplaceAllString(fs.Text, " ")
		okLen := strings.Contains(t, "ctx->lpm_key_saddr.prefixlen = IPV6_BYTE_LENGTH * 8") && strings.Contains(t, "ctx->lpm_key_daddr.prefixlen = IPV6_BYTE_LENGTH * 8") && strings.Contains(t, "ctx->lpm_key_mac.prefixlen = IPV6_BYTE_LENGTH * 8") && cf.Macros["IPV6_BYTE_LENGTH"] == 16
		okCopy := strings.Contains(t, "__builtin_memcpy(ctx->lpm_key_saddr.data, saddr, IPV6_BYTE_LENGTH)") && strings.Contains(t, "__builtin_memcpy(ctx->lpm_key_daddr.data, daddr, IPV6_BYTE_LENGTH)") && strings.Contains(t, "__builtin_memcpy(ctx->lpm_key_mac.data, mac, IPV6_BYTE_LENGTH)")
		c.R.Checkf(rule, "kernel-probe-keys", fmt.Sprintf("control/kern/tproxy.c:%d", fs.Line), okLen && okCopy, "route() probes with /128 keys holding the raw 16 address bytes of source, destination and MAC (userspace probes with Prefix2bin128 of the same /128)")
	}
	// Ipv6ByteSliceToUint32Array keeps byte order
	if f := c.fn(rule, "common", "Ipv6ByteSliceToUint32Array"); f != nil {
		full := core.FullStr(f.Body)
		ok := strings.Contains(full, "NativeEndian") || strings.Contains(full, "unsafe")
		c.R.Checkf(rule, "key-words-native-order", c.pos(f.Pos()), ok, "address bytes are reinterpreted as native-order 32-bit words, i.e. the byte sequence the kernel memcpy's is preserved")
	}
}

func c02Ring(c *Ctx) {
	const rule = "RING"
	f := c.fn(rule, "control", "rewriteKernRulesWithRingLpmIndex")
	if f == nil {
		return
	}
	info := f.Info()
	cases := map[string]bool{}
	var newExpr, written string
	ast.Inspect(f.Body, func(m ast.Node) bool {
		switch x := m.(type) {
		case *ast.CaseClause:
			for _, e := range x.List {
				cases[strings.TrimPrefix(core.ExprStr(e), "consts.")] = true
			}
		case *ast.CallExpr:
			if strings.HasSuffix(core.ExprStr(x.Fun), "LittleEndian.PutUint32") && len(x.Args) == 2 {
				written = core.ExprStr(x.Args[1])
			}
		}
		return true
	})
	// the value written: trace the variable to its defining expression; every path from its definition to the write must not modify it
	g := f.Graph()
	var defs []string
	for _, b := range g.CFG.Blocks {
		for _, nd := range b.Nodes {
			switch x := nd.(type) {
			case *ast.AssignStmt:
				for i, l := range x.Lhs {
					if core.ExprStr(l) == written && i < len(x.Rhs) {
						defs = append(defs, x.Tok.String()+" "+reSpace.ReplaceAllString(core.ExprStr(x.Rhs[i]), ""))
					}
				}
			case *ast.IncDecStmt:
				if core.ExprStr(x.X) == written {
					defs = append(defs, x.Tok.String())
				}
			}
		}
	}
	if len(defs) == 1 {
		newExpr = defs[0]
	}
	okCases := len(cases) == 3 && cases["MatchType_IpSet"] && cases["MatchType_SourceIpSet"] && cases["MatchType_Mac"]
	c.R.Checkf(rule, "rewrites-exactly-lpm-types", c.pos(f.Pos()), okCases, "the ring rewrite touches exactly the three match types whose operand is an LPM set index: %v", keysB(cases))
	okExpr := newExpr == ":= (allocStartIdx+oldLpmIndex)%maxEntries"
	maxIsLimit := false
	ast.Inspect(f.Body, func(m ast.Node) bool {
		if as, ok := m.(*ast.AssignStmt); ok && len(as.Lhs) == 1 && core.ExprStr(as.Lhs[0]) == "maxEntries" && (nospace(core.ExprStr(as.Rhs[0])) == "uint32(consts.MaxMatchSetLen)" || nospace(core.ExprStr(as.Rhs[0])) == "consts.MaxMatchSetLen") {
			maxIsLimit = true
		}
		return true
	})
	c.R.Checkf(rule, "rewrite-expression", c.pos(f.Pos()), okExpr && maxIsLimit, "the rewritten index is defined once as (allocStartIdx + oldLpmIndex) %% MaxMatchSetLen and written unmodified (definitions of %s: %v) — the trie is installed at (allocStartIdx + i) %% MaxMatchSetLen, so any other wrap (e.g. a compare-and-subtract with `>` instead of `>=`) points the rule at an empty slot", written, defs)
	// install side
	if b := c.fn(rule, "control", "buildRoutingKernspace"); b != nil {
		n, ok := 0, true
		// every lpmMapResult literal of the package (the construction may live in a helper of buildRoutingKernspace)
		for _, u := range c.P.FuncsIn("control") {
			if strings.HasSuffix(u.File(), "_test.go") {
				continue
			}
			ast.Inspect(u.Body, func(m ast.Node) bool {
				cl, isCL := m.(*ast.CompositeLit)
				if !isCL {
					return true
				}
				if t := u.Info().TypeOf(cl); t == nil || !strings.HasSuffix(t.String(), "control.lpmMapResult") {
					return true
				}
				for _, el := range cl.Elts {
					if kv, isKV := el.(*ast.KeyValueExpr); isKV && core.ExprStr(kv.Key) == "lpmIndex" {
						n++
						s := reSpace.ReplaceAllString(core.ExprStr(kv.Value), "")
						if !regexp.MustCompile(`^\(\w+\+uint32\(\w+\)\)%uint32\(consts\.MaxMatchSetLen\)$`).MatchString(s) {
							ok = false
						}
					}
				}
				return true
			})
		}
		c.R.Checkf(rule, "install-slot-expression", c.pos(b.Pos()), ok && n >= 1, "trie i is installed at slot (allocStartIdx + i) %% MaxMatchSetLen at all %d construction sites", n)
		// rules written to the kernel are the rewritten ones
		full := reSpace.ReplaceAllString(core.FullStr(b.Body), " ")
		c.R.Checkf(rule, "kernel-gets-rewritten-rules", c.pos(b.Pos()), strings.Contains(full, "rewriteKernRulesWithRingLpmIndex(rules, allocStartIdx,"), "buildRoutingKernspace sends the rewritten copy of the rules to the kernel, with the same start index it installs the tries at")
	}
	_ = info
	_ = token.ADD
	if cf := c.CF(rule); cf != nil {
		maxSet, _ := goVarInit(c, "common/consts", "MaxMatchSetLen")
		m := cf.Maps["lpm_array_map"]
		c.R.Checkf(rule, "array-has-enough-slots", "control/kern/tproxy.c", m.MaxEntries != nil && int64(*m.MaxEntries) >= maxSet, "lpm_array_map has %d slots >= MaxMatchSetLen (%d)", func() int {
			if m.MaxEntries != nil {
				return *m.MaxEntries
			}
			return -1
		}(), maxSet)
	}
}


// domainBitByKey: the clause tests bit (key%32) of word domainMatchBitmap[key/32], where the word index and the
// shift amount may be named by single-definition locals.
func domainBitByKey(f *core.Func, cc *ast.CaseClause, key string) bool {
	info := f.Info()
	idxOK, shiftOK := false, false
	isKeyOp := func(e ast.Expr, op token.Token) bool {
		be, ok := ast.Unparen(throughSingleDef(info, f.Body, e)).(*ast.BinaryExpr)
		if !ok || be.Op != op {
			return false
		}
		tv, has := info.Types[be.Y]
		return core.ExprStr(be.X) == key && has && tv.Value != nil && tv.Value.String() == "32"
	}
	for _, st := range cc.Body {
		ast.Inspect(st, func(k ast.Node) bool {
			switch x := k.(type) {
			case *ast.IndexExpr:
				if core.ExprStr(x.X) == "domainMatchBitmap" && isKeyOp(x.Index, token.QUO) {
					idxOK = true
				}
			case *ast.BinaryExpr:
				if x.Op == token.SHR && isKeyOp(x.Y, token.REM) {
					shiftOK = true
				}
			}
			return true
		})
	}
	return idxOK && shiftOK
}
