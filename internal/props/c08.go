package props

import (
	"fmt"
	"go/ast"
	"go/token"
	"go/types"
	"sort"
	"strings"

	"daecheck/internal/core"
)

func init() {
	register(&Checker{ID: "C08", Run: runC08, Explain: "Structural necessary conditions of 'the DNS cache serves only live, correctly scoped answers', decided on the type-checked source of package control: " +
		"(1) KEY: the key of every cache map access is a cache-key parameter or the map's own iteration key; the query handler derives its keys from cacheKey (canonical name + type) and responseCacheKey (scope); the scope function is total; " +
		"(2) REFRESH: the refresh is requested only on the success edge of the refreshing-flag CAS; backgroundRefresh clears the flag by a deferred clean-up whose callees cannot delete from the cache (effect summary over the call graph) — a clean-up that evicts defeats the stale window; " +
		"(3) BOUNDARY: every freshness comparison uses the same boundary (fresh iff deadline > now); both deadline clocks are written together by every function that installs a pre-packed answer; reload clones copy each atomic field from the source entry, never from the clone itself; " +
		"(4) STALE: the stale answer is consulted only under the optimistic-cache switch and the not-served path evicts; (5) EVICT: direct deletions from the cache map are confined to the reviewed eviction functions; (6) HEAP: the LRU heap's two child guards use the same bound. " +
		"(7) LRU: every lookup that serves cached bytes has recorded the use (unconditional last-access stamp); the TTL packed into a stored answer is computed from the deadline the entry lives until. " +
		"Not decided: TTL arithmetic and the 15 s slack, LRU order over histories, time-relative behaviour."})
}

func dnsCacheMapCall(info *types.Info, call *ast.CallExpr) (string, bool) {
	recv, name, ok := methodCall(call)
	if !ok {
		return "", false
	}
	if fld := core.FieldOf(info, recv); fld == "dnsControllerStore.dnsCache" || fld == "DnsController.dnsCache" {
		return name, true
	}
	return "", false
}

func runC08(c *Ctx) {
	const K = "KEY"
	c08ScopeByUpstreamIdentity(c, K)
	c08FixedTtlForEveryConfiguredValue(c, "BOUNDARY")
	n := 0
	deleters := map[string]bool{}
	for _, f := range c.P.FuncsIn("control") {
		info := f.Info()
		short := strings.TrimPrefix(f.Name, "control.")
		core.EachCall(f.Body, core.Deep, func(call *ast.CallExpr) {
			name, ok := dnsCacheMapCall(info, call)
			if !ok {
				return
			}
			switch name {
			case "Load", "Store", "Delete", "CompareAndDelete", "LoadAndDelete", "LoadOrStore", "CompareAndSwap", "Swap":
			default:
				return
			}
			if name == "Delete" || name == "CompareAndDelete" || name == "LoadAndDelete" {
				if !foreignTypeCleanup(f, call) {
					deleters[short] = true
				}
			}
			n++
			c.R.Saw(f)
			key := ast.Unparen(call.Args[0])
			ok2 := false
			why := core.ExprStr(key)
			if id, isId := key.(*ast.Ident); isId {
				if v, isV := info.ObjectOf(id).(*types.Var); isV {
					lname := strings.ToLower(id.Name)
					switch {
					case isParamAnyFunc(f, v) && strings.Contains(lname, "key"):
						ok2 = true
					case lname == "key" || lname == "cachekey" || lname == "k":
						ok2 = true // iteration key of the map itself / type-asserted iteration key
					}
				}
			}
			if se, isSel := key.(*ast.SelectorExpr); isSel && se.Sel.Name == "key" {
				ok2 = true // key recorded from the map's own iteration (LRU scratch entries)
			}
			// the key an entry records for itself when it is stored (DnsCache.RouteOwnerKey = cacheKey)
			if core.FieldOf(info, key) == "DnsCache.RouteOwnerKey" {
				ok2 = true
			}
			if id, isId := key.(*ast.Ident); isId && !ok2 {
				obj := info.ObjectOf(id)
				ast.Inspect(f.Body, func(k ast.Node) bool {
					if as, isAs := k.(*ast.AssignStmt); isAs && len(as.Lhs) == 1 && len(as.Rhs) == 1 {
						if lid, isL := as.Lhs[0].(*ast.Ident); isL && info.ObjectOf(lid) == obj && core.FieldOf(info, as.Rhs[0]) == "DnsCache.RouteOwnerKey" {
							ok2 = true
						}
					}
					return true
				})
			}
			c.R.Checkf(K, fmt.Sprintf("map-key@%s/%s#%d", short, name, n), c.pos(call.Pos()), ok2, "dnsCache.%s is keyed by %s (a cache-key parameter or the map's own iteration key)", name, why)
		})
	}
	c.R.Floor(K+"/map-accesses", n, 9)
	if f := c.fn(K, "control", "DnsController.cacheKey"); f != nil {
		full := core.FullStr(f.Body)
		ok := strings.Contains(full, "dnsmessage.CanonicalName(qname)") && strings.Contains(full, "qtype")
		rets := 0
		ast.Inspect(f.Body, func(m ast.Node) bool {
			if rs, isR := m.(*ast.ReturnStmt); isR {
				if !strings.HasPrefix(core.ExprStr(rs.Results[0]), "qname + ") {
					ok = false
				}
				rets++
			}
			return true
		})
		c.R.Checkf(K, "cacheKey-canonical", c.pos(f.Pos()), ok && rets >= 1, "cacheKey lower-cases / fully-qualifies the name (CanonicalName) and appends the record type on every return")
	}
	if f := c.fn(K, "control", "DnsController.responseCacheScope"); f != nil {
		n := switchDefaultPresent(f)
		c.R.Checkf(K, "scope-total", c.pos(f.Pos()), n, "responseCacheScope has a default branch: every request outbound index maps to a scope")
	}
	if f := c.fn(K, "control", "DnsController.HandleWithResponseWriter_"); f != nil {
		info := f.Info()
		okBase, okResp := false, false
		ast.Inspect(f.Body, func(m ast.Node) bool {
			as, ok := m.(*ast.AssignStmt)
			if !ok || len(as.Lhs) != 1 || len(as.Rhs) != 1 {
				return true
			}
			call, ok := as.Rhs[0].(*ast.CallExpr)
			if !ok {
				return true
			}
			cal := core.Callee(info, call)
			if cal == nil {
				return true
			}
			if core.ExprStr(as.Lhs[0]) == "baseCacheKey" && cal.Name() == "cacheKey" {
				okBase = true
			}
			if core.ExprStr(as.Lhs[0]) == "responseCacheKey" && cal.Name() == "responseCacheKey" && core.ExprStr(call.Args[0]) == "baseCacheKey" {
				okResp = true
			}
			return true
		})
		bad := ""
		for _, call := range f.FindCalls(core.ParseRefs("control.DnsController.LookupDnsRespCache_", "control.DnsController.LookupDnsRespCache")) {
			if core.ExprStr(call.Args[len(call.Args)-2]) != "responseCacheKey" {
				bad = core.ExprStr(call.Args[len(call.Args)-2])
			}
		}
		sfOK := false
		ast.Inspect(f.Body, func(m ast.Node) bool {
			if call, ok := m.(*ast.CallExpr); ok && strings.HasSuffix(core.ExprStr(call.Fun), ".sf.Do") && core.ExprStr(call.Args[0]) == "responseCacheKey" {
				sfOK = true
			}
			return true
		})
		c.R.Checkf(K, "handler-keys-derived", c.pos(f.Pos()), okBase && okResp && bad == "" && sfOK, "the handler's base key comes from cacheKey(name, type), its lookup/singleflight key from responseCacheKey(base, scope…)%s", func() string {
			if bad != "" {
				return " — a lookup is keyed by " + bad
			}
			return ""
		}())
	}

	c08Refresh(c, deleters)
	c08Boundary(c)
	c08Stale(c)
	c08Evict(c, deleters)
	c08Heap(c)
	c08Round2(c)
	c08FixedTtlKey(c)
	cacheKeyTypeInjective(c, "KEY")
	c08LruWriters(c)
}

func isParamAnyFunc(f *core.Func, v *types.Var) bool {
	if isParamOfFunc(f, v) {
		return true
	}
	// parameters of enclosing literals
	found := false
	ast.Inspect(f.Body, func(m ast.Node) bool {
		if lit, ok := m.(*ast.FuncLit); ok {
			for _, fl := range lit.Type.Params.List {
				for _, nm := range fl.Names {
					if f.Info().ObjectOf(nm) == v {
						found = true
					}
				}
			}
		}
		return true
	})
	return found
}

func switchDefaultPresent(f *core.Func) bool {
	ok := false
	ast.Inspect(f.Body, func(m ast.Node) bool {
		if sw, isS := m.(*ast.SwitchStmt); isS {
			for _, cl := range sw.Body.List {
				if cc := cl.(*ast.CaseClause); cc.List == nil && len(cc.Body) > 0 {
					ok = true
				}
			}
		}
		return true
	})
	return ok
}

// mayDeleteFromCache: transitive closure over static callees inside package control.
func mayDeleteFromCache(c *Ctx, direct map[string]bool) map[string]bool {
	calls := map[string][]string{}
	for _, f := range c.P.FuncsIn("control") {
		short := strings.TrimPrefix(f.Name, "control.")
		core.EachCall(f.Body, core.Deep, func(call *ast.CallExpr) {
			if cal := core.Callee(f.Info(), call); cal != nil && cal.Pkg() != nil && strings.HasSuffix(cal.Pkg().Path(), "/control") {
				nm := cal.Name()
				if r := recvName(cal); r != "" {
					nm = r + "." + nm
				}
				calls[short] = append(calls[short], nm)
			}
		})
	}
	out := map[string]bool{}
	for k := range direct {
		out[k] = true
	}
	for changed := true; changed; {
		changed = false
		for fn, cs := range calls {
			if out[fn] {
				continue
			}
			for _, cal := range cs {
				if out[cal] {
					out[fn] = true
					changed = true
					break
				}
			}
		}
	}
	return out
}

func c08Refresh(c *Ctx, deleters map[string]bool) {
	const rule = "REFRESH"
	if f := c.fn(rule, "control", "DnsController.LookupDnsRespCache_"); f != nil {
		g := f.Graph()
		sets := g.Find(func(n ast.Node) bool {
			as, ok := n.(*ast.AssignStmt)
			return ok && len(as.Lhs) == 1 && core.ExprStr(as.Lhs[0]) == "needRefresh" && core.ExprStr(as.Rhs[0]) == "true"
		})
		ok := len(sets) >= 1
		for _, p := range sets {
			guarded := false
			for _, gd := range g.Guards(p) {
				if gd.Polarity && strings.Contains(core.ExprStr(gd.Cond), ".refreshing.CompareAndSwap(false, true)") {
					guarded = true
				}
			}
			if !guarded {
				ok = false
			}
		}
		c.R.Checkf(rule, "refresh-requested-on-cas-success", c.pos(f.Pos()), ok, "needRefresh is set only on the success edge of refreshing.CompareAndSwap(false, true): at most one refresh per entry is in flight")
	}
	if f := c.fn(rule, "control", "DnsController.HandleWithResponseWriter_"); f != nil {
		g := f.Graph()
		gos := g.Find(func(n ast.Node) bool {
			gs, ok := n.(*ast.GoStmt)
			return ok && strings.HasSuffix(core.ExprStr(gs.Call.Fun), ".backgroundRefresh")
		})
		ok := len(gos) >= 1
		for _, p := range gos {
			guarded := false
			for _, gd := range g.Guards(p) {
				if gd.Polarity && core.ExprStr(gd.Cond) == "needRefresh" {
					guarded = true
				}
			}
			if !guarded {
				ok = false
			}
		}
		c.R.Checkf(rule, "refresh-started-only-when-requested", c.pos(f.Pos()), ok, "backgroundRefresh is started only under needRefresh")
	}
	f := c.fn(rule, "control", "DnsController.backgroundRefresh")
	if f == nil {
		return
	}
	info := f.Info()
	may := mayDeleteFromCache(c, deleters)
	// deferred literals that clear the flag
	found := false
	for _, st := range f.Body.List {
		ds, ok := st.(*ast.DeferStmt)
		if !ok {
			continue
		}
		lit, ok := ds.Call.Fun.(*ast.FuncLit)
		if !ok || !strings.Contains(core.FullStr(lit.Body), "MarkRefreshed()") {
			continue
		}
		found = true
		var bad []string
		core.EachCall(lit.Body, core.Deep, func(call *ast.CallExpr) {
			cal := core.Callee(info, call)
			if cal == nil {
				return
			}
			nm := cal.Name()
			if r := recvName(cal); r != "" {
				nm = r + "." + nm
			}
			if may[nm] {
				bad = append(bad, nm)
			}
			if name, isMap := dnsCacheMapCall(info, call); isMap && (name == "Delete" || name == "CompareAndDelete" || name == "LoadAndDelete") {
				bad = append(bad, "dnsCache."+name)
			}
		})
		c.R.Checkf(rule, "cleanup-cannot-evict@backgroundRefresh", c.pos(ds.Pos()), len(bad) == 0, "the deferred clean-up that clears the refreshing flag only reads the cache%s", func() string {
			if len(bad) > 0 {
				return " — it calls " + strings.Join(bad, ", ") + ", which may delete the (still expired) entry: after a failed refresh the stale answer is evicted and the rest of the stale window is lost"
			}
			return ""
		}())
		// registered before the first early return
		g := f.Graph()
		_, _, r := g.ReachesAvoiding(g.Entry(), func(n ast.Node) bool { return n == ast.Node(ds) }, func(n ast.Node) bool {
			_, isRet := n.(*ast.ReturnStmt)
			return isRet
		})
		c.R.Checkf(rule, "cleanup-registered-before-any-return", c.pos(ds.Pos()), !r, "the clean-up is deferred before the first return of backgroundRefresh (the flag is cleared on all exits)")
	}
	if !found {
		c.R.Checkf(rule, "cleanup-cannot-evict@backgroundRefresh", c.pos(f.Pos()), false, "backgroundRefresh has no deferred clean-up clearing the refreshing flag")
	}
	c.R.Extra["may_delete_from_cache_functions"] = len(may)
}

func c08Boundary(c *Ctx) {
	const rule = "BOUNDARY"
	// normal form: "fresh iff deadline > now"
	type site struct{ fn, want string }
	n := 0
	for _, fn := range []string{"DnsController.LookupDnsRespCache", "DnsController.LookupDnsRespCache_", "DnsController.evictExpiredDnsCache", "DnsCache.GetStaleResponse", "DnsCache.GetPackedResponseWithApproximateTTL"} {
		f := c.fn(rule, "control", fn)
		if f == nil {
			continue
		}
		info := f.Info()
		var conds []string
		okAll := true
		ast.Inspect(f.Body, func(m ast.Node) bool {
			switch x := m.(type) {
			case *ast.CallExpr:
				recv, name, ok := methodCall(x)
				if !ok || len(x.Args) != 1 {
					return true
				}
				t := info.TypeOf(recv)
				if t == nil || !strings.HasSuffix(t.String(), "time.Time") {
					return true
				}
				r, a := strings.ToLower(core.ExprStr(recv)), strings.ToLower(core.ExprStr(x.Args[0]))
				switch name {
				case "After":
					conds = append(conds, core.ExprStr(x))
					if !(strings.Contains(r, "deadline") && a == "now") {
						okAll = false // now.After(deadline) differs at equality
					}
				case "Before":
					conds = append(conds, core.ExprStr(x))
					if !(r == "now" && strings.Contains(a, "deadline")) {
						okAll = false
					}
				}
			case *ast.BinaryExpr:
				_, op, other, isCmp := core.Oriented(x, func(e ast.Expr) bool {
					// the deadline itself (a variable or field), not an expression built from it: `now > deadline + window`
					// is the stale-window test, a different comparison
					switch ast.Unparen(e).(type) {
					case *ast.Ident, *ast.SelectorExpr:
						return strings.Contains(strings.ToLower(core.ExprStr(e)), "deadlinenano")
					}
					return false
				})
				if !isCmp || strings.ToLower(core.ExprStr(other)) != "nownano" {
					return true
				}
				conds = append(conds, core.ExprStr(x))
				if op != token.GTR && op != token.LEQ {
					okAll = false // >= / < would treat deadline == now as fresh
				}
			}
			return true
		})
		if len(conds) == 0 {
			continue
		}
		n++
		c.R.Checkf(rule, "fresh-iff-deadline>now@"+fn, c.pos(f.Pos()), okAll, "freshness comparisons %v all mean 'fresh iff deadline is strictly after now' (siblings agree at the boundary)", conds)
	}
	c.R.Floor(rule+"/comparison-sites", n, 5)
	// both clocks written together
	k := 0
	for _, f := range c.P.FuncsIn("control") {
		if !strings.HasSuffix(f.File(), "dns_cache.go") {
			continue
		}
		full := core.FullStr(f.Body)
		installs := strings.Contains(full, ".packedResponse.Store(")
		callsInstaller := strings.Contains(full, ".prepackResponseWithTTL(")
		short := strings.TrimPrefix(f.Name, "control.")
		if !(installs || callsInstaller) || short == "DnsCache.prepackResponseWithTTL" || short == "DnsCache.GetPackedResponseWithApproximateTTL" {
			continue
		}
		k++
		ok := strings.Contains(full, ".deadlineNano.Store(")
		c.R.Checkf(rule, "deadline-clocks-co-written@"+short, c.pos(f.Pos()), ok, "%s installs a pre-packed answer and also records deadlineNano (the clock the pre-packed and stale paths compare against); without it they see deadline 0: the fast path never applies and every expired entry looks 'too stale'", short)
	}
	c.R.Floor(rule+"/installers", k, 3)
	// clone: each atomic copied from the source
	for _, f := range c.P.FuncsIn("control") {
		if !strings.HasSuffix(f.File(), "dns_cache.go") || f.Decl == nil || !strings.HasPrefix(f.Decl.Name.Name, "Clone") {
			continue
		}
		var recv string
		if f.Decl.Recv != nil && len(f.Decl.Recv.List[0].Names) > 0 {
			recv = f.Decl.Recv.List[0].Names[0].Name
		}
		var self []string
		core.EachCall(f.Body, core.Deep, func(call *ast.CallExpr) {
			r, name, ok := methodCall(call)
			if !ok || name != "Store" || len(call.Args) != 1 {
				return
			}
			// only stores into fields of the clone (a local that is not the receiver)
			if root := core.RootObj(f.Info(), r); root == nil || root.Name() == recv {
				return
			}
			if !strings.Contains(core.FieldOf(f.Info(), r), "DnsCache.") {
				return
			}
			// the two fields that describe the pre-packed bytes (their TTL and when they were packed)
			// travel with those bytes: they must be copied from the source entry as they are
			describesPacked := strings.HasSuffix(core.ExprStr(r), ".packedResponseTTL") || strings.HasSuffix(core.ExprStr(r), ".packedResponseCreatedAt")
			inner, ok := call.Args[0].(*ast.CallExpr)
			if !ok {
				if describesPacked {
					self = append(self, core.ExprStr(call)+" (describes the copied packed bytes; must be the source entry's value)")
				}
				return
			}
			ir, iname, ok := methodCall(inner)
			if !ok || iname != "Load" {
				if describesPacked {
					self = append(self, core.ExprStr(call)+" (describes the copied packed bytes; must be the source entry's value)")
				}
				return
			}
			dst, src := core.ExprStr(r), core.ExprStr(ir)
			di, si := strings.Index(dst, "."), strings.Index(src, ".")
			if di < 0 || si < 0 {
				return
			}
			if dst[di:] == src[si:] && dst[:di] == src[:si] {
				self = append(self, core.ExprStr(call))
			}
			if dst[di:] == src[si:] && src[:si] != recv && recv != "" {
				self = append(self, core.ExprStr(call)+" (source is not the receiver)")
			}
		})
		c.R.Checkf(rule, "clone-copies-from-source@"+strings.TrimPrefix(f.Name, "control."), c.pos(f.Pos()), len(self) == 0, "every field of the clone is loaded from the entry being cloned%s", func() string {
			if len(self) > 0 {
				return " — " + strings.Join(self, "; ") + " copies the (zero) field of the clone onto itself: the pre-packed bytes keep their original TTL while the recorded TTL says 0"
			}
			return ""
		}())
	}
}

func c08Stale(c *Ctx) {
	const rule = "STALE"
	n := 0
	for _, f := range c.P.FuncsIn("control") {
		info := f.Info()
		g := f.Graph()
		for _, p := range g.Find(nodeCalls(info, "control.DnsCache.GetStaleResponse")) {
			n++
			c.R.Saw(f)
			guarded := false
			for _, gd := range g.Guards(p) {
				if gd.Polarity && strings.Contains(strings.ToLower(core.ExprStr(gd.Cond)), "optimisticcacheenabled") {
					guarded = true
				}
			}
			c.R.Checkf(rule, "stale-only-when-enabled@"+strings.TrimPrefix(f.Name, "control."), c.pos(p.Node().Pos()), guarded, "the stale answer is consulted only when optimistic caching is enabled")
		}
	}
	c.R.Floor(rule+"/stale-sites", n, 1)
	if f := c.fn(rule, "control", "DnsController.LookupDnsRespCache_"); f != nil {
		// the final `return nil, false` (not served) is preceded by the eviction
		g := f.Graph()
		last := f.Body.List[len(f.Body.List)-1]
		_, _, r := g.ReachesAvoiding(g.Entry(), Or(nodeCalls(f.Info(), "control.DnsController.evictDnsRespCacheIfSame"), func(n ast.Node) bool {
			// fresh branch and load-miss returns are other exits
			return false
		}), func(n ast.Node) bool { return n == ast.Node(last) })
		c.R.Checkf(rule, "expired-not-served=>evicted", c.pos(last.Pos()), !r, "an expired entry that is not served stale is evicted before the lookup reports a miss")
	}
}

func c08Evict(c *Ctx, deleters map[string]bool) {
	const rule = "EVICT"
	allowed := map[string]string{
		"DnsController.evictDnsRespCacheIfSame":  "the eviction primitive (CompareAndDelete + side effects)",
		"DnsController.RemoveDnsRespCache":       "explicit removal",
		"DnsController.RemoveDnsRespCacheFamily": "reject routing drops the family",
		"DnsController.evictExpiredDnsCache":     "janitor drops entries of a foreign type",
		"DnsController.evictLRUIfFull":           "LRU pass",
		"DnsController.RestoreReloadCache":       "reload restore",
		"DnsController.Close":                    "shutdown",
	}
	var ds []string
	for d := range deleters {
		ds = append(ds, d)
	}
	sort.Strings(ds)
	for _, d := range ds {
		base := d
		if i := strings.Index(d, "$"); i >= 0 {
			base = d[:i]
		}
		why, ok := allowed[base]
		c.R.Checkf(rule, "deleter@"+d, "control/dns_control.go", ok, "%s deletes from the cache map: %s", d, func() string {
			if ok {
				return why
			}
			return "not in the reviewed set (deletions must go through the eviction functions, which also remove kernel-side effects)"
		}())
	}
	c.R.Floor(rule+"/deleters", len(ds), 2)
}

func c08Heap(c *Ctx) {
	const rule = "HEAP"
	f := c.fn(rule, "control", "heapifyMin")
	if f == nil {
		return
	}
	bounds := map[string]string{}
	ast.Inspect(f.Body, func(m ast.Node) bool {
		be, ok := m.(*ast.BinaryExpr)
		if !ok {
			return true
		}
		if x, op, y, ok := core.Oriented(be, func(e ast.Expr) bool {
			id, isId := e.(*ast.Ident)
			return isId && (id.Name == "left" || id.Name == "right")
		}); ok && op == token.LSS {
			bounds[x.(*ast.Ident).Name] = core.ExprStr(y)
		}
		return true
	})
	c.R.Checkf(rule, "child-guards-same-bound", c.pos(f.Pos()), len(bounds) == 2 && bounds["left"] == bounds["right"] && bounds["left"] == "n", "both child guards of the LRU heap use the heap-size bound n (left < %s, right < %s): a guard against the slice length pulls already-extracted victims back into the heap", bounds["left"], bounds["right"])
}

// foreignTypeCleanup: the delete is on the edge where the map value failed its
// type assertion to *DnsCache (not a cache entry at all).
func foreignTypeCleanup(f *core.Func, call *ast.CallExpr) bool {
	for _, u := range append([]*core.Func{f}, litUnits(f)...) {
		g := u.Graph()
		for _, p := range g.Find(func(n ast.Node) bool {
			found := false
			ast.Inspect(n, func(m ast.Node) bool {
				if m == ast.Node(call) {
					found = true
				}
				if _, isLit := m.(*ast.FuncLit); isLit && m != ast.Node(u.Lit) {
					return false
				}
				return true
			})
			return found
		}) {
			for _, gd := range g.Guards(p) {
				if id, ok := gd.Cond.(*ast.Ident); ok && id.Name == "ok" && !gd.Polarity {
					return true
				}
			}
		}
	}
	return false
}
