package props

import (
	"go/ast"
	"go/token"
	"go/types"
	"strings"

	"daecheck/internal/core"
)

func init() {
	register(&Checker{ID: "C07", Run: runC07, Explain: "Structural necessary conditions of first-match DNS request/response routing, decided on the type-checked source: " +
		"(1) SCAN: the decision tables of RequestMatcher.Match and ResponseMatcher.Match loop bodies (exhaustive constant propagation over the CFG) equal the first-match reference; (2) SENTINEL: OR/AND/mask algebra of both DNS index families, and the OR/AND names agree between the three String tables used by the rule lowering; " +
		"(3) LOWER: every DNS emitter follows the OR-except-last naming, registered functions are the documented ones, fallbacks refuse must/mark; (4) REJECT: in the query handler every cache lookup is dominated by request routing and by the reject test, whose true edge drops the cached family and answers with an answer-less reply; " +
		"(5) REASK: every recursive re-ask passes a strictly larger depth and is dominated by the depth bound test whose true edge returns an error; the bound is a positive constant; (6) RESP: the response action switch handles accept/reject and treats everything else as a re-ask with the selected upstream; an answer from an unregistered (as-is) upstream is matched as the as-is sentinel. " +
		"(7) PARSENUM: numeric rule values (qtype codes) are parsed with base 0/10 and a bit size no wider than the type they are converted to. " +
		"(7) PARSENUM: numeric rule values (qtype codes) are parsed with base 0/10 and a bit size no wider than the type they are converted to. " +
		"Not decided: name matching on values (C11), IP containment (C12), upstream behaviour."})
}

func stringTable(c *Ctx, rule, rel, typ string) map[string]string {
	f := c.fn(rule, rel, typ+".String")
	out := map[string]string{}
	if f == nil {
		return out
	}
	ast.Inspect(f.Body, func(m ast.Node) bool {
		cc, ok := m.(*ast.CaseClause)
		if !ok {
			return true
		}
		var rs *ast.ReturnStmt
		nret := 0
		for _, st := range cc.Body {
			if r, isR := st.(*ast.ReturnStmt); isR {
				rs = r
				nret++
			}
		}
		if nret != 1 || len(rs.Results) != 1 {
			return true
		}
		v, isC := constStr(f.Info(), rs.Results[0])
		if !isC {
			return true
		}
		for _, e := range cc.List {
			out[core.ExprStr(e)] = v
		}
		return true
	})
	return out
}

func runC07(c *Ctx) {
	type fam struct {
		pfx, typ, matcher, notF, outF string
		user                          []string
	}
	fams := []fam{
		{"DnsRequestOutboundIndex_", "DnsRequestOutboundIndex", "RequestMatcher.Match", "match.Not", "match.Upstream", []string{"Reject", "AsIs"}},
		{"DnsResponseOutboundIndex_", "DnsResponseOutboundIndex", "ResponseMatcher.Match", "match.Not", "match.Upstream", []string{"Accept", "Reject"}},
	}
	cells := 0
	for _, fm := range fams {
		or, ok1 := constInt(c, "SENTINEL", "common/consts", fm.pfx+"LogicalOr")
		and, ok2 := constInt(c, "SENTINEL", "common/consts", fm.pfx+"LogicalAnd")
		mask, ok3 := constInt(c, "SENTINEL", "common/consts", fm.pfx+"LogicalMask")
		umax, ok4 := constInt(c, "SENTINEL", "common/consts", fm.pfx+"UserDefinedMax")
		if !(ok1 && ok2 && ok3 && ok4) {
			continue
		}
		kinds := []int64{0, 1}
		okRes := true
		for _, u := range fm.user {
			v, ok := constInt(c, "SENTINEL", "common/consts", fm.pfx+u)
			if !ok {
				continue
			}
			kinds = append(kinds, v)
			if v&mask == mask || v <= umax {
				okRes = false
			}
		}
		bad := false
		for id := int64(0); id <= umax; id++ {
			if id&mask == mask {
				bad = true
			}
		}
		c.R.Checkf("SENTINEL", "algebra@"+fm.typ, "common/consts/dns.go", or&mask == mask && and&mask == mask && or != and && okRes && !bad,
			"%s: OR=%#x AND=%#x carry mask %#x; reserved actions and user ids 0..%d are tails", fm.typ, or, and, mask, umax)
		cells += checkScan(c, "SCAN", scanSpec{Rel: "component/dns", Fn: fm.matcher, RangeOver: "m.matches", NotField: fm.notF, OutField: fm.outF,
			Or: or, And: and, Mask: mask, MustRules: -1, UserKinds: kinds})
	}
	c.R.Floor("SCAN/cells", cells, 96)
	// names used by the lowering must agree across the three families
	t0 := stringTable(c, "SENTINEL", "common/consts", "OutboundIndex")
	t1 := stringTable(c, "SENTINEL", "common/consts", "DnsRequestOutboundIndex")
	t2 := stringTable(c, "SENTINEL", "common/consts", "DnsResponseOutboundIndex")
	okN := t0["OutboundLogicalOr"] != "" && t0["OutboundLogicalOr"] == t1["DnsRequestOutboundIndex_LogicalOr"] && t0["OutboundLogicalOr"] == t2["DnsResponseOutboundIndex_LogicalOr"] &&
		t0["OutboundLogicalAnd"] != "" && t0["OutboundLogicalAnd"] == t1["DnsRequestOutboundIndex_LogicalAnd"] && t0["OutboundLogicalAnd"] == t2["DnsResponseOutboundIndex_LogicalAnd"] &&
		t0["OutboundLogicalOr"] != t0["OutboundLogicalAnd"]
	c.R.Checkf("SENTINEL", "or-and-names-agree", "common/consts", okN, "the rule lowering names OR/AND with OutboundIndex.String (%q/%q); the DNS builders resolve the same strings (%q/%q, %q/%q)", t0["OutboundLogicalOr"], t0["OutboundLogicalAnd"], t1["DnsRequestOutboundIndex_LogicalOr"], t1["DnsRequestOutboundIndex_LogicalAnd"], t2["DnsResponseOutboundIndex_LogicalOr"], t2["DnsResponseOutboundIndex_LogicalAnd"])

	// (3) lowering
	n := 0
	regs := map[string][]string{}
	for _, b := range []string{"RequestMatcherBuilder", "ResponseMatcherBuilder"} {
		reg := c.fn("LOWER", "component/dns", b+".registerProgramParsers")
		if reg == nil {
			continue
		}
		ast.Inspect(reg.Body, func(m ast.Node) bool {
			call, ok := m.(*ast.CallExpr)
			if !ok {
				return true
			}
			if cal := core.Callee(reg.Info(), call); cal != nil && cal.Name() == "RegisterFunctionParser" && len(call.Args) == 2 {
				regs[b] = append(regs[b], strings.TrimPrefix(core.ExprStr(call.Args[0]), "consts."))
				ast.Inspect(call.Args[1], func(k ast.Node) bool {
					if se, ok := k.(*ast.SelectorExpr); ok {
						if fn, ok := reg.Info().Uses[se.Sel].(*types.Func); ok && recvName(fn) == b {
							if e := c.fn("LOWER", "component/dns", b+"."+fn.Name()); e != nil {
								n += checkEmitterNaming(c, "LOWER", e, "component/dns.", "upstreamToId", "upstream.Name")
							}
						}
					}
					return true
				})
			}
			return true
		})
		// fallback refuses must/mark
		if fb := c.fn("LOWER", "component/dns", b+".addFallback"); fb != nil {
			g := fb.Graph()
			okMust, okMark := false, false
			for _, cs := range g.Conds(func(e ast.Expr) bool { return strings.HasSuffix(core.ExprStr(e), ".Must") }) {
				if good, _ := onlyErrorReturns(g, core.Point{B: cs.True, I: 0}, nil); good {
					okMust = true
				}
			}
			for _, cs := range g.Conds(func(e ast.Expr) bool { return strings.Contains(core.ExprStr(e), ".Mark != 0") }) {
				if good, _ := onlyErrorReturns(g, core.Point{B: cs.True, I: 0}, nil); good {
					okMark = true
				}
			}
			c.R.Checkf("LOWER", "fallback-refuses-must-mark@"+b, c.pos(fb.Pos()), okMust && okMark, "%s.addFallback rejects must and mark parameters with an error", b)
		}
	}
	want := map[string]string{"RequestMatcherBuilder": "Function_QName,Function_QType", "ResponseMatcherBuilder": "Function_QName,Function_QType,Function_Ip,Function_Upstream"}
	for b, w := range want {
		c.R.Checkf("LOWER", "registered-functions@"+b, "component/dns", strings.Join(regs[b], ",") == w, "%s registers exactly the documented functions: %v", b, regs[b])
	}
	c.R.Floor("LOWER/emitters", n, 6)

	c07Reject(c)
	c07Reask(c)
	c07Resp(c)
	c07IndexSpace(c)
	c07VerdictFromMatcher(c)
	if f := c.fn("RESP", "component/dns", "Dns.ResponseSelect"); f != nil {
		makeThenAppend(c, "RESP", f)
		c07AnswerAddrsForEveryQtype(c, "RESP", f)
		c07UpstreamRegisteredBeforeUse(c, "RESP")
	}
	c.R.Floor("PARSENUM", parseNumSites(c, "PARSENUM", []string{"component/dns"}, func(f string) bool { return f == "function_parser.go" }), 1)
	scanIsStateless(c, "SCAN", "component/dns", "RequestMatcher.Match", []string{"goodSubrule", "badRule"})
	scanIsStateless(c, "SCAN", "component/dns", "ResponseMatcher.Match", []string{"goodSubrule", "badRule"})
}

func c07Reject(c *Ctx) {
	const rule = "REJECT"
	f := c.fn(rule, "control", "DnsController.HandleWithResponseWriter_")
	if f == nil {
		return
	}
	info := f.Info()
	g := f.Graph()
	lookup := nodeCalls(info, "control.DnsController.LookupDnsRespCache_", "control.DnsController.LookupDnsRespCache", "control.DnsController.GetStaleResponse")
	sel := nodeCalls(info, "component/dns.Dns.RequestSelect")
	n := len(g.Find(lookup))
	c.R.Floor(rule+"/cache-lookups", n, 2)
	c.dominated(rule, "route-before-cache", f, lookup, sel, "a DNS cache lookup", "RequestSelect (request routing)")
	conds := g.Conds(func(e ast.Expr) bool {
		be, ok := e.(*ast.BinaryExpr)
		return ok && be.Op == token.EQL && strings.HasSuffix(core.ExprStr(be.Y), "DnsRequestOutboundIndex_Reject")
	})
	if len(conds) != 1 {
		c.R.Checkf(rule, "reject-test", c.pos(f.Pos()), false, "expected one `== DnsRequestOutboundIndex_Reject` test in the query handler, found %d", len(conds))
		return
	}
	cs := conds[0]
	cn := ast.Node(cs.Cond)
	_, _, reach := g.ReachesAvoiding(g.Entry(), func(n ast.Node) bool { return n == cn }, lookup)
	c.R.Checkf(rule, "reject-test-before-cache", c.pos(cs.Cond.Pos()), !reach, "every cache lookup is dominated by the reject test")
	// true edge: drops the cached family, answers with the reject reply, reaches no lookup / upstream
	_, _, reachLk := g.ReachesAvoiding(core.Point{B: cs.True, I: 0}, nil, Or(lookup, nodeCalls(info, "control.DnsController.handleWithResponseWriterInternal", "control.DnsController.resolveForSingleflight")))
	exDrop := g.ExitsAvoiding(core.Point{B: cs.True, I: 0}, nodeCalls(info, "control.DnsController.RemoveDnsRespCacheFamily"))
	exRej := g.ExitsAvoiding(core.Point{B: cs.True, I: 0}, nodeCalls(info, "control.DnsController.sendRejectWithResponseWriter_"))
	c.R.Checkf(rule, "reject-edge", c.pos(cs.Cond.Pos()), !reachLk && len(exDrop) == 0 && len(exRej) == 0, "a question routed to reject never reaches the cache or an upstream, drops the cached family and is answered by sendRejectWithResponseWriter_ (no lookup reachable: %v, drops family: %v, sends reject: %v)", !reachLk, len(exDrop) == 0, len(exRej) == 0)
	// the reject reply carries no answer: built by sendDnsErrorResponse_ from a fresh message
	if r := c.fn(rule, "control", "DnsController.sendDnsErrorResponse_"); r != nil {
		ri := r.Info()
		rg := r.Graph()
		clears := func(n ast.Node) bool {
			as, ok := n.(*ast.AssignStmt)
			return ok && len(as.Lhs) == 1 && len(as.Rhs) == 1 && core.FieldOf(ri, as.Lhs[0]) == "Msg.Answer" && core.ExprStr(as.Rhs[0]) == "nil"
		}
		sends := Or(methodNamed("WriteMsg", "Pack"), nodeCalls(ri, "control.sendRuntimeTrackedPkt", "control.sendPkt"))
		_, _, reachSend := rg.ReachesAvoiding(rg.Entry(), clears, sends)
		fresh := !reachSend && len(rg.Find(clears)) >= 1
		copiesAnswer := false
		ast.Inspect(r.Body, func(m ast.Node) bool {
			if as, ok := m.(*ast.AssignStmt); ok {
				for _, l := range as.Lhs {
					if core.FieldOf(ri, l) == "Msg.Answer" && core.ExprStr(as.Rhs[0]) != "nil" {
						copiesAnswer = true
					}
				}
			}
			return true
		})
		c.R.Checkf(rule, "reject-reply-has-no-answer", c.pos(r.Pos()), fresh && !copiesAnswer, "every send of the reject/error reply is dominated by clearing the answer section, and nothing re-fills it")
	}
}

func c07Reask(c *Ctx) {
	const rule = "REASK"
	f := c.fn(rule, "control", "DnsController.dialSend")
	if f == nil {
		return
	}
	info := f.Info()
	g := f.Graph()
	depthParam := ""
	var depthObj types.Object
	for _, fl := range f.Decl.Type.Params.List {
		for _, nm := range fl.Names {
			if strings.Contains(strings.ToLower(nm.Name), "depth") {
				depthParam = nm.Name
				depthObj = info.ObjectOf(nm)
			}
		}
	}
	if depthObj == nil {
		c.R.Unresolved(rule, "dialSend: depth parameter")
		return
	}
	// position of the depth parameter
	depthIdx := -1
	k := 0
	for _, fl := range f.Decl.Type.Params.List {
		for _, nm := range fl.Names {
			if info.ObjectOf(nm) == depthObj {
				depthIdx = k
			}
			k++
		}
	}
	// bound test
	bound, okB := constInt(c, rule, "control", "MaxDnsLookupDepth")
	var boundCond ast.Node
	for _, cs := range g.Conds(func(e ast.Expr) bool {
		be, ok := e.(*ast.BinaryExpr)
		return ok && (be.Op == token.GEQ || be.Op == token.GTR) && core.ExprStr(be.X) == depthParam && strings.HasSuffix(core.ExprStr(be.Y), "MaxDnsLookupDepth")
	}) {
		if good, _ := onlyErrorReturns(g, core.Point{B: cs.True, I: 0}, nil); good {
			boundCond = cs.Cond
		}
	}
	c.R.Checkf(rule, "depth-bound-test", c.pos(f.Pos()), boundCond != nil && okB && bound > 0, "dialSend tests %s against MaxDnsLookupDepth (=%d, positive) and the true edge only returns an error", depthParam, bound)
	recs := 0
	for _, b := range g.CFG.Blocks {
		if !b.Live {
			continue
		}
		for i, nd := range b.Nodes {
			ownCalls(nd, func(call *ast.CallExpr, _ bool) {
				cal := core.Callee(info, call)
				if cal == nil || cal != f.Obj || depthIdx >= len(call.Args) {
					return
				}
				recs++
				arg := ast.Unparen(call.Args[depthIdx])
				grows := false
				how := core.ExprStr(arg)
				if be, ok := arg.(*ast.BinaryExpr); ok && be.Op == token.ADD {
					if id, ok := be.X.(*ast.Ident); ok && info.ObjectOf(id) == depthObj {
						if tv, ok := info.Types[be.Y]; ok && tv.Value != nil && tv.Value.String() != "0" && !strings.HasPrefix(tv.Value.String(), "-") {
							grows = true
						}
					}
				}
				if id, ok := arg.(*ast.Ident); ok && info.ObjectOf(id) == depthObj {
					// accepted only if an increment of the parameter dominates this call
					inc := func(n ast.Node) bool {
						if ids, ok := n.(*ast.IncDecStmt); ok && ids.Tok == token.INC {
							if x, ok := ids.X.(*ast.Ident); ok && info.ObjectOf(x) == depthObj {
								return true
							}
						}
						return false
					}
					target := nd
					_, _, reach := g.ReachesAvoiding(g.Entry(), inc, func(n ast.Node) bool { return n == target })
					grows = !reach
					how += " (incremented on every path: " + map[bool]string{true: "yes", false: "no"}[grows] + ")"
				}
				c.R.Checkf(rule, "reask-depth-grows", c.pos(call.Pos()), grows, "the re-ask passes depth %s: it must be strictly larger than the caller's on every path, otherwise a rule set that bounces between upstreams loops forever", how)
				if boundCond != nil {
					target := nd
					bc := boundCond
					_, _, reach := g.ReachesAvoiding(g.Entry(), func(n ast.Node) bool { return n == bc }, func(n ast.Node) bool { return n == target })
					c.R.Checkf(rule, "reask-behind-bound", c.pos(call.Pos()), !reach, "the re-ask is dominated by the depth bound test")
				}
				_ = i
			})
		}
	}
	c.R.Floor(rule+"/recursive-calls", recs, 1)
	// initial depth is 0 at the external call sites
	ext := 0
	for _, cf := range c.P.FuncsIn("control") {
		if cf.Obj == f.Obj {
			continue
		}
		for _, call := range cf.FindCalls(core.ParseRefs("control.DnsController.dialSend")) {
			ext++
			c.R.Checkf(rule, "initial-depth@"+strings.TrimPrefix(cf.Name, "control."), c.pos(call.Pos()), core.ExprStr(call.Args[depthIdx]) == "0", "external caller starts the re-ask chain at depth %s", core.ExprStr(call.Args[depthIdx]))
		}
	}
	c.R.Floor(rule+"/external-callers", ext, 1)
}

func c07Resp(c *Ctx) {
	const rule = "RESP"
	f := c.fn(rule, "control", "DnsController.dialSend")
	if f != nil {
		info := f.Info()
		var sw *ast.SwitchStmt
		ast.Inspect(f.Body, func(m ast.Node) bool {
			if s, ok := m.(*ast.SwitchStmt); ok && s.Tag != nil && sw == nil {
				if t := info.TypeOf(s.Tag); t != nil && strings.HasSuffix(t.String(), "DnsResponseOutboundIndex") {
					sw = s
				}
			}
			return true
		})
		if sw == nil {
			c.R.Unresolved(rule, "dialSend: switch over the response action")
		} else {
			cases := map[string]string{}
			for _, cl := range sw.Body.List {
				cc := cl.(*ast.CaseClause)
				body := ""
				for _, st := range cc.Body {
					body += core.ExprStr2(st) + ";"
				}
				if cc.List == nil {
					cases["default"] = body
				}
				for _, e := range cc.List {
					cases[strings.TrimPrefix(core.ExprStr(e), "consts.DnsResponseOutboundIndex_")] = body
				}
			}
			_, hasA := cases["Accept"]
			rej, hasR := cases["Reject"]
			def := cases["default"]
			c.R.Checkf(rule, "actions-exhaustive", c.pos(sw.Pos()), hasA && hasR && strings.Contains(rej, ".Answer = nil") && strings.Contains(def, "c.dialSend(") && strings.Contains(def, "nextUpstream"),
				"accept keeps the answer, reject empties it (Answer = nil), anything else re-asks at the selected upstream")
			// the switch tag and the re-ask's upstream are the two results of the same ResponseSelect call
			okSrc := false
			ast.Inspect(f.Body, func(m ast.Node) bool {
				if as, ok := m.(*ast.AssignStmt); ok && len(as.Lhs) == 3 && len(as.Rhs) == 1 {
					if call, ok := as.Rhs[0].(*ast.CallExpr); ok {
						if cal := core.Callee(info, call); cal != nil && cal.Name() == "ResponseSelect" && core.ExprStr(as.Lhs[0]) == core.ExprStr(sw.Tag) && core.ExprStr(as.Lhs[1]) == "nextUpstream" {
							okSrc = len(call.Args) == 3 && core.ExprStr(call.Args[2]) == "upstream"
						}
					}
				}
				return true
			})
			c.R.Checkf(rule, "action-from-response-select", c.pos(sw.Pos()), okSrc, "the action and the next upstream both come from ResponseSelect(ctx, respMsg, upstream) with the upstream that actually answered")
		}
	}
	// unregistered answering upstream => as-is sentinel
	if rs := c.fn(rule, "component/dns", "Dns.ResponseSelect"); rs != nil {
		info := rs.Info()
		g := rs.Graph()
		asis, _ := constInt(c, rule, "common/consts", "DnsRequestOutboundIndex_AsIs")
		okMiss := false
		var loadVal, okVar types.Object
		ast.Inspect(rs.Body, func(m ast.Node) bool {
			if as, ok := m.(*ast.AssignStmt); ok && len(as.Lhs) == 2 && len(as.Rhs) == 1 {
				if call, ok := as.Rhs[0].(*ast.CallExpr); ok && strings.HasSuffix(core.ExprStr(call.Fun), "upstream2Index.Load") {
					if a, ok := as.Lhs[0].(*ast.Ident); ok {
						loadVal = info.ObjectOf(a)
					}
					if b, ok := as.Lhs[1].(*ast.Ident); ok {
						okVar = info.ObjectOf(b)
					}
				}
			}
			return true
		})
		if loadVal != nil && okVar != nil {
			for _, cs := range g.Conds(func(e ast.Expr) bool {
				u, ok := ast.Unparen(e).(*ast.UnaryExpr)
				if !ok || u.Op != token.NOT {
					return false
				}
				id, ok := u.X.(*ast.Ident)
				return ok && info.ObjectOf(id) == okVar
			}) {
				for _, nd := range cs.True.Nodes {
					if as, ok := nd.(*ast.AssignStmt); ok && len(as.Lhs) == 1 && len(as.Rhs) == 1 {
						if id, ok := as.Lhs[0].(*ast.Ident); ok && info.ObjectOf(id) == loadVal {
							if tv, has := info.Types[as.Rhs[0]]; has && tv.Value != nil && tv.Value.String() == itoa(int(asis)) {
								okMiss = true
							}
						}
					}
				}
			}
		}
		// and the matcher is given a value derived from it
		derived := false
		for _, call := range rs.FindCalls(core.ParseRefs("component/dns.ResponseMatcher.Match")) {
			if len(call.Args) == 4 {
				root := core.RootObj(info, unwrapConv(call.Args[3]))
				ast.Inspect(rs.Body, func(m ast.Node) bool {
					if as, ok := m.(*ast.AssignStmt); ok && len(as.Rhs) == 1 {
						if ta, ok := as.Rhs[0].(*ast.TypeAssertExpr); ok {
							if id, ok := as.Lhs[0].(*ast.Ident); ok && info.ObjectOf(id) == root && core.RootObj(info, ta.X) == loadVal && len(as.Lhs) == 1 {
								derived = true
							}
						}
					}
					return true
				})
			}
		}
		c.R.Checkf(rule, "unregistered-upstream-is-asis", c.pos(rs.Pos()), okMiss && derived, "when the answering upstream is not a registered one (as-is resolver) the response matcher is given the as-is sentinel (%#x), never a valid upstream index (miss edge assigns the sentinel: %v; matcher argument is the single-value assertion of that variable: %v)", asis, okMiss, derived)
	}
}

func unwrapConv(e ast.Expr) ast.Expr {
	for {
		if call, ok := ast.Unparen(e).(*ast.CallExpr); ok && len(call.Args) == 1 {
			e = call.Args[0]
			continue
		}
		return e
	}
}
