package props

import (
	"go/ast"
	"go/token"
	"go/types"
	"sort"
	"strings"

	"daecheck/internal/core"

	"golang.org/x/tools/go/cfg"
)

func init() {
	register(&Checker{ID: "C09", Run: runC09, Explain: "Structural necessary conditions of 'every DNS client gets its own answer under its own ID', decided on the type-checked source of package control: " +
		"(1) SHARED: the message returned by the singleflight group is shared by every waiter: no field of it is stored to and it is never handed to a writer; only a Copy() of it (or its packed bytes with the client's id patched in) is written; the singleflight key is the scoped cache key; " +
		"(2) IDPATCH: every send of cached/packed bytes is dominated by storing the client's id into those bytes, and in the upstream path the id assignment dominates WriteMsg and Pack; (3) UPSTREAMID: the UDP forwarder only unpacks/returns a datagram whose id equals the id it sent; " +
		"(4) LIFECYCLE: the forwarder is closed only inside the once-guard of closeNow, closeNow is called only from the reviewed set, beginUse re-checks the retired flag after taking its in-flight reference, every successful beginUse is followed by endUse on all paths; (5) POOL: every connection taken from the UDP pool is put back or discarded exactly once on every path (discard and the badConn flag are set together). " +
		"(6) IDPATCH/private: in the reply paths the id is written only into bytes the call owns (make/Pack result, pool buffer), never into the shared packed bytes of a cache entry. " +
		"(7) QMATCH: every use of an upstream response in dialSend (response routing, caching, writing to the client) is behind a test that it carries the asked question. " +
		"Not decided: interleavings, colliding ids across sockets, singleflight's own guarantees."})
}

func runC09(c *Ctx) {
	c09Shared(c)
	c09IdPatch(c)
	c09UpstreamID(c)
	c09TimeoutClosesPipelinedConn(c, "UPSTREAMID")
	c09Lifecycle(c)
	c09Pool(c)
	c09PrivateBytes(c)
	c09QuestionMatch(c)
	c09OnlyCloseNow(c)
	c09DecrementCloses(c)
	c09RemoveByIdentity(c)
	cacheKeyTypeInjective(c, "SHARED")
}

func c09Shared(c *Ctx) {
	const rule = "SHARED"
	f := c.fn(rule, "control", "DnsController.HandleWithResponseWriter_")
	if f == nil {
		return
	}
	info := f.Info()
	// shared variables: assigned from a type assertion on the result of sf.Do
	var sfRes types.Object
	var sfKey string
	ast.Inspect(f.Body, func(m ast.Node) bool {
		as, ok := m.(*ast.AssignStmt)
		if !ok || len(as.Rhs) != 1 {
			return true
		}
		if call, ok := as.Rhs[0].(*ast.CallExpr); ok && strings.HasSuffix(core.ExprStr(call.Fun), ".sf.Do") && len(as.Lhs) >= 1 {
			if id, ok := as.Lhs[0].(*ast.Ident); ok {
				sfRes = info.ObjectOf(id)
			}
			sfKey = core.ExprStr(call.Args[0])
		}
		return true
	})
	if sfRes == nil {
		c.R.Unresolved(rule, "HandleWithResponseWriter_: singleflight Do call")
		return
	}
	c.R.Checkf(rule, "singleflight-key-is-scoped-cache-key", c.pos(f.Pos()), sfKey == "responseCacheKey", "concurrent identical questions are coalesced under the scoped cache key (%s)", sfKey)
	shared := map[types.Object]string{}
	ast.Inspect(f.Body, func(m ast.Node) bool {
		as, ok := m.(*ast.AssignStmt)
		if !ok || len(as.Rhs) != 1 || len(as.Lhs) < 1 {
			return true
		}
		if ta, ok := as.Rhs[0].(*ast.TypeAssertExpr); ok {
			if id, ok := ta.X.(*ast.Ident); ok && info.ObjectOf(id) == sfRes {
				if l, ok := as.Lhs[0].(*ast.Ident); ok {
					shared[info.ObjectOf(l)] = l.Name
				}
			}
		}
		return true
	})
	if len(shared) == 0 {
		c.R.Unresolved(rule, "HandleWithResponseWriter_: variable holding the shared singleflight message")
		return
	}
	// aliases by plain assignment
	for changed := true; changed; {
		changed = false
		ast.Inspect(f.Body, func(m ast.Node) bool {
			as, ok := m.(*ast.AssignStmt)
			if !ok || len(as.Lhs) != len(as.Rhs) {
				return true
			}
			for i := range as.Rhs {
				if id, ok := ast.Unparen(as.Rhs[i]).(*ast.Ident); ok {
					if _, sh := shared[info.ObjectOf(id)]; sh {
						if l, ok := as.Lhs[i].(*ast.Ident); ok {
							if _, has := shared[info.ObjectOf(l)]; !has {
								shared[info.ObjectOf(l)] = l.Name
								changed = true
							}
						}
					}
				}
			}
			return true
		})
	}
	var stores, handed []string
	ast.Inspect(f.Body, func(m ast.Node) bool {
		switch x := m.(type) {
		case *ast.AssignStmt:
			for _, l := range x.Lhs {
				if se, ok := l.(*ast.SelectorExpr); ok {
					if _, sh := shared[core.RootObj(info, se.X)]; sh {
						stores = append(stores, core.ExprStr(l)+" at "+c.pos(x.Pos()))
					}
				}
			}
		case *ast.IncDecStmt:
			if _, sh := shared[core.RootObj(info, x.X)]; sh {
				stores = append(stores, core.ExprStr(x.X)+" at "+c.pos(x.Pos()))
			}
		case *ast.CallExpr:
			_, name, isM := methodCall(x)
			fn := core.ExprStr(x.Fun)
			for _, a := range x.Args {
				if id, ok := ast.Unparen(a).(*ast.Ident); ok {
					if _, sh := shared[info.ObjectOf(id)]; sh {
						if (isM && (name == "WriteMsg" || name == "Write")) || strings.Contains(fn, "sendPkt") || strings.Contains(fn, "sendRuntimeTrackedPkt") || strings.Contains(fn, "NormalizeAndCacheDnsResp_") {
							handed = append(handed, fn+"("+id.Name+") at "+c.pos(x.Pos()))
						}
					}
				}
			}
		}
		return true
	})
	c.R.Checkf(rule, "no-store-into-shared-message", c.pos(f.Pos()), len(stores) == 0, "no field of the message shared by all singleflight waiters is written%s", func() string {
		if len(stores) > 0 {
			return " — " + strings.Join(stores, ", ") + ": a concurrent waiter's reply can go out under this client's id (or vice versa)"
		}
		return ""
	}())
	c.R.Checkf(rule, "shared-message-not-handed-to-writer", c.pos(f.Pos()), len(handed) == 0, "the shared message is never passed to a writer/sender/cache normaliser (which mutate it)%s", func() string {
		if len(handed) > 0 {
			return " — " + strings.Join(handed, ", ")
		}
		return ""
	}())
	// every WriteMsg argument in this function is a copy or a locally built message
	okW := true
	nW := 0
	ast.Inspect(f.Body, func(m ast.Node) bool {
		call, ok := m.(*ast.CallExpr)
		if !ok {
			return true
		}
		if _, name, isM := methodCall(call); !isM || name != "WriteMsg" || len(call.Args) != 1 {
			return true
		}
		nW++
		id, ok := ast.Unparen(call.Args[0]).(*ast.Ident)
		if !ok {
			okW = false
			return true
		}
		obj := info.ObjectOf(id)
		fromCopy := false
		ast.Inspect(f.Body, func(k ast.Node) bool {
			if as, ok := k.(*ast.AssignStmt); ok && len(as.Lhs) == 1 && len(as.Rhs) == 1 {
				if l, ok := as.Lhs[0].(*ast.Ident); ok && info.ObjectOf(l) == obj {
					if cc, ok := as.Rhs[0].(*ast.CallExpr); ok {
						if _, nm, isM := methodCall(cc); isM && nm == "Copy" {
							fromCopy = true
						}
					}
				}
			}
			return true
		})
		if !fromCopy {
			okW = false
		}
		return true
	})
	c.R.Checkf(rule, "written-message-is-a-copy", c.pos(f.Pos()), okW && nW >= 1, "every message this handler writes itself is a Copy() (%d WriteMsg site(s))", nW)
}

func c09IdPatch(c *Ctx) {
	const rule = "IDPATCH"
	if f := c.fn(rule, "control", "DnsController.writeCachedResponse"); f != nil {
		info := f.Info()
		g := f.Graph()
		sends := g.Find(Or(nodeCalls(info, "control.sendRuntimeTrackedPkt", "control.sendPkt"), methodNamed("WriteMsg")))
		n := 0
		okAll := len(sends) >= 2
		for _, p := range sends {
			n++
			// what is sent
			var sent string
			ownCalls(p.Node(), func(call *ast.CallExpr, _ bool) {
				if _, name, isM := methodCall(call); isM && name == "WriteMsg" {
					sent = strings.TrimPrefix(core.ExprStr(call.Args[0]), "&")
				}
				if cal := core.Callee(info, call); cal != nil && (cal.Name() == "sendRuntimeTrackedPkt" || cal.Name() == "sendPkt") {
					sent = core.ExprStr(call.Args[1])
				}
			})
			patch := func(n ast.Node) bool {
				s := core.ExprStr2(n)
				return strings.HasPrefix(s, sent+".Id = reqId") || strings.HasPrefix(s, "binary.BigEndian.PutUint16("+sent+"[0:2], reqId)") || strings.HasPrefix(s, "binary.BigEndian.PutUint16("+sent+"[:2], reqId)")
			}
			target := p.Node()
			r := reachesSkippingLenGuards(g, g.Entry(), patch, func(n ast.Node) bool { return n == target })
			if r {
				okAll = false
			}
		}
		c.R.Checkf(rule, "client-id-patched-before-send@writeCachedResponse", c.pos(f.Pos()), okAll, "each of the %d sends of a cached answer is preceded by storing the requesting client's id into exactly the bytes/message that are sent", n)
	}
	if f := c.fn(rule, "control", "DnsController.dialSend"); f != nil {
		g := f.Graph()
		patch := func(n ast.Node) bool { return core.ExprStr2(n) == "respMsg.Id = id" }
		out := Or(methodNamed("WriteMsg"), func(n ast.Node) bool {
			s := core.ExprStr2(n)
			return strings.Contains(s, "respMsg.Pack()")
		})
		_, _, r := g.ReachesAvoiding(g.Entry(), patch, out)
		c.R.Checkf(rule, "id-restored-before-reply@dialSend", c.pos(f.Pos()), !r && len(g.Find(patch)) >= 1, "the upstream path stores the caller's id into the answer before it is written or packed (also undoing the pipelined connection's slot id)")
	}
	// callers pass the client's own id
	if f := c.fn(rule, "control", "DnsController.HandleWithResponseWriter_"); f != nil {
		ok, n := true, 0
		for _, call := range f.FindCalls(core.ParseRefs("control.DnsController.writeCachedResponse")) {
			n++
			if core.ExprStr(call.Args[1]) != "dnsMessage.Id" {
				ok = false
			}
		}
		// packed singleflight bytes: PutUint16(data[:2], dnsMessage.Id) dominates the send
		g := f.Graph()
		send := nodeCalls(f.Info(), "control.sendRuntimeTrackedPkt", "control.sendPkt")
		patch := func(nd ast.Node) bool {
			s := core.FullStr(nd)
			return strings.Contains(s, "binary.BigEndian.PutUint16(data[:2], dnsMessage.Id)")
		}
		r := reachesSkippingLenGuards(g, g.Entry(), patch, send)
		c.R.Checkf(rule, "handler-passes-own-id", c.pos(f.Pos()), ok && n >= 2 && !r, "the handler patches the requesting client's id (dnsMessage.Id) into cached bytes (%d sites) and into the packed singleflight answer before sending", n)
	}
}

func c09UpstreamID(c *Ctx) {
	const rule = "UPSTREAMID"
	f := c.fn(rule, "control", "DoUDP.ForwardDNS")
	if f == nil {
		return
	}
	g := f.Graph()
	unpack := func(n ast.Node) bool { return strings.Contains(core.ExprStr2(n), "msg.Unpack(") }
	conds := g.Conds(func(e ast.Expr) bool {
		be, ok := e.(*ast.BinaryExpr)
		return ok && (be.Op == token.NEQ || be.Op == token.EQL) && strings.Contains(core.ExprStr(e), "responseID") && strings.Contains(core.ExprStr(e), "originalID")
	})
	ok := len(conds) == 1
	if ok {
		cs := conds[0]
		mismatch := cs.True
		if cs.Cond.(*ast.BinaryExpr).Op == token.EQL {
			mismatch = cs.False
		}
		cn := ast.Node(cs.Cond)
		_, _, bypass := g.ReachesAvoiding(g.Entry(), func(n ast.Node) bool { return n == cn }, unpack)
		// from the mismatch edge, Unpack is reachable only by going round the read loop again (through ReadUDPConn)
		read := func(n ast.Node) bool { return strings.Contains(core.ExprStr2(n), "ReadUDPConn(") }
		_, _, direct := g.ReachesAvoiding(core.Point{B: mismatch, I: 0}, read, unpack)
		ok = !bypass && !direct
	}
	c.R.Checkf(rule, "datagram-id-checked-before-unpack", c.pos(f.Pos()), ok, "a datagram is unpacked and returned only on the edge where its id equals the id of the query that was sent; a mismatching one is dropped and the read repeated")
	orig := false
	ast.Inspect(f.Body, func(m ast.Node) bool {
		if as, ok := m.(*ast.AssignStmt); ok && len(as.Lhs) == 1 && core.ExprStr(as.Lhs[0]) == "originalID" && core.ExprStr(as.Rhs[0]) == "binary.BigEndian.Uint16(data[0:2])" {
			orig = true
		}
		return true
	})
	c.R.Checkf(rule, "expected-id-from-sent-bytes", c.pos(f.Pos()), orig, "the expected id is read from the very bytes that are sent")
	// pipelined conn: delivery by pending-map lookup on the wire id
	if rl := c.fn(rule, "control", "pipelinedConn.readLoop"); rl != nil {
		full := core.FullStr(rl.Body)
		c.R.Checkf(rule, "pipelined-delivery-by-id", c.pos(rl.Pos()), strings.Contains(full, "pending") && strings.Contains(full, ".Id"), "the pipelined connection delivers an answer to the slot registered under the answer's id")
	}
}

func c09Lifecycle(c *Ctx) {
	const rule = "LIFECYCLE"
	// forwarder.Close only inside closeOnce.Do in closeNow
	closers := map[string]bool{}
	for _, f := range c.P.FuncsIn("control") {
		core.EachCall(f.Body, core.Deep, func(call *ast.CallExpr) {
			recv, name, ok := methodCall(call)
			if ok && name == "Close" && core.FieldOf(f.Info(), recv) == "cachedDnsForwarder.forwarder" {
				closers[strings.TrimPrefix(f.Name, "control.")] = true
			}
		})
	}
	c.R.Checkf(rule, "forwarder-closed-only-in-closeNow", "control/dns_control.go", len(closers) == 1 && closers["cachedDnsForwarder.closeNow"], "the wrapped forwarder's Close is called only from closeNow: %v", keysB(closers))
	if f := c.fn(rule, "control", "cachedDnsForwarder.closeNow"); f != nil {
		inOnce := false
		ast.Inspect(f.Body, func(m ast.Node) bool {
			if call, ok := m.(*ast.CallExpr); ok && strings.HasSuffix(core.ExprStr(call.Fun), ".closeOnce.Do") && len(call.Args) == 1 {
				if lit, ok := call.Args[0].(*ast.FuncLit); ok && strings.Contains(core.FullStr(lit.Body), ".forwarder.Close()") {
					inOnce = true
				}
			}
			return true
		})
		outside := false
		ast.Inspect(f.Body, func(m ast.Node) bool {
			if _, isLit := m.(*ast.FuncLit); isLit {
				return false
			}
			if call, ok := m.(*ast.CallExpr); ok && strings.HasSuffix(core.ExprStr(call.Fun), ".forwarder.Close") {
				outside = true
			}
			return true
		})
		c.R.Checkf(rule, "close-once", c.pos(f.Pos()), inOnce && !outside, "closeNow closes the forwarder inside closeOnce.Do only (closed exactly once)")
	}
	callers := map[string]bool{}
	for _, f := range c.P.FuncsIn("control") {
		if len(f.FindCalls(core.ParseRefs("control.cachedDnsForwarder.closeNow"))) > 0 {
			callers[strings.TrimPrefix(f.Name, "control.")] = true
		}
	}
	allowed := map[string]bool{"cachedDnsForwarder.beginUse": true, "cachedDnsForwarder.endUse": true, "cachedDnsForwarder.retire": true, "DnsController.closeAllDnsForwarders": true, "DnsController.getOrCreateDnsForwarder": true}
	okC := true
	var cs []string
	for k := range callers {
		cs = append(cs, k)
		if !allowed[k] {
			okC = false
		}
	}
	sort.Strings(cs)
	c.R.Checkf(rule, "closeNow-callers", "control/dns_control.go", okC && len(cs) >= 3, "closeNow is called only from the in-flight accounting (beginUse lost race, endUse last user, retire idle) and controller shutdown: %v", cs)
	// beginUse: re-check after the increment
	if f := c.fn(rule, "control", "cachedDnsForwarder.beginUse"); f != nil {
		g := f.Graph()
		inc := g.Find(func(n ast.Node) bool { return strings.Contains(core.ExprStr2(n), ".inFlight.Add(1)") })
		ok := len(inc) == 1
		if ok {
			recheck := func(n ast.Node) bool {
				e, isE := n.(ast.Expr)
				return isE && strings.Contains(core.ExprStr(e), ".retired.Load()")
			}
			retTrue := func(n ast.Node) bool {
				rs, isR := n.(*ast.ReturnStmt)
				return isR && len(rs.Results) == 1 && core.ExprStr(rs.Results[0]) == "true"
			}
			_, _, r := g.ReachesAvoiding(inc[0].After(), recheck, retTrue)
			ok = !r
			// and the lost-race edge gives the reference back
			_, _, noUndo := g.ReachesAvoiding(inc[0].After(), func(n ast.Node) bool { return strings.Contains(core.ExprStr2(n), ".inFlight.Add(-1)") }, func(n ast.Node) bool {
				rs, isR := n.(*ast.ReturnStmt)
				return isR && len(rs.Results) == 1 && core.ExprStr(rs.Results[0]) == "false"
			})
			ok = ok && !noUndo
		}
		c.R.Checkf(rule, "beginUse-rechecks-after-increment", c.pos(f.Pos()), ok, "after taking its in-flight reference beginUse tests the retired flag again before admitting the query, and gives the reference back when it lost the race (otherwise a retire() between the first test and the increment closes the forwarder under an admitted query)")
	}
	if f := c.fn(rule, "control", "cachedDnsForwarder.endUse"); f != nil {
		// structural: the closeNow call is guarded by "the decrement reached zero" and "retired", in whatever arrangement
		g := f.Graph()
		okEnd := false
		for _, p := range g.Find(func(n ast.Node) bool {
			r := false
			ownCalls(n, func(call *ast.CallExpr, _ bool) {
				if _, name, isM := methodCall(call); isM && name == "closeNow" {
					r = true
				}
			})
			return r
		}) {
			zero, retired := false, false
			for _, gd := range g.Guards(p) {
				s := nospace(core.ExprStr(gd.Cond))
				if gd.Polarity && strings.Contains(s, ".inFlight.Add(-1)==0") {
					zero = true
				}
				if gd.Polarity && strings.HasSuffix(s, ".retired.Load()") {
					retired = true
				}
			}
			if zero && retired {
				okEnd = true
			}
		}
		c.R.Checkf(rule, "endUse-closes-last-user-of-retired", c.pos(f.Pos()), okEnd, "the last in-flight user of a retired entry closes it")
	}
	// every successful beginUse is followed by endUse on all paths
	n := 0
	for _, f := range c.P.FuncsIn("control") {
		info := f.Info()
		g := f.Graph()
		for _, cs := range g.Conds(func(e ast.Expr) bool { return strings.Contains(core.ExprStr(e), ".beginUse()") }) {
			n++
			c.R.Saw(f)
			succ := cs.True
			for _, at := range core.Atoms(cs.Cond, true) {
				if strings.Contains(core.ExprStr(at.Cond), ".beginUse()") && !at.Polarity {
					succ = cs.False
				}
			}
			ex := g.ExitsAvoiding(core.Point{B: succ, I: 0}, nodeCalls(info, "control.cachedDnsForwarder.endUse"))
			// loop back without endUse also counts
			c.R.Checkf(rule, "beginUse-paired-with-endUse@"+strings.TrimPrefix(f.Name, "control."), c.pos(cs.Cond.Pos()), len(ex) == 0, "every path after a successful beginUse reaches endUse before the function returns")
		}
	}
	c.R.Floor(rule+"/beginUse-sites", n, 1)
}

func c09Pool(c *Ctx) {
	const rule = "POOL"
	f := c.fn(rule, "control", "DoUDP.ForwardDNS")
	if f == nil {
		return
	}
	info := f.Info()
	g := f.Graph()
	get := g.Find(nodeCalls(info, "control.udpConnPool.get"))
	if len(get) != 1 {
		c.R.Checkf(rule, "get-site", c.pos(f.Pos()), false, "expected one pool get in DoUDP.ForwardDNS, found %d", len(get))
		return
	}
	// the deferred release: put unless badConn
	okDefer := false
	var deferNode ast.Node
	for _, st := range f.Body.List {
		if ds, ok := st.(*ast.DeferStmt); ok {
			if lit, ok := ds.Call.Fun.(*ast.FuncLit); ok {
				full := core.FullStr(lit.Body)
				if strings.Contains(full, "if !badConn") && strings.Contains(full, ".put(conn)") {
					okDefer = true
					deferNode = ds
				}
			}
		}
	}
	regOK := false
	if deferNode != nil {
		// registered right after a successful get: no return between get's success edge and the defer except the error return
		start := get[0].After()
		if cond, _, fl, isC := g.Cond(get[0].B); isC && strings.Contains(core.ExprStr(cond), "err != nil") {
			start = core.Point{B: fl, I: 0}
		}
		_, _, r := g.ReachesAvoiding(start, func(n ast.Node) bool { return n == deferNode }, func(n ast.Node) bool {
			_, isRet := n.(*ast.ReturnStmt)
			return isRet
		})
		regOK = !r
	}
	c.R.Checkf(rule, "release-deferred-after-get", c.pos(f.Pos()), okDefer && regOK, "a deferred release (put unless badConn) is registered on every path after a successful get")
	// discard <=> badConn = true, together, and at most one discard per path
	dis := g.Find(nodeCalls(info, "control.udpConnPool.discard"))
	okPair := len(dis) >= 3
	for _, p := range dis {
		set := false
		for i := p.I + 1; i < len(p.B.Nodes) && i <= p.I+2; i++ {
			if core.ExprStr2(p.B.Nodes[i]) == "badConn = true" {
				set = true
			}
		}
		if !set {
			okPair = false
		}
		// after a discard the function returns without another discard
		if _, _, again := g.ReachesAvoiding(p.After(), nil, nodeCalls(info, "control.udpConnPool.discard")); again {
			okPair = false
		}
	}
	bc := g.Find(func(n ast.Node) bool { return core.ExprStr2(n) == "badConn = true" })
	c.R.Checkf(rule, "discard-and-flag-together", c.pos(f.Pos()), okPair && len(bc) == len(dis), "each of the %d discards sets badConn in the same block (so the deferred put is skipped) and is the last pool operation on its path; badConn is set nowhere else (%d)", len(dis), len(bc))
}

// reachesSkippingLenGuards: like ReachesAvoiding, but the false edge of a pure
// `len(x) >= 2` test is not followed (a message shorter than an id has no id to patch).
func reachesSkippingLenGuards(g *core.Graph, start core.Point, sat, target func(ast.Node) bool) bool {
	hit := false
	w := &core.Walker{G: g,
		Visit: func(n ast.Node) core.Verdict {
			if hit {
				return core.Stop
			}
			if sat != nil && sat(n) {
				return core.Stop
			}
			if target(n) {
				return core.Hit
			}
			return core.Go
		},
		Edge: func(b *cfg.Block, si int) bool {
			if si != 1 {
				return true
			}
			cond, _, _, ok := g.Cond(b)
			if !ok {
				return true
			}
			be, isB := cond.(*ast.BinaryExpr)
			if isB && be.Op == token.GEQ && strings.HasPrefix(core.ExprStr(be.X), "len(") && core.ExprStr(be.Y) == "2" {
				return false
			}
			return true
		},
		OnHit: func(ast.Node, []token.Pos) { hit = true }}
	w.Run(start)
	return hit
}
