package props

import (
	"fmt"
	"go/ast"
	"go/token"
	"go/types"
	"sort"
	"strings"

	"daecheck/internal/core"

	"golang.org/x/tools/go/cfg"
)

// MEMOKEY: a memoising loader may return a cached expansion only for the same
// request.  For every function that looks a key up in one of the optimizer's
// cache maps and later stores its result under that key, the key must carry
// all the information of every string parameter the result is computed from.
// A forward dataflow over the CFG tracks, per string variable, which
// (parameter, part) pairs it carries: "all" of a parameter, or only the part
// before / after a strings.Cut.  The key is sufficient iff, for every pair
// used on the miss path, it carries that pair or "all" of the same parameter.
func c04MemoKey(c *Ctx) {
	const rule = "MEMOKEY"
	n := 0
	for _, f := range c.P.FuncsIn("component/routing") {
		if f.Decl == nil || f.Decl.Recv == nil {
			continue
		}
		info := f.Info()
		g := f.Graph()
		// cache lookups: v, ok := recv.<map field>[key]
		type lookup struct {
			pt  core.Point
			key *ast.Ident
			m   string
		}
		var lookups []lookup
		for _, b := range g.CFG.Blocks {
			if !b.Live {
				continue
			}
			for i, nd := range b.Nodes {
				as, ok := nd.(*ast.AssignStmt)
				if !ok || len(as.Lhs) != 2 || len(as.Rhs) != 1 {
					continue
				}
				ix, ok := as.Rhs[0].(*ast.IndexExpr)
				if !ok {
					continue
				}
				if _, isMap := info.TypeOf(ix.X).Underlying().(*types.Map); !isMap {
					continue
				}
				if fld := core.FieldOf(info, ix.X); !strings.Contains(strings.ToLower(fld), "cache") {
					continue
				}
				if id, ok := ast.Unparen(ix.Index).(*ast.Ident); ok {
					lookups = append(lookups, lookup{core.Point{B: b, I: i}, id, core.ExprStr(ix.X)})
				}
			}
		}
		if len(lookups) == 0 {
			continue
		}
		// dataflow
		type set = map[string]bool
		type env = map[types.Object]set
		clone := func(e env) env {
			o := env{}
			for k, v := range e {
				s := set{}
				for a := range v {
					s[a] = true
				}
				o[k] = s
			}
			return o
		}
		atomsOf := func(e env, x ast.Expr) set {
			out := set{}
			ast.Inspect(x, func(m ast.Node) bool {
				if id, ok := m.(*ast.Ident); ok {
					if o := info.ObjectOf(id); o != nil {
						for a := range e[o] {
							out[a] = true
						}
					}
				}
				return true
			})
			return out
		}
		transfer := func(e env, nd ast.Node) {
			as, ok := nd.(*ast.AssignStmt)
			if !ok {
				return
			}
			if len(as.Rhs) == 1 && len(as.Lhs) >= 2 {
				if call, ok := as.Rhs[0].(*ast.CallExpr); ok {
					if cal := core.Callee(info, call); cal != nil && cal.Pkg() != nil && cal.Pkg().Path() == "strings" && cal.Name() == "Cut" && len(call.Args) == 2 {
						src := atomsOf(e, call.Args[0])
						pos := c.pos(call.Pos())
						for i, part := range []string{"before", "after"} {
							if i >= len(as.Lhs) {
								break
							}
							if id, ok := as.Lhs[i].(*ast.Ident); ok && id.Name != "_" {
								s := set{}
								for a := range src {
									p := strings.SplitN(a, "|", 2)
									s[p[0]+"|"+part+"-of-Cut@"+pos+"("+p[1]+")"] = true
								}
								e[info.ObjectOf(id)] = s
							}
						}
						return
					}
				}
			}
			if len(as.Lhs) == len(as.Rhs) {
				for i, l := range as.Lhs {
					id, ok := l.(*ast.Ident)
					if !ok || id.Name == "_" {
						continue
					}
					obj := info.ObjectOf(id)
					if bt, ok := obj.Type().Underlying().(*types.Basic); !ok || bt.Info()&types.IsString == 0 {
						continue
					}
					s := atomsOf(e, as.Rhs[i])
					if as.Tok != token.ASSIGN && as.Tok != token.DEFINE {
						for a := range e[obj] {
							s[a] = true
						}
					}
					e[obj] = s
				}
			}
		}
		in := map[*cfg.Block]env{}
		entry := env{}
		for _, fl := range f.Decl.Type.Params.List {
			for _, nm := range fl.Names {
				obj := info.ObjectOf(nm)
				if bt, ok := obj.Type().Underlying().(*types.Basic); ok && bt.Info()&types.IsString != 0 {
					entry[obj] = set{nm.Name + "|all": true}
				}
			}
		}
		if len(entry) == 0 {
			continue
		}
		in[g.CFG.Blocks[0]] = entry
		work := []*cfg.Block{g.CFG.Blocks[0]}
		atPoint := map[ast.Node]env{}
		for iter := 0; len(work) > 0 && iter < 10000; iter++ {
			b := work[0]
			work = work[1:]
			e := clone(in[b])
			for _, nd := range b.Nodes {
				atPoint[nd] = clone(e)
				transfer(e, nd)
			}
			for _, s := range b.Succs {
				old, seen := in[s]
				changed := !seen
				if !seen {
					in[s] = clone(e)
				} else {
					for k, v := range e {
						if old[k] == nil {
							old[k] = set{}
						}
						for a := range v {
							if !old[k][a] {
								old[k][a] = true
								changed = true
							}
						}
					}
				}
				if changed {
					work = append(work, s)
				}
			}
		}
		for _, lk := range lookups {
			n++
			c.R.Saw(f)
			keyInfo := atPoint[lk.pt.Node()][info.ObjectOf(lk.key)]
			// everything used after the lookup
			used := set{}
			seenB := map[*cfg.Block]bool{}
			var walk func(b *cfg.Block, from int)
			walk = func(b *cfg.Block, from int) {
				for i := from; i < len(b.Nodes); i++ {
					e := atPoint[b.Nodes[i]]
					for a := range atomsOf(e, nodeExpr(b.Nodes[i])) {
						used[a] = true
					}
				}
				for _, s := range b.Succs {
					if !seenB[s] {
						seenB[s] = true
						walk(s, 0)
					}
				}
			}
			walk(lk.pt.B, lk.pt.I+1)
			var missing []string
			for a := range used {
				p := strings.SplitN(a, "|", 2)
				if !keyInfo[a] && !keyInfo[p[0]+"|all"] {
					missing = append(missing, p[0]+": "+p[1])
				}
			}
			sort.Strings(missing)
			var ki []string
			for a := range keyInfo {
				ki = append(ki, strings.Replace(a, "|", ": ", 1))
			}
			sort.Strings(ki)
			c.R.Checkf(rule, "cache-key-determines-the-request@"+strings.TrimPrefix(f.Name, "component/routing.")+"/"+lk.m, c.pos(lk.pt.Node().Pos()), len(missing) == 0,
				"the key %s of %s carries %v; the miss path computes the cached value from %s", lk.key.Name, lk.m, ki, func() string {
					if len(missing) == 0 {
						return "nothing the key does not determine"
					}
					return fmt.Sprintf("%v, which the key does NOT determine: two different requests (e.g. geosite:x@ads and geosite:x@cn) share one cache slot and the first expansion is returned for both", missing)
				}())
		}
	}
	c.R.Floor(rule, n, 2)
}

// nodeExpr wraps a CFG node so that ast.Inspect visits its identifiers.
func nodeExpr(n ast.Node) ast.Expr {
	switch x := n.(type) {
	case ast.Expr:
		return x
	case *ast.AssignStmt:
		return &ast.CompositeLit{Elts: append(append([]ast.Expr{}, x.Rhs...), indexExprs(x.Lhs)...)}
	case *ast.ExprStmt:
		return x.X
	case *ast.ReturnStmt:
		return &ast.CompositeLit{Elts: x.Results}
	case *ast.IncDecStmt:
		return x.X
	case *ast.SendStmt:
		return &ast.CompositeLit{Elts: []ast.Expr{x.Chan, x.Value}}
	}
	return &ast.CompositeLit{}
}

func indexExprs(l []ast.Expr) []ast.Expr {
	var out []ast.Expr
	for _, e := range l {
		if _, ok := e.(*ast.Ident); !ok {
			out = append(out, e)
		}
	}
	return out
}
