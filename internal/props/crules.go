package props

import (
	"encoding/json"
	"os/exec"
	"path/filepath"
)

type cOb struct {
	Rule      string `json:"rule"`
	Construct string `json:"construct"`
	Pos       string `json:"pos"`
	OK        bool   `json:"ok"`
	Detail    string `json:"detail"`
}

// runCRules runs ctool/crules.py for a property and merges its obligations
// into the report.  Obligations whose rule is in `facts` are returned (as raw
// detail strings) instead of being recorded.
func (c *Ctx) runCRules(prop string, facts map[string]bool) map[string]string {
	out, err := exec.Command("python3", filepath.Join(c.Dir, "ctool/crules.py"), prop, c.Repo, c.Dir).Output()
	res := map[string]string{}
	if err != nil {
		msg := err.Error()
		if ee, ok := err.(*exec.ExitError); ok {
			msg += ": " + string(ee.Stderr)
			if len(msg) > 1500 {
				msg = msg[len(msg)-1500:]
			}
		}
		c.R.Check("C", "clang AST rules for "+prop, "-", false, "ctool/crules.py failed: "+msg)
		return res
	}
	var doc struct {
		Obligations []cOb    `json:"obligations"`
		Functions   []string `json:"functions"`
	}
	if err := json.Unmarshal(out, &doc); err != nil {
		c.R.Check("C", "clang AST rules for "+prop, "-", false, "cannot decode crules output: "+err.Error())
		return res
	}
	c.R.Extra["c_functions"] = len(doc.Functions)
	for _, o := range doc.Obligations {
		if facts[o.Rule] {
			res[o.Rule+"/"+o.Construct] = o.Detail
			continue
		}
		c.R.Check(o.Rule, o.Construct, o.Pos, o.OK, o.Detail)
	}
	return res
}
