package props

import (
	"fmt"
	"go/ast"
	"go/constant"
	"go/types"
	"sort"
	"strings"

	"daecheck/internal/core"
	"daecheck/internal/fdt"
)

func init() {
	register(&Checker{ID: "C18", Run: runC18, Explain: "Structural necessary conditions of 'the dial target follows dial_mode', decided on the type-checked source of package control: " +
		"(1) TARGET: the decision table of ChooseDialTarget, extracted by constant propagation over its CFG for every abstract input (4 dial modes × reserved outbound × empty/ip-like/name × DNS knowledge × verified-cache state), equals the reference: IP for mode ip, empty name or built-in outbound; in domain mode the name only when it is known genuine, otherwise the IP (and a probe only when nothing is known); the name unconditionally in domain+ / domain++, re-route in domain++ (and, in this fork, for a verified name in domain mode); " +
		"(2) NORMALISE: bracket stripping precedes ParseAddr, which precedes SplitHostPort; every name target is built by net.JoinHostPort or is a name that already carries a port; " +
		"(3) REROUTE: Route is re-invoked iff re-route was requested or the outbound is control-plane routing, and every path from a re-route to node selection recomputes the target from the new outbound; (4) VERIFY: the real-domain probe marks a name verified only when an address was returned and not both lookups failed (table over err4/err6/valid4/valid6); knowledge keys are built by cacheKey. " +
		"Not decided: string edge cases inside net.*, cache freshness."})
}

func runC18(c *Ctx) {
	c18Target(c)
	c18Reroute(c)
	c18Verify(c)
	c18Knowledge(c)
	c18KnowledgeKey(c)
	c18NormalizeStripsPort(c)
}

func c18Target(c *Ctx) {
	const rule = "TARGET"
	f := c.fn(rule, "control", "ControlPlane.ChooseDialTarget")
	if f == nil {
		return
	}
	info := f.Info()
	// locate named results / locals
	var dialMode, reroute, dialIp types.Object
	for _, fl := range f.Decl.Type.Results.List {
		for _, nm := range fl.Names {
			switch nm.Name {
			case "shouldReroute":
				reroute = info.ObjectOf(nm)
			case "dialIp":
				dialIp = info.ObjectOf(nm)
			}
		}
	}
	ast.Inspect(f.Body, func(m ast.Node) bool {
		if as, ok := m.(*ast.AssignStmt); ok && len(as.Lhs) == 1 && dialMode == nil {
			if id, ok := as.Lhs[0].(*ast.Ident); ok && id.Name == "dialMode" {
				dialMode = info.ObjectOf(id)
			}
		}
		return true
	})
	if dialMode == nil || reroute == nil || dialIp == nil {
		c.R.Unresolved(rule, "ChooseDialTarget: dialMode / shouldReroute / dialIp")
		return
	}
	// the knowledge predicate expression (rendered) and the mode constants
	var knowExpr string
	ast.Inspect(f.Body, func(m ast.Node) bool {
		if call, ok := m.(*ast.CallExpr); ok {
			if cal := core.Callee(info, call); cal != nil && cal.Name() == "HasDnsKnowledge" {
				knowExpr = core.ExprStr(call)
			}
		}
		return true
	})
	modes := map[string]string{}
	for _, nm := range []string{"DialMode_Ip", "DialMode_Domain", "DialMode_DomainPlus", "DialMode_DomainCao"} {
		modes[nm] = constStrOf(c, "common/consts", nm)
	}
	if knowExpr == "" || modes["DialMode_Ip"] == "" || modes["DialMode_DomainCao"] == "" {
		c.R.Unresolved(rule, "ChooseDialTarget: HasDnsKnowledge call / DialMode constants")
		return
	}
	c.R.Checkf(rule, "knowledge-key", c.pos(f.Pos()), strings.Contains(knowExpr, ".cacheKey(domain, common.AddrToDnsType(dst.Addr()))"), "DNS knowledge is looked up under cacheKey(name, record type of the destination's family): %s", knowExpr)
	type row struct {
		mode                            string
		reserved, hasName, ipLike, know bool
		known, real                     bool
	}
	ref := func(r row) []string {
		ip := "IP reroute=false dialIp=true"
		nameSet := func(rr bool) []string {
			return []string{fmt.Sprintf("JOIN reroute=%v dialIp=false", rr), fmt.Sprintf("JOIN reroute=%v dialIp=true", rr), fmt.Sprintf("NAMEPORT reroute=%v dialIp=false", rr)}
		}
		if r.reserved || !r.hasName || r.mode == "DialMode_Ip" {
			return []string{ip}
		}
		switch r.mode {
		case "DialMode_Domain":
			if r.ipLike {
				return []string{ip}
			}
			if r.know || (r.known && r.real) {
				return nameSet(true)
			}
			if r.known {
				return []string{ip}
			}
			return []string{"probe " + ip}
		case "DialMode_DomainPlus":
			return nameSet(false)
		case "DialMode_DomainCao":
			return nameSet(true)
		}
		return nil
	}
	rows, bad := 0, 0
	first := ""
	bools := []bool{false, true}
	var modeNames []string
	for k := range modes {
		modeNames = append(modeNames, k)
	}
	sort.Strings(modeNames)
	for _, mode := range modeNames {
		for _, reserved := range bools {
			for _, hasName := range bools {
				for _, ipLike := range bools {
					for _, know := range bools {
						for _, kr := range [][2]bool{{false, false}, {true, false}, {true, true}} {
							r := row{mode, reserved, hasName, ipLike, know, kr[0], kr[1]}
							job := &fdt.Job{F: f, Start: f.Graph().Entry(), MaxSteps: 800,
								Tracked: map[types.Object]string{reroute: "reroute", dialIp: "dialIp"},
								Init:    map[types.Object]constant.Value{reroute: constant.MakeBool(false), dialIp: constant.MakeBool(false)},
								Inputs: map[string]constant.Value{
									"c.dialMode": constant.MakeString(modes[mode]), "outbound.IsReserved()": constant.MakeBool(reserved), "domain != \"\"": constant.MakeBool(hasName),
									"isIPLikeDomain(domain)": constant.MakeBool(ipLike), knowExpr: constant.MakeBool(know), "known": constant.MakeBool(kr[0]), "real": constant.MakeBool(kr[1])},
								Event: func(n ast.Node, ev func(ast.Expr) string) string {
									out := ""
									if as, ok := n.(*ast.AssignStmt); ok && len(as.Lhs) == 1 && core.ExprStr(as.Lhs[0]) == "dialTarget" {
										rhs := core.ExprStr(as.Rhs[0])
										switch {
										case rhs == "dst.String()":
											out = "IP"
										case strings.HasPrefix(rhs, "net.JoinHostPort(domain, "):
											out = "JOIN"
										case rhs == "domain":
											out = "NAMEPORT"
										default:
											out = "?" + rhs
										}
									}
									ownCalls(n, func(call *ast.CallExpr, _ bool) {
										if cal := core.Callee(info, call); cal != nil && cal.Name() == "triggerRealDomainProbe" {
											out = "probe"
										}
									})
									return out
								}}
							var got []string
							for _, o := range job.Run() {
								if o.Kind != "return" {
									continue
								}
								got = append(got, strings.TrimSpace(strings.Join(o.Events, " ")+" reroute="+o.State["reroute"]+" dialIp="+o.State["dialIp"]))
							}
							got = uniqSorted(got)
							want := ref(r)
							sort.Strings(want)
							rows++
							if strings.Join(got, " | ") != strings.Join(want, " | ") || len(job.Undecided) > 0 {
								bad++
								if first == "" {
									first = fmt.Sprintf("mode=%s reserved=%v name=%v ipLike=%v dnsKnowledge=%v cache(known=%v real=%v): code gives [%s], documented [%s]", strings.TrimPrefix(mode, "DialMode_"), reserved, hasName, ipLike, know, kr[0], kr[1], strings.Join(got, " | "), strings.Join(want, " | "))
								}
							}
						}
					}
				}
			}
		}
	}
	c.R.Checkf(rule, "dial-target-table@ChooseDialTarget", c.pos(f.Pos()), bad == 0, "decision table over %d abstract inputs equals the reference%s", rows, func() string {
		if bad == 0 {
			return ""
		}
		return fmt.Sprintf(" — %d row(s) differ; first: %s", bad, first)
	}())
	c.R.Floor(rule+"/rows", rows, 192)

	// (2) normalisation order inside the name branch
	g := f.Graph()
	strip := func(n ast.Node) bool {
		e, ok := n.(ast.Expr)
		return ok && strings.Contains(core.ExprStr(e), `strings.HasPrefix(domain, "[")`)
	}
	parse := nodeCalls(info, "net/netip.ParseAddr")
	split := nodeCalls(info, "net.SplitHostPort")
	_, _, r1 := g.ReachesAvoiding(g.Entry(), strip, parse)
	_, _, r2 := g.ReachesAvoiding(g.Entry(), parse, split)
	c.R.Checkf("NORMALISE", "strip-parse-split-order", c.pos(f.Pos()), !r1 && !r2 && len(g.Find(parse)) == 1 && len(g.Find(split)) == 1, "bracket stripping precedes netip.ParseAddr, which precedes net.SplitHostPort")
	okTargets := true
	ast.Inspect(f.Body, func(m ast.Node) bool {
		if as, ok := m.(*ast.AssignStmt); ok && len(as.Lhs) == 1 && core.ExprStr(as.Lhs[0]) == "dialTarget" {
			rhs := core.ExprStr(as.Rhs[0])
			if !(rhs == "dst.String()" || rhs == "domain" || strings.HasPrefix(rhs, "net.JoinHostPort(domain, strconv.Itoa(int(dst.Port()))")) {
				okTargets = false
			}
		}
		return true
	})
	// `dialTarget = domain` only on the SplitHostPort-succeeded edge
	for _, p := range g.Find(func(n ast.Node) bool {
		as, ok := n.(*ast.AssignStmt)
		return ok && len(as.Lhs) == 1 && core.ExprStr(as.Lhs[0]) == "dialTarget" && core.ExprStr(as.Rhs[0]) == "domain"
	}) {
		dom := false
		for _, gd := range g.Guards(p) {
			if core.ExprStr(gd.Cond) == "err == nil" && gd.Polarity {
				dom = true
			}
		}
		_, _, r3 := g.ReachesAvoiding(g.Entry(), split, func(n ast.Node) bool { return n == p.Node() })
		if !dom || r3 {
			okTargets = false
		}
	}
	c.R.Checkf("NORMALISE", "targets-well-formed", c.pos(f.Pos()), okTargets, "every target is the destination address, net.JoinHostPort(name, destination port), or a name that SplitHostPort accepted (already has a port)")
}

func c18Reroute(c *Ctx) {
	const rule = "REROUTE"
	f := c.fn(rule, "control", "ControlPlane.chooseProxyDialer")
	if f == nil {
		return
	}
	info := f.Info()
	g := f.Graph()
	route := nodeCalls(info, "control.ControlPlane.Route")
	choose := nodeCalls(info, "control.ControlPlane.ChooseDialTarget")
	sel := nodeCalls(info, "component/outbound.DialerGroup.SelectWithExclusionResult", "component/outbound.DialerGroup.SelectWithExclusion", "component/outbound.DialerGroup.Select")
	rp := g.Find(route)
	if len(rp) != 1 {
		c.R.Checkf(rule, "route-site", c.pos(f.Pos()), false, "expected one Route call in chooseProxyDialer, found %d", len(rp))
		return
	}
	// the error edge of Route returns; from the success edge every path to selection recomputes
	start := rp[0].After()
	if cond, _, fl, ok := g.Cond(rp[0].B); ok && strings.Contains(core.ExprStr(cond), "err != nil") {
		start = core.Point{B: fl, I: 0}
	}
	bad, tr, reach := g.ReachesAvoiding(start, choose, sel)
	c.R.Checkf(rule, "target-recomputed-after-reroute", c.pos(rp[0].Node().Pos()), !reach, "after Route picked a new outbound every path to node selection recomputes the dial target from it%s", func() string {
		if reach {
			return " — path lines " + traceStr(c.P, tr) + " reaches selection at " + c.pos(bad.Pos()) + " with the target computed for the old outbound (a built-in outbound would be asked to dial a name)"
		}
		return ""
	}())
	// the recompute uses the re-routed outbound variable
	okArg := false
	for _, p := range g.Find(choose) {
		if p.Node().Pos() < rp[0].Node().Pos() {
			continue
		}
		ownCalls(p.Node(), func(call *ast.CallExpr, _ bool) {
			if cal := core.Callee(info, call); cal != nil && cal.Name() == "ChooseDialTarget" && core.ExprStr(call.Args[0]) == "outboundIndex" {
				okArg = true
			}
		})
	}
	routeAssigns := false
	if as, ok := rp[0].Node().(*ast.AssignStmt); ok && len(as.Lhs) >= 1 && core.ExprStr(as.Lhs[0]) == "outboundIndex" {
		routeAssigns = true
	}
	c.R.Checkf(rule, "recompute-uses-new-outbound", c.pos(rp[0].Node().Pos()), okArg && routeAssigns, "Route's result is stored in outboundIndex and the recompute passes outboundIndex")
	// Route is entered iff reroute requested or outbound is control-plane routing
	okGate := false
	for _, gd := range g.Guards(rp[0]) {
		if core.ExprStr(gd.Cond) == "outboundIndex == consts.OutboundControlPlaneRouting" && gd.Polarity {
			okGate = true
		}
	}
	okSet := false
	for _, cs := range g.Conds(func(e ast.Expr) bool { return core.ExprStr(e) == "shouldReroute" }) {
		for _, n := range cs.True.Nodes {
			if core.ExprStr2(n) == "outboundIndex = consts.OutboundControlPlaneRouting" {
				okSet = true
			}
		}
	}
	c.R.Checkf(rule, "reroute-gate", c.pos(f.Pos()), okGate && okSet, "re-routing happens iff the target computation asked for it or the kernel handed the flow over for control-plane routing")
}

func c18Verify(c *Ctx) {
	const rule = "VERIFY"
	f := c.fn(rule, "control", "ControlPlane.probeAndUpdateRealDomain")
	if f == nil {
		return
	}
	info := f.Info()
	rows, bad := 0, 0
	first := ""
	bools := []bool{false, true}
	for _, e4 := range bools {
		for _, e6 := range bools {
			for _, v4 := range bools {
				for _, v6 := range bools {
					job := &fdt.Job{F: f, Start: f.Graph().Entry(), MaxSteps: 600,
						Inputs: map[string]constant.Value{"known": constant.MakeBool(false), "len(c.bootstrapResolvers) == 0": constant.MakeBool(false),
							"err4 != nil": constant.MakeBool(e4), "err6 != nil": constant.MakeBool(e6), "err4 == nil": constant.MakeBool(!e4), "err6 == nil": constant.MakeBool(!e6),
							"ip46.Ip4.IsValid()": constant.MakeBool(v4), "ip46.Ip6.IsValid()": constant.MakeBool(v6)},
						Event: func(n ast.Node, ev func(ast.Expr) string) string {
							out := ""
							ownCalls(n, func(call *ast.CallExpr, def bool) {
								if def {
									return
								}
								if recv, name, ok := methodCall(call); ok {
									if name == "AddString" && strings.HasSuffix(core.ExprStr(recv), ".realDomainSet") {
										out = "verified"
									}
									if name == "Store" && strings.HasSuffix(core.ExprStr(recv), ".realDomainNegSet") {
										out = "negative"
									}
								}
							})
							_ = info
							return out
						}}
					var got []string
					for _, o := range job.Run() {
						if o.Kind == "return" {
							got = append(got, strings.TrimSpace(strings.Join(o.Events, " ")+" return="+o.Vals[0]))
						}
					}
					got = uniqSorted(got)
					want := "return=false"
					switch {
					case e4 && e6:
						want = "return=false"
					case !v4 && !v6:
						want = "negative return=false"
						if e4 || e6 {
							// one family failed, the other returned nothing: not verified (negative caching is optional)
							want = "*not-verified*"
						}
					default:
						want = "verified return=true"
					}
					rows++
					ok := false
					if want == "*not-verified*" {
						ok = len(got) == 1 && !strings.Contains(got[0], "verified") && strings.HasSuffix(got[0], "return=false")
					} else {
						ok = len(got) == 1 && got[0] == want
					}
					if !ok {
						bad++
						if first == "" {
							first = fmt.Sprintf("err4=%v err6=%v valid4=%v valid6=%v: code gives %v, required %s", e4, e6, v4, v6, got, want)
						}
					}
				}
			}
		}
	}
	c.R.Checkf(rule, "probe-verdict-table", c.pos(f.Pos()), bad == 0, "a name is marked verified (and true returned) exactly when the probe returned an address and not both lookups failed; %d rows%s", rows, func() string {
		if bad == 0 {
			return ""
		}
		return " — first difference: " + first + " (a never-resolving spoofed name would be dialled by name and re-routed)"
	}())
	c.R.Floor(rule+"/rows", rows, 16)
}
