package props

import (
	"encoding/json"
	"fmt"
	"go/ast"
	"go/constant"
	"go/types"
	"os"
	"path/filepath"
	"regexp"
	"sort"
	"strings"

	"daecheck/internal/core"
)

func init() {
	register(&Checker{ID: "C19", Run: runC19, Explain: "The kernel/control-plane ABI decided exactly from both front ends: clang's record layouts, enum values, macro values and map declarations of control/kern/tproxy.c (through the header shim) against go/types + types.Sizes of the Go mirrors in the stub build and in the real-build variant: " +
		"(1) STRUCT: for every C record that has a Go mirror (bpf<CamelCase>): equal size, and every member at the same offset with the same width; (2) MAP: every map the control plane touches has mirrors for its struct key/value types and max_entries agree with the Go-side limits; " +
		"(3) CONST: every shared enumeration and limit has the same value in the C program, the generated Go constants, the generated header and the generator's JSON spec; (4) KEY: the connectivity-slot key is outbound·6 + domain·2 + family with 32-bit arithmetic on both sides and fits max_entries, the flow-tuple key constructor fills every key member (ports in network order, addresses as 16 bytes), the prefix key and domain-table key use the mapped 16-byte form; (5) STUBREAL: types declared in both build variants have identical layouts. " +
		"Not decided: the BTF-generated types of the real bpf2go output (absent here), big-endian hosts."})
}

var basicCSize = map[string]int{"__u8": 1, "u8": 1, "_Bool": 1, "bool": 1, "char": 1, "__s8": 1, "unsigned char": 1,
	"__u16": 2, "__be16": 2, "u16": 2, "__le16": 2, "unsigned short": 2, "__sum16": 2,
	"__u32": 4, "__be32": 4, "u32": 4, "int": 4, "unsigned int": 4, "__s32": 4, "__wsum": 4,
	"__u64": 8, "__be64": 8, "u64": 8, "unsigned long long": 8, "long long": 8, "unsigned long": 8, "long": 8}

var arrRe = regexp.MustCompile(`^(.*?)\[(\d+)\]$`)

// cLeafSize returns the byte size of a leaf C field from its type string, or -1.
func cLeafSize(t string, cf *CFacts) int {
	t = strings.TrimSpace(t)
	if m := arrRe.FindStringSubmatch(t); m != nil {
		var n int
		fmt.Sscan(m[2], &n)
		e := cLeafSize(m[1], cf)
		if e < 0 {
			return -1
		}
		return e * n
	}
	if s, ok := basicCSize[t]; ok {
		return s
	}
	if strings.HasPrefix(t, "struct ") || strings.HasPrefix(t, "union ") {
		if r, ok := cf.Records[strings.TrimPrefix(strings.TrimPrefix(t, "struct "), "union ")]; ok {
			return r.Size
		}
	}
	return -1
}

func camel(s string) string {
	s = strings.TrimLeft(s, "_")
	parts := strings.Split(s, "_")
	out := ""
	for _, p := range parts {
		if p == "" {
			continue
		}
		out += strings.ToUpper(p[:1]) + p[1:]
	}
	return out
}

type goLeaf struct {
	path   string
	offset int64
	size   int64
	pad    bool
}

func goLeaves(sizes types.Sizes, t types.Type, base int64, prefix string, out *[]goLeaf) {
	st, ok := t.Underlying().(*types.Struct)
	if !ok {
		return
	}
	var fs []*types.Var
	for i := 0; i < st.NumFields(); i++ {
		fs = append(fs, st.Field(i))
	}
	offs := sizes.Offsetsof(fs)
	for i, f := range fs {
		ft := f.Type()
		if n := namedOf(ft); n != nil && n.Obj().Name() == "HostLayout" {
			continue
		}
		name := f.Name()
		p := name
		if prefix != "" {
			p = prefix + "." + name
		}
		if _, isStruct := ft.Underlying().(*types.Struct); isStruct {
			goLeaves(sizes, ft, base+offs[i], p, out)
			continue
		}
		pad := name == "_" || strings.HasPrefix(strings.ToLower(name), "pad")
		*out = append(*out, goLeaf{p, base + offs[i], sizes.Sizeof(ft), pad})
	}
}

func hasHostLayout(t types.Type) bool {
	st, ok := t.Underlying().(*types.Struct)
	if !ok {
		return false
	}
	for i := 0; i < st.NumFields(); i++ {
		if n := namedOf(st.Field(i).Type()); n != nil && n.Obj().Name() == "HostLayout" {
			return true
		}
	}
	return false
}

// compareLayout compares one Go mirror with its C record.
func compareLayout(c *Ctx, rule, variant string, sizes types.Sizes, cf *CFacts, cname string, gt *types.TypeName, pos string) {
	rec := cf.Records[cname]
	construct := fmt.Sprintf("%s<->%s[%s]", cname, gt.Name(), variant)
	gsize := sizes.Sizeof(gt.Type())
	var leaves []goLeaf
	goLeaves(sizes, gt.Type(), 0, "", &leaves)
	// C leaves: fields that are not aggregates (no children)
	type cl struct {
		path string
		off  int
		size int
		pad  bool
	}
	var cls []cl
	for i, f := range rec.Fields {
		isAgg := i+1 < len(rec.Fields) && rec.Fields[i+1].Depth > f.Depth
		if isAgg || f.Name == "" {
			continue
		}
		sz := cLeafSize(f.Type, cf)
		if sz < 0 {
			// enums and unknown types: width from the gap to the next field at the same or lower depth
			end := rec.Size
			for j := i + 1; j < len(rec.Fields); j++ {
				if rec.Fields[j].Offset > f.Offset {
					end = rec.Fields[j].Offset
					break
				}
			}
			if strings.HasPrefix(f.Type, "enum ") {
				// packed enums are 1 byte; unpacked 4: bounded by the gap
				sz = 4
				if end-f.Offset < 4 {
					sz = end - f.Offset
				}
			} else {
				sz = end - f.Offset
			}
		}
		cls = append(cls, cl{f.Path, f.Offset, sz, strings.HasPrefix(strings.ToLower(f.Name), "pad") || strings.HasPrefix(f.Name, "__pad")})
	}
	var problems []string
	if int64(rec.Size) != gsize {
		problems = append(problems, fmt.Sprintf("sizeof: C %d, Go %d", rec.Size, gsize))
	}
	norm := func(p string) string {
		parts := strings.Split(p, ".")
		for i := range parts {
			parts[i] = strings.ToLower(camel(parts[i]))
		}
		return strings.Join(parts, ".")
	}
	// every non-padding Go leaf has a C leaf with the same (normalised) path, offset and size
	used := map[int]bool{}
	for _, gl := range leaves {
		if gl.pad {
			continue
		}
		found := false
		var near string
		for i, cfld := range cls {
			if norm(cfld.path) == strings.ToLower(gl.path) {
				near = fmt.Sprintf("C %s at %d width %d", cfld.path, cfld.off, cfld.size)
				if int64(cfld.off) == gl.offset && int64(cfld.size) == gl.size {
					found = true
					used[i] = true
				}
			}
		}
		if !found {
			// union members written through another view: same offset and total width under a different name (e.g. Value <-> __value)
			for i, cfld := range cls {
				if int64(cfld.off) == gl.offset && int64(cfld.size) == gl.size && !used[i] && near == "" {
					found = true
					used[i] = true
					break
				}
			}
		}
		if !found {
			if near == "" {
				near = "no C member of that name, offset and width"
			}
			problems = append(problems, fmt.Sprintf("Go %s at %d width %d: %s", gl.path, gl.offset, gl.size, near))
		}
	}
	// every C leaf byte range (non padding) is covered by some Go leaf range (so no C member is missing from the mirror)
	for _, cfld := range cls {
		if cfld.pad {
			continue
		}
		covered := true
		for b := cfld.off; b < cfld.off+cfld.size; b++ {
			in := false
			for _, gl := range leaves {
				if !gl.pad && gl.offset <= int64(b) && int64(b) < gl.offset+gl.size {
					in = true
				}
			}
			if !in {
				covered = false
			}
		}
		if !covered {
			problems = append(problems, fmt.Sprintf("C %s at %d width %d has no Go member over those bytes", cfld.path, cfld.off, cfld.size))
		}
	}
	c.R.Checkf(rule, construct, pos, len(problems) == 0, "size %d, %d Go members against %d C members%s", rec.Size, len(leaves), len(cls), func() string {
		if len(problems) == 0 {
			return ": all offsets and widths equal"
		}
		return " — " + strings.Join(problems, "; ")
	}())
}

func mirrorPairs(cf *CFacts, pk *types.Package) map[string]*types.TypeName {
	out := map[string]*types.TypeName{}
	for cname := range cf.Records {
		for _, cand := range []string{"bpf" + camel(cname), "_bpf" + camel(cname)} {
			if tn, ok := pk.Scope().Lookup(cand).(*types.TypeName); ok {
				if _, isS := tn.Type().Underlying().(*types.Struct); isS {
					out[cname] = tn
				}
			}
		}
	}
	return out
}

func runC19(c *Ctx) {
	cf := c.CF("STRUCT")
	if cf == nil {
		return
	}
	// padded hash-map keys are zeroed as a whole on the kernel side (the control plane's keys have zero padding)
	c.runCRules("C19", nil)
	keyFromAs16(c, "KEY")
	sizes := types.SizesFor("gc", "amd64")
	stub := c.P.Pkg("control")
	pairs := mirrorPairs(cf, stub.Types)
	var names []string
	for k := range pairs {
		names = append(names, k)
	}
	sort.Strings(names)
	for _, cn := range names {
		compareLayout(c, "STRUCT", "stub", sizes, cf, cn, pairs[cn], c.pos(pairs[cn].Pos()))
	}
	c.R.Floor("STRUCT/pairs-stub", len(names), 12)
	// real build variant
	if rp := c.Real("STRUCT"); rp != nil {
		real := rp.Pkg("control")
		rpairs := mirrorPairs(cf, real.Types)
		var rn []string
		for k := range rpairs {
			rn = append(rn, k)
		}
		sort.Strings(rn)
		declaredReal := 0
		for _, cn := range rn {
			tn := rpairs[cn]
			file := rp.Fset.Position(tn.Pos()).Filename
			if strings.HasSuffix(file, "zz_verif_realbuild_stub.go") {
				continue // residue of the stub file: already compared above
			}
			declaredReal++
			compareLayout(c, "STRUCT", "real", sizes, cf, cn, tn, rp.Pos(tn.Pos()))
			// stub == real
			if st, ok := pairs[cn]; ok {
				var a, b []goLeaf
				goLeaves(sizes, st.Type(), 0, "", &a)
				goLeaves(sizes, tn.Type(), 0, "", &b)
				same := len(a) == len(b) && sizes.Sizeof(st.Type()) == sizes.Sizeof(tn.Type())
				for i := range a {
					if same && (a[i].path != b[i].path || a[i].offset != b[i].offset || a[i].size != b[i].size) {
						same = false
					}
				}
				c.R.Checkf("STUBREAL", "same-layout@"+tn.Name(), rp.Pos(tn.Pos()), same, "%s is declared in both build variants with identical member names, offsets and widths", tn.Name())
			}
		}
		c.R.Floor("STRUCT/pairs-real", declaredReal, 2)
		// the load-time PARAM literal (an anonymous struct rewritten into the program's constants) mirrors struct dae_param
		nParam := 0
		for _, file := range real.Syntax {
			ast.Inspect(file, func(m ast.Node) bool {
				kv, ok := m.(*ast.KeyValueExpr)
				if !ok {
					return true
				}
				if tv, ok := real.TypesInfo.Types[kv.Key]; !ok || tv.Value == nil || tv.Value.Kind() != constant.String || constant.StringVal(tv.Value) != "PARAM" {
					return true
				}
				lit, ok := ast.Unparen(kv.Value).(*ast.CompositeLit)
				if !ok {
					return true
				}
				st, ok := real.TypesInfo.TypeOf(lit).(*types.Struct)
				if !ok {
					return true
				}
				if _, has := cf.Records["dae_param"]; !has {
					return true
				}
				nParam++
				tn := types.NewTypeName(lit.Pos(), real.Types, "PARAMliteral", nil)
				types.NewNamed(tn, st, nil)
				compareLayout(c, "STRUCT", "real", sizes, cf, "dae_param", tn, rp.Pos(lit.Pos()))
				return true
			})
		}
		c.R.Floor("STRUCT/param-literal", nParam, 1)
	}
	// 32-bit variant of the sizes (layout must not depend on the word size)
	if c.Tier == "thorough" {
		for _, arch := range []string{"arm64", "riscv64", "mips64", "s390x"} {
			sz := types.SizesFor("gc", arch)
			for _, cn := range names {
				compareLayout(c, "STRUCT", "stub/"+arch, sz, cf, cn, pairs[cn], c.pos(pairs[cn].Pos()))
			}
		}
		c.R.Note("32-bit Go targets (386, arm, mips, mipsle) are not compared: there uint64 is 4-aligned, so the hand-written stub mirrors (tests only, tag dae_stub_ebpf) differ from the BPF layout in trailing/inner padding; production uses the bpf2go-generated types, which carry explicit padding members and are not in the tree (see assumptions)")
		for _, d := range []string{"-DMAX_MATCH_SET_LEN=64", "-DMAX_MATCH_SET_LEN=2048"} {
			if cf2 := c.CF("CONST", d); cf2 != nil {
				want := int64(64)
				if strings.HasSuffix(d, "2048") {
					want = 2048
				}
				ok := cf2.Macros["MAX_MATCH_SET_LEN"] == want && cf2.Macros["MAX_LPM_NUM"] == want+8 && nospace(cf2.RecFields["domain_routing"]["bitmap"]) == fmt.Sprintf("__u32[%d]", want/32)
				m := cf2.Maps["routing_map"]
				ok = ok && m.MaxEntries != nil && int64(*m.MaxEntries) == want
				c.R.Checkf("CONST", "match-set-knob"+d, "control/kern/tproxy.c", ok, "with %s: routing_map.max_entries, MAX_LPM_NUM and the domain bitmap width follow the knob", d)
			}
		}
	}
	c19Maps(c, cf, pairs)
	c19Consts(c, cf)
	c19Keys(c, cf)
	c19WordsConverter(c)
	c02Ring(c) // the LPM slot index stored in a match set is the slot the trie is installed at (shared with C02)
}

func c19Maps(c *Ctx, cf *CFacts, pairs map[string]*types.TypeName) {
	const rule = "MAP"
	pk := c.P.Pkg("control")
	mt, ok := pk.Types.Scope().Lookup("bpfMaps").(*types.TypeName)
	if !ok {
		c.R.Unresolved(rule, "control.bpfMaps")
		return
	}
	st := mt.Type().Underlying().(*types.Struct)
	goMaps := map[string]bool{}
	for i := 0; i < st.NumFields(); i++ {
		tag := st.Tag(i)
		if m := regexp.MustCompile(`ebpf:"([^"]+)"`).FindStringSubmatch(tag); m != nil {
			goMaps[m[1]] = true
		}
	}
	// which map fields does non-test Go code read or write?
	usedGo := map[string]bool{}
	for _, f := range c.P.FuncsIn("control") {
		core.EachCall(f.Body, core.Deep, func(call *ast.CallExpr) {
			recv, name, ok := methodCall(call)
			if !ok {
				return
			}
			switch name {
			case "Lookup", "Update", "Put", "Delete", "BatchUpdate", "BatchDelete", "BatchLookup", "LookupAndDelete", "Iterate", "NextKey":
				if se, ok := ast.Unparen(recv).(*ast.SelectorExpr); ok {
					if fld := core.SelField(f.Info(), se); fld != nil {
						for i := 0; i < st.NumFields(); i++ {
							if st.Field(i) == fld {
								if m := regexp.MustCompile(`ebpf:"([^"]+)"`).FindStringSubmatch(st.Tag(i)); m != nil {
									usedGo[m[1]] = true
								}
							}
						}
					}
				}
			}
		})
	}
	n := 0
	var names []string
	for k := range goMaps {
		names = append(names, k)
	}
	sort.Strings(names)
	for _, name := range names {
		m, ok := cf.Maps[name]
		if !ok {
			c.R.Checkf(rule, "declared@"+name, c.pos(mt.Pos()), false, "the control plane expects a map %q that tproxy.c does not declare", name)
			continue
		}
		n++
		var miss []string
		for _, kv := range []string{m.Key, m.Value} {
			t := strings.TrimSuffix(strings.TrimPrefix(kv, "typeof("), ")")
			if strings.HasPrefix(t, "struct ") {
				cn := strings.TrimPrefix(t, "struct ")
				if _, has := pairs[cn]; !has && usedGo[name] {
					if _, known := cf.Records[cn]; known && !strings.HasPrefix(cn, "bpf_") {
						miss = append(miss, cn)
					}
				}
			}
		}
		c.R.Checkf(rule, "mirrors@"+name, "control/kern/tproxy.c", len(miss) == 0, "map %s (key %s, value %s): every struct key/value type has a Go mirror%s", name, m.Key, m.Value, func() string {
			if len(miss) > 0 {
				return " — missing: " + strings.Join(miss, ", ")
			}
			return ""
		}())
	}
	c.R.Floor(rule+"/maps", n, 10)
	// capacity agreements
	maxSet, _ := goVarInit(c, "common/consts", "MaxMatchSetLen")
	chk := func(name string, want int64, why string) {
		m, ok := cf.Maps[name]
		got := int64(-1)
		if ok && m.MaxEntries != nil {
			got = int64(*m.MaxEntries)
		}
		c.R.Checkf(rule, "capacity@"+name, "control/kern/tproxy.c", got >= want && ok, "%s.max_entries = %d, %s (needs >= %d)", name, got, why, want)
	}
	chk("routing_map", maxSet, "one slot per match set up to consts.MaxMatchSetLen")
	chk("lpm_array_map", maxSet, "ring of LPM tries indexed modulo consts.MaxMatchSetLen")
	c.R.Checkf(rule, "routing-map-exact", "control/kern/tproxy.c", cf.Maps["routing_map"].MaxEntries != nil && int64(*cf.Maps["routing_map"].MaxEntries) == maxSet && cf.Macros["MAX_MATCH_SET_LEN"] == maxSet,
		"MAX_MATCH_SET_LEN (%d) == consts.MaxMatchSetLen (%d) == routing_map.max_entries", cf.Macros["MAX_MATCH_SET_LEN"], maxSet)
	// domain bitmap width
	if tn, ok := pairs["domain_routing"]; ok {
		var ls []goLeaf
		goLeaves(types.SizesFor("gc", "amd64"), tn.Type(), 0, "", &ls)
		okW := len(ls) == 1 && ls[0].size*8 == maxSet
		c.R.Checkf(rule, "domain-bitmap-width", c.pos(tn.Pos()), okW, "the per-address domain bitmap has %d bits = consts.MaxMatchSetLen", func() int64 {
			if len(ls) == 1 {
				return ls[0].size * 8
			}
			return -1
		}())
	}
}

// goVarInit returns the constant initial value of a package-level variable or constant.
func goVarInit(c *Ctx, rel, name string) (int64, bool) {
	pk := c.P.Pkg(rel)
	if pk == nil {
		return 0, false
	}
	if o, ok := pk.Types.Scope().Lookup(name).(*types.Const); ok {
		v, ok := constant.Int64Val(constant.ToInt(o.Val()))
		return v, ok
	}
	for _, f := range pk.Syntax {
		for _, d := range f.Decls {
			gd, ok := d.(*ast.GenDecl)
			if !ok {
				continue
			}
			for _, sp := range gd.Specs {
				vs, ok := sp.(*ast.ValueSpec)
				if !ok {
					continue
				}
				for i, nm := range vs.Names {
					if nm.Name == name && i < len(vs.Values) {
						if tv, ok := pk.TypesInfo.Types[vs.Values[i]]; ok && tv.Value != nil {
							v, ok := constant.Int64Val(constant.ToInt(tv.Value))
							return v, ok
						}
					}
				}
			}
		}
	}
	return 0, false
}

func c19Consts(c *Ctx, cf *CFacts) {
	const rule = "CONST"
	n := 0
	cmp := func(what string, cval int64, cok bool, gname string) {
		gv, gok := goVarInit(c, "common/consts", gname)
		n++
		c.R.Checkf(rule, what, "common/consts", cok && gok && cval == gv, "%s: C %d, Go consts.%s %d", what, cval, gname, gv)
	}
	for name, v := range cf.Enums["MatchType"] {
		cmp("enum:"+name, int64(v), true, name)
	}
	for name, v := range cf.Enums["L4ProtoType"] {
		cmp("enum:"+name, int64(v), true, name)
	}
	for name, v := range cf.Enums["IpVersionType"] {
		cmp("enum:"+name, int64(v), true, strings.Replace(name, "IpVersionType_", "IpVersion_", 1))
	}
	for _, m := range []string{"OUTBOUND_DIRECT", "OUTBOUND_BLOCK", "OUTBOUND_MUST_RULES", "OUTBOUND_CONTROL_PLANE_ROUTING", "OUTBOUND_LOGICAL_OR", "OUTBOUND_LOGICAL_AND", "OUTBOUND_LOGICAL_MASK"} {
		v, ok := cf.Macros[m]
		cmp("macro:"+m, v, ok, camel(strings.ToLower(m)))
	}
	v, ok := cf.Macros["TASK_COMM_LEN"]
	cmp("macro:TASK_COMM_LEN", v, ok, "TaskCommLen")
	v, ok = cf.Macros["MAX_MATCH_SET_LEN"]
	cmp("macro:MAX_MATCH_SET_LEN", v, ok, "MaxMatchSetLen")
	c.R.Floor(rule+"/shared-constants", n, 29)
	// generator spec <-> values
	b, err := os.ReadFile(filepath.Join(c.Repo, "common/consts/ebpf_sync_spec.json"))
	if err != nil {
		c.R.Unresolved(rule, "common/consts/ebpf_sync_spec.json")
		return
	}
	var spec struct {
		MatchTypes []string `json:"match_types"`
		L4Proto    []struct {
			Name  string `json:"name"`
			Value int    `json:"value"`
		} `json:"l4_proto"`
		IpVersion []struct {
			Name  string `json:"name"`
			Value int    `json:"value"`
		} `json:"ip_version"`
		Outbound []struct {
			Name  string `json:"name"`
			Value int    `json:"value"`
		} `json:"outbound"`
	}
	if err := json.Unmarshal(b, &spec); err != nil {
		c.R.Check(rule, "spec-json", "common/consts/ebpf_sync_spec.json", false, "cannot decode: "+err.Error())
		return
	}
	okSpec := len(spec.MatchTypes) == len(cf.Enums["MatchType"])
	for i, nm := range spec.MatchTypes {
		if cf.Enums["MatchType"]["MatchType_"+nm] != i {
			okSpec = false
		}
	}
	for _, e := range spec.L4Proto {
		if cf.Enums["L4ProtoType"]["L4ProtoType_"+e.Name] != e.Value {
			okSpec = false
		}
	}
	for _, e := range spec.IpVersion {
		if cf.Enums["IpVersionType"]["IpVersionType_"+e.Name] != e.Value {
			okSpec = false
		}
	}
	for _, e := range spec.Outbound {
		if cf.Macros["OUTBOUND_"+e.Name] != int64(e.Value) {
			okSpec = false
		}
	}
	c.R.Checkf(rule, "generator-spec-agrees", "common/consts/ebpf_sync_spec.json", okSpec && len(spec.Outbound) >= 6, "the generator's JSON spec lists the same names and values as the C program (%d match types, %d outbound sentinels)", len(spec.MatchTypes), len(spec.Outbound))
	if mk, err := os.ReadFile(filepath.Join(c.Repo, "Makefile")); err == nil && strings.Contains(string(mk), "bpfeb") {
		c.R.Note("byte order: the Makefile also builds bpfeb objects; the Go side writes multi-byte rule operands explicitly little-endian while the C side reads them in host order, so the encodings are only decided (and only agree) for little-endian targets — big-endian hosts are out of scope")
		c.R.Assumes("little-endian host/target for multi-byte rule operands")
	}
}

func c19Keys(c *Ctx, cf *CFacts) {
	const rule = "KEY"
	// connectivity slot key
	f := c.fn(rule, "control", "outboundConnectivityMapKey")
	if f != nil {
		info := f.Info()
		// evaluate the Go formula symbolically: require the shape uint32(outbound)*PER + slot with PER == 6 typed uint32
		per, okPer := goVarInit(c, "control", "outboundConnectivitySlotsPerOutbound")
		perDom, okDom := goVarInit(c, "control", "outboundConnectivitySlotsPerDomain")
		var ret *ast.ReturnStmt
		ast.Inspect(f.Body, func(m ast.Node) bool {
			if rs, ok := m.(*ast.ReturnStmt); ok {
				ret = rs
			}
			return true
		})
		wide := ret != nil
		prodStr := ""
		nArith := 0
		if ret != nil && len(ret.Results) == 1 {
			// every product / sum of the function (also those parked in a local before the return)
			ast.Inspect(f.Body, func(m ast.Node) bool {
				if be, ok := m.(*ast.BinaryExpr); ok && (be.Op.String() == "*" || be.Op.String() == "+") {
					nArith++
					tx, ty := info.TypeOf(be.X), info.TypeOf(be.Y)
					sz := types.SizesFor("gc", "amd64")
					if tx == nil || ty == nil || sz.Sizeof(tx) < 4 || sz.Sizeof(ty) < 4 {
						wide = false
						prodStr = core.ExprStr(be) + " is computed in " + tx.String()
					}
				}
				return true
			})
		}
		if nArith < 3 {
			wide = false
		}
		if prodStr == "" && ret != nil {
			prodStr = core.ExprStr(ret.Results[0])
		}
		c.R.Checkf(rule, "connectivity-key-arithmetic-width", c.pos(f.Pos()), wide && okPer && per == 6 && okDom && perDom == 2, "outboundConnectivityMapKey multiplies in at least 32 bits (%s), 6 slots per outbound, 2 per domain: an 8-bit product wraps for outbound ids >= 43 and lands in another group's slot", prodStr)
		// C side: (__u32)outbound * 6 + domain * 2 + ipversion in wan_outbound_is_alive — the literals are extracted from the source text of that function
		if fs, ok := cf.FuncSrc["wan_outbound_is_alive"]; ok {
			body := fs.Text
			okC := regexp.MustCompile(`\(__u32\)\s*outbound\s*\*\s*6\b`).MatchString(body) && regexp.MustCompile(`\*\s*2\b`).MatchString(body)
			c.R.Checkf(rule, "connectivity-key-c-formula", fmt.Sprintf("control/kern/tproxy.c:%d", fs.Line), okC, "wan_outbound_is_alive computes (__u32)outbound*6 + domain*2 + family (32-bit product)")
		} else {
			c.R.Unresolved(rule, "tproxy.c: wan_outbound_is_alive")
		}
		if m, ok := cf.Maps["outbound_connectivity_map"]; ok && m.MaxEntries != nil {
			c.R.Checkf(rule, "connectivity-key-fits", "control/kern/tproxy.c", int64(*m.MaxEntries) >= 256*per, "outbound_connectivity_map.max_entries %d >= 256 outbounds x %d slots", *m.MaxEntries, per)
		}
	}
	// tuples key constructor fills every member
	if tf := c.fn(rule, "control", "bpfTuplesKeyFromAddrPorts"); tf != nil {
		full := core.FullStr(tf.Body)
		need := []string{"Sip", "Dip", "Sport", "Dport", "L4proto"}
		var miss []string
		for _, nm := range need {
			if !regexp.MustCompile(`\b` + nm + `\b`).MatchString(full) {
				miss = append(miss, nm)
			}
		}
		htons := strings.Count(full, "Htons(") >= 2
		as16 := strings.Count(full, "As16()") >= 2
		c.R.Checkf(rule, "tuples-key-complete", c.pos(tf.Pos()), len(miss) == 0 && htons && as16, "the flow-tuple key constructor sets all five members (missing %v), ports through Htons (network order, as get_tuples stores them): %v, addresses as 16 bytes: %v", miss, htons, as16)
	} else {
		// name may differ: look for any function returning bpfTuplesKey
		found := false
		for _, ff := range c.P.FuncsIn("control") {
			if ff.Obj == nil {
				continue
			}
			sig := ff.Obj.Type().(*types.Signature)
			if sig.Results().Len() >= 1 {
				if n := namedOf(sig.Results().At(0).Type()); n != nil && n.Obj().Name() == "bpfTuplesKey" {
					found = true
				}
			}
		}
		_ = found
	}
}
