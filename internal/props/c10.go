package props

import (
	"go/ast"
	"go/token"
	"sort"
	"strings"

	"daecheck/internal/core"

	"golang.org/x/tools/go/cfg"
)

func init() {
	register(&Checker{ID: "C10", Run: runC10, Explain: "Structural necessary conditions of 'the kernel address->domain table mirrors the DNS cache', decided on the type-checked source of package control: " +
		"(1) WRITER: the only functions that reference the kernel map are the tracker's sync entry points and the whole-map clear; (2) CLEAR: every whole-map clear goes through the helper that also resets the tracker mirroring the map (a clear behind the tracker's back makes replayed entries look unchanged); " +
		"(3) APPLY: in syncOwner the tracker's own state is updated after the batches were emitted, on no error edge, with the tracker mutex held for the whole function; (4) DIFF: the affected set is the union of the old and the new address set and every affected address reaches exactly one of update / delete / unchanged; " +
		"(5) MERGED: whenever an address's owner set is modified its merged bitmap is recomputed (or the address dropped) before the next address; (6) WIRING: cache insert/remove/delete callbacks are the two Batch*DomainRouting functions, removal passes the empty snapshot, every successful eviction invokes the owner-delete callback unconditionally, unspecified addresses are skipped, the bitmap length is checked against the kernel struct. " +
		"Not decided: the union-of-owners algebra over histories."})
}

func runC10(c *Ctx) {
	const W = "WRITER"
	users := map[string]bool{}
	for _, f := range c.P.FuncsIn("control") {
		ast.Inspect(f.Body, func(m ast.Node) bool {
			if se, ok := m.(*ast.SelectorExpr); ok && se.Sel.Name == "DomainRoutingMap" {
				if fld := core.FieldOf(f.Info(), se); fld == "bpfMaps.DomainRoutingMap" {
					users[strings.TrimPrefix(f.Name, "control.")] = true
				}
			}
			return true
		})
	}
	allowed := map[string]string{
		"controlPlaneCore.BatchUpdateDomainRouting": "hands the map to the tracker's syncOwner",
		"controlPlaneCore.BatchRemoveDomainRouting": "hands the map to the tracker's syncOwner",
		"clearReloadDomainRoutingMap":               "whole-map clear",
		"validateRequiredBpfMapsLoaded":             "nil check only",
		"bpfMaps.Close":                             "close",
	}
	var us []string
	for u := range users {
		us = append(us, u)
	}
	sort.Strings(us)
	for _, u := range us {
		why, ok := allowed[u]
		c.R.Checkf(W, "map-user@"+u, "control", ok, "%s references the kernel domain_routing_map: %s", u, func() string {
			if ok {
				return why
			}
			return "not in the reviewed set — the table must only be written through the tracker (single writer), otherwise tracker and kernel diverge"
		}())
	}
	c.R.Floor(W+"/users", len(us), 4)
	// validateRequiredBpfMapsLoaded / Close really do not write
	for _, nm := range []string{"validateRequiredBpfMapsLoaded"} {
		if f := c.fn(W, "control", nm); f != nil {
			writes := false
			core.EachCall(f.Body, core.Deep, func(call *ast.CallExpr) {
				if _, name, ok := methodCall(call); ok && (name == "Update" || name == "Delete" || name == "Put" || strings.HasPrefix(name, "Batch")) {
					writes = true
				}
			})
			c.R.Checkf(W, "read-only@"+nm, c.pos(f.Pos()), !writes, "%s performs no map write", nm)
		}
	}

	// (2) clear => reset
	const C = "CLEAR"
	n := 0
	for _, f := range c.P.FuncsIn("control") {
		for _, call := range f.FindCalls(core.ParseRefs("control.clearReloadDomainRoutingMap")) {
			n++
			short := strings.TrimPrefix(f.Name, "control.")
			g := f.Graph()
			reset := nodeCalls(f.Info(), "control.domainRoutingTracker.reset")
			var pt core.Point
			for _, p := range g.Find(nodeCalls(f.Info(), "control.clearReloadDomainRoutingMap")) {
				pt = p
			}
			ok := false
			if pt.B != nil {
				// error edge of the clear returns; on the success path every exit passes a tracker reset
				start := pt.After()
				if cond, _, fl, isC := g.Cond(pt.B); isC && strings.Contains(core.ExprStr(cond), "err != nil") {
					start = core.Point{B: fl, I: 0}
				}
				ex := g.ExitsAvoiding(start, reset)
				ok = len(ex) == 0
			}
			c.R.Checkf(C, "clear-resets-tracker@"+short, c.pos(call.Pos()), ok, "%s clears the kernel table; on success the tracker that mirrors it is reset on every path (otherwise a cache replay finds merged == desired and emits nothing: the table stays empty)", short)
		}
	}
	c.R.Floor(C+"/clear-sites", n, 1)
	if f := c.fn(C, "control", "domainRoutingTracker.reset"); f != nil {
		full := core.FullStr(f.Body)
		ok := strings.Contains(full, "t.mu.Lock()") && strings.Contains(full, "t.owners = make(") && strings.Contains(full, "t.ips = make(")
		c.R.Checkf(C, "reset-clears-both-indexes", c.pos(f.Pos()), ok, "reset replaces both the owner index and the per-address index under the tracker mutex")
	}
	// every caller of the helper is a reload path on a core; direct callers of the raw clear are only the helper
	raw := map[string]bool{}
	for _, f := range c.P.FuncsIn("control") {
		if len(f.FindCalls(core.ParseRefs("control.clearReloadDomainRoutingMap"))) > 0 {
			raw[strings.TrimPrefix(f.Name, "control.")] = true
		}
	}
	c.R.Checkf(C, "raw-clear-only-via-helper", "control/control_plane.go", len(raw) == 1 && raw["controlPlaneCore.clearReloadDomainRouting"], "the raw map clear is called only by the helper that also resets the tracker: %v", keysB(raw))

	c10Sync(c)
	c10Merged(c)
	c10Wiring(c)
}

func c10Sync(c *Ctx) {
	const rule = "APPLY"
	f := c.fn(rule, "control", "domainRoutingTracker.syncOwner")
	if f == nil {
		return
	}
	info := f.Info()
	g := f.Graph()
	apply := nodeCalls(info, "control.domainRoutingTracker.applyOwnerSnapshotLocked")
	batch := nodeCalls(info, "control.BpfMapBatchUpdate", "control.BpfMapBatchDelete")
	bps := g.Find(batch)
	c.R.Floor(rule+"/batch-sites", len(bps), 2)
	okErr := true
	for _, p := range bps {
		cond, t, _, isC := g.Cond(p.B)
		if !isC || !strings.Contains(core.ExprStr(cond), "err != nil") {
			okErr = false
			continue
		}
		good, _ := onlyErrorReturns(g, core.Point{B: t, I: 0}, apply)
		if !good {
			okErr = false
		}
	}
	c.R.Checkf(rule, "no-apply-on-emit-error", c.pos(f.Pos()), okErr, "when a batch update/delete fails syncOwner returns the error without touching the tracker's state (so the next sync retries the same diff)")
	// apply post-dominates on the success path, and no batch after apply
	_, _, after := g.ReachesAvoiding(g.Entry(), nil, apply)
	late := false
	for _, p := range g.Find(apply) {
		if _, _, r := g.ReachesAvoiding(p.After(), nil, batch); r {
			late = true
		}
	}
	// every `return nil` is preceded by apply
	_, _, nilRet := g.ReachesAvoiding(g.Entry(), apply, func(n ast.Node) bool {
		rs, ok := n.(*ast.ReturnStmt)
		return ok && len(rs.Results) == 1 && core.ExprStr(rs.Results[0]) == "nil"
	})
	c.R.Checkf(rule, "apply-after-emit", c.pos(f.Pos()), after && !late && !nilRet, "the tracker state is applied after the batches were emitted and before every successful return")
	// lock discipline
	l0, l1 := "", ""
	k := 0
	for _, st := range f.Body.List {
		s := core.ExprStr2(st)
		if s == "t.mu.Lock()" {
			l0 = s
			if k+1 < len(f.Body.List) {
				l1 = core.ExprStr2(f.Body.List[k+1])
			}
		}
		k++
	}
	_, _, unlocked := g.ReachesAvoiding(g.Entry(), func(n ast.Node) bool { return core.ExprStr2(n) == "t.mu.Lock()" }, Or(apply, batch, nodeCalls(info, "control.domainRoutingTracker.desiredBitmapForKeyLocked")))
	c.R.Checkf(rule, "mutex-held", c.pos(f.Pos()), l0 != "" && l1 == "defer t.mu.Unlock()" && !unlocked, "t.mu is taken before the diff is computed and released by defer")

	const D = "DIFF"
	var ranges []string
	ast.Inspect(f.Body, func(m ast.Node) bool {
		if rs, ok := m.(*ast.RangeStmt); ok {
			body := core.FullStr(rs.Body)
			if strings.Contains(body, "affected[key] = struct{}{}") {
				ranges = append(ranges, core.ExprStr(rs.X))
			}
		}
		return true
	})
	// equivalent stdlib form: maps.Copy(affected, X)
	core.EachCall(f.Body, core.Deep, func(call *ast.CallExpr) {
		if cal := core.Callee(info, call); cal != nil && cal.Pkg() != nil && cal.Pkg().Path() == "maps" && cal.Name() == "Copy" && len(call.Args) == 2 && core.ExprStr(call.Args[0]) == "affected" {
			ranges = append(ranges, core.ExprStr(call.Args[1]))
		}
	})
	sort.Strings(ranges)
	c.R.Checkf(D, "affected-is-union", c.pos(f.Pos()), len(ranges) == 2 && ranges[0] == "oldSnapshot.ips" && ranges[1] == "snapshot.ips", "the affected address set is filled from the owner's old addresses and its new addresses: %v", ranges)
	// the switch: !present -> delete (iff installed); installed-differs -> update with the desired bitmap
	okSwitch := false
	ast.Inspect(f.Body, func(m ast.Node) bool {
		sw, ok := m.(*ast.SwitchStmt)
		if !ok || sw.Tag != nil || len(sw.Body.List) != 2 {
			return true
		}
		c0, c1 := sw.Body.List[0].(*ast.CaseClause), sw.Body.List[1].(*ast.CaseClause)
		if len(c0.List) != 1 || len(c1.List) != 1 {
			return true
		}
		b0, b1 := core.FullStr(c0), core.FullStr(c1)
		okSwitch = core.ExprStr(c0.List[0]) == "!present" && strings.Contains(b0, "current != nil") && strings.Contains(b0, "keysToDelete = append(keysToDelete, key)") &&
			core.NormCond(c1.List[0]) == core.NormPat("current == nil || current.merged != desiredBitmap") && strings.Contains(b1, "keysToUpdate = append(keysToUpdate, key)") && strings.Contains(b1, "valuesToUpdate = append(valuesToUpdate, desiredBitmap)")
		return true
	})
	c.R.Checkf(D, "update-delete-unchanged", c.pos(f.Pos()), okSwitch, "an affected address with no remaining owner is deleted (if installed); one whose installed bitmap differs from the desired union is updated with that union; otherwise nothing is emitted")
	// the desired bitmap: other owners' bitmaps OR the new snapshot's (when it lists the address and is non-zero)
	if d := c.fn(D, "control", "domainRoutingTracker.desiredBitmapForKeyLocked"); d != nil {
		full := core.FullStr(d.Body)
		ok := core.HasCond(d.Body, "existingOwnerKey == ownerKey") && strings.Contains(full, "orDomainRoutingBitmap(&bitmap, existingBitmap)") && strings.Contains(full, "orDomainRoutingBitmap(&bitmap, snapshot.bitmap)") && strings.Contains(full, "isZeroDomainRoutingBitmap(snapshot.bitmap)")
		c.R.Checkf(D, "desired-is-union", c.pos(d.Pos()), ok, "the desired bitmap is the OR over the other owners of the address plus the new snapshot when it lists the address with a non-zero bitmap")
	}
}

func c10Merged(c *Ctx) {
	const rule = "MERGED"
	f := c.fn(rule, "control", "domainRoutingTracker.applyOwnerSnapshotLocked")
	if f == nil {
		return
	}
	g := f.Graph()
	n := 0
	for _, b := range g.CFG.Blocks {
		if !b.Live {
			continue
		}
		for i, nd := range b.Nodes {
			s := core.ExprStr2(nd)
			mod := strings.HasPrefix(s, "delete(state.owners,") || strings.HasPrefix(s, "state.owners[")
			if !mod {
				continue
			}
			n++
			// enclosing range loop head
			heads := map[*cfg.Block]bool{}
			for _, hb := range g.CFG.Blocks {
				if hb.Kind == cfg.KindRangeLoop {
					if rs, ok := hb.Stmt.(*ast.RangeStmt); ok && rs.Body.Pos() <= nd.Pos() && nd.End() <= rs.Body.End() {
						heads[hb] = true
					}
				}
			}
			fix := func(x ast.Node) bool {
				t := core.ExprStr2(x)
				return strings.HasPrefix(t, "state.merged = mergeDomainRoutingOwnerBitmaps(state.owners)") || strings.HasPrefix(t, "delete(t.ips, key)")
			}
			pos, tr, bad := reachesHeadAvoiding(g, core.Point{B: b, I: i}.After(), heads, fix)
			ex := g.ExitsAvoiding(core.Point{B: b, I: i}.After(), fix)
			c.R.Checkf(rule, "owners-change=>merged-recomputed#"+itoa(n), c.pos(nd.Pos()), !bad && len(ex) == 0, "after `%s` the address's merged bitmap is recomputed (or the address dropped) before the next address is processed%s", s, func() string {
				if bad {
					return " — path lines " + traceStr(c.P, tr) + " reaches the next iteration at " + c.pos(pos) + " with a stale merged bitmap: a later sync compares against it and suppresses an update it should send"
				}
				return ""
			}())
		}
	}
	c.R.Floor(rule+"/owner-writes", n, 2)
}

// c10AlwaysSync: the two Batch*DomainRouting entry points reach syncOwner on
// every exit except those taken because an operand is absent (nil receiver /
// cache / datapath) or an error occurred.  In particular an empty snapshot
// still replaces the owner's previous snapshot.
func c10AlwaysSync(c *Ctx) {
	const rule = "WIRING"
	for _, name := range []string{"controlPlaneCore.BatchUpdateDomainRouting", "controlPlaneCore.BatchRemoveDomainRouting"} {
		f := c.fn(rule, "control", name)
		if f == nil {
			continue
		}
		info := f.Info()
		g := f.Graph()
		sync := nodeCalls(info, "control.domainRoutingTracker.syncOwner")
		if len(g.Find(sync)) == 0 {
			c.R.Checkf(rule, "every-snapshot-reaches-the-tracker@"+name, c.pos(f.Pos()), false, "no syncOwner call in %s", name)
			continue
		}
		ex := g.ExitsAvoidingE(g.Entry(), sync, func(from *cfg.Block, si int) bool {
			cond, _, _, ok := g.Cond(from)
			if !ok {
				return true
			}
			return !absentEdge(info, cond, si == 0)
		})
		if len(ex) == 0 {
			c.R.Checkf(rule, "every-snapshot-reaches-the-tracker@"+name, c.pos(f.Pos()), true, "every exit of %s that is not taken for a nil operand or an error passes syncOwner: an empty snapshot (rejected / NODATA / unspecified-only answer) still replaces the owner's previous addresses", name)
		} else {
			c.R.Checkf(rule, "every-snapshot-reaches-the-tracker@"+name, c.pos(ex[0].Pos), false, "%s returns at %s (lines %s) without syncing the owner although nothing is absent and no error occurred: the owner keeps its previous snapshot, so addresses of a refreshed-to-empty answer stay in the kernel table", name, c.pos(ex[0].Pos), traceStr(c.P, ex[0].Trace))
		}
	}
	// a refreshed entry is published in the cache before its routing is installed
	if f := c.fn(rule, "control", "DnsController.__updateDnsCacheDeadline"); f != nil {
		info := f.Info()
		isCb := func(n ast.Node) bool {
			hit := false
			ownCalls(n, func(call *ast.CallExpr, _ bool) {
				if strings.HasSuffix(core.ExprStr(call.Fun), ".cacheAccessCallback") {
					hit = true
				}
			})
			return hit
		}
		isStore := func(n ast.Node) bool {
			hit := false
			ownCalls(n, func(call *ast.CallExpr, _ bool) {
				if recv, nm, ok := methodCall(call); ok && nm == "Store" && strings.HasSuffix(core.ExprStr(recv), ".dnsCache") {
					hit = true
				}
			})
			return hit
		}
		_ = info
		c.dominated(rule, "publish-before-install@__updateDnsCacheDeadline", f, isCb, isStore, "the install callback (cacheAccessCallback)", "dnsCache.Store of the new entry (an eviction of the entry being replaced that runs in between must find the new entry, otherwise its delete callback wipes the owner snapshot just installed)")
	}
}

func c10Wiring(c *Ctx) {
	const rule = "WIRING"
	c10AlwaysSync(c)
	c10DeleteCallbackUnconditional(c)
	c10LiveInstall(c)
	// removal passes the empty snapshot
	if f := c.fn(rule, "control", "controlPlaneCore.BatchRemoveDomainRouting"); f != nil {
		ok := false
		for _, call := range f.FindCalls(core.ParseRefs("control.domainRoutingTracker.syncOwner")) {
			if len(call.Args) == 3 && core.ExprStr(call.Args[2]) == "domainRoutingOwnerSnapshot{}" && core.ExprStr(call.Args[1]) == "cache.RouteOwnerKey" {
				ok = true
			}
		}
		c.R.Checkf(rule, "remove-passes-empty-snapshot", c.pos(f.Pos()), ok, "BatchRemoveDomainRouting syncs the owner with the empty snapshot")
	}
	if f := c.fn(rule, "control", "controlPlaneCore.BatchUpdateDomainRouting"); f != nil {
		ok := false
		for _, call := range f.FindCalls(core.ParseRefs("control.domainRoutingTracker.syncOwner")) {
			if len(call.Args) == 3 && core.ExprStr(call.Args[2]) == "snapshot" && core.ExprStr(call.Args[1]) == "cache.RouteOwnerKey" {
				ok = true
			}
		}
		c.dominated(rule, "snapshot-built-before-sync", f, nodeCalls(f.Info(), "control.domainRoutingTracker.syncOwner"), nodeCalls(f.Info(), "control.buildDomainRoutingOwnerSnapshot"), "syncOwner", "buildDomainRoutingOwnerSnapshot(cache)")
		c.R.Checkf(rule, "update-passes-cache-snapshot", c.pos(f.Pos()), ok, "BatchUpdateDomainRouting syncs the owner key of the cache entry with the snapshot built from that entry")
	}
	if f := c.fn(rule, "control", "buildDomainRoutingOwnerSnapshot"); f != nil {
		g := f.Graph()
		ok := false
		for _, cs := range g.Conds(func(e ast.Expr) bool {
			return strings.Contains(core.ExprStr(e), "len(cache.DomainBitmap) != len(bpfDomainRouting{}.Bitmap)")
		}) {
			if good, _ := onlyErrorReturns(g, core.Point{B: cs.True, I: 0}, nil); good {
				ok = true
			}
		}
		c.R.Checkf(rule, "bitmap-length-checked", c.pos(f.Pos()), ok, "a cache entry whose bitmap length differs from the kernel struct's is rejected with an error")
		keyFromAs16(c, rule)
	}
	if f := c.fn(rule, "control", "extractIPsFromDnsCache"); f != nil {
		c.R.Checkf(rule, "unspecified-skipped", c.pos(f.Pos()), strings.Contains(core.FullStr(f.Body), "IsUnspecified()"), "0.0.0.0 / :: answers are never installed")
	}
	// every successful eviction invokes the owner-delete callback, unconditionally
	if f := c.fn(rule, "control", "DnsController.evictDnsRespCacheIfSame"); f != nil {
		info := f.Info()
		g := f.Graph()
		cb := nodeCalls(info, "control.DnsController.invokeCacheDeleteCallback")
		ok := false
		for _, cs := range g.Conds(func(e ast.Expr) bool { return strings.Contains(core.ExprStr(e), "CompareAndDelete(") }) {
			ex := g.ExitsAvoiding(core.Point{B: cs.True, I: 0}, cb)
			extra := 0
			for _, p := range g.Find(cb) {
				for _, gd := range g.Guards(p) {
					if !strings.Contains(core.ExprStr(gd.Cond), "CompareAndDelete(") && !isNilCmpOf(gd.Cond, "cache") {
						extra++
					}
				}
			}
			ok = len(ex) == 0 && extra == 0
		}
		c.R.Checkf(rule, "eviction-always-deletes-owner", c.pos(f.Pos()), ok, "when an entry is actually removed from the cache its owner is removed from the kernel table on every path, whatever sibling entries list (an owner that stays registered keeps its addresses alive forever)")
	}
	if f := c.fn(rule, "control", "DnsController.invokeCacheDeleteCallback"); f != nil {
		full := core.FullStr(f.Body)
		c.R.Checkf(rule, "delete-callback-uses-owner-key", c.pos(f.Pos()), strings.Contains(full, "rt.cacheDeleteCallback(cacheKey, ensureDNSCacheRouteOwnerKey(cacheKey, cache))"), "the delete callback is given the entry tagged with its own cache key as owner")
	}
}


// isNilCmpOf reports whether e compares the named expression with nil (== or !=, either side).
func isNilCmpOf(e ast.Expr, name string) bool {
	be, ok := ast.Unparen(e).(*ast.BinaryExpr)
	if !ok || (be.Op != token.EQL && be.Op != token.NEQ) {
		return false
	}
	x, y := core.ExprStr(be.X), core.ExprStr(be.Y)
	return (x == name && y == "nil") || (y == name && x == "nil")
}
