package props

import (
	"fmt"
	"go/ast"
	"go/constant"
	"go/types"
	"strings"

	"daecheck/internal/core"
	"daecheck/internal/fdt"
)

// ARITY: the policy parser accepts exactly one policy function, and fixed()
// exactly one keyless parameter; everything else is an error return.
func c14Arity(c *Ctx) {
	const rule = "ARITY"
	f := c.fn(rule, "component/outbound", "NewDialerSelectionPolicyFromGroupParam")
	if f == nil {
		return
	}
	info := f.Info()
	// the switch tag and the rendered arity expressions
	var tagKey, nFuncs, nParams string
	ast.Inspect(f.Body, func(m ast.Node) bool {
		switch x := m.(type) {
		case *ast.SwitchStmt:
			if as, ok := x.Init.(*ast.AssignStmt); ok && len(as.Rhs) == 1 {
				tagKey = core.ExprStr(as.Rhs[0])
			} else if x.Tag != nil {
				tagKey = core.ExprStr(x.Tag)
			}
		case *ast.CallExpr:
			if id, ok := x.Fun.(*ast.Ident); ok && id.Name == "len" && len(x.Args) == 1 {
				if _, isB := info.Uses[id].(*types.Builtin); isB {
					s := core.ExprStr(x)
					if strings.HasSuffix(core.ExprStr(x.Args[0]), ".Params") {
						nParams = s
					} else if nFuncs == "" {
						nFuncs = s
					}
				}
			}
		}
		return true
	})
	fixed := c.P.Pkg("common/consts").Types.Scope().Lookup("DialerSelectionPolicy_Fixed")
	random := c.P.Pkg("common/consts").Types.Scope().Lookup("DialerSelectionPolicy_Random")
	if tagKey == "" || nFuncs == "" || nParams == "" || fixed == nil || random == nil {
		c.R.Unresolved(rule, "NewDialerSelectionPolicyFromGroupParam: switch tag / len(functions) / len(f.Params) / policy constants")
		return
	}
	var errKeys, keyKeys, notKeys []string
	ast.Inspect(f.Body, func(m ast.Node) bool {
		if be, ok := m.(*ast.BinaryExpr); ok {
			s := core.ExprStr(be)
			if core.ExprStr(be.Y) == "nil" && be.Op.String() == "!=" {
				errKeys = append(errKeys, s)
			}
			if strings.HasSuffix(core.ExprStr(be.X), ".Key") && core.ExprStr(be.Y) == `""` {
				keyKeys = append(keyKeys, s)
			}
		}
		if se, ok := m.(*ast.SelectorExpr); ok && se.Sel.Name == "Not" {
			notKeys = append(notKeys, core.ExprStr(se))
		}
		return true
	})
	rows, bad := 0, ""
	for _, pol := range []types.Object{fixed, random} {
		for k := int64(0); k <= 2; k++ {
			for n := int64(0); n <= 3; n++ {
				in := map[string]constant.Value{tagKey: pol.(*types.Const).Val(), nFuncs: constant.MakeInt64(k), nParams: constant.MakeInt64(n)}
				for _, e := range errKeys {
					in[e] = constant.MakeBool(false)
				}
				for _, e := range keyKeys {
					in[e] = constant.MakeBool(strings.Contains(e, "==")) // the parameter is keyless
				}
				for _, e := range notKeys {
					in[e] = constant.MakeBool(false)
				}
				job := &fdt.Job{F: f, Start: f.Graph().Entry(), Inputs: in}
				outs := job.Run()
				rows++
				accepts := false
				for _, o := range outs {
					if o.Kind == "return" && len(o.Vals) == 2 && o.Vals[0] != "sym:nil" {
						accepts = true
					}
				}
				want := k == 1 && (pol == random || n == 1)
				if pol == random && k == 1 {
					want = accepts // parameters of the non-fixed policies are not constrained by the statement
				}
				if accepts != want && bad == "" {
					bad = fmt.Sprintf("policy %s with %d policy function(s) and %d parameter(s): accepted=%v, the statement requires %v (an invalid policy is a configuration error, not a silently different selection)", pol.Name(), k, n, accepts, want)
				}
			}
		}
	}
	c.R.Checkf(rule, "policy-arity-table@NewDialerSelectionPolicyFromGroupParam", c.pos(f.Pos()), bad == "",
		"over %d rows (policy x number of policy functions x number of parameters) a policy is accepted only for exactly one function, and fixed only with exactly one keyless parameter%s", rows, func() string {
			if bad != "" {
				return " — VIOLATED: " + bad
			}
			return ""
		}())
	c.R.Floor(rule+"/rows", rows, 24)
}

// NOALIAS: the filter result is built in fresh storage.  A result slice that
// starts as a reslice of the shared node pool and is appended to rewrites the
// pool every later group reads.
func c14NoAlias(c *Ctx) {
	const rule = "NOALIAS"
	f := c.fn(rule, "component/outbound", "DialerSet.FilterAndAnnotate")
	if f == nil {
		return
	}
	info := f.Info()
	var recv types.Object
	if len(f.Decl.Recv.List[0].Names) > 0 {
		recv = info.ObjectOf(f.Decl.Recv.List[0].Names[0])
	}
	// locals that (may) alias a receiver field's backing array
	alias := map[types.Object]ast.Node{}
	ast.Inspect(f.Body, func(m ast.Node) bool {
		as, ok := m.(*ast.AssignStmt)
		if !ok || len(as.Lhs) != len(as.Rhs) {
			return true
		}
		for i, r := range as.Rhs {
			r = ast.Unparen(r)
			base := r
			if sl, ok := r.(*ast.SliceExpr); ok {
				base = sl.X
			}
			if _, isSel := ast.Unparen(base).(*ast.SelectorExpr); !isSel {
				continue
			}
			if core.RootObj(info, base) != recv || recv == nil {
				continue
			}
			if _, isSlice := info.TypeOf(base).Underlying().(*types.Slice); !isSlice {
				continue
			}
			if id, ok := as.Lhs[i].(*ast.Ident); ok {
				alias[info.ObjectOf(id)] = as
			}
		}
		return true
	})
	n, bad := 0, ""
	ast.Inspect(f.Body, func(m ast.Node) bool {
		call, ok := m.(*ast.CallExpr)
		if !ok {
			return true
		}
		id, ok := call.Fun.(*ast.Ident)
		if !ok || id.Name != "append" || len(call.Args) == 0 {
			return true
		}
		if _, isB := info.Uses[id].(*types.Builtin); !isB {
			return true
		}
		n++
		if root := core.RootObj(info, call.Args[0]); root != nil {
			if src, isAlias := alias[root]; isAlias && bad == "" {
				bad = fmt.Sprintf("append(%s, …) at %s grows a slice that was set from the receiver's own storage at %s", core.ExprStr(call.Args[0]), c.pos(call.Pos()), c.pos(src.Pos()))
			}
			if root == recv && bad == "" {
				bad = fmt.Sprintf("append(%s, …) at %s writes into the receiver's storage", core.ExprStr(call.Args[0]), c.pos(call.Pos()))
			}
		}
		return true
	})
	c.R.Checkf(rule, "result-built-in-fresh-storage@FilterAndAnnotate", c.pos(f.Pos()), bad == "",
		"none of the %d appends of FilterAndAnnotate grows a slice that shares its backing array with the node pool%s", n, func() string {
			if bad != "" {
				return " — VIOLATED: " + bad + ": filtering one group rewrites the pool (and earlier groups' members) that every later group is built from"
			}
			return ""
		}())
	c.R.Floor(rule+"/appends", n, 2)
}
