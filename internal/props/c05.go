package props

import (
	"go/ast"
	"go/token"
	"go/types"
	"strings"

	"daecheck/internal/core"

	"golang.org/x/tools/go/cfg"
)

func init() {
	register(&Checker{ID: "C05", Run: runC05, Explain: "Structural necessary conditions of C05 decided on the type-checked source of package control and component/sniffing: " +
		"(1) PAIR.deadline: every protocol-detection deadline armed on a client connection is cleared (or the conn closed) on every CFG path to function exit; " +
		"(2) HALFCLOSE: in the relay's direction worker CloseWrite(dst) follows the copy on every path, error => cancel+forceClose, success => only the bounded grace deadline, exactly two workers/two results; " +
		"(3) PREFIX: every copy engine drains wrapper-buffered bytes (tryRelayGatherWrite) before any callee that unwraps to the raw socket, every unwrappable buffering wrapper exposes its buffered bytes, the gather-write kill switch has no non-test writer; " +
		"(4) CURSOR: every TakeRelayPrefix advances its cursor on every path that returns bytes; (5) WIRING: handleConn wraps in DNS-detect -> bufio -> prefetch -> sniffer order and hands the outermost wrapper to the relay. " +
		"(6) SHORTWRITE: in every Read/Write copy loop the refill and the success returns lie behind the write-complete edge, the short-write edge only returns errors; (7) ADVANCE: loop-carried cursors of the writev/splice loops are advanced by the same iteration's I/O count, never by a running total. " +
		"(8) ARMED: every read of a deadline-bounded detection window is dominated by the arm; (9) POOLCLEAN: a splice pipe returns to the pool only on the edge where it holds no bytes; (10) DETECTEOF: a timeout or client FIN during the sniff prefetch is never an error; (11) BUFALIAS: the bufio reader whose buffer TakeRelayPrefix aliases is not larger than the relay buffer the gather write reads the body with. " +
		"(12) CAPABILITY: every method named like a relay capability makes its type implement that capability interface, and every client-side wrapper implements WriteCloser (the half-close is forwarded by type assertion); (13) CONSUME: once the port-53 detection read consumed a frame the fast path never reports handled=false. " +
		"Not decided: byte-stream equality under all segmentations, arithmetic inside relayAdvanceSegments, timing."})
}

func runC05(c *Ctx) {
	// ---- 1. deadline pairing ------------------------------------------------
	us := units(c.P, "control", func(f string) bool { return strings.HasPrefix(f, "tcp") })
	us = append(us, units(c.P, "component/sniffing", nil)...)
	arms := pairDeadlines(c, "PAIR.deadline", us)
	c.R.Floor("PAIR.deadline", arms, 8)
	c.R.Floor("ARMED", armedReads(c, "ARMED", us), 2)
	narrowArith(c, "WIDTH", us, "port-53 detection, sniffing and relay path")

	c05HalfClose(c)
	c05Prefix(c)
	c05Cursor(c)
	c05Wiring(c)
	c05ShortWrite(c)
	c05Advance(c)
	c05PoolClean(c)
	c05DetectEOF(c)
	c05BufAlias(c)
	c05Capability(c)
	c05Consume(c)
	c05ReadThenWrite(c)
	c05Unconsumed(c)
	c05StickyErr(c)
	c.R.Floor("POOLESCAPE", poolEscape(c, "POOLESCAPE", []string{"control"}, func(f string) bool { return strings.HasPrefix(f, "tcp") }), 4)
}

// findLit returns the function literal inside f that evaluates a call to ref.
func findLitCalling(f *core.Func, ref string) *core.Func {
	rs := core.ParseRefs(ref)
	for _, u := range litUnits(f) {
		found := false
		for _, b := range u.Graph().CFG.Blocks {
			for _, n := range b.Nodes {
				ownCalls(n, func(call *ast.CallExpr, _ bool) {
					if rs.Matches(core.Callee(u.Info(), call)) {
						found = true
					}
				})
			}
		}
		if found {
			return u
		}
	}
	return nil
}

func nodeCalls(info *types.Info, refs ...string) func(ast.Node) bool {
	rs := core.ParseRefs(refs...)
	return func(n ast.Node) bool {
		found := false
		ownCalls(n, func(call *ast.CallExpr, _ bool) {
			if rs.MatchesObj(core.CalleeObj(info, call)) {
				found = true
			}
		})
		return found
	}
}

// nodeCallsLocal: calls a local closure variable by name (forceClose(), cancel()).
func nodeCallsIdent(names ...string) func(ast.Node) bool {
	return func(n ast.Node) bool {
		found := false
		ownCalls(n, func(call *ast.CallExpr, _ bool) {
			if id, ok := ast.Unparen(call.Fun).(*ast.Ident); ok {
				for _, nm := range names {
					if id.Name == nm {
						found = true
					}
				}
			}
		})
		return found
	}
}

func c05HalfClose(c *Ctx) {
	const rule = "HALFCLOSE"
	run := c.fn(rule, "control", "relayCore.run")
	if run == nil {
		return
	}
	w := findLitCalling(run, "control.relayCopyEngine.Copy")
	if w == nil {
		c.R.Unresolved(rule, "direction worker (literal calling relayCopyEngine.Copy) in relayCore.run")
		return
	}
	info := w.Info()
	g := w.Graph()
	copyPts := g.Find(nodeCalls(info, "control.relayCopyEngine.Copy"))
	if len(copyPts) != 1 {
		c.R.Checkf(rule, "copy-call", c.pos(w.Pos()), false, "expected exactly one Copy call in the direction worker, found %d", len(copyPts))
		return
	}
	cp := copyPts[0]
	// the copy's arguments: dst then src of the same direction value
	var copyCall *ast.CallExpr
	ownCalls(cp.Node(), func(call *ast.CallExpr, _ bool) {
		if core.ParseRef("control.relayCopyEngine.Copy").Matches(core.Callee(info, call)) {
			copyCall = call
		}
	})
	dstExpr, srcExpr := core.ExprStr(copyCall.Args[1]), core.ExprStr(copyCall.Args[2])
	c.R.Checkf(rule, "copy-args", c.pos(copyCall.Pos()), strings.HasSuffix(dstExpr, ".dst") && strings.HasSuffix(srcExpr, ".src"),
		"Copy(ctx, %s, %s, …): destination then source of one direction", dstExpr, srcExpr)

	// (a) CloseWrite on the copy's destination on every path, whatever err is
	isCloseWrite := func(n ast.Node) bool {
		found := false
		ownCalls(n, func(call *ast.CallExpr, _ bool) {
			if _, name, ok := methodCall(call); ok && name == "CloseWrite" {
				found = true
			}
		})
		return found
	}
	cw := g.Find(isCloseWrite)
	if len(cw) == 0 {
		c.R.Checkf(rule, "closewrite-after-copy", c.pos(copyCall.Pos()), false, "no CloseWrite call in the direction worker: end of stream is never passed on as a write-shutdown")
	} else {
		// the only guard allowed is the capability test `wc, ok := <dst>.(WriteCloser)`
		var okBlock *cfg.Block
		okGuard := true
		for _, gd := range g.Guards(cw[0]) {
			id, isId := ast.Unparen(gd.Cond).(*ast.Ident)
			if isId && gd.Polarity && definedByTypeAssertOn(w, id, dstExpr) {
				for _, b := range g.CFG.Blocks {
					if cnd, _, _, ok := g.Cond(b); ok && cnd == gd.Cond {
						okBlock = b
					}
				}
				continue
			}
			okGuard = false
			c.R.Checkf(rule, "closewrite-after-copy", c.pos(gd.Cond.Pos()), false, "CloseWrite is conditional on %q (polarity %v): half-close must not depend on the copy's outcome", core.ExprStr(gd.Cond), gd.Polarity)
		}
		if okGuard {
			ex := g.ExitsAvoidingE(cp.After(), isCloseWrite, func(b *cfg.Block, si int) bool { return !(b == okBlock && si == 1) })
			if len(ex) == 0 {
				c.R.Checkf(rule, "closewrite-after-copy", c.pos(cw[0].Node().Pos()), true, "CloseWrite(%s) post-dominates Copy (modulo the WriteCloser capability test)", dstExpr)
			} else {
				c.R.Checkf(rule, "closewrite-after-copy", c.pos(ex[0].Pos), false, "path from Copy to worker exit (lines %s) skips CloseWrite", traceStr(c.P, ex[0].Trace))
			}
		}
	}
	// (b) err != nil => cancel and forceClose ; err == nil => only grace deadline
	errConds := g.Conds(func(e ast.Expr) bool {
		be, ok := e.(*ast.BinaryExpr)
		if !ok || (be.Op != token.NEQ && be.Op != token.EQL) {
			return false
		}
		x, ok := be.X.(*ast.Ident)
		return ok && x.Name == "err" && core.ExprStr(be.Y) == "nil"
	})
	if len(errConds) != 1 {
		c.R.Checkf(rule, "err-branch", c.pos(w.Pos()), false, "expected one `err != nil` branch in the direction worker, found %d", len(errConds))
	} else {
		ec := errConds[0]
		tB, fB := ec.True, ec.False
		if ec.Cond.(*ast.BinaryExpr).Op == token.EQL {
			tB, fB = fB, tB
		}
		for _, need := range []string{"cancel", "forceClose"} {
			ex := g.ExitsAvoiding(core.Point{B: tB, I: 0}, nodeCallsIdent(need))
			c.R.Checkf(rule, "error=>"+need, c.pos(ec.Cond.Pos()), len(ex) == 0, "on a copy error every path calls %s() (so the peer direction is unblocked)", need)
		}
		// success edge: no force close / cancel / Close before the join, grace deadline set on dst
		bad, _, reach := g.ReachesAvoiding(core.Point{B: fB, I: 0}, func(n ast.Node) bool { return isSend(n) }, Or2(nodeCallsIdent("cancel", "forceClose"), methodNamed("Close")))
		c.R.Checkf(rule, "success=>no-teardown", c.pos(ec.Cond.Pos()), !reach, "on clean end-of-stream the worker neither cancels nor force-closes (opposite direction keeps flowing)%s", posNote(c, bad))
		graceOK := false
		for _, p := range g.Find(methodNamed("SetReadDeadline")) {
			ownCalls(p.Node(), func(call *ast.CallExpr, _ bool) {
				recv, name, ok := methodCall(call)
				if ok && name == "SetReadDeadline" && core.ExprStr(recv) == dstExpr && strings.Contains(core.ExprStr(call.Args[0]), "halfCloseTimeout") {
					graceOK = true
				}
			})
		}
		ex := g.ExitsAvoiding(core.Point{B: fB, I: 0}, func(n ast.Node) bool {
			ok := false
			ownCalls(n, func(call *ast.CallExpr, _ bool) {
				recv, name, isM := methodCall(call)
				if isM && name == "SetReadDeadline" && core.ExprStr(recv) == dstExpr {
					ok = true
				}
			})
			return ok
		})
		c.R.Checkf(rule, "success=>bounded-grace", c.pos(ec.Cond.Pos()), graceOK && len(ex) == 0, "on clean end-of-stream the opposite direction's pending read on %s is bounded by halfCloseTimeout on every path", dstExpr)
	}
	// (c) result is always delivered; two workers, two receives
	ex := g.ExitsAvoiding(cp.After(), isSend)
	c.R.Checkf(rule, "result-sent", c.pos(copyCall.Pos()), len(ex) == 0, "every path after Copy sends the direction's result")
	rg := run.Graph()
	goes, recvs := 0, 0
	for _, b := range rg.CFG.Blocks {
		for _, n := range b.Nodes {
			if gs, ok := n.(*ast.GoStmt); ok {
				if id, ok := gs.Call.Fun.(*ast.Ident); ok && id.Name == "runDirection" {
					goes++
				}
			}
			ast.Inspect(n, func(m ast.Node) bool {
				if _, ok := m.(*ast.FuncLit); ok {
					return false
				}
				if u, ok := m.(*ast.UnaryExpr); ok && u.Op == token.ARROW && core.ExprStr(u.X) == "results" {
					recvs++
				}
				return true
			})
		}
	}
	c.R.Checkf(rule, "two-directions", c.pos(run.Pos()), goes == 2 && recvs == 2, "run starts %d direction workers and receives %d results (want 2/2)", goes, recvs)
	c.R.Floor(rule, 7, 7)
}

func posNote(c *Ctx, n ast.Node) string {
	if n == nil {
		return ""
	}
	return " — offending call at " + c.pos(n.Pos())
}

func isSend(n ast.Node) bool {
	_, ok := n.(*ast.SendStmt)
	return ok
}

func Or2(a, b func(ast.Node) bool) func(ast.Node) bool {
	return func(n ast.Node) bool { return a(n) || b(n) }
}

func methodNamed(names ...string) func(ast.Node) bool {
	return func(n ast.Node) bool {
		found := false
		ownCalls(n, func(call *ast.CallExpr, _ bool) {
			if _, name, ok := methodCall(call); ok {
				for _, nm := range names {
					if nm == name {
						found = true
					}
				}
			}
		})
		return found
	}
}

// definedByTypeAssertOn: id is the ok-result of `v, ok := <expr>.(T)`.
func definedByTypeAssertOn(f *core.Func, id *ast.Ident, expr string) bool {
	obj := f.Info().ObjectOf(id)
	found := false
	ast.Inspect(f.Body, func(n ast.Node) bool {
		as, ok := n.(*ast.AssignStmt)
		if !ok || len(as.Lhs) != 2 || len(as.Rhs) != 1 {
			return true
		}
		ta, ok := as.Rhs[0].(*ast.TypeAssertExpr)
		if !ok {
			return true
		}
		if l, ok := as.Lhs[1].(*ast.Ident); ok && f.Info().ObjectOf(l) == obj && core.ExprStr(ta.X) == expr {
			found = true
		}
		return true
	})
	return found
}

// ---- 3. prefix before splice -------------------------------------------------

func c05Prefix(c *Ctx) {
	const rule = "PREFIX"
	pk := c.P.Pkg("control")
	if pk == nil {
		c.R.Unresolved(rule, "package control")
		return
	}
	engObj := pk.Types.Scope().Lookup("relayCopyEngine")
	if engObj == nil {
		c.R.Unresolved(rule, "control.relayCopyEngine")
		return
	}
	iface := engObj.Type().Underlying().(*types.Interface)
	rawCallees := []string{"control.relayFastCopy", "control.relaySpliceCopyExact", "control.relayChunkedSpliceCopy", "control.unwrapRelayTCPConn", "control.relayGatherWriteTCPConn", "io.Copy"}
	engines := 0
	for _, name := range pk.Types.Scope().Names() {
		tn, ok := pk.Types.Scope().Lookup(name).(*types.TypeName)
		if !ok || tn == engObj {
			continue
		}
		if !types.Implements(tn.Type(), iface) && !types.Implements(types.NewPointer(tn.Type()), iface) {
			continue
		}
		engines++
		f := c.fn(rule, "control", name+".Copy")
		if f == nil {
			continue
		}
		drain := nodeCalls(f.Info(), "control.tryRelayGatherWrite")
		raw := nodeCalls(f.Info(), rawCallees...)
		if len(f.Graph().Find(raw)) == 0 {
			c.R.Checkf(rule, "drain-before-raw@"+name+".Copy", c.pos(f.Pos()), true, "engine has no raw-socket callee")
			continue
		}
		c.dominated(rule, "drain-before-raw@"+name+".Copy", f, raw, drain, "a callee that unwraps to the raw TCP socket (relayFastCopy/splice/io.Copy)", "tryRelayGatherWrite (drains wrapper-buffered client bytes)")
	}
	c.R.Floor(rule+"/engines", engines, 1)

	// inside tryRelayGatherWrite: segments are taken before the source is unwrapped,
	// and ok=false is only reported when there was nothing buffered.
	if f := c.fn(rule, "control", "tryRelayGatherWrite"); f != nil {
		take := nodeCalls(f.Info(), "control.relayTakeSourceSegments")
		raw := nodeCalls(f.Info(), "control.relayGatherWriteTCPConn", "control.unwrapRelayTCPConn", "control.relayGatherWriteTo", "control.relayCopyLoop")
		c.dominated(rule, "take-before-unwrap@tryRelayGatherWrite", f, raw, take, "unwrap/write of the source", "relayTakeSourceSegments")
		// every `return …, false` after the take is on the len(segments)==0 edge
		g := f.Graph()
		takePts := g.Find(take)
		if len(takePts) == 1 {
			bad := 0
			var badPos token.Pos
			w := &core.Walker{G: g, Visit: func(n ast.Node) core.Verdict {
				if rs, ok := n.(*ast.ReturnStmt); ok && len(rs.Results) == 3 && core.ExprStr(rs.Results[2]) == "false" {
					// acceptable only if guarded by len(segments)==0
					okG := false
					for _, gd := range g.Guards(pointOf(g, n)) {
						if gd.Polarity && strings.HasPrefix(core.ExprStr(gd.Cond), "len(") && strings.HasSuffix(core.ExprStr(gd.Cond), "== 0") {
							okG = true
						}
					}
					if !okG {
						bad++
						badPos = n.Pos()
					}
				}
				return core.Go
			}}
			w.Run(takePts[0].After())
			c.R.Checkf(rule, "not-handled-only-when-empty@tryRelayGatherWrite", c.pos(takePts[0].Node().Pos()), bad == 0, "after taking the buffered segments, ok=false is returned only under len(segments)==0%s", func() string {
				if bad > 0 {
					return " — violating return at " + c.pos(badPos)
				}
				return ""
			}())
		} else {
			c.R.Checkf(rule, "not-handled-only-when-empty@tryRelayGatherWrite", c.pos(f.Pos()), false, "expected one relayTakeSourceSegments call, found %d", len(takePts))
		}
	}
	// relayTakeSourceSegments consults both capability interfaces
	if f := c.fn(rule, "control", "relayTakeSourceSegments"); f != nil {
		n := len(f.FindCalls(core.ParseRefs("control.relaySegmentSource.TakeRelaySegments"))) + len(f.FindCalls(core.ParseRefs("control.relayPrefixSource.TakeRelayPrefix")))
		c.R.Checkf(rule, "take-consults-capabilities", c.pos(f.Pos()), n >= 2, "relayTakeSourceSegments calls TakeRelaySegments and TakeRelayPrefix of the source (%d calls)", n)
	}
	// kill switch has no writer outside its declaration
	writers := 0
	var wpos token.Pos
	if v := pk.Types.Scope().Lookup("relayGatherWriteEnabled"); v != nil {
		for _, file := range pk.Syntax {
			ast.Inspect(file, func(n ast.Node) bool {
				if as, ok := n.(*ast.AssignStmt); ok {
					for _, l := range as.Lhs {
						if id, ok := l.(*ast.Ident); ok && pk.TypesInfo.ObjectOf(id) == v {
							writers++
							wpos = as.Pos()
						}
					}
				}
				if u, ok := n.(*ast.UnaryExpr); ok && u.Op == token.AND {
					if id, ok := u.X.(*ast.Ident); ok && pk.TypesInfo.ObjectOf(id) == v {
						writers++
						wpos = u.Pos()
					}
				}
				return true
			})
		}
		c.R.Checkf(rule, "gather-switch-constant", c.pos(v.Pos()), writers == 0, "relayGatherWriteEnabled has %d non-test writer(s)%s: with it off, buffered bytes would be skipped by the fast path", writers, func() string {
			if writers > 0 {
				return " (" + c.pos(wpos) + ")"
			}
			return ""
		}())
	}

	// every repo wrapper that unwrapRelayTCPConn can peel and that buffers client
	// bytes exposes them (TakeRelayPrefix or TakeRelaySegments)
	prefIf := lookupIface(pk.Types, "relayPrefixSource")
	segIf := lookupIface(pk.Types, "relaySegmentSource")
	un := c.fn(rule, "control", "unwrapRelayTCPConn")
	if un == nil || prefIf == nil || segIf == nil {
		return
	}
	peel := map[string]types.Type{}
	ast.Inspect(un.Body, func(n ast.Node) bool {
		cc, ok := n.(*ast.CaseClause)
		if !ok {
			return true
		}
		for _, e := range cc.List {
			t := un.Info().TypeOf(e)
			if t == nil {
				continue
			}
			if named := namedOf(t); named != nil && named.Obj().Pkg() != nil && strings.HasPrefix(named.Obj().Pkg().Path(), core.ModPath) {
				peel[named.Obj().Pkg().Name()+"."+named.Obj().Name()] = t
			}
		}
		return true
	})
	// repo types reachable through the UnderlyingConnProvider case
	if np := c.P.All["github.com/daeuniverse/outbound/netproxy"]; np != nil {
		if ucp := lookupIface(np.Types, "UnderlyingConnProvider"); ucp != nil {
			for _, rp := range []string{"control", "component/sniffing"} {
				p := c.P.Pkg(rp)
				for _, name := range p.Types.Scope().Names() {
					tn, ok := p.Types.Scope().Lookup(name).(*types.TypeName)
					if !ok {
						continue
					}
					pt := types.NewPointer(tn.Type())
					if _, isIf := tn.Type().Underlying().(*types.Interface); isIf {
						continue
					}
					if types.Implements(pt, ucp) {
						peel[p.Types.Name()+"."+name] = pt
					}
				}
			}
		}
	}
	n := 0
	for name, t := range peel {
		buffers := hasBufferField(t)
		if !buffers {
			c.R.Checkf(rule, "wrapper-exposes-buffer@"+name, "-", true, "unwrappable wrapper holds no byte buffer")
			n++
			continue
		}
		ok := types.Implements(t, prefIf) || types.Implements(t, segIf)
		c.R.Checkf(rule, "wrapper-exposes-buffer@"+name, "-", ok, "wrapper %s can be peeled down to the raw socket by unwrapRelayTCPConn and buffers client bytes, so it must implement TakeRelayPrefix/TakeRelaySegments (else those bytes are skipped by splice)", name)
		n++
	}
	c.R.Floor(rule+"/wrappers", n, 3)
}

func pointOf(g *core.Graph, n ast.Node) core.Point {
	for _, b := range g.CFG.Blocks {
		for i, m := range b.Nodes {
			if m == n {
				return core.Point{B: b, I: i}
			}
		}
	}
	return core.Point{}
}

func lookupIface(pkg *types.Package, name string) *types.Interface {
	o := pkg.Scope().Lookup(name)
	if o == nil {
		return nil
	}
	i, _ := o.Type().Underlying().(*types.Interface)
	return i
}

func namedOf(t types.Type) *types.Named {
	if p, ok := t.(*types.Pointer); ok {
		t = p.Elem()
	}
	n, _ := t.(*types.Named)
	return n
}

// hasBufferField: the wrapper struct (or an embedded repo struct) has a field
// of type []byte, *bufio.Reader, *bytes.Buffer or the repo's pooled buffer.
func hasBufferField(t types.Type) bool {
	seen := map[types.Type]bool{}
	var rec func(t types.Type, depth int) bool
	rec = func(t types.Type, depth int) bool {
		if p, ok := t.(*types.Pointer); ok {
			t = p.Elem()
		}
		if seen[t] || depth > 3 {
			return false
		}
		seen[t] = true
		st, ok := t.Underlying().(*types.Struct)
		if !ok {
			return false
		}
		for i := 0; i < st.NumFields(); i++ {
			f := st.Field(i)
			ft := f.Type()
			s := ft.String()
			if s == "[]byte" || s == "[]uint8" || strings.HasSuffix(s, "bufio.Reader") || strings.HasSuffix(s, "bytes.Buffer") || strings.HasSuffix(s, "pool.Buffer") || strings.HasSuffix(s, "pool/bytes.Buffer") {
				return true
			}
			if f.Embedded() {
				if n := namedOf(ft); n != nil && n.Obj().Pkg() != nil && strings.HasPrefix(n.Obj().Pkg().Path(), core.ModPath) && rec(ft, depth+1) {
					return true
				}
			}
		}
		return false
	}
	return rec(t, 0)
}

// ---- 4. cursor advance -----------------------------------------------------

func c05Cursor(c *Ctx) {
	const rule = "CURSOR"
	n := 0
	for _, rel := range []string{"control", "component/sniffing"} {
		for _, f := range c.P.FuncsIn(rel) {
			if f.Decl == nil || f.Decl.Name.Name != "TakeRelayPrefix" || f.Decl.Recv == nil {
				continue
			}
			n++
			c.R.Saw(f)
			info := f.Info()
			var recvObj types.Object
			if len(f.Decl.Recv.List[0].Names) > 0 {
				recvObj = info.ObjectOf(f.Decl.Recv.List[0].Names[0])
			}
			advance := func(nd ast.Node) bool {
				adv := false
				if as, ok := nd.(*ast.AssignStmt); ok {
					for _, l := range as.Lhs {
						if _, isSel := l.(*ast.SelectorExpr); isSel && core.RootObj(info, l) == recvObj {
							adv = true
						}
					}
				}
				ownCalls(nd, func(call *ast.CallExpr, _ bool) {
					recv, name, ok := methodCall(call)
					if ok && (name == "Discard" || name == "Next" || name == "Reset" || name == "Truncate") && core.RootObj(info, recv) == recvObj {
						adv = true
					}
				})
				return adv
			}
			retBytes := func(nd ast.Node) bool {
				rs, ok := nd.(*ast.ReturnStmt)
				if !ok || len(rs.Results) != 1 {
					return false
				}
				if core.ExprStr(rs.Results[0]) == "nil" {
					return false
				}
				return !advance(nd) // `return buf.Next(n)` advances by itself
			}
			g := f.Graph()
			bad, tr, reach := g.ReachesAvoiding(g.Entry(), advance, retBytes)
			construct := "advance-before-return@" + strings.TrimPrefix(f.Name, rel+".")
			if !reach {
				c.R.Checkf(rule, construct, c.pos(f.Pos()), true, "every path that returns buffered bytes first moves the cursor past them (exactly-once replay shape)")
			} else {
				c.R.Checkf(rule, construct, c.pos(bad.Pos()), false, "bytes are returned at %s (lines %s) without advancing the wrapper's cursor: the same prefix would be replayed again by the next Read", c.pos(bad.Pos()), traceStr(c.P, tr))
			}
		}
	}
	c.R.Floor(rule, n, 3)
}

// ---- 5. wiring -------------------------------------------------------------

func c05Wiring(c *Ctx) {
	const rule = "WIRING"
	f := c.fn(rule, "control", "ControlPlane.handleConn")
	if f == nil {
		return
	}
	info := f.Info()
	g := f.Graph()
	fast := nodeCalls(info, "control.ControlPlane.handleTCPDnsFastPath")
	relay := nodeCalls(info, "control.RelayTCPContextWithRecords", "control.RelayTCPContext", "control.RelayTCP")
	prefetch := nodeCalls(info, "control.prefetchForTcpSniff")
	newSniffer := nodeCalls(info, "component/sniffing.NewConnSniffer")
	fp := g.Find(fast)
	rp := g.Find(relay)
	if len(fp) != 1 || len(rp) != 1 {
		c.R.Checkf(rule, "anchors", c.pos(f.Pos()), false, "expected one DNS fast-path call and one relay call in handleConn, found %d/%d", len(fp), len(rp))
		return
	}
	// relay's local-side argument variable
	var relayCall *ast.CallExpr
	ownCalls(rp[0].Node(), func(call *ast.CallExpr, _ bool) {
		if cal := core.Callee(info, call); cal != nil && strings.HasPrefix(cal.Name(), "RelayTCP") {
			relayCall = call
		}
	})
	lArg, _ := ast.Unparen(relayCall.Args[1]).(*ast.Ident)
	if lArg == nil {
		c.R.Checkf(rule, "relay-arg", c.pos(relayCall.Pos()), false, "relay's client-side argument is not a plain variable: %s", core.ExprStr(relayCall.Args[1]))
		return
	}
	relayVar := info.ObjectOf(lArg)
	assignTo := func(obj types.Object, rhsPred func(ast.Expr) bool) func(ast.Node) bool {
		return func(n ast.Node) bool {
			switch as := n.(type) {
			case *ast.AssignStmt:
				for i, l := range as.Lhs {
					if id, ok := l.(*ast.Ident); ok && info.ObjectOf(id) == obj && i < len(as.Rhs) && rhsPred(as.Rhs[i]) {
						return true
					}
				}
			case *ast.ValueSpec:
				for i, nm := range as.Names {
					if info.ObjectOf(nm) == obj && i < len(as.Values) && rhsPred(as.Values[i]) {
						return true
					}
				}
			case *ast.DeclStmt:
				if gd, ok := as.Decl.(*ast.GenDecl); ok {
					for _, sp := range gd.Specs {
						if vs, ok := sp.(*ast.ValueSpec); ok {
							for i, nm := range vs.Names {
								if info.ObjectOf(nm) == obj && i < len(vs.Values) && rhsPred(vs.Values[i]) {
									return true
								}
							}
						}
					}
				}
			}
			return false
		}
	}
	// the fast path's conn argument and the bufio wrapper built around it
	var fastCall *ast.CallExpr
	ownCalls(fp[0].Node(), func(call *ast.CallExpr, _ bool) {
		if cal := core.Callee(info, call); cal != nil && cal.Name() == "handleTCPDnsFastPath" {
			fastCall = call
		}
	})
	connId, _ := ast.Unparen(fastCall.Args[1]).(*ast.Ident)
	rdId, _ := ast.Unparen(fastCall.Args[2]).(*ast.Ident)
	if connId == nil || rdId == nil {
		c.R.Checkf(rule, "dns-detect-args", c.pos(fastCall.Pos()), false, "fast-path conn/reader arguments are not plain variables")
		return
	}
	connVar := info.ObjectOf(connId)
	wrapBufio := assignTo(connVar, func(e ast.Expr) bool {
		u, ok := ast.Unparen(e).(*ast.UnaryExpr)
		if !ok {
			return false
		}
		cl, ok := u.X.(*ast.CompositeLit)
		if !ok {
			return false
		}
		nt := namedOf(info.TypeOf(cl))
		if nt == nil || nt.Obj().Name() != "bufioConn" {
			return false
		}
		hasReader := false
		for _, el := range cl.Elts {
			if kv, ok := el.(*ast.KeyValueExpr); ok {
				if id, ok := kv.Value.(*ast.Ident); ok && info.ObjectOf(id) == info.ObjectOf(rdId) {
					hasReader = true
				}
			}
		}
		return hasReader
	})
	later := Or(relay, prefetch, newSniffer)
	bad, tr, reach := g.ReachesAvoiding(fp[0].After(), wrapBufio, later)
	if !reach {
		c.R.Checkf(rule, "bufio-wrap-after-dns-detect", c.pos(fastCall.Pos()), true, "every path from the DNS detector to prefetch/sniffer/relay re-wraps the conn with the detector's bufio.Reader (peeked bytes are replayed)")
	} else {
		c.R.Checkf(rule, "bufio-wrap-after-dns-detect", c.pos(bad.Pos()), false, "path from the DNS detector to %s (lines %s) does not wrap the conn in bufioConn{reader: %s}: bytes peeked by the detector are lost", c.pos(bad.Pos()), traceStr(c.P, tr), rdId.Name)
	}
	// prefetch takes the (possibly re-wrapped) conn variable; sniffer takes prefetch's conn
	pp := g.Find(prefetch)
	sp := g.Find(newSniffer)
	if len(pp) == 1 && len(sp) == 1 {
		var pcall, scall *ast.CallExpr
		ownCalls(pp[0].Node(), func(call *ast.CallExpr, _ bool) {
			if cal := core.Callee(info, call); cal != nil && cal.Name() == "prefetchForTcpSniff" {
				pcall = call
			}
		})
		ownCalls(sp[0].Node(), func(call *ast.CallExpr, _ bool) {
			if cal := core.Callee(info, call); cal != nil && cal.Name() == "NewConnSniffer" {
				scall = call
			}
		})
		pin, _ := ast.Unparen(pcall.Args[0]).(*ast.Ident)
		c.R.Checkf(rule, "prefetch-input", c.pos(pcall.Pos()), pin != nil && info.ObjectOf(pin) == connVar, "prefetchForTcpSniff reads from the DNS-stage connection variable %s", connId.Name)
		var probeVar types.Object
		if as, ok := pp[0].Node().(*ast.AssignStmt); ok && len(as.Lhs) >= 1 {
			if id, ok := as.Lhs[0].(*ast.Ident); ok {
				probeVar = info.ObjectOf(id)
			}
		}
		sin, _ := ast.Unparen(scall.Args[0]).(*ast.Ident)
		c.R.Checkf(rule, "sniffer-input", c.pos(scall.Pos()), sin != nil && probeVar != nil && info.ObjectOf(sin) == probeVar, "NewConnSniffer wraps the conn returned by prefetchForTcpSniff (which replays the prefetched prefix)")
		// after prefetch, the relay var is reassigned to probe conn or sniffer before the relay
		reassign := assignTo(relayVar, func(e ast.Expr) bool {
			id, ok := ast.Unparen(e).(*ast.Ident)
			return ok && (info.ObjectOf(id) == probeVar || snifferVar(info, sp[0].Node()) == info.ObjectOf(id))
		})
		// only the error-return edge of prefetch may skip it; returns are exits, not relay
		bad, tr, reach := g.ReachesAvoiding(pp[0].After(), reassign, relay)
		c.R.Checkf(rule, "relay-gets-prefetch-wrapper", c.pos(pcall.Pos()), !reach, "after a prefetch the relay is handed the prefetch wrapper or the sniffer on every path%s", func() string {
			if reach {
				return " — path lines " + traceStr(c.P, tr) + " reaches relay at " + c.pos(bad.Pos()) + " with the unwrapped conn"
			}
			return ""
		}())
		sv := snifferVar(info, sp[0].Node())
		reS := assignTo(relayVar, func(e ast.Expr) bool {
			id, ok := ast.Unparen(e).(*ast.Ident)
			return ok && info.ObjectOf(id) == sv
		})
		_, _, reach2 := g.ReachesAvoiding(sp[0].After(), reS, relay)
		c.R.Checkf(rule, "relay-gets-sniffer", c.pos(scall.Pos()), !reach2 && sv != nil, "once a ConnSniffer exists (it has consumed bytes) the relay is handed the sniffer on every path")
	} else {
		c.R.Checkf(rule, "prefetch/sniffer anchors", c.pos(f.Pos()), false, "expected one prefetch and one NewConnSniffer call, found %d/%d", len(pp), len(sp))
	}
	// initial value of the relay variable is the DNS-stage conn
	init := g.Find(assignTo(relayVar, func(e ast.Expr) bool {
		id, ok := ast.Unparen(e).(*ast.Ident)
		return ok && info.ObjectOf(id) == connVar
	}))
	c.R.Checkf(rule, "relay-default-input", c.pos(relayCall.Pos()), len(init) >= 1, "without sniffing the relay is handed the DNS-stage connection variable (bufio-wrapped when port 53)")
	c.R.Floor(rule, 6, 6)
}

func snifferVar(info *types.Info, n ast.Node) types.Object {
	if as, ok := n.(*ast.AssignStmt); ok && len(as.Lhs) == 1 {
		if id, ok := as.Lhs[0].(*ast.Ident); ok {
			return info.ObjectOf(id)
		}
	}
	return nil
}

// Or is re-exported for brevity.
func Or(ps ...func(ast.Node) bool) func(ast.Node) bool { return core.Or(ps...) }
