package props

import (
	"fmt"
	"go/ast"
	"go/constant"
	"go/token"
	"go/types"
	"sort"
	"strings"

	"daecheck/internal/core"
	"daecheck/internal/fdt"
)

func init() {
	register(&Checker{ID: "C16", Run: runC16, Explain: "Structural necessary conditions of 'health follows the documented thresholds and is reported on edges only', decided on the type-checked source of component/outbound/dialer and control: " +
		"(1) THRESHOLD: the failure threshold of markUnavailableInternal as a function of (protocol, probe|traffic), extracted by constant propagation over its CFG, is {tcp/probe 1, udp/probe 3, tcp/traffic 10, udp/traffic 50}; a forced report stores not-alive without consulting a counter; a non-forced report increments the counter it compares and keeps the node alive only on the below-threshold edge; " +
		"(2) RESET: both success paths zero both failure counters and set alive inside the collection lock, and every success report clears the per-address death counter regardless of revival; (3) EDGE: every alive-transition callback is guarded by an actual state change read in the same critical section as the store; " +
		"(4) CANCEL: every path from a failure reporter to the counters passes the cancellation/teardown test; (5) SUPPRESS: the reload suppression test precedes every counter write and is bypassed only by force; " +
		"(5b) GROUPBIT: whenever a latency-policy group has no best node its best latency is reset (so the next reviving node is selected and the group alive callback fires), callbacks fire on edges only; (6) MAPWRITER: the only writer of the kernel connectivity map is the group alive callback; group fan-out uses the snapshot taken under the lock; (7) SNAPSHOT: the reload snapshot and its restore cover the same per-collection fields. " +
		"Not decided: counting over histories, escalation timing, reload floor."})
}

func runC16(c *Ctx) {
	c16Threshold(c)
	c16Reset(c)
	c16Edge(c)
	c16Cancel(c)
	c16MapWriter(c)
	c16Snapshot(c)
	c16GroupBit(c)
	c16SnapshotSameIndexes(c)
	c16SuccessAlwaysNotified(c)
	c16TrafficRevivalUnconditional(c, "RESET")
	c16IndexToTypeTotal(c, "SNAPSHOT")
}

func c16Threshold(c *Ctx) {
	const rule = "THRESHOLD"
	f := c.fn(rule, "component/outbound/dialer", "Dialer.markUnavailableInternal")
	if f == nil {
		return
	}
	info := f.Info()
	var thr, alive types.Object
	ast.Inspect(f.Body, func(m ast.Node) bool {
		if as, ok := m.(*ast.AssignStmt); ok && as.Tok == token.DEFINE && len(as.Lhs) == 1 {
			if id, ok := as.Lhs[0].(*ast.Ident); ok {
				switch id.Name {
				case "threshold":
					thr = info.ObjectOf(id)
				case "alive":
					alive = info.ObjectOf(id)
				}
			}
		}
		return true
	})
	if thr == nil || alive == nil {
		c.R.Unresolved(rule, "markUnavailableInternal: threshold / alive locals")
		return
	}
	tcp, udp := constStrOf(c, "common/consts", "L4ProtoStr_TCP"), constStrOf(c, "common/consts", "L4ProtoStr_UDP")
	want := map[string]string{"tcp/probe": "1", "udp/probe": "3", "tcp/traffic": "10", "udp/traffic": "50"}
	rows := 0
	for _, proto := range []string{"tcp", "udp"} {
		for _, traffic := range []bool{false, true} {
			pv := tcp
			if proto == "udp" {
				pv = udp
			}
			job := &fdt.Job{F: f, Start: f.Graph().Entry(), Tracked: map[types.Object]string{alive: "alive"}, MaxSteps: 2000,
				Inputs: map[string]constant.Value{"typ.L4Proto": constant.MakeString(pv), "isTraffic": constant.MakeBool(traffic), "force": constant.MakeBool(false), "proxyFailureSuppressedForReload()": constant.MakeBool(false)},
				Event: func(n ast.Node, ev func(ast.Expr) string) string {
					out := ""
					ast.Inspect(n, func(m ast.Node) bool {
						if _, isLit := m.(*ast.FuncLit); isLit {
							return false
						}
						switch x := m.(type) {
						case *ast.BinaryExpr:
							if tid, op, other, ok := core.Oriented(x, func(e ast.Expr) bool {
								id, isId := e.(*ast.Ident)
								return isId && info.ObjectOf(id) == thr
							}); ok && op == token.GTR { // threshold > counter  ==  counter < threshold
								out = "cmp(" + strings.ReplaceAll(core.ExprStr(other), " ", "") + "<" + ev(tid) + ")"
							}
						case *ast.IncDecStmt:
							if x.Tok == token.INC && strings.Contains(core.ExprStr(x.X), "failCount") {
								out = "inc(" + core.ExprStr(x.X) + ")"
							}
						case *ast.CallExpr:
							if recv, name, ok := methodCall(x); ok {
								if name == "Add" && strings.Contains(core.ExprStr(recv), "FailCount") {
									out = "inc(" + core.ExprStr(recv) + ")"
								}
								if name == "Store" && strings.HasSuffix(core.ExprStr(recv), ".Alive") {
									out = "store(" + ev(x.Args[0]) + ")"
								}
							}
						}
						return true
					})
					return out
				}}
			outs := job.Run()
			key := proto + "/" + map[bool]string{false: "probe", true: "traffic"}[traffic]
			rows++
			evs := map[string]bool{}
			okShape := len(outs) > 0 && len(job.Undecided) == 0
			for _, o := range outs {
				seq := strings.Join(o.Events, " ")
				evs[seq] = true
			}
			var seqs []string
			for k := range evs {
				seqs = append(seqs, k)
			}
			sort.Strings(seqs)
			// expected shape: inc(counter) cmp(counter<T) store(false | sym Alive.Load())
			counter := "d.failCount[idx]"
			cmpL := "d.failCount[idx]"
			if traffic {
				counter = "d.trafficFailCount[idx]"
				cmpL = "int(d.trafficFailCount[idx].Load())"
			}
			exp := []string{
				fmt.Sprintf("inc(%s) cmp(%s<%s) store(false)", counter, cmpL, want[key]),
				fmt.Sprintf("inc(%s) cmp(%s<%s) store(sym:alive)", counter, cmpL, want[key]),
			}
			sort.Strings(exp)
			got := strings.Join(seqs, " | ")
			c.R.Checkf(rule, "threshold@"+key, c.pos(f.Pos()), okShape && got == strings.Join(exp, " | "),
				"%s failure: the counter is incremented, compared with threshold %s, and the node stays alive only below it: code gives [%s], documented [%s]", key, want[key], got, strings.Join(exp, " | "))
		}
	}
	c.R.Floor(rule+"/rows", rows, 4)
	// forced
	for _, proto := range []string{tcp, udp} {
		job := &fdt.Job{F: f, Start: f.Graph().Entry(), MaxSteps: 2000,
			Inputs: map[string]constant.Value{"typ.L4Proto": constant.MakeString(proto), "isTraffic": constant.MakeBool(true), "force": constant.MakeBool(true)},
			Event: func(n ast.Node, ev func(ast.Expr) string) string {
				out := ""
				ast.Inspect(n, func(m ast.Node) bool {
					if x, ok := m.(*ast.CallExpr); ok {
						if recv, name, ok := methodCall(x); ok && name == "Store" && strings.HasSuffix(core.ExprStr(recv), ".Alive") {
							out = "store(" + ev(x.Args[0]) + ")"
						}
					}
					if x, ok := m.(*ast.BinaryExpr); ok && x.Op == token.LSS {
						if id, ok := x.Y.(*ast.Ident); ok && info.ObjectOf(id) == thr {
							out = "cmp"
						}
					}
					return true
				})
				return out
			}}
		outs := job.Run()
		ok := len(outs) > 0
		for _, o := range outs {
			if strings.Join(o.Events, " ") != "store(false)" {
				ok = false
			}
		}
		c.R.Checkf(rule, "forced@"+proto, c.pos(f.Pos()), ok, "a forced report stores not-alive immediately, without comparing a counter, even while reload suppression is active")
	}
	// suppression: test precedes every counter write; its true edge writes nothing
	g := f.Graph()
	writes := func(n ast.Node) bool {
		w := false
		ast.Inspect(n, func(m ast.Node) bool {
			switch x := m.(type) {
			case *ast.IncDecStmt:
				w = w || strings.Contains(core.ExprStr(x.X), "ailCount")
			case *ast.AssignStmt:
				for _, l := range x.Lhs {
					w = w || strings.Contains(core.ExprStr(l), "ailCount")
				}
			case *ast.CallExpr:
				if recv, name, ok := methodCall(x); ok && (name == "Add" || name == "Store" || name == "Swap") && (strings.Contains(core.ExprStr(recv), "ailCount") || strings.HasSuffix(core.ExprStr(recv), ".Alive")) {
					w = true
				}
			}
			return true
		})
		return w
	}
	sup := g.Conds(func(e ast.Expr) bool { return strings.Contains(core.ExprStr(e), "proxyFailureSuppressedForReload()") })
	okS := false
	if len(sup) == 1 {
		cn := ast.Node(sup[0].Cond)
		_, _, reach := g.ReachesAvoiding(g.Entry(), func(n ast.Node) bool { return n == cn }, writes)
		_, _, reachT := g.ReachesAvoiding(core.Point{B: sup[0].True, I: 0}, nil, writes)
		ats := core.Atoms(sup[0].Cond, true)
		forceBypass := false
		for _, a := range ats {
			if core.ExprStr(a.Cond) == "force" && !a.Polarity {
				forceBypass = true
			}
		}
		okS = !reach && !reachT && forceBypass
	}
	c.R.Checkf("SUPPRESS", "suppression-gate@markUnavailableInternal", c.pos(f.Pos()), okS, "the reload suppression test (bypassed only by force) dominates every counter/alive write and its true edge writes nothing")
}

func constStrOf(c *Ctx, rel, name string) string {
	pk := c.P.Pkg(rel)
	if pk == nil {
		return ""
	}
	if o, ok := pk.Types.Scope().Lookup(name).(*types.Const); ok && o.Val().Kind() == constant.String {
		return constant.StringVal(o.Val())
	}
	return ""
}

func c16Reset(c *Ctx) {
	const rule = "RESET"
	for _, nm := range []string{"markAvailable", "markAvailableTraffic"} {
		f := c.fn(rule, "component/outbound/dialer", "Dialer."+nm)
		if f == nil {
			continue
		}
		info := f.Info()
		g := f.Graph()
		lock := func(n ast.Node) bool {
			r := false
			ownCalls(n, func(call *ast.CallExpr, def bool) {
				if recv, name, ok := methodCall(call); ok && name == "Lock" && core.FieldOf(info, recv) == "Dialer.collectionFineMu" {
					r = true
				}
			})
			return r
		}
		unlock := func(n ast.Node) bool {
			r := false
			ownCalls(n, func(call *ast.CallExpr, def bool) {
				if recv, name, ok := methodCall(call); ok && name == "Unlock" && core.FieldOf(info, recv) == "Dialer.collectionFineMu" {
					r = true
				}
			})
			return r
		}
		facts := map[string]func(ast.Node) bool{
			"failCount=0": func(n ast.Node) bool {
				as, ok := n.(*ast.AssignStmt)
				return ok && len(as.Lhs) == 1 && strings.HasPrefix(core.ExprStr(as.Lhs[0]), "d.failCount[") && core.ExprStr(as.Rhs[0]) == "0"
			},
			"trafficFailCount.Store(0)": func(n ast.Node) bool {
				r := false
				ownCalls(n, func(call *ast.CallExpr, _ bool) {
					if recv, name, ok := methodCall(call); ok && name == "Store" && strings.HasPrefix(core.ExprStr(recv), "d.trafficFailCount[") && core.ExprStr(call.Args[0]) == "0" {
						r = true
					}
				})
				return r
			},
			"Alive.Swap(true)": func(n ast.Node) bool {
				r := false
				ownCalls(n, func(call *ast.CallExpr, _ bool) {
					if recv, name, ok := methodCall(call); ok && (name == "Swap" || name == "Store") && strings.HasSuffix(core.ExprStr(recv), ".Alive") && core.ExprStr(call.Args[0]) == "true" {
						r = true
					}
				})
				return r
			},
		}
		for fact, pred := range facts {
			// on every path: lock … fact … unlock
			lp := g.Find(lock)
			okF := len(lp) == 1
			if okF {
				_, _, skip := g.ReachesAvoiding(lp[0].After(), pred, unlock)
				_, _, before := g.ReachesAvoiding(g.Entry(), lock, pred)
				okF = !skip && !before
			}
			c.R.Checkf(rule, fact+"@"+nm, c.pos(f.Pos()), okF, "%s performs %s on every path, inside the collection lock", nm, fact)
		}
	}
	// per-address death counter cleared by every success
	if f := c.fn(rule, "component/outbound/dialer", "Dialer.NotifyHealthCheckResult"); f != nil {
		info := f.Info()
		g := f.Graph()
		okAll := false
		detail := ""
		{
			clr := nodeCalls(info, "component/outbound/dialer.recordProxySuccess")
			pts := g.Find(clr)
			if len(pts) == 0 {
				detail = "no recordProxySuccess call"
			} else {
				okAll = true
			}
			for _, p := range pts {
				onSuccess := false
				for _, gd := range g.Guards(p) {
					s := core.ExprStr(gd.Cond)
					if s == "success" && gd.Polarity {
						onSuccess = true
						continue
					}
					if strings.HasSuffix(s, `.Address != ""`) && gd.Polarity {
						continue
					}
					okAll = false
					detail = fmt.Sprintf("the clear is additionally conditional on %q (=%v)", s, gd.Polarity)
				}
				if !onSuccess {
					okAll = false
					detail = "the clear is not on the success edge"
				}
			}
		}
		c.R.Checkf(rule, "success-clears-address-counter", c.pos(f.Pos()), okAll, "every successful report (revival or not, any domain) clears the per-address death counter: three deaths only escalate when no success lies in between%s", func() string {
			if okAll {
				return ""
			}
			return " — " + detail
		}())
	}
	c.R.Floor(rule, 7, 7)
}

func c16Edge(c *Ctx) {
	const rule = "EDGE"
	n := 0
	for _, f := range c.P.FuncsIn("component/outbound/dialer") {
		info := f.Info()
		g := f.Graph()
		for _, p := range g.Find(nodeCalls(info, "component/outbound/dialer.Dialer.notifyAliveTransition")) {
			n++
			c.R.Saw(f)
			guarded := false
			var how string
			for _, gd := range g.Guards(p) {
				s := core.ExprStr(gd.Cond)
				be, isB := gd.Cond.(*ast.BinaryExpr)
				if isB && be.Op == token.NEQ && gd.Polarity && (strings.Contains(strings.ToLower(s), "alive") || strings.Contains(s, ".was")) {
					guarded, how = true, s
				}
				// `!was` guarding a callback with the literal new state true (or `was` guarding false)
				if strings.HasSuffix(s, ".was") || strings.HasSuffix(s, "wasAlive") {
					ownCalls(p.Node(), func(call *ast.CallExpr, _ bool) {
						if cal := core.Callee(info, call); cal != nil && cal.Name() == "notifyAliveTransition" && len(call.Args) == 2 {
							arg := core.ExprStr(call.Args[1])
							if (arg == "true" && !gd.Polarity) || (arg == "false" && gd.Polarity) {
								guarded, how = true, "previous state "+s+" differs from the literal new state "+arg
							}
						}
					})
				}
				if id, ok := gd.Cond.(*ast.Ident); ok && gd.Polarity && id.Name == "isRevival" {
					// isRevival := !wasAlive
					ast.Inspect(f.Body, func(m ast.Node) bool {
						if as, ok := m.(*ast.AssignStmt); ok && len(as.Lhs) == 1 && core.ExprStr(as.Lhs[0]) == "isRevival" && core.ExprStr(as.Rhs[0]) == "!wasAlive" {
							guarded, how = true, "isRevival (= !wasAlive) with alive set to true"
						}
						return true
					})
				}
			}
			c.R.Checkf(rule, "transition-guarded@"+strings.TrimPrefix(f.Name, "component/outbound/dialer."), c.pos(p.Node().Pos()), guarded, "the alive-transition callback fires only when the state actually changed (%s)", how)
		}
	}
	c.R.Floor(rule+"/sites", n, 4)
	// wasAlive is read inside the critical section
	for _, nm := range []string{"markUnavailableInternal", "markAvailable", "markAvailableTraffic"} {
		f := c.fn(rule, "component/outbound/dialer", "Dialer."+nm)
		if f == nil {
			continue
		}
		g := f.Graph()
		read := func(n ast.Node) bool {
			as, ok := n.(*ast.AssignStmt)
			return ok && len(as.Lhs) == 1 && core.ExprStr(as.Lhs[0]) == "wasAlive"
		}
		unlock := methodNamed("Unlock")
		pts := g.Find(read)
		ok := len(pts) == 1
		if ok {
			// no unlock between function entry's lock and the read on the non-suppressed path: read must not be reachable after an Unlock
			for _, up := range g.Find(unlock) {
				if _, _, r := g.ReachesAvoiding(up.After(), nil, read); r {
					ok = false
				}
			}
		}
		c.R.Checkf(rule, "previous-state-read-under-lock@"+nm, c.pos(f.Pos()), ok, "%s reads the previous alive state before releasing the collection lock (same critical section as the store)", nm)
	}
}

func c16Cancel(c *Ctx) {
	const rule = "CANCEL"
	n := 0
	for _, f := range c.P.FuncsIn("component/outbound/dialer") {
		info := f.Info()
		g := f.Graph()
		short := strings.TrimPrefix(f.Name, "component/outbound/dialer.")
		if short == "Dialer.markUnavailable" || short == "Dialer.markUnavailableInternal" {
			continue
		}
		for _, p := range g.Find(nodeCalls(info, "component/outbound/dialer.Dialer.markUnavailableInternal", "component/outbound/dialer.Dialer.markUnavailable")) {
			n++
			c.R.Saw(f)
			forced := false
			ownCalls(p.Node(), func(call *ast.CallExpr, _ bool) {
				if cal := core.Callee(info, call); cal != nil && cal.Name() == "markUnavailableInternal" && len(call.Args) == 3 && core.ExprStr(call.Args[1]) == "true" {
					forced = true
				}
			})
			if forced {
				c.R.Checkf(rule, "gate@"+short, c.pos(p.Node().Pos()), true, "forced report: documented to count unconditionally")
				continue
			}
			gated := false
			// form 1: `if d.shouldIgnoreAvailabilityError(typ, err) { return }` dominates
			for _, cs := range g.Conds(func(e ast.Expr) bool {
				s := core.ExprStr(e)
				return strings.Contains(s, "shouldIgnoreAvailabilityError(") || strings.Contains(s, "IsCanceledOrClosed(")
			}) {
				cn := ast.Node(cs.Cond)
				target := p.Node()
				_, _, reach := g.ReachesAvoiding(g.Entry(), func(n ast.Node) bool { return n == cn }, func(n ast.Node) bool { return n == target })
				_, _, reachT := g.ReachesAvoiding(core.Point{B: cs.True, I: 0}, nil, func(n ast.Node) bool { return n == target })
				if !reach && !reachT {
					gated = true
				}
			}
			// form 2: guarded by !errors.Is(err, context.Canceled)
			for _, gd := range g.Guards(p) {
				s := core.ExprStr(gd.Cond)
				if !gd.Polarity && strings.Contains(s, "Is(err, context.Canceled)") {
					gated = true
				}
			}
			c.R.Checkf(rule, "gate@"+short, c.pos(p.Node().Pos()), gated, "%s reaches the failure counters only behind a cancellation/teardown test", short)
		}
	}
	c.R.Floor(rule+"/callers", n, 4)
	// the ignore predicate is the shared canceled-or-closed classifier
	if f := c.fn(rule, "component/outbound/dialer", "Dialer.shouldIgnoreAvailabilityError"); f != nil {
		g := f.Graph()
		ok := false
		for _, cs := range g.Conds(func(e ast.Expr) bool { return strings.Contains(core.ExprStr(e), "IsCanceledOrClosed(err)") }) {
			for _, at := range core.Atoms(cs.Cond, true) {
				if !at.Polarity {
					if good, _ := onlyReturns(g, core.Point{B: cs.True, I: 0}, "false"); good {
						ok = true
					}
				}
			}
		}
		last, isRet := f.Body.List[len(f.Body.List)-1].(*ast.ReturnStmt)
		c.R.Checkf(rule, "ignore-predicate", c.pos(f.Pos()), ok && isRet && core.ExprStr(last.Results[0]) == "true", "shouldIgnoreAvailabilityError is exactly IsCanceledOrClosed(err)")
	}
}

func c16MapWriter(c *Ctx) {
	const rule = "MAPWRITER"
	writers := map[string]string{}
	for _, f := range c.P.FuncsIn("control") {
		info := f.Info()
		core.EachCall(f.Body, core.Deep, func(call *ast.CallExpr) {
			recv, name, ok := methodCall(call)
			if !ok {
				return
			}
			if core.FieldOf(info, recv) == "bpfMaps.OutboundConnectivityMap" || strings.HasSuffix(core.ExprStr(recv), ".OutboundConnectivityMap") {
				switch name {
				case "Update", "Put", "Delete", "BatchUpdate", "BatchDelete":
					writers[strings.TrimPrefix(f.Name, "control.")] = c.pos(call.Pos())
				}
			}
		})
	}
	var ws []string
	for k := range writers {
		ws = append(ws, k)
	}
	sort.Strings(ws)
	c.R.Checkf(rule, "single-writer", "control/connectivity.go", len(ws) == 1 && strings.Contains(ws[0], "outboundAliveChangeCallback"), "the kernel connectivity map is written only by the group alive callback: %v", ws)
	// fan-out uses the snapshot captured under the lock
	if f := c.fn(rule, "component/outbound/dialer", "Dialer.informDialerGroupUpdate"); f != nil {
		ok := false
		ast.Inspect(f.Body, func(m ast.Node) bool {
			if rs, ok2 := m.(*ast.RangeStmt); ok2 && core.ExprStr(rs.X) == "update.aliveDialerGroups" {
				ok = true
			}
			return true
		})
		c.R.Checkf(rule, "fanout-from-snapshot", c.pos(f.Pos()), ok, "every group of the snapshot taken under the lock is notified")
	}
	for _, nm := range []string{"markUnavailableInternal", "markAvailable", "markAvailableTraffic"} {
		if f := c.fn(rule, "component/outbound/dialer", "Dialer."+nm); f != nil {
			g := f.Graph()
			snap := nodeCalls(f.Info(), "component/outbound/dialer.Dialer.snapshotAliveDialerGroupsLocked")
			bad := false
			for _, up := range g.Find(methodNamed("Unlock")) {
				if _, _, r := g.ReachesAvoiding(up.After(), nil, snap); r {
					bad = true
				}
			}
			c.R.Checkf(rule, "group-snapshot-under-lock@"+nm, c.pos(f.Pos()), !bad && len(g.Find(snap)) >= 1, "%s snapshots the groups containing the node before releasing the lock", nm)
		}
	}
}

func c16Snapshot(c *Ctx) {
	const rule = "SNAPSHOT"
	hs := c.fn(rule, "component/outbound/dialer", "Dialer.HealthSnapshot")
	rs := c.fn(rule, "component/outbound/dialer", "Dialer.RestoreHealthSnapshot")
	if hs == nil || rs == nil {
		return
	}
	// fields written into DialerCollectionHealthSnapshot by the snapshot
	saved := map[string]bool{}
	ast.Inspect(hs.Body, func(m ast.Node) bool {
		if cl, ok := m.(*ast.CompositeLit); ok {
			if nt := namedOf(hs.Info().TypeOf(cl)); nt != nil && nt.Obj().Name() == "DialerCollectionHealthSnapshot" {
				for _, el := range cl.Elts {
					if kv, ok := el.(*ast.KeyValueExpr); ok {
						saved[core.ExprStr(kv.Key)] = true
					}
				}
			}
		}
		return true
	})
	// fields read back by the restore
	restored := map[string]bool{}
	ast.Inspect(rs.Body, func(m ast.Node) bool {
		if se, ok := m.(*ast.SelectorExpr); ok {
			if fld := core.FieldOf(rs.Info(), se); strings.HasPrefix(fld, "DialerCollectionHealthSnapshot.") {
				restored[strings.TrimPrefix(fld, "DialerCollectionHealthSnapshot.")] = true
			}
		}
		return true
	})
	// declared fields
	var declared []string
	if pk := c.P.Pkg("component/outbound/dialer"); pk != nil {
		if tn, ok := pk.Types.Scope().Lookup("DialerCollectionHealthSnapshot").(*types.TypeName); ok {
			st := tn.Type().Underlying().(*types.Struct)
			for i := 0; i < st.NumFields(); i++ {
				declared = append(declared, st.Field(i).Name())
			}
		}
	}
	var miss []string
	for _, d := range declared {
		if !saved[d] || !restored[d] {
			miss = append(miss, d)
		}
	}
	c.R.Checkf(rule, "snapshot-restore-symmetry", c.pos(rs.Pos()), len(miss) == 0 && len(declared) >= 6, "every one of the %d per-collection snapshot fields is both saved and restored (asymmetric: %v)", len(declared), miss)
	// restore notifies on actual change only and fans out to groups — EDGE covers the guard
}

// c16GroupBit: the group-level "has an alive node" state (which drives the
// kernel connectivity bit of latency-policy groups) is the pair
// (minLatency.dialer, minLatency.sortingLatency).  Invariant needed by every
// later comparison: dialer == nil  =>  sortingLatency == the maximum sentinel.
func c16GroupBit(c *Ctx) {
	const rule = "GROUPBIT"
	n := 0
	for _, f := range c.P.FuncsIn("component/outbound/dialer") {
		if f.Decl == nil || core.RecvTypeName(f.Decl) != "AliveDialerSet" {
			continue
		}
		info := f.Info()
		g := f.Graph()
		short := strings.TrimPrefix(f.Name, "component/outbound/dialer.")
		clears := g.Find(func(nd ast.Node) bool {
			as, ok := nd.(*ast.AssignStmt)
			return ok && len(as.Lhs) == 1 && len(as.Rhs) == 1 && strings.HasSuffix(core.ExprStr(as.Lhs[0]), ".minLatency.dialer") && core.ExprStr(as.Rhs[0]) == "nil"
		})
		reset := func(nd ast.Node) bool {
			if as, ok := nd.(*ast.AssignStmt); ok && len(as.Lhs) == 1 && strings.HasSuffix(core.ExprStr(as.Lhs[0]), ".minLatency.sortingLatency") && core.ExprStr(as.Rhs[0]) == "time.Hour" {
				return true
			}
			if cl, ok := nd.(*ast.AssignStmt); ok && len(cl.Lhs) == 1 && strings.HasSuffix(core.ExprStr(cl.Lhs[0]), ".minLatency") {
				return true // whole-struct reset
			}
			return nodeCalls(info, "component/outbound/dialer.AliveDialerSet.calcMinLatency", "component/outbound/dialer.AliveDialerSet.recomputeSelectionStateLocked")(nd)
		}
		for _, p := range clears {
			n++
			c.R.Saw(f)
			ex := g.ExitsAvoiding(p.After(), reset)
			// a reset just before the clear in the same block also counts
			before := false
			for i := 0; i < p.I; i++ {
				if reset(p.B.Nodes[i]) {
					before = true
				}
			}
			c.R.Checkf(rule, "no-best=>latency-reset@"+short, c.pos(p.Node().Pos()), len(ex) == 0 || before, "%s sets the group's best node to nil; the best latency is reset to the maximum (directly or by recomputing) on every path, so that the next reviving node is selected whatever its latency", short)
		}
	}
	c.R.Floor(rule+"/clear-sites", n, 2)
	if f := c.fn(rule, "component/outbound/dialer", "AliveDialerSet.calcMinLatency"); f != nil {
		job := &fdt.Job{F: f, Start: f.Graph().Entry(), MaxSteps: 500,
			Inputs: map[string]constant.Value{"a.minLatency.dialer == nil": constant.MakeBool(true)},
			Event: func(nd ast.Node, ev func(ast.Expr) string) string {
				if as, ok := nd.(*ast.AssignStmt); ok && len(as.Lhs) == 1 && strings.HasSuffix(core.ExprStr(as.Lhs[0]), ".minLatency.sortingLatency") {
					return "reset"
				}
				return ""
			}}
		ok := true
		outs := job.Run()
		for _, o := range outs {
			if len(o.Events) == 0 {
				ok = false
			}
		}
		c.R.Checkf(rule, "recompute-resets-when-no-best@calcMinLatency", c.pos(f.Pos()), ok && len(outs) > 0, "with no current best node calcMinLatency (re)assigns the best latency on every path — including when the alive set is empty — so a stale latency of a dead best node never blocks the group from becoming alive again (kernel connectivity bit set when a node revives)")
	}
	// group alive callback fires on edges only
	if f := c.fn(rule, "component/outbound/dialer", "AliveDialerSet.NotifyLatencyChange"); f != nil {
		g := f.Graph()
		k := 0
		for _, p := range g.Find(func(nd ast.Node) bool {
			r := false
			ownCalls(nd, func(call *ast.CallExpr, _ bool) {
				if strings.HasSuffix(core.ExprStr(call.Fun), ".aliveChangeCallback") {
					r = true
				}
			})
			return r
		}) {
			k++
			arg := ""
			ownCalls(p.Node(), func(call *ast.CallExpr, _ bool) {
				if strings.HasSuffix(core.ExprStr(call.Fun), ".aliveChangeCallback") && len(call.Args) == 1 {
					arg = core.ExprStr(call.Args[0])
				}
			})
			okG := false
			var gs []string
			for _, gd := range g.Guards(p) {
				s := core.ExprStr(gd.Cond)
				gs = append(gs, fmt.Sprintf("%s=%v", s, gd.Polarity))
				if arg == "false" && ((s == "a.minLatency.dialer == nil" && gd.Polarity) || (s == "currentAlive" && !gd.Polarity)) {
					okG = true
				}
				if arg == "true" && s == "bakOldBestDialer == nil" && gd.Polarity {
					okG = true
				}
			}
			c.R.Checkf(rule, "group-callback-on-edge("+arg+")", c.pos(p.Node().Pos()), okG, "aliveChangeCallback(%s) is guarded by the group's best node becoming nil / having been nil (%s)", arg, strings.Join(gs, ", "))
		}
		c.R.Floor(rule+"/callback-sites", k, 3)
	}
}
