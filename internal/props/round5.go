package props

// Rules added after the fifth seeding round (DESIGN.md §9.11).

import (
	"fmt"
	"go/ast"
	"go/token"
	"go/types"
	"sort"
	"strings"

	"golang.org/x/tools/go/cfg"

	"daecheck/internal/core"
)

var (
	_ = fmt.Sprint
	_ = sort.Strings
	_ = strings.Contains
	_ = token.ADD
)

// narrowArith: a widening conversion int(x op y) (or uint32/uint64/int64/uint)
// whose operand is +, * or << computed in an 8- or 16-bit integer type with a
// non-constant operand wraps before it is widened.  The value the code wants
// is the wide result (that is why it converts); the conversion must be applied
// to the operands.  Returns the sites found (file:line rendered, expression).
type narrowSite struct {
	pos  token.Pos
	expr string
	fn   string
}

func narrowArithSites(c *Ctx, fs []*core.Func) []narrowSite {
	var out []narrowSite
	bits := func(t types.Type) int {
		b, ok := t.Underlying().(*types.Basic)
		if !ok || b.Info()&types.IsInteger == 0 {
			return 0
		}
		switch b.Kind() {
		case types.Int8, types.Uint8:
			return 8
		case types.Int16, types.Uint16:
			return 16
		case types.Int32, types.Uint32:
			return 32
		}
		return 64
	}
	for _, f := range fs {
		info := f.Info()
		ast.Inspect(f.Body, func(m ast.Node) bool {
			call, ok := m.(*ast.CallExpr)
			if !ok || len(call.Args) != 1 {
				return true
			}
			tv, ok := info.Types[call.Fun]
			if !ok || !tv.IsType() {
				return true
			}
			wb := bits(tv.Type)
			if wb == 0 {
				return true
			}
			be, ok := ast.Unparen(call.Args[0]).(*ast.BinaryExpr)
			if !ok || (be.Op != token.ADD && be.Op != token.MUL && be.Op != token.SHL) {
				return true
			}
			at := info.TypeOf(be)
			if at == nil || info.Types[be].Value != nil {
				return true
			}
			nb := bits(at)
			if nb == 0 || nb > 16 || nb >= wb {
				return true
			}
			// the result provably fits the narrow type (masked / constant operands): no wrap
			if ub, ok := upperBound(info, be); ok && ub < (uint64(1)<<uint(nb)) {
				return true
			}
			out = append(out, narrowSite{be.Pos(), core.ExprStr(call), f.Name})
			return true
		})
	}
	return out
}

// upperBound computes an upper bound of an unsigned integer expression from
// constants, masks (x & c), remainders (x % c), right shifts and sums/products
// of bounded operands; ok=false when an operand is unbounded.
func upperBound(info *types.Info, e ast.Expr) (uint64, bool) {
	e = ast.Unparen(e)
	if tv, ok := info.Types[e]; ok && tv.Value != nil {
		if v, exact := constUint(tv); exact {
			return v, true
		}
		return 0, false
	}
	switch x := e.(type) {
	case *ast.BinaryExpr:
		a, okA := upperBound(info, x.X)
		b, okB := upperBound(info, x.Y)
		switch x.Op {
		case token.AND:
			if okA && okB {
				if a < b {
					return a, true
				}
				return b, true
			}
			if okA {
				return a, true
			}
			if okB {
				return b, true
			}
		case token.REM:
			if okB && b > 0 {
				return b - 1, true
			}
		case token.SHR:
			if okA {
				return a, true
			}
		case token.ADD:
			if okA && okB && a < 1<<32 && b < 1<<32 {
				return a + b, true
			}
		case token.MUL:
			if okA && okB && a < 1<<31 && b < 1<<31 {
				return a * b, true
			}
		case token.SHL:
			if okA && okB && b < 32 && a < 1<<31 {
				return a << b, true
			}
		}
	case *ast.CallExpr:
		// conversion to a type: the bound of the operand (a narrowing conversion only lowers it)
		if tv, ok := info.Types[x.Fun]; ok && tv.IsType() && len(x.Args) == 1 {
			return upperBound(info, x.Args[0])
		}
	}
	return 0, false
}

func constUint(tv types.TypeAndValue) (uint64, bool) {
	s := tv.Value.ExactString()
	var v uint64
	if len(s) == 0 || len(s) > 18 {
		return 0, false
	}
	for _, ch := range s {
		if ch < '0' || ch > '9' {
			return 0, false
		}
		v = v*10 + uint64(ch-'0')
	}
	return v, true
}

// narrowArith arms the rule for a set of units.
func narrowArith(c *Ctx, rule string, fs []*core.Func, what string) {
	all := narrowArithSites(c, fs)
	seen := map[token.Pos]bool{}
	var sites []narrowSite
	for _, s := range all {
		if !seen[s.pos] {
			seen[s.pos] = true
			sites = append(sites, s)
		}
	}
	for _, s := range sites {
		c.R.Checkf(rule, "length-arithmetic-not-in-a-narrow-type@"+shortFn(s.fn)+"/"+nospace(s.expr), c.pos(s.pos), false,
			"%s is computed in an 8/16-bit type and only then widened: for operands near the type's maximum it wraps (e.g. a 16-bit length 0xFFFF + 2 = 1) and the wrapped value is used as a length/offset — convert the operands, not the result (%s)", s.expr, what)
	}
	c.R.Checkf(rule, "length-arithmetic-not-in-a-narrow-type", "", len(sites) == 0, "no widening conversion of an unbounded 8/16-bit sum, product or shift in %d function bodies (%s)", len(fs), what)
}

func shortFn(name string) string {
	if i := strings.LastIndex(name, "/"); i >= 0 {
		name = name[i+1:]
	}
	return name
}

// DebugNarrow prints every narrow-arithmetic site of the repo packages (survey only).
func DebugNarrow(p *core.Prog) {
	c := &Ctx{P: p}
	for _, pk := range p.RepoPkgs() {
		rel := strings.TrimPrefix(strings.TrimPrefix(pk.PkgPath, core.ModPath), "/")
		for _, s := range narrowArithSites(c, units(p, rel, nil)) {
			fmt.Println(p.Pos(s.pos), s.fn, s.expr)
		}
	}
}

// c06RangeBound: every Locator.Range / Slice / At call in the TLS walk is proved in bounds:
// the guards dominating the call (with single-definition locals substituted) entail
// hi <= L.Len() (resp. k < L.Len()) by linear reasoning.  "reads out of bounds" and
// "never panics" of the property both need it: BuiltinBytesLocator reslices up to the
// capacity of the buffer, so an unproved upper index reads bytes that are not part of
// the record, or panics when the buffer is full.
func c06RangeBound(c *Ctx) {
	const rule = "RANGEBOUND"
	n := 0
	for _, name := range []string{"extractSniFromTls", "findSniExtension"} {
		f := c.fn(rule, "component/sniffing", name)
		if f == nil {
			continue
		}
		info := f.Info()
		g := f.Graph()
		// definitions of locals: (node, right-hand side or nil when it is not a plain `v := e` / `v = e`)
		type def struct {
			node ast.Node
			rhs  ast.Expr
		}
		defs := map[types.Object][]def{}
		for _, p := range g.Find(func(nd ast.Node) bool { return true }) {
			switch s := p.Node().(type) {
			case *ast.AssignStmt:
				for i, l := range s.Lhs {
					id, ok := l.(*ast.Ident)
					if !ok {
						continue
					}
					o := info.ObjectOf(id)
					if o == nil {
						continue
					}
					var rhs ast.Expr
					if (s.Tok == token.DEFINE || s.Tok == token.ASSIGN) && len(s.Lhs) == len(s.Rhs) {
						rhs = s.Rhs[i]
					}
					defs[o] = append(defs[o], def{s, rhs})
				}
			case *ast.IncDecStmt:
				if id, ok := s.X.(*ast.Ident); ok {
					if o := info.ObjectOf(id); o != nil {
						defs[o] = append(defs[o], def{s, nil})
					}
				}
			}
		}
		for _, p := range g.Find(func(nd ast.Node) bool {
			r := false
			ownCalls(nd, func(call *ast.CallExpr, _ bool) {
				if cal := core.Callee(info, call); cal != nil && recvName(cal) == "Locator" && (cal.Name() == "At" || cal.Name() == "Range" || cal.Name() == "Slice") {
					r = true
				}
			})
			return r
		}) {
			var call *ast.CallExpr
			ownCalls(p.Node(), func(cl *ast.CallExpr, _ bool) {
				if cal := core.Callee(info, cl); cal != nil && recvName(cal) == "Locator" && (cal.Name() == "At" || cal.Name() == "Range" || cal.Name() == "Slice") {
					call = cl
				}
			})
			recv, mname, _ := methodCall(call)
			n++
			// substitution valid at this call
			env := &linEnv{info: info, subst: map[types.Object]ast.Expr{}}
			for o, ds := range defs {
				for _, d := range ds {
					if d.rhs == nil || d.node == p.Node() {
						continue
					}
					if _, isCall := ast.Unparen(d.rhs).(*ast.CallExpr); isCall {
						continue // only linear definitions are worth substituting
					}
					// the definition reaches the call on every path (it dominates the call and neither
					// the variable nor the operands of its right-hand side change in between)
					dn := d.node
					if _, _, bypass := g.ReachesAvoiding(g.Entry(), func(x ast.Node) bool { return x == dn }, func(x ast.Node) bool { return x == p.Node() }); bypass {
						continue
					}
					if stableBetween(g, info, dn, p.Node(), append(varsOfExpr(info, d.rhs), o)) {
						env.subst[o] = d.rhs
						break
					}
				}
			}
			var facts []linForm
			var shown []string
			for _, gd := range g.Guards(p) {
				be, ok := gd.Cond.(*ast.BinaryExpr)
				if !ok || !gd.Polarity || gd.Site == nil {
					continue
				}
				fct, ok := env.factOf(be)
				if !ok {
					continue
				}
				// the atom's own variables, and those of substituted definitions, must not change on the way
				vs := varsOfExpr(info, be)
				for _, o := range varsOfExpr(info, be) {
					if rhs, ok := env.subst[o]; ok {
						vs = append(vs, varsOfExpr(info, rhs)...)
					}
				}
				if !stableBetween(g, info, gd.Site, p.Node(), vs) {
					continue
				}
				facts = append(facts, fct)
				shown = append(shown, nospace(core.ExprStr(gd.Cond)))
			}
			lenForm := linForm{c: map[string]int64{nospace(core.ExprStr(recv)) + ".Len()": 1}}
			var hi ast.Expr
			target := lenForm
			if mname == "At" {
				hi = call.Args[0]
				target = lenForm.add(env.form(hi), -1).add(linForm{c: map[string]int64{}, k: 1}, -1)
			} else {
				hi = call.Args[1]
				target = lenForm.add(env.form(hi), -1)
			}
			ok := entailed(target, facts)
			c.R.Checkf(rule, "upper-index-within-length@"+name+"/"+nospace(core.ExprStr(call)), c.pos(call.Pos()), ok,
				"%s: the guards dominating the call (%s) entail that the upper index %s stays within %s.Len() — otherwise the locator reslices into bytes beyond the record (up to the buffer's capacity) or panics", core.ExprStr(call), strings.Join(shown, ", "), core.ExprStr(hi), core.ExprStr(recv))
		}
	}
	c.R.Floor(rule, n, 9)
}

// keyFromAs16: the bytes handed to Ipv6ByteSliceToUint32Array for a domain_routing_map key are
// the whole 16-byte (IPv4-mapped) form of one address: the array is only ever assigned as a whole
// from netip.Addr.As16() and never written element-wise (a partially refreshed scratch array keeps
// bytes of the previous address).
func keyFromAs16(c *Ctx, rule string) {
	f := c.fn(rule, "control", "buildDomainRoutingOwnerSnapshot")
	if f == nil {
		return
	}
	info := f.Info()
	n, ok := 0, true
	detail := ""
	for _, call := range f.FindCalls(core.ParseRefs("common.Ipv6ByteSliceToUint32Array")) {
		n++
		if len(call.Args) != 1 {
			ok = false
			continue
		}
		arg := ast.Unparen(call.Args[0])
		if se, isSl := arg.(*ast.SliceExpr); isSl {
			if se.Low != nil || se.High != nil {
				ok, detail = false, "the key is a sub-slice "+core.ExprStr(arg)
			}
			arg = ast.Unparen(se.X)
		}
		id, isId := arg.(*ast.Ident)
		if !isId {
			// directly ip.As16()[:] is not addressable; anything else is not understood
			ok, detail = false, "the key bytes are "+core.ExprStr(arg)
			continue
		}
		obj := info.ObjectOf(id)
		whole := 0
		ast.Inspect(f.Body, func(m ast.Node) bool {
			switch s := m.(type) {
			case *ast.AssignStmt:
				for i, l := range s.Lhs {
					if core.RootObj(info, l) != obj {
						continue
					}
					if lid, isIdent := ast.Unparen(l).(*ast.Ident); isIdent && info.ObjectOf(lid) == obj {
						var rhs ast.Expr
						if len(s.Rhs) == len(s.Lhs) {
							rhs = s.Rhs[i]
						}
						cl, isCall := ast.Unparen(rhs).(*ast.CallExpr)
						if isCall {
							if cal := core.Callee(info, cl); cal != nil && cal.Name() == "As16" {
								whole++
								continue
							}
						}
						ok, detail = false, fmt.Sprintf("%s is assigned from %s", id.Name, core.ExprStr(rhs))
					} else {
						ok, detail = false, fmt.Sprintf("%s is written element-wise (%s)", id.Name, core.ExprStr(l))
					}
				}
			case *ast.CallExpr:
				if fid, isB := s.Fun.(*ast.Ident); isB && fid.Name == "copy" && len(s.Args) == 2 && core.RootObj(info, sliceBase(s.Args[0])) == obj {
					ok, detail = false, fmt.Sprintf("%s is filled by copy(%s, …)", id.Name, core.ExprStr(s.Args[0]))
				}
			case *ast.UnaryExpr:
				if s.Op == token.AND && core.RootObj(info, s.X) == obj {
					ok, detail = false, fmt.Sprintf("the address of %s is taken", id.Name)
				}
			}
			return true
		})
		if whole == 0 {
			ok = false
			if detail == "" {
				detail = id.Name + " is never assigned from As16()"
			}
		}
	}
	c.R.Checkf(rule, "key-is-mapped-16-byte-form", c.pos(f.Pos()), ok && n >= 1, "domain_routing_map keys are the whole 16-byte (IPv4-mapped) form of one address as four native-order words, as the kernel copies them: the byte array is assigned only as a whole from Addr.As16() and never written element-wise%s", func() string {
		if detail == "" {
			return ""
		}
		return " — " + detail
	}())
}

func sliceBase(e ast.Expr) ast.Expr {
	if se, ok := ast.Unparen(e).(*ast.SliceExpr); ok {
		return se.X
	}
	return e
}

// c07AnswerAddrsForEveryQtype: in ResponseSelect the loop that collects the addresses of the
// answer section runs for every question type — response rules `ip(...)` see the addresses of
// an ANY / HTTPS / CNAME answer too.  The append of an address is dominated by no test of the
// question type.
func c07AnswerAddrsForEveryQtype(c *Ctx, rule string, f *core.Func) {
	info := f.Info()
	g := f.Graph()
	n, bad := 0, ""
	for _, p := range g.Find(func(nd ast.Node) bool {
		as, ok := nd.(*ast.AssignStmt)
		if !ok || len(as.Rhs) != 1 {
			return false
		}
		call, ok := ast.Unparen(as.Rhs[0]).(*ast.CallExpr)
		if !ok {
			return false
		}
		id, ok := call.Fun.(*ast.Ident)
		if !ok || id.Name != "append" || len(call.Args) < 2 {
			return false
		}
		t := info.TypeOf(call.Args[1])
		return t != nil && strings.HasSuffix(t.String(), "netip.Addr")
	}) {
		n++
		for _, gd := range g.Guards(p) {
			mentions := false
			ast.Inspect(gd.Cond, func(m ast.Node) bool {
				switch x := m.(type) {
				case *ast.SelectorExpr:
					if x.Sel.Name == "Qtype" {
						mentions = true
					}
				case *ast.Ident:
					if o := info.ObjectOf(x); o != nil {
						if v, ok := o.(*types.Var); ok && !v.IsField() && strings.EqualFold(core.CanonName(o), "qtype") {
							mentions = true
						}
						// any local defined from a .Qtype selector
						if v, ok := o.(*types.Var); ok && !v.IsField() && definedFromQtype(info, f.Body, v) {
							mentions = true
						}
					}
				}
				return true
			})
			if mentions && bad == "" {
				bad = fmt.Sprintf("the collection at %s is conditional on %s", c.pos(p.Node().Pos()), core.ExprStr(gd.Cond))
			}
		}
	}
	c.R.Checkf(rule, "answer-addresses-collected-for-every-question-type@"+shortFn(f.Name), c.pos(f.Pos()), bad == "" && n >= 1,
		"the addresses of the answer section are collected whatever the question type (%d collection site(s))%s", n, func() string {
			if bad != "" {
				return " — VIOLATED: " + bad + ": an answer to a non-address question (ANY, HTTPS, CNAME …) that carries A/AAAA records is then matched by ip(...) response rules as if it had no address"
			}
			return ""
		}())
}

func definedFromQtype(info *types.Info, body ast.Node, v *types.Var) bool {
	found := false
	ast.Inspect(body, func(m ast.Node) bool {
		as, ok := m.(*ast.AssignStmt)
		if !ok || len(as.Lhs) != len(as.Rhs) {
			return true
		}
		for i, l := range as.Lhs {
			if id, ok := l.(*ast.Ident); ok && info.ObjectOf(id) == v {
				if se, ok := ast.Unparen(as.Rhs[i]).(*ast.SelectorExpr); ok && se.Sel.Name == "Qtype" {
					found = true
				}
			}
		}
		return true
	})
	return found
}

// c07UpstreamRegisteredBeforeUse: GetUpstream hands out a freshly built upstream only after the
// ready callback ran for it (Dns.New registers the upstream's identity for response routing in
// that callback); the only path that may skip the call is the one on which no callback is set.
func c07UpstreamRegisteredBeforeUse(c *Ctx, rule string) {
	f := c.fn(rule, "component/dns", "UpstreamResolver.GetUpstream")
	if f == nil {
		return
	}
	info := f.Info()
	g := f.Graph()
	isCb := func(nd ast.Node) bool {
		r := false
		ownCalls(nd, func(call *ast.CallExpr, _ bool) {
			if se, ok := call.Fun.(*ast.SelectorExpr); ok && se.Sel.Name == "FinishInitCallback" {
				r = true
			}
		})
		return r
	}
	// the freshly built upstream: defined by a call whose first result is *Upstream and second an error
	var created []core.Point
	var obj types.Object
	for _, p := range g.Find(func(nd ast.Node) bool {
		as, ok := nd.(*ast.AssignStmt)
		if !ok || len(as.Lhs) != 2 || len(as.Rhs) != 1 {
			return false
		}
		if _, ok := ast.Unparen(as.Rhs[0]).(*ast.CallExpr); !ok {
			return false
		}
		t := info.TypeOf(as.Lhs[0])
		return t != nil && strings.HasSuffix(t.String(), "dns.Upstream")
	}) {
		created = append(created, p)
		if id, ok := p.Node().(*ast.AssignStmt).Lhs[0].(*ast.Ident); ok {
			obj = info.ObjectOf(id)
		}
	}
	bad := ""
	for _, p := range created {
		// exits that return the fresh upstream without having passed the callback, other than via the "no callback set" edge
		ex := g.ExitsAvoidingE(p.After(), isCb, func(from *cfg.Block, si int) bool {
			cond, _, _, ok := g.Cond(from)
			if !ok {
				return true
			}
			for _, at := range core.Atoms(cond, si == 0) {
				if be, isB := at.Cond.(*ast.BinaryExpr); isB && at.Polarity && be.Op == token.EQL && strings.HasSuffix(core.ExprStr(be.X), ".FinishInitCallback") && core.ExprStr(be.Y) == "nil" {
					return false // the edge on which there is no callback: nothing to run
				}
			}
			return true
		})
		for _, w := range ex {
			// only exits that return the fresh object matter
			var rs *ast.ReturnStmt
			for _, nd := range w.Block.Nodes {
				if r, ok := nd.(*ast.ReturnStmt); ok {
					rs = r
				}
			}
			if rs == nil || len(rs.Results) == 0 {
				continue
			}
			if id, ok := ast.Unparen(rs.Results[0]).(*ast.Ident); ok && obj != nil && info.ObjectOf(id) == obj && bad == "" {
				bad = fmt.Sprintf("the return at %s hands out the fresh upstream on a path (lines %s) that did not run FinishInitCallback", c.pos(rs.Pos()), traceStr(c.P, w.Trace))
			}
		}
	}
	c.R.Checkf(rule, "fresh-upstream-is-registered-before-it-is-returned@GetUpstream", c.pos(f.Pos()), bad == "" && len(created) >= 1,
		"every path that returns a freshly initialised upstream ran the ready callback for it (%d creation site(s))%s", len(created), func() string {
			if bad != "" {
				return " — VIOLATED: " + bad + ": response routing identifies the answering upstream by the object registered in that callback; an unregistered one counts as `asis` and upstream(...) response rules do not fire"
			}
			return ""
		}())
}

// c08ScopeByUpstreamIdentity: for an ordinary upstream the response-cache scope is the upstream's
// identity (its String()), not its position in the configuration: the cache survives a reload, positions do not.
func c08ScopeByUpstreamIdentity(c *Ctx, rule string) {
	f := c.fn(rule, "control", "DnsController.responseCacheScope")
	if f == nil {
		return
	}
	info := f.Info()
	g := f.Graph()
	var up types.Object
	if f.Type != nil {
		for _, fld := range f.Type.Params.List {
			for _, nm := range fld.Names {
				if t := info.TypeOf(nm); t != nil && strings.HasSuffix(t.String(), "dns.Upstream") {
					up = info.ObjectOf(nm)
				}
			}
		}
	}
	nById, bad := 0, ""
	for _, p := range g.Find(func(nd ast.Node) bool { _, ok := nd.(*ast.ReturnStmt); return ok }) {
		rs := p.Node().(*ast.ReturnStmt)
		if len(rs.Results) != 1 {
			continue
		}
		nonNil := false
		for _, gd := range g.Guards(p) {
			if be, ok := gd.Cond.(*ast.BinaryExpr); ok && gd.Polarity && be.Op == token.NEQ {
				for _, pr := range [][2]ast.Expr{{be.X, be.Y}, {be.Y, be.X}} {
					if id, ok := ast.Unparen(pr[0]).(*ast.Ident); ok && up != nil && info.ObjectOf(id) == up && core.ExprStr(pr[1]) == "nil" {
						nonNil = true
					}
				}
			}
		}
		usesIdentity := false
		ast.Inspect(rs.Results[0], func(m ast.Node) bool {
			if call, ok := m.(*ast.CallExpr); ok {
				if recv, name, isM := methodCall(call); isM && name == "String" {
					if id, ok := ast.Unparen(recv).(*ast.Ident); ok && info.ObjectOf(id) == up {
						usesIdentity = true
					}
				}
			}
			return true
		})
		if nonNil {
			if usesIdentity {
				nById++
			} else if bad == "" {
				bad = fmt.Sprintf("the return at %s (upstream known) yields %s", c.pos(rs.Pos()), core.ExprStr(rs.Results[0]))
			}
		}
	}
	c.R.Checkf(rule, "upstream-scope-is-the-upstreams-identity@responseCacheScope", c.pos(f.Pos()), bad == "" && nById >= 1 && up != nil,
		"when the answering upstream is known the cache scope is built from its identity, upstream.String() (%d such return(s))%s", nById, func() string {
			if bad != "" {
				return " — VIOLATED: " + bad
			}
			if nById == 0 {
				return " — VIOLATED: no return on the `upstream != nil` edge uses upstream.String(): a scope made of the upstream's position is re-used for another server after a reload that reorders or edits dns.upstream (the cache and its keys survive the reload)"
			}
			return ""
		}())
}

// c08FixedTtlForEveryConfiguredValue: a configured fixed_domain_ttl is applied whenever the name is in the
// table — including the documented value 0 ("do not cache"): the deadline computed from it is guarded by the
// table lookup only, not by a test of the value.
func c08FixedTtlForEveryConfiguredValue(c *Ctx, rule string) {
	n, bad := 0, ""
	for _, u := range units(c.P, "control", func(f string) bool { return strings.HasPrefix(f, "dns_control") }) {
		info := u.Info()
		g := u.Graph()
		// v, ok := <x>.fixedDomainTtl[...]
		for _, p := range g.Find(func(nd ast.Node) bool {
			as, ok := nd.(*ast.AssignStmt)
			if !ok || len(as.Lhs) != 2 || len(as.Rhs) != 1 {
				return false
			}
			ix, ok := ast.Unparen(as.Rhs[0]).(*ast.IndexExpr)
			return ok && strings.HasSuffix(core.FieldOf(info, ix.X), ".fixedDomainTtl")
		}) {
			as := p.Node().(*ast.AssignStmt)
			vid, ok := as.Lhs[0].(*ast.Ident)
			if !ok {
				continue
			}
			vobj := info.ObjectOf(vid)
			// the condition this lookup is the init of, and every condition, must not test the value
			n++
			ast.Inspect(u.Body, func(m ast.Node) bool {
				is, ok := m.(*ast.IfStmt)
				if !ok {
					return true
				}
				uses := false
				ast.Inspect(is.Cond, func(k ast.Node) bool {
					if id, ok := k.(*ast.Ident); ok && info.ObjectOf(id) == vobj {
						uses = true
					}
					return true
				})
				if uses && bad == "" {
					bad = fmt.Sprintf("%s tests the configured value: %s at %s", u.Name, core.ExprStr(is.Cond), c.pos(is.Pos()))
				}
				return true
			})
		}
	}
	c.R.Checkf(rule, "fixed-ttl-applied-for-every-configured-value", "control/dns_control.go", bad == "" && n >= 1,
		"where a name's fixed_domain_ttl is looked up (%d site(s)) the value is applied on the lookup's success alone%s", n, func() string {
			if bad != "" {
				return " — VIOLATED: " + bad + ": the documented value 0 (ask the upstream every time) then falls through to the upstream TTL and the answer is served from the cache"
			}
			return ""
		}())
}

// c09TimeoutClosesPipelinedConn: a pipelined (TCP/TLS) upstream connection on which a query timed out or was
// cancelled is closed unconditionally: its pipeline id is freed for the next query, and a late answer to the
// abandoned query would be delivered to that next query.
func c09TimeoutClosesPipelinedConn(c *Ctx, rule string) {
	f := c.fn(rule, "control", "pipelinedConn.RoundTrip")
	if f == nil {
		return
	}
	info := f.Info()
	g := f.Graph()
	n, bad := 0, ""
	for _, p := range g.Find(func(nd ast.Node) bool {
		r := false
		ownCalls(nd, func(call *ast.CallExpr, deferred bool) {
			if recv, name, isM := methodCall(call); isM && name == "Close" && !deferred {
				if id, ok := ast.Unparen(recv).(*ast.Ident); ok {
					if t := info.TypeOf(id); t != nil && strings.HasSuffix(t.String(), "pipelinedConn") {
						r = true
					}
				}
			}
		})
		return r
	}) {
		onCtxErr := false
		var extra []string
		// only the conditions decided after the wait for the answer matter (earlier ones admitted the query)
		var waitPos token.Pos
		ast.Inspect(f.Body, func(m ast.Node) bool {
			if call, ok := m.(*ast.CallExpr); ok {
				if _, name, isM := methodCall(call); isM && name == "get" && len(call.Args) == 1 {
					waitPos = call.Pos()
				}
			}
			return true
		})
		for _, gd := range g.Guards(p) {
			if gd.Site != nil && gd.Site.Pos() < waitPos {
				continue
			}
			s := core.ExprStr(gd.Cond)
			switch {
			case strings.Contains(s, "context.DeadlineExceeded") || strings.Contains(s, "context.Canceled"):
				if gd.Polarity {
					onCtxErr = true
				}
			case isNilCmpOf(gd.Cond, "err"):
			default:
				extra = append(extra, s)
			}
		}
		if !onCtxErr {
			continue
		}
		n++
		if len(extra) > 0 && bad == "" {
			bad = fmt.Sprintf("the close at %s is additionally conditional on %s", c.pos(p.Node().Pos()), strings.Join(extra, ", "))
		}
	}
	c.R.Checkf(rule, "timed-out-query-closes-the-pipelined-connection@RoundTrip", c.pos(f.Pos()), bad == "" && n >= 1,
		"after a deadline/cancel error the connection is closed on every path (%d close site(s) on that edge)%s", n, func() string {
			if bad != "" {
				return " — VIOLATED: " + bad + ": the abandoned query's id is handed to the next query on the surviving connection and the late answer is delivered to it"
			}
			if n == 0 {
				return " — VIOLATED: no close on the deadline/cancel edge"
			}
			return ""
		}())
}

// makeCapCoversLen: a three-argument make(T, len, cap) panics when len > cap.  Every such call in the
// given units has a capacity that provably covers its length: the length is the constant 0, the capacity
// is the length plus a non-negative constant, max(len, …), or the dominating guards entail cap >= len.
func makeCapCoversLen(c *Ctx, rule string, fs []*core.Func, what string) int {
	n := 0
	seen := map[token.Pos]bool{}
	for _, f := range fs {
		info := f.Info()
		g := f.Graph()
		for _, p := range g.Find(func(nd ast.Node) bool {
			r := false
			ownCalls(nd, func(call *ast.CallExpr, _ bool) {
				if id, ok := call.Fun.(*ast.Ident); ok && id.Name == "make" && len(call.Args) == 3 {
					if _, isB := info.Uses[id].(*types.Builtin); isB {
						r = true
					}
				}
			})
			return r
		}) {
			var call *ast.CallExpr
			ownCalls(p.Node(), func(cl *ast.CallExpr, _ bool) {
				if id, ok := cl.Fun.(*ast.Ident); ok && id.Name == "make" && len(cl.Args) == 3 {
					call = cl
				}
			})
			if call == nil || seen[call.Pos()] {
				continue
			}
			seen[call.Pos()] = true
			n++
			l, cp := call.Args[1], call.Args[2]
			env := &linEnv{info: info}
			ok := false
			if tv, has := info.Types[l]; has && tv.Value != nil && tv.Value.String() == "0" {
				ok = true
			}
			target := env.form(cp).add(env.form(l), -1)
			if target.isConst() && target.k >= 0 {
				ok = true
			}
			if mc, isCall := ast.Unparen(cp).(*ast.CallExpr); isCall {
				if id, isId := mc.Fun.(*ast.Ident); isId && id.Name == "max" {
					for _, a := range mc.Args {
						d := env.form(a).add(env.form(l), -1)
						if d.isConst() && d.k >= 0 {
							ok = true
						}
					}
				}
			}
			if !ok {
				var facts []linForm
				for _, gd := range g.Guards(p) {
					if be, isB := gd.Cond.(*ast.BinaryExpr); isB && gd.Polarity {
						if fct, good := env.factOf(be); good {
							facts = append(facts, fct)
						}
					}
				}
				ok = entailed(target, facts)
			}
			c.R.Checkf(rule, "make-capacity-covers-length@"+shortFn(f.Name)+"/"+nospace(core.ExprStr(call)), c.pos(call.Pos()), ok,
				"%s: the capacity is provably at least the length (make panics otherwise; %s)", core.ExprStr(call), what)
		}
	}
	return n
}

// c15RestoreNotifiesEverySet: RestoreHealthSnapshot tells the alive sets about every restored domain — also the
// ones whose alive flag did not change: the inherited latency samples reach a min-latency set only through
// NotifyLatencyChange.  (The edge-triggered part is the alive-transition callback, not this call.)
func c15RestoreNotifiesEverySet(c *Ctx, rule string) {
	f := c.fn(rule, "component/outbound/dialer", "Dialer.RestoreHealthSnapshot")
	if f == nil {
		return
	}
	info := f.Info()
	g := f.Graph()
	n, bad := 0, ""
	for _, p := range g.Find(nodeCalls(info, "component/outbound/dialer.AliveDialerSet.NotifyLatencyChange")) {
		n++
		for _, gd := range g.Guards(p) {
			uses := false
			ast.Inspect(gd.Cond, func(m ast.Node) bool {
				if se, ok := m.(*ast.SelectorExpr); ok && (se.Sel.Name == "was" || strings.EqualFold(se.Sel.Name, "wasAlive")) {
					uses = true
				}
				return true
			})
			if uses && bad == "" {
				bad = fmt.Sprintf("the notification at %s is conditional on %s", c.pos(p.Node().Pos()), core.ExprStr(gd.Cond))
			}
		}
	}
	c.R.Checkf(rule, "restore-notifies-the-sets-of-every-restored-domain@RestoreHealthSnapshot", c.pos(f.Pos()), bad == "" && n >= 1,
		"every restored domain is announced to its alive sets, whether or not its alive flag changed (%d call site(s))%s", n, func() string {
			if bad != "" {
				return " — VIOLATED: " + bad + ": a node alive in both generations never hands its inherited latencies to the new group's min-latency set, which keeps its first node for a whole check interval"
			}
			return ""
		}())
}

// c16TrafficRevivalUnconditional: successful data-UDP traffic revives a dead data-UDP domain whatever its failure
// streak is (a domain restored dead from a reload snapshot has a zero streak): the markAvailableTraffic call of
// ReportAvailableTraffic is not conditional on the traffic failure counter.
func c16TrafficRevivalUnconditional(c *Ctx, rule string) {
	f := c.fn(rule, "component/outbound/dialer", "Dialer.ReportAvailableTraffic")
	if f == nil {
		return
	}
	info := f.Info()
	g := f.Graph()
	n, bad := 0, ""
	for _, p := range g.Find(nodeCalls(info, "component/outbound/dialer.Dialer.markAvailableTraffic")) {
		n++
		for _, gd := range g.Guards(p) {
			s := core.ExprStr(gd.Cond)
			if (strings.Contains(s, "FailCount") || strings.Contains(s, "failCount")) && bad == "" {
				bad = fmt.Sprintf("the revival at %s is conditional on %s", c.pos(p.Node().Pos()), s)
			}
		}
	}
	c.R.Checkf(rule, "traffic-success-revives-whatever-the-streak@ReportAvailableTraffic", c.pos(f.Pos()), bad == "" && n >= 1,
		"successful data-UDP traffic marks a dead data-UDP domain alive independently of the failure counters (%d revival site(s))%s", n, func() string {
			if bad != "" {
				return " — VIOLATED: " + bad + ": a domain inherited dead over a reload (counters zeroed, alive=false) or killed through the probe counter has a zero traffic streak and is never revived by traffic, its only way back"
			}
			return ""
		}())
}

// c16IndexToTypeTotal: every collection slot (the Idx* constants, including the two DNS-over-TCP alias slots)
// maps to a network type: networkTypeForCollectionIndex has a case for each, directly or through
// HealthKeyFromCollectionIndex.  A slot without a type loses its alive-transition callback on restore.
func c16IndexToTypeTotal(c *Ctx, rule string) {
	f := c.fn(rule, "component/outbound/dialer", "networkTypeForCollectionIndex")
	h := c.fn(rule, "component/outbound/dialer", "HealthKeyFromCollectionIndex")
	if f == nil || h == nil {
		return
	}
	pk := c.P.Pkg("component/outbound/dialer")
	all := map[string]string{}
	for _, nm := range pk.Types.Scope().Names() {
		if cst, ok := pk.Types.Scope().Lookup(nm).(*types.Const); ok && strings.HasPrefix(nm, "Idx") {
			all[cst.Val().ExactString()] = nm
		}
	}
	covered := map[string]bool{}
	collect := func(fn *core.Func) {
		info := fn.Info()
		ast.Inspect(fn.Body, func(m ast.Node) bool {
			if cc, ok := m.(*ast.CaseClause); ok {
				for _, e := range cc.List {
					if tv, ok := info.Types[e]; ok && tv.Value != nil {
						covered[tv.Value.ExactString()] = true
					}
				}
			}
			if be, ok := m.(*ast.BinaryExpr); ok && be.Op == token.EQL {
				for _, e := range []ast.Expr{be.X, be.Y} {
					if tv, ok := info.Types[e]; ok && tv.Value != nil {
						covered[tv.Value.ExactString()] = true
					}
				}
			}
			return true
		})
	}
	collect(f)
	if len(f.FindCalls(core.ParseRefs("component/outbound/dialer.HealthKeyFromCollectionIndex"))) > 0 {
		collect(h)
	}
	var miss []string
	for v, nm := range all {
		if !covered[v] {
			miss = append(miss, nm)
		}
	}
	sort.Strings(miss)
	c.R.Checkf(rule, "every-collection-slot-has-a-network-type@networkTypeForCollectionIndex", c.pos(f.Pos()), len(miss) == 0 && len(all) >= 8,
		"each of the %d collection slots (Idx*) is mapped to a network type%s", len(all), func() string {
			if len(miss) > 0 {
				return fmt.Sprintf(" — VIOLATED: no case for %v: the restore walks the alias slots first and delivers the TCP transition through them; with no type the transition is swallowed and no callback fires", miss)
			}
			return ""
		}())
}

// c17RequiredCheckedOnEverySuccess: ParamParser returns success only after the loop that rejects a missing
// `required` key has run — an early successful return (e.g. for an empty section body) accepts a section
// without its required keys.
func c17RequiredCheckedOnEverySuccess(c *Ctx, rule string) {
	f := c.fn(rule, "config", "ParamParser")
	if f == nil {
		return
	}
	info := f.Info()
	var loopX ast.Expr
	ast.Inspect(f.Body, func(m ast.Node) bool {
		rs, ok := m.(*ast.RangeStmt)
		if !ok {
			return true
		}
		has := false
		ast.Inspect(rs.Body, func(k ast.Node) bool {
			if call, ok := k.(*ast.CallExpr); ok {
				if _, name, isM := methodCall(call); isM && name == "Lookup" && len(call.Args) == 1 {
					if tv, ok := info.Types[call.Args[0]]; ok && tv.Value != nil && strings.Contains(tv.Value.ExactString(), "required") {
						has = true
					}
				}
			}
			return true
		})
		if has {
			loopX = rs.X
		}
		return true
	})
	if loopX == nil {
		c.R.Checkf(rule, "required-keys-checked-before-every-success@ParamParser", c.pos(f.Pos()), false, "no loop testing the `required` tag found in ParamParser: rule lost its anchor")
		return
	}
	isNilRet := func(nd ast.Node) bool {
		rs, ok := nd.(*ast.ReturnStmt)
		if !ok || len(rs.Results) != 1 {
			return false
		}
		id, ok := ast.Unparen(rs.Results[0]).(*ast.Ident)
		return ok && id.Name == "nil"
	}
	c.dominated(rule, "required-keys-checked-before-every-success@ParamParser", f, isNilRet, func(nd ast.Node) bool { return nd == ast.Node(loopX) }, "a successful return of ParamParser", "the loop that rejects a missing required key")
}

// c17IncludeOrderKept: the list of files an include expands to keeps the order in which the user listed the
// patterns (and the glob order inside one pattern): it is built by appending only, never sorted or compacted.
func c17IncludeOrderKept(c *Ctx, rule string) {
	f := c.fn(rule, "config", "unsqueezeEntries")
	if f == nil {
		return
	}
	info := f.Info()
	bad := ""
	core.EachCall(f.Body, core.Deep, func(call *ast.CallExpr) {
		cal := core.Callee(info, call)
		if cal == nil || cal.Pkg() == nil {
			return
		}
		p := cal.Pkg().Path()
		if (p == "sort" || p == "slices") && bad == "" {
			switch cal.Name() {
			case "Sort", "SortFunc", "SortStableFunc", "Strings", "Slice", "SliceStable", "Stable", "Compact", "CompactFunc", "Reverse":
				bad = fmt.Sprintf("%s.%s at %s", p, cal.Name(), c.pos(call.Pos()))
			}
		}
	})
	c.R.Checkf(rule, "include-expansion-keeps-listed-order@unsqueezeEntries", c.pos(f.Pos()), bad == "",
		"the expanded include list is neither sorted nor compacted%s", func() string {
			if bad != "" {
				return " — VIOLATED: " + bad + ": included files are then merged in lexical instead of listed order (rules and nodes of included files come out permuted)"
			}
			return ""
		}())
}

// loopCarriedState lists the variables declared outside the first range loop over `over` in f and assigned inside it.
func loopCarriedState(f *core.Func, isLoop func(*ast.RangeStmt) bool) (carried []string, found bool) {
	info := f.Info()
	var loop *ast.RangeStmt
	ast.Inspect(f.Body, func(m ast.Node) bool {
		if rs, ok := m.(*ast.RangeStmt); ok && loop == nil && isLoop(rs) {
			loop = rs
		}
		return true
	})
	if loop == nil {
		return nil, false
	}
	set := map[string]bool{}
	note := func(l ast.Expr) {
		id, ok := ast.Unparen(l).(*ast.Ident)
		if !ok || id.Name == "_" {
			return
		}
		o := info.ObjectOf(id)
		if o == nil || (o.Pos() >= loop.Pos() && o.Pos() <= loop.End()) {
			return
		}
		if v, ok := o.(*types.Var); ok && !v.IsField() && v.Parent() != v.Pkg().Scope() {
			set[core.CanonName(o)] = true
		}
	}
	ast.Inspect(loop.Body, func(m ast.Node) bool {
		switch s := m.(type) {
		case *ast.AssignStmt:
			for _, l := range s.Lhs {
				note(l)
			}
		case *ast.IncDecStmt:
			note(s.X)
		}
		return true
	})
	for k := range set {
		carried = append(carried, k)
	}
	sort.Strings(carried)
	return carried, true
}

// scanIsStateless: the only state the rule scan carries from one match set to the next is the scan automaton's
// (good sub-rule, bad rule, must): every predicate is evaluated afresh for its own entry.  A memo of an earlier
// entry's result (e.g. the last LPM probe keyed by set index) answers a later entry with another operand's result.
func scanIsStateless(c *Ctx, rule string, rel, fn string, allowed []string) {
	f := c.fn(rule, rel, fn)
	if f == nil {
		return
	}
	info := f.Info()
	carried, ok := loopCarriedState(f, func(rs *ast.RangeStmt) bool {
		t := info.TypeOf(rs.X)
		return t != nil && (strings.Contains(t.String(), "compiledRoutingMatch") || strings.Contains(t.String(), "MatchSet") || strings.Contains(t.String(), "matchSet"))
	})
	allow := map[string]bool{}
	for _, a := range allowed {
		allow[a] = true
	}
	var extra []string
	for _, v := range carried {
		if !allow[v] {
			extra = append(extra, v)
		}
	}
	c.R.Checkf(rule, "scan-carries-only-the-automaton-state@"+fn, c.pos(f.Pos()), ok && len(extra) == 0,
		"the loop over the match sets assigns no variable declared outside it other than the scan state %v (carried: %v)%s", allowed, carried, func() string {
			if len(extra) > 0 {
				return fmt.Sprintf(" — VIOLATED: %v outlive(s) an iteration: a result remembered from an earlier match set is applied to a later one (the kernel evaluates every entry afresh)", extra)
			}
			if !ok {
				return " — loop over the match sets not found: rule lost its anchor"
			}
			return ""
		}())
}

// c06HostFromHeadLine: sniffHTTPHostHeader reports a name only from a header line of the request head: every
// successful return is reached past the end-of-headers test (an empty line stops the walk) and on the edge where
// the field name compared equal to "host" (case-insensitively).  A search over the whole buffer finds "Host:" in a
// body or in a pipelined second request.
func c06HostFromHeadLine(c *Ctx, rule string) {
	f := c.fn(rule, "component/sniffing", "sniffHTTPHostHeader")
	if f == nil {
		return
	}
	info := f.Info()
	g := f.Graph()
	n, bad := 0, ""
	for _, p := range g.Find(func(nd ast.Node) bool {
		rs, ok := nd.(*ast.ReturnStmt)
		if !ok || len(rs.Results) != 2 {
			return false
		}
		id, ok := ast.Unparen(rs.Results[1]).(*ast.Ident)
		return ok && id.Name == "nil"
	}) {
		n++
		pastEnd, onHost := false, false
		for _, gd := range g.Guards(p) {
			if be, ok := gd.Cond.(*ast.BinaryExpr); ok && gd.Polarity {
				if call, isCall := ast.Unparen(be.X).(*ast.CallExpr); isCall {
					if id, isId := call.Fun.(*ast.Ident); isId && id.Name == "len" && len(call.Args) == 1 {
						if tv, has := info.Types[be.Y]; has && tv.Value != nil && tv.Value.String() == "0" && (be.Op == token.NEQ || be.Op == token.GTR) {
							if t := info.TypeOf(call.Args[0]); t != nil && t.String() == "[]byte" {
								pastEnd = true
							}
						}
					}
				}
			}
			if call, ok := ast.Unparen(gd.Cond).(*ast.CallExpr); ok && gd.Polarity {
				if cal := core.Callee(info, call); cal != nil && cal.Pkg() != nil && cal.Pkg().Path() == "bytes" && (cal.Name() == "EqualFold" || cal.Name() == "Equal") {
					onHost = true
				}
			}
		}
		if !(pastEnd && onHost) && bad == "" {
			bad = fmt.Sprintf("the return at %s is not behind the end-of-headers test and the field-name comparison (past end-of-headers test: %v, on field-name match: %v)", c.pos(p.Node().Pos()), pastEnd, onHost)
		}
	}
	c.R.Checkf(rule, "host-is-taken-from-a-line-of-the-head@sniffHTTPHostHeader", c.pos(f.Pos()), bad == "" && n >= 1,
		"every name the HTTP sniffer reports comes from a header line before the empty line, whose field name compared equal to host (%d successful return(s))%s", n, func() string {
			if bad != "" {
				return " — VIOLATED: " + bad + ": a name found anywhere else in the buffer (body, pipelined request) is not the name the request carries"
			}
			return ""
		}())
}
