package props

import (
	"fmt"
	"go/ast"
	"go/constant"
	"go/token"
	"go/types"
	"sort"
	"strings"

	"daecheck/internal/core"
	"daecheck/internal/fdt"
)

func init() {
	register(&Checker{ID: "C15", Run: runC15, Explain: "Structural necessary conditions of 'a group picks only nodes it believes alive, by the set policy', decided on the type-checked source of component/outbound: " +
		"(1) CHAIN: the fallback chain of selectionNetworkTypes as a function of (fixed policy, protocol, UDP health domain), extracted by constant propagation, is [requested] except for data UDP where it is [data-UDP, DNS-UDP same family, TCP same family]; every fallback loop of _select consults the alive set of the chain element of the current iteration, in order, and reports 'no alive node' only after the loop; the other-family retry is guarded by !strictIpVersion, the single-node last resort by len(Dialers)==1 with fixed(0); " +
		"(2) POLICYEXH: every selection policy constant has a case in _select and policyNeedsAliveState, defaults are errors, the fixed index is range-checked before use; (3) EXCLUDED: the excluded node is threaded to every getter and compared before any candidate is chosen; " +
		"(4) COMUT: every write of the alive-entry list happens under the set's mutex together with the index map write for the added/moved/removed node; (5) ALIVEONLY: the getters only return nodes read from the alive-entry list or the current best. " +
		"(6) TOLERANCE: the latency-update step of NotifyLatencyChange and the take-over test of the rescan, folded over every ordering cell of (new latency, current latency, tolerance) x alive x is-current-choice, take over / rescan / clear as the statement requires and agree with each other. " +
		"(7) OFFSET: wherever a raw latency snapshot becomes a sorting latency the offset of the same node is added; the control plane's dial path passes its excluded node to every selection call. " +
		"Not decided: latency arithmetic (averages), the scan loop's minimum, behaviour over histories beyond one update step. The group-level 'no best node => latency reset' invariant is decided under C16/GROUPBIT."})
}

func runC15(c *Ctx) {
	c15Chain(c)
	c15PolicyExh(c)
	c15Excluded(c)
	c15Comut(c)
	c15Tolerance(c)
	c15Offset(c)
	c15ExcludedDial(c)
	c15Round3(c)
	c15RestoreNotifiesEverySet(c, "OFFSET")
}

func c15Chain(c *Ctx) {
	const rule = "CHAIN"
	f := c.fn(rule, "component/outbound", "DialerGroup.selectionNetworkTypes")
	if f != nil {
		info := f.Info()
		var cond ast.Expr
		ast.Inspect(f.Body, func(m ast.Node) bool {
			if is, ok := m.(*ast.IfStmt); ok && cond == nil {
				cond = is.Cond
			}
			return true
		})
		atoms := []string{}
		if cond != nil {
			for _, a := range core.AtomsRaw(cond, false) {
				atoms = append(atoms, core.ExprStr(a.Cond))
			}
		}
		okAtoms := len(atoms) == 3 && strings.Contains(atoms[0], "DialerSelectionPolicy_Fixed") && strings.Contains(atoms[1], "L4Proto != consts.L4ProtoStr_UDP") && strings.Contains(atoms[2], "EffectiveUdpHealthDomain() != dialer.UdpHealthDomainData")
		c.R.Checkf(rule, "chain-predicates", c.pos(f.Pos()), okAtoms, "the chain is decided by (fixed policy, not UDP, not the data-UDP health domain): %v", atoms)
		if okAtoms {
			rows := 0
			for _, fixed := range []bool{false, true} {
				for _, notUDP := range []bool{false, true} {
					for _, notData := range []bool{false, true} {
						job := &fdt.Job{F: f, Start: f.Graph().Entry(),
							Inputs: map[string]constant.Value{atoms[0]: constant.MakeBool(fixed), atoms[1]: constant.MakeBool(notUDP), atoms[2]: constant.MakeBool(notData)},
							Event: func(n ast.Node, ev func(ast.Expr) string) string {
								as, ok := n.(*ast.AssignStmt)
								if !ok || len(as.Lhs) != 1 {
									return ""
								}
								ix, ok := as.Lhs[0].(*ast.IndexExpr)
								if !ok || core.ExprStr(ix.X) != "networkTypes" {
									return ""
								}
								if core.ExprStr(as.Rhs[0]) == "*networkType" {
									return "[" + ev(ix.Index) + "]=requested"
								}
								cl, ok := as.Rhs[0].(*ast.CompositeLit)
								if !ok {
									return "[" + ev(ix.Index) + "]=?"
								}
								fs := map[string]string{}
								for _, el := range cl.Elts {
									if kv, ok := el.(*ast.KeyValueExpr); ok {
										v := core.ExprStr(kv.Value)
										if tv, has := info.Types[kv.Value]; has && tv.Value != nil {
											v = tv.Value.ExactString()
										}
										fs[core.ExprStr(kv.Key)] = v
									}
								}
								var ks []string
								for k := range fs {
									ks = append(ks, k+":"+fs[k])
								}
								sort.Strings(ks)
								return "[" + ev(ix.Index) + "]={" + strings.Join(ks, ",") + "}"
							}}
						outs := job.Run()
						rows++
						got := ""
						for _, o := range outs {
							got += strings.Join(o.Events, " ") + " count=" + o.Vals[len(o.Vals)-1] + "; "
						}
						want := "[0]=requested count=1; "
						if !fixed && !notUDP && !notData {
							udp, tcp := constStrOf(c, "common/consts", "L4ProtoStr_UDP"), constStrOf(c, "common/consts", "L4ProtoStr_TCP")
							want = fmt.Sprintf("[0]=requested [1]={IpVersion:networkType.IpVersion,IsDns:true,L4Proto:%q,UdpHealthDomain:%s} [2]={IpVersion:networkType.IpVersion,L4Proto:%q} count=3; ", udp, dnsDomainVal(c), tcp)
						}
						c.R.Checkf(rule, fmt.Sprintf("chain@fixed=%v,notUDP=%v,notDataDomain=%v", fixed, notUDP, notData), c.pos(f.Pos()), got == want && len(outs) == 1, "fallback chain: code gives %s documented %s", got, want)
					}
				}
			}
			c.R.Floor(rule+"/rows", rows, 8)
		}
	}
	sel := c.fn(rule, "component/outbound", "DialerGroup._select")
	if sel != nil {
		info := sel.Info()
		g := sel.Graph()
		loops := 0
		ast.Inspect(sel.Body, func(m ast.Node) bool {
			rs, ok := m.(*ast.RangeStmt)
			if !ok || core.ExprStr(rs.X) != "count" || rs.Key == nil {
				return true
			}
			loops++
			key := core.ExprStr(rs.Key)
			okIdx, okArg := false, false
			bad := ""
			ast.Inspect(rs.Body, func(k ast.Node) bool {
				if ix, ok := k.(*ast.IndexExpr); ok && strings.HasSuffix(core.ExprStr(ix.X), ".aliveDialerSets") {
					if core.ExprStr(ix.Index) == "networkTypes["+key+"].Index()" {
						okIdx = true
					} else {
						bad = core.ExprStr(ix.Index)
					}
				}
				if call, ok := k.(*ast.CallExpr); ok {
					if cal := core.Callee(info, call); cal != nil && cal.Name() == "preferAlternateSelectionNetworkType" && len(call.Args) == 2 && core.ExprStr(call.Args[1]) == "&networkTypes["+key+"]" {
						okArg = true
					}
				}
				return true
			})
			// no "no alive" return inside the loop
			inLoopErr := false
			ast.Inspect(rs.Body, func(k ast.Node) bool {
				if r, ok := k.(*ast.ReturnStmt); ok && len(r.Results) > 0 && strings.HasSuffix(core.ExprStr(r.Results[len(r.Results)-1]), "ErrNoAliveDialer") {
					inLoopErr = true
				}
				return true
			})
			c.R.Checkf(rule, fmt.Sprintf("loop-consults-current-element@_select#%d", loops), c.pos(rs.Pos()), okIdx && bad == "" && okArg && !inLoopErr,
				"fallback loop %d consults aliveDialerSets[networkTypes[%s].Index()] (the chain element of this iteration), reports the element actually used, and gives up only after the loop%s", loops, key, func() string {
					if bad != "" {
						return " — it consults aliveDialerSets[" + bad + "] instead: the fallback types are never tried"
					}
					return ""
				}())
			return true
		})
		c.R.Floor(rule+"/fallback-loops", loops, 2)
		_ = g
	}
	if f := c.fn(rule, "component/outbound", "DialerGroup.SelectWithExclusionResult"); f != nil {
		info := f.Info()
		g := f.Graph()
		pts := g.Find(nodeCalls(info, "component/outbound.DialerGroup._select"))
		sort.Slice(pts, func(i, j int) bool { return pts[i].Node().Pos() < pts[j].Node().Pos() })
		okFam, okSingle := false, false
		for _, p := range pts[1:] {
			var gs []string
			for _, gd := range g.Guards(p) {
				gs = append(gs, fmt.Sprintf("%s=%v", core.ExprStr(gd.Cond), gd.Polarity))
			}
			s := strings.Join(gs, " ")
			if strings.Contains(s, "strictIpVersion=false") && strings.Contains(s, "errors.Is(err, ErrNoAliveDialer)=true") {
				okFam = true
			}
			if strings.Contains(s, "len(g.Dialers) == 1=true") && strings.Contains(s, "errors.Is(err, ErrNoAliveDialer)=true") {
				txt := core.ExprStr2(p.Node())
				full := core.FullStr(p.Node())
				_ = txt
				if strings.Contains(full, "DialerSelectionPolicy_Fixed") && strings.Contains(full, "FixedIndex: 0") {
					okSingle = true
				}
			}
		}
		c.R.Checkf(rule, "other-family-only-when-allowed", c.pos(f.Pos()), okFam, "the other IP family is tried only when !strictIpVersion and the first attempt found no alive node")
		c.R.Checkf(rule, "single-node-last-resort", c.pos(f.Pos()), okSingle, "the only node of a one-node group is handed out (fixed(0)) only after 'no alive node'")
		// every _select call receives the caller's excluded node
		okEx := true
		for _, call := range f.FindCalls(core.ParseRefs("component/outbound.DialerGroup._select")) {
			if core.ExprStr(call.Args[3]) != "excluded" {
				okEx = false
			}
		}
		c.R.Checkf("EXCLUDED", "threaded@SelectWithExclusionResult", c.pos(f.Pos()), okEx && len(pts) == 3, "all %d selection attempts receive the caller's excluded node", len(pts))
	}
}

func dnsDomainVal(c *Ctx) string {
	pk := c.P.Pkg("component/outbound/dialer")
	if pk != nil {
		if o, ok := pk.Types.Scope().Lookup("UdpHealthDomainDns").(*types.Const); ok {
			return o.Val().ExactString()
		}
	}
	return "?"
}

func c15PolicyExh(c *Ctx) {
	const rule = "POLICYEXH"
	pk := c.P.Pkg("common/consts")
	var all []string
	for _, nm := range pk.Types.Scope().Names() {
		if o, ok := pk.Types.Scope().Lookup(nm).(*types.Const); ok && strings.HasPrefix(nm, "DialerSelectionPolicy_") {
			if n := namedOf(o.Type()); n != nil && n.Obj().Name() == "DialerSelectionPolicy" {
				all = append(all, nm)
			}
		}
	}
	c.R.Floor(rule+"/policies", len(all), 5)
	for _, a := range [][2]string{{"component/outbound", "DialerGroup._select"}, {"component/outbound", "policyNeedsAliveState"}} {
		f := c.fn(rule, a[0], a[1])
		if f == nil {
			continue
		}
		cases := map[string]bool{}
		defOK := false
		ast.Inspect(f.Body, func(m ast.Node) bool {
			sw, ok := m.(*ast.SwitchStmt)
			if !ok || sw.Tag == nil {
				return true
			}
			if n := namedOf(f.Info().TypeOf(sw.Tag)); n == nil || n.Obj().Name() != "DialerSelectionPolicy" {
				return true
			}
			for _, cl := range sw.Body.List {
				cc := cl.(*ast.CaseClause)
				if cc.List == nil {
					s := core.FullStr(cc)
					defOK = strings.Contains(s, "Errorf(") || strings.Contains(s, "panic(")
				}
				for _, e := range cc.List {
					cases[strings.TrimPrefix(core.ExprStr(e), "consts.")] = true
				}
			}
			return false
		})
		var miss []string
		for _, p := range all {
			if !cases[p] {
				miss = append(miss, p)
			}
		}
		c.R.Checkf(rule, "all-policies-handled@"+a[1], c.pos(f.Pos()), len(miss) == 0 && defOK, "%s has a case for each of the %d selection policies and rejects anything else (missing: %v)", a[1], len(all), miss)
	}
	if f := c.fn(rule, "component/outbound", "DialerGroup._select"); f != nil {
		g := f.Graph()
		use := func(n ast.Node) bool {
			r := false
			ast.Inspect(n, func(m ast.Node) bool {
				if ix, ok := m.(*ast.IndexExpr); ok && core.ExprStr(ix.Index) == "policy.FixedIndex" {
					r = true
				}
				return true
			})
			return r
		}
		okR := false
		for _, cs := range g.Conds(func(e ast.Expr) bool { return strings.Contains(core.ExprStr(e), "policy.FixedIndex") }) {
			s := strings.ReplaceAll(core.ExprStr(cs.Cond), " ", "")
			good, _ := onlyErrorReturns(g, core.Point{B: cs.True, I: 0}, use)
			cn := ast.Node(cs.Cond)
			_, _, reach := g.ReachesAvoiding(g.Entry(), func(n ast.Node) bool { return n == cn }, use)
			if good && !reach && strings.Contains(s, "policy.FixedIndex<0") && strings.Contains(s, "policy.FixedIndex>=len(g.Dialers)") {
				okR = true
			}
		}
		c.R.Checkf(rule, "fixed-index-range-checked", c.pos(f.Pos()), okR, "fixed(i) is rejected with an error unless 0 <= i < len(Dialers), before the node list is indexed")
	}
}

func c15Excluded(c *Ctx) {
	const rule = "EXCLUDED"
	if f := c.fn(rule, "component/outbound", "DialerGroup._select"); f != nil {
		n, ok := 0, true
		for _, call := range f.FindCalls(core.ParseRefs("component/outbound/dialer.AliveDialerSet.GetMinLatency", "component/outbound/dialer.AliveDialerSet.GetRandExcluded", "component/outbound/dialer.AliveDialerSet.GetRand")) {
			n++
			if len(call.Args) != 1 || core.ExprStr(call.Args[0]) != "excluded" {
				ok = false
			}
		}
		c.R.Checkf(rule, "threaded@_select", c.pos(f.Pos()), ok && n >= 2, "every getter call in _select passes the excluded node (%d calls)", n)
	}
	// inside the getters: a candidate is only chosen after being compared with excluded
	for _, nm := range []string{"GetRandExcluded", "GetMinLatency"} {
		f := c.fn(rule, "component/outbound/dialer", "AliveDialerSet."+nm)
		if f == nil {
			continue
		}
		info := f.Info()
		g := f.Graph()
		exParam := info.ObjectOf(f.Decl.Type.Params.List[0].Names[0])
		// candidate assignments / returns inside loops
		choose := g.Find(func(nd ast.Node) bool {
			as, ok := nd.(*ast.AssignStmt)
			if !ok || len(as.Lhs) != 1 {
				return false
			}
			l := core.ExprStr(as.Lhs[0])
			return l == "chosen" || l == "nextBest"
		})
		okAll := len(choose) >= 1
		for _, p := range choose {
			guarded := false
			for _, gd := range g.Guards(p) {
				be, isB := gd.Cond.(*ast.BinaryExpr)
				if !isB || !((be.Op == token.EQL && !gd.Polarity) || (be.Op == token.NEQ && gd.Polarity)) {
					continue
				}
				for _, side := range []ast.Expr{be.X, be.Y} {
					if id, ok := side.(*ast.Ident); ok && info.ObjectOf(id) == exParam {
						guarded = true
					}
				}
			}
			if !guarded {
				okAll = false
			}
		}
		c.R.Checkf(rule, "compared-before-chosen@"+nm, c.pos(f.Pos()), okAll, "%s picks a candidate only on the edge where it differs from the excluded node", nm)
		// results come from the alive list or the current best only
		okSrc := true
		ast.Inspect(f.Body, func(m ast.Node) bool {
			rs, ok := m.(*ast.ReturnStmt)
			if !ok || len(rs.Results) == 0 {
				return true
			}
			s := core.ExprStr(rs.Results[0])
			switch {
			case s == "nil" || s == "chosen" || s == "nextBest" || s == "a.minLatency.dialer" || strings.HasPrefix(s, "a.aliveEntries["):
			default:
				okSrc = false
			}
			return true
		})
		srcOK := true
		for _, p := range choose {
			as := p.Node().(*ast.AssignStmt)
			r := core.ExprStr(as.Rhs[0])
			if !(r == "d" || r == "entry.dialer" || strings.HasPrefix(r, "a.aliveEntries[")) {
				srcOK = false
			}
		}
		c.R.Checkf("ALIVEONLY", "results-from-alive-list@"+nm, c.pos(f.Pos()), okSrc && srcOK, "%s returns nil, the current best, or an element of the alive-entry list", nm)
	}
	if f := c.fn(rule, "component/outbound/dialer", "AliveDialerSet.GetMinLatency"); f != nil {
		g := f.Graph()
		ok := false
		for _, cs := range g.Conds(func(e ast.Expr) bool { return strings.Contains(core.ExprStr(e), "a.minLatency.dialer != nil") }) {
			for _, at := range core.Atoms(cs.Cond, true) {
				if s := core.ExprStr(at.Cond); at.Polarity && (s == "excluded != a.minLatency.dialer" || s == "a.minLatency.dialer != excluded") {
					ok = true
				}
			}
		}
		c.R.Checkf(rule, "fast-path-respects-exclusion@GetMinLatency", c.pos(f.Pos()), ok, "the cached best node is returned only when it is not the excluded one")
	}
}

func c15Comut(c *Ctx) {
	const rule = "COMUT"
	f := c.fn(rule, "component/outbound/dialer", "AliveDialerSet.NotifyLatencyChange")
	if f == nil {
		return
	}
	info := f.Info()
	g := f.Graph()
	// lock held: a.mu.Lock() first, defer Unlock
	first, second := "", ""
	lockedOK := false
	{
		var recvObj types.Object
		if f.Decl.Recv != nil && len(f.Decl.Recv.List[0].Names) > 0 {
			recvObj = info.ObjectOf(f.Decl.Recv.List[0].Names[0])
		}
		touchesRecv := func(n ast.Node) bool {
			hit := false
			ast.Inspect(n, func(k ast.Node) bool {
				if id, ok := k.(*ast.Ident); ok && recvObj != nil && info.ObjectOf(id) == recvObj {
					hit = true
				}
				return !hit
			})
			return hit
		}
		clean := true // nothing before the lock refers to the set
		for i, st := range f.Body.List {
			if core.ExprStr2(st) == "a.mu.Lock()" {
				first = "a.mu.Lock()"
				// the unlock is deferred before anything else touches the set
				for _, nx := range f.Body.List[i+1:] {
					if core.ExprStr2(nx) == "defer a.mu.Unlock()" {
						second = "defer a.mu.Unlock()"
						break
					}
					if touchesRecv(nx) {
						break
					}
				}
				lockedOK = clean && second != ""
				break
			}
			if touchesRecv(st) {
				clean = false
			}
		}
	}
	c.R.Checkf(rule, "writer-holds-mutex", c.pos(f.Pos()), lockedOK, "NotifyLatencyChange takes the set's mutex before anything refers to the set and releases it by defer (%s; %s)", first, second)
	// who writes aliveEntries / dialerToIndex
	writers := map[string]bool{}
	for _, wf := range c.P.FuncsIn("component/outbound/dialer") {
		ast.Inspect(wf.Body, func(m ast.Node) bool {
			as, ok := m.(*ast.AssignStmt)
			if !ok {
				return true
			}
			for _, l := range as.Lhs {
				root := l
				if ix, ok := l.(*ast.IndexExpr); ok {
					root = ix.X
				}
				if se, ok := root.(*ast.SelectorExpr); ok && se.Sel.Name == "sortingLatency" {
					continue
				}
				fld := core.FieldOf(wf.Info(), root)
				if fld == "AliveDialerSet.aliveEntries" || fld == "AliveDialerSet.dialerToIndex" {
					writers[strings.TrimPrefix(wf.Name, "component/outbound/dialer.")] = true
				}
			}
			return true
		})
	}
	var ws []string
	for k := range writers {
		ws = append(ws, k)
	}
	sort.Strings(ws)
	allowed := map[string]bool{"AliveDialerSet.NotifyLatencyChange": true, "NewAliveDialerSet": true, "AliveDialerSet.recomputeSelectionStateLocked": true}
	okW := true
	for _, w := range ws {
		if !allowed[w] {
			okW = false
		}
	}
	c.R.Checkf(rule, "writers-of-alive-list", c.pos(f.Pos()), okW && len(ws) >= 1, "the alive-entry list and its index map are written only by the constructor and NotifyLatencyChange: %v", ws)
	// add: index write dominates / accompanies append
	appendN := g.Find(func(nd ast.Node) bool {
		as, ok := nd.(*ast.AssignStmt)
		return ok && len(as.Lhs) == 1 && core.FieldOf(info, as.Lhs[0]) == "AliveDialerSet.aliveEntries" && strings.HasPrefix(core.ExprStr(as.Rhs[0]), "append(")
	})
	okAdd := len(appendN) == 1
	if okAdd {
		p := appendN[0]
		okAdd = false
		for i := 0; i < p.I; i++ {
			if as, ok := p.B.Nodes[i].(*ast.AssignStmt); ok && core.ExprStr(as.Lhs[0]) == "a.dialerToIndex[dialer]" && core.ExprStr(as.Rhs[0]) == "len(a.aliveEntries)" {
				okAdd = true
			}
		}
	}
	c.R.Checkf(rule, "add-records-index", c.pos(f.Pos()), okAdd, "a node is appended to the alive list together with dialerToIndex[node] = its position (the old length)")
	// swap-remove: moved element's index updated, removed marked not alive, list truncated
	moved := g.Find(func(nd ast.Node) bool {
		as, ok := nd.(*ast.AssignStmt)
		return ok && len(as.Lhs) == 1 && core.ExprStr(as.Lhs[0]) == "a.aliveEntries[index]"
	})
	okMove := len(moved) == 1
	if okMove {
		p := moved[0]
		okMove = false
		src := core.ExprStr(p.Node().(*ast.AssignStmt).Rhs[0])
		for i := 0; i < p.I; i++ {
			if as, ok := p.B.Nodes[i].(*ast.AssignStmt); ok && core.ExprStr(as.Lhs[0]) == "a.dialerToIndex["+src+".dialer]" && core.ExprStr(as.Rhs[0]) == "index" {
				okMove = true
			}
		}
	}
	c.R.Checkf(rule, "swap-remove-updates-moved-index", c.pos(f.Pos()), okMove, "when the last entry is moved into the removed slot its index map entry is updated to that slot")
	trunc := g.Find(func(nd ast.Node) bool {
		as, ok := nd.(*ast.AssignStmt)
		return ok && len(as.Lhs) == 1 && core.FieldOf(info, as.Lhs[0]) == "AliveDialerSet.aliveEntries" && strings.HasSuffix(strings.ReplaceAll(core.ExprStr(as.Rhs[0]), " ", ""), "[:len(a.aliveEntries)-1]")
	})
	mark := g.Find(func(nd ast.Node) bool {
		as, ok := nd.(*ast.AssignStmt)
		return ok && len(as.Lhs) == 1 && core.ExprStr(as.Lhs[0]) == "a.dialerToIndex[dialer]" && core.ExprStr(as.Rhs[0]) == "-NotAlive"
	})
	okRem := len(trunc) == 1 && len(mark) == 1
	if okRem {
		_, _, r := g.ReachesAvoiding(g.Entry(), func(n ast.Node) bool { return n == mark[0].Node() }, func(n ast.Node) bool { return n == trunc[0].Node() })
		okRem = !r
	}
	c.R.Checkf(rule, "remove-marks-not-alive", c.pos(f.Pos()), okRem, "the list is truncated only after the removed node's index was set to not-alive")
}
