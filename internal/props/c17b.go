package props

import (
	"go/ast"
	"go/constant"
	"go/types"
	"strings"

	"daecheck/internal/core"
	"daecheck/internal/fdt"
)

// QUOTE: a quoted literal's value is the text between its two delimiters, a
// bare literal's value is its text. Decided by folding getValueFromLiteral
// over the finite table delimiter x first-content-char x last-content-char
// (classes: same quote, other quote, plain) - the only distinctions a
// delimiter-stripping implementation can make.
func c17Quote(c *Ctx) {
	const rule = "QUOTE"
	f := c.fn(rule, "pkg/config_parser", "getValueFromLiteral")
	if f == nil {
		return
	}
	info := f.Info()
	g := f.Graph()
	// the quote context: local assigned from a call of Quote_literal
	var quoteObj types.Object
	ast.Inspect(f.Body, func(m ast.Node) bool {
		if as, ok := m.(*ast.AssignStmt); ok && len(as.Lhs) == 1 && len(as.Rhs) == 1 {
			if call, ok := as.Rhs[0].(*ast.CallExpr); ok {
				if cal := core.Callee(info, call); cal != nil && cal.Name() == "Quote_literal" {
					if id, ok := as.Lhs[0].(*ast.Ident); ok {
						quoteObj = info.ObjectOf(id)
					}
				}
			}
		}
		return true
	})
	if quoteObj == nil {
		c.R.Unresolved(rule, "getValueFromLiteral: local holding literal.Quote_literal()")
		return
	}
	var textKeys, nilConds []string
	nilPol := map[string]bool{}
	ast.Inspect(f.Body, func(m ast.Node) bool {
		switch x := m.(type) {
		case *ast.CallExpr:
			if recv, name, ok := methodCall(x); ok && name == "GetText" {
				if id, ok := ast.Unparen(recv).(*ast.Ident); ok && info.ObjectOf(id) == quoteObj {
					textKeys = append(textKeys, core.ExprStr(x))
				}
			}
		case *ast.BinaryExpr:
			if id, ok := ast.Unparen(x.X).(*ast.Ident); ok && info.ObjectOf(id) == quoteObj && core.ExprStr(x.Y) == "nil" {
				nilConds = append(nilConds, core.ExprStr(x))
				nilPol[core.ExprStr(x)] = x.Op.String() == "=="
			}
		}
		return true
	})
	if len(textKeys) == 0 || len(nilConds) == 0 {
		c.R.Unresolved(rule, "getValueFromLiteral: quote.GetText() / quote nil test")
		return
	}
	classes := map[string][]string{"'": {"'", "\"", "x"}, "\"": {"\"", "'", "x"}}
	rows, bad := 0, ""
	for _, d := range []string{"'", "\""} {
		var contents []string
		contents = append(contents, "", "x")
		for _, a := range classes[d] {
			for _, b := range classes[d] {
				contents = append(contents, a+"mid dle"+b)
			}
		}
		for _, content := range contents {
			in := map[string]constant.Value{}
			for _, k := range textKeys {
				in[k] = constant.MakeString(d + content + d)
			}
			for _, k := range nilConds {
				in[k] = constant.MakeBool(!nilPol[k]) // quote is present
			}
			job := &fdt.Job{F: f, Start: g.Entry(), Inputs: in}
			outs := job.Run()
			rows++
			want := constant.MakeString(content).ExactString()
			if len(outs) != 1 || outs[0].Kind != "return" || len(outs[0].Vals) != 1 || outs[0].Vals[0] != want {
				got := "?"
				if len(outs) > 0 && len(outs[0].Vals) == 1 {
					got = outs[0].Vals[0]
				}
				if bad == "" {
					bad = "quoted token " + d + content + d + " yields " + got + ", written value is " + want
				}
			}
		}
	}
	c.R.Checkf(rule, "quoted-value-is-text-between-delimiters@getValueFromLiteral", c.pos(f.Pos()), bad == "",
		"over %d rows (delimiter x edge-character class of the content) the value of a quoted literal is exactly the token text without its first and last character%s", rows, func() string {
			if bad != "" {
				return " — VIOLATED: " + bad
			}
			return ""
		}())
	// bare literal: returned verbatim
	in := map[string]constant.Value{}
	for _, k := range nilConds {
		in[k] = constant.MakeBool(nilPol[k])
	}
	outs := (&fdt.Job{F: f, Start: g.Entry(), Inputs: in}).Run()
	ok := len(outs) == 1 && len(outs[0].Vals) == 1 && strings.HasPrefix(outs[0].Vals[0], "sym:") && strings.HasSuffix(outs[0].Vals[0], ".GetText()")
	c.R.Checkf(rule, "bare-value-is-token-text@getValueFromLiteral", c.pos(f.Pos()), ok, "a literal without quotes is returned as its token text, untransformed (%v)", outs)
	c.R.Floor(rule+"/rows", rows, 22)
}

// CONTAIN: EnsureFileInSubDir rejects every relative path that leaves the
// directory. The relation computed by filepath.Rel is folded over the classes
// "..", "../x", "../../x" (must all end in an error return) and ".", "x",
// "x/y" (must be able to succeed).
func c17Contain(c *Ctx) {
	const rule = "CONTAIN"
	f := c.fn(rule, "common", "EnsureFileInSubDir")
	if f == nil {
		return
	}
	info := f.Info()
	g := f.Graph()
	var relObj types.Object
	var start core.Point
	found := false
	for _, b := range g.CFG.Blocks {
		if !b.Live {
			continue
		}
		for i, n := range b.Nodes {
			as, ok := n.(*ast.AssignStmt)
			if !ok || len(as.Rhs) != 1 || len(as.Lhs) != 2 {
				continue
			}
			call, ok := as.Rhs[0].(*ast.CallExpr)
			if !ok {
				continue
			}
			if cal := core.Callee(info, call); cal != nil && cal.Pkg() != nil && cal.Pkg().Path() == "path/filepath" && cal.Name() == "Rel" {
				if id, ok := as.Lhs[0].(*ast.Ident); ok {
					relObj = info.ObjectOf(id)
					start = core.Point{B: b, I: i}.After()
					found = true
					// Rel(base=dir, target=directory of the file)
					if len(call.Args) == 2 {
						p0 := f.Decl.Type.Params.List
						dirName := p0[len(p0)-1].Names[len(p0[len(p0)-1].Names)-1].Name
						c.R.Checkf(rule, "relative-to-the-entry-dir@EnsureFileInSubDir", c.pos(call.Pos()), core.ExprStr(call.Args[0]) == dirName,
							"the relation is computed from the directory argument (%s) to the file's directory (%s)", core.ExprStr(call.Args[0]), core.ExprStr(call.Args[1]))
					}
				}
			}
		}
	}
	if !found {
		c.R.Unresolved(rule, "EnsureFileInSubDir: rel, err := filepath.Rel(dir, …)")
		return
	}
	run := func(rel string) (succeeds, undecided bool, outs []fdt.Outcome) {
		job := &fdt.Job{F: f, Start: start, Init: map[types.Object]constant.Value{relObj: constant.MakeString(rel)}, Tracked: map[types.Object]string{relObj: "rel"}}
		outs = job.Run()
		for _, o := range outs {
			if o.Kind != "return" || len(o.Vals) != 1 {
				undecided = true
				continue
			}
			if o.Vals[0] == "sym:nil" {
				succeeds = true
			}
		}
		return succeeds, undecided || len(job.Undecided) > 0, outs
	}
	for _, rel := range []string{"..", "../x", "../../x", "../..", "..//x"} {
		s, u, _ := run(rel)
		c.R.Checkf(rule, "escaping-relation-rejected@EnsureFileInSubDir/"+rel, c.pos(f.Pos()), !s && !u,
			"with the file's directory at relative path %q from the entry directory, every path through EnsureFileInSubDir returns an error%s", rel, func() string {
				if s {
					return " — VIOLATED: a path returns nil, so a file outside the entry configuration directory is opened and parsed"
				}
				if u {
					return " — undecided: an exit that is not a single-result return"
				}
				return ""
			}())
	}
	for _, rel := range []string{".", "x", "x/y"} {
		s, _, _ := run(rel)
		c.R.Checkf(rule, "inside-relation-accepted@EnsureFileInSubDir/"+rel, c.pos(f.Pos()), s, "relative path %q (inside the directory) can reach the nil return", rel)
	}
}
