package props

import (
	"go/ast"
	"go/constant"
	"go/types"
	"sort"
	"strings"

	"daecheck/internal/core"
	"daecheck/internal/fdt"
)

// HOSTLEN: a bare address literal becomes a host route of its own family:
// /128 when it is an IPv6 literal (contains ':' — also when it has a dotted
// IPv4 tail, e.g. ::ffff:1.2.3.4 or 64:ff9b::192.0.2.33), /32 otherwise; a
// literal that already carries a length is parsed as written.  Decided by
// folding parsePrefixes' loop body over one representative of every class
// (has '/', has ':', has '.') — the only distinctions the code can make with
// substring tests.
func c12HostLen(c *Ctx) {
	const rule = "HOSTLEN"
	f := c.fn(rule, "component/routing", "parsePrefixes")
	if f == nil {
		return
	}
	info := f.Info()
	g := f.Graph()
	var valObj types.Object
	ast.Inspect(f.Body, func(m ast.Node) bool {
		if rs, ok := m.(*ast.RangeStmt); ok && rs.Value != nil && valObj == nil {
			if id, ok := rs.Value.(*ast.Ident); ok {
				valObj = info.ObjectOf(id)
			}
		}
		return true
	})
	parse := nodeCalls(info, "net/netip.ParsePrefix")
	pts := g.Find(parse)
	if valObj == nil || len(pts) != 1 {
		c.R.Unresolved(rule, "parsePrefixes: ranged value / the netip.ParsePrefix call")
		return
	}
	// start: first node of the loop body = first block (in source order) inside the range body
	var rsBody *ast.BlockStmt
	ast.Inspect(f.Body, func(m ast.Node) bool {
		if rs, ok := m.(*ast.RangeStmt); ok && rsBody == nil {
			rsBody = rs.Body
		}
		return true
	})
	var start *core.Point
	for _, b := range g.CFG.Blocks {
		if b.Live && len(b.Nodes) > 0 && len(rsBody.List) > 0 && b.Nodes[0].Pos() == firstNodePos(rsBody.List[0]) {
			start = &core.Point{B: b, I: 0}
		}
	}
	if start == nil {
		c.R.Unresolved(rule, "parsePrefixes: loop body entry")
		return
	}
	cases := []struct{ lit, want, class string }{
		{"192.0.2.7", "192.0.2.7/32", "bare IPv4"},
		{"2001:db8::1", "2001:db8::1/128", "bare IPv6"},
		{"::ffff:198.51.100.7", "::ffff:198.51.100.7/128", "bare IPv4-mapped IPv6 (':' and '.')"},
		{"64:ff9b::192.0.2.33", "64:ff9b::192.0.2.33/128", "bare NAT64 literal (':' and '.')"},
		{"10.0.0.0/8", "10.0.0.0/8", "IPv4 with length"},
		{"2001:db8::/32", "2001:db8::/32", "IPv6 with length"},
		{"::ffff:10.0.0.0/104", "::ffff:10.0.0.0/104", "mapped with length"},
	}
	for _, cs := range cases {
		job := &fdt.Job{F: f, Start: *start, Init: map[types.Object]constant.Value{valObj: constant.MakeString(cs.lit)}, Tracked: map[types.Object]string{valObj: "value"},
			Event: func(n ast.Node, ev func(ast.Expr) string) string {
				out := ""
				ownCalls(n, func(call *ast.CallExpr, _ bool) {
					if cal := core.Callee(info, call); cal != nil && cal.Name() == "ParsePrefix" && len(call.Args) == 1 {
						out = "parse " + ev(call.Args[0])
					}
				})
				return out
			},
			StopAt: nil}
		got := map[string]bool{}
		for _, o := range job.Run() {
			for _, e := range o.Events {
				if strings.HasPrefix(e, "parse ") {
					got[e] = true
					break
				}
			}
		}
		var gs []string
		for k := range got {
			gs = append(gs, k)
		}
		sort.Strings(gs)
		want := "parse " + constant.MakeString(cs.want).ExactString()
		ok := len(gs) == 1 && gs[0] == want
		c.R.Checkf(rule, "literal-class@"+nospace(cs.class), c.pos(pts[0].Node().Pos()), ok, "%s %q is handed to netip.ParsePrefix as %q (got %v): a bare literal is a host route of its own family — a mapped or NAT64 literal taken for IPv4 becomes ::/32-like and covers unrelated addresses", cs.class, cs.lit, cs.want, gs)
	}
	c.R.Floor(rule, len(cases), 7)
}
