package props

import (
	"go/ast"
	"go/token"
	"go/types"
	"sort"
	"strings"

	"daecheck/internal/core"

	"golang.org/x/tools/go/cfg"
)

func init() {
	register(&Checker{ID: "C06", Run: runC06, Explain: "Structural necessary conditions of 'sniffing never alters or withholds payload', decided on the type-checked source of component/sniffing (+ quicutils) and its callers: " +
		"(1) RESTORE: the only code that writes into the sniffed bytes in place is QUIC header-protection removal; in sniffQuicBlock the bytes it may touch (first byte, packet-number bytes) are saved and their restoration is registered by defer before decryption starts, so every exit — including the decryption-failure return — leaves the datagram as the client sent it; the reviewed set of in-place writers is closed; " +
		"(2) BOUND: every slice expression over a local byte slice with a non-constant upper bound is dominated by a comparison of that bound with the length of that same slice (the TLS record-completeness test compares the record length with the bytes after the record header, not with the whole buffer); " +
		"(3) LOCATOR: a value returned by Locator.At/Range/Slice is used only after its error was tested; (4) DEADLINE: sniffing read deadlines are cleared on every path (shared with C05); ARMED: every read of a deadline-bounded detection window is dominated by the arm of that deadline (never armed under a first-time flag while the disarm runs after every read); (5) TIMEOUT/REPLAY: every sniffer is constructed with the configured sniffing timeout; bytes enter the replay buffer only through the reviewed writers. " +
		"(6) QUICPARAM: the per-version Initial parameters (salt, key/iv/hp labels, client initial secret label, long-header type of an Initial packet) equal the RFC 9001 / RFC 9369 values at every site that uses them. " +
		"(7) NEEDMORE: the QUIC sniffer sets needMore only on paths where the ClientHello parser did not return the definitive ErrNotFound. " +
		"Not decided, stated plainly: absence of panics / out-of-bounds for every byte string (the compiler leaves ~40 unproven bounds checks here; discharging them needs a relational numeric domain), that the extracted name is the one carried, recognition under all chunkings."})
}

func runC06(c *Ctx) {
	c06Restore(c)
	c06Bound(c)
	c06Locator(c)
	us := units(c.P, "component/sniffing", nil)
	arms := pairDeadlines(c, "DEADLINE", us)
	c.R.Floor("DEADLINE", arms, 2)
	c.R.Floor("ARMED", armedReads(c, "ARMED", us), 1)
	narrowArith(c, "WIDTH", append(units(c.P, "component/sniffing/internal/quicutils", nil), us...), "sniffers and QUIC helpers")
	c06Replay(c)
	c06QuicParams(c)
	c06NeedMore(c)
	c06WindowFixed(c)
	c06LocatorBounds(c)
	c06CryptoMergeSkipsOverlap(c)
	c06RangeBound(c)
	c06HostFromHeadLine(c, "LOCATOR")
}

func c06Restore(c *Ctx) {
	const rule = "RESTORE"
	f := c.fn(rule, "component/sniffing", "sniffQuicBlock")
	if f != nil {
		info := f.Info()
		g := f.Graph()
		dec := nodeCalls(info, "component/sniffing/internal/quicutils.DecryptQuic_")
		dps := g.Find(dec)
		if len(dps) != 1 {
			c.R.Checkf(rule, "decrypt-site", c.pos(f.Pos()), false, "expected one DecryptQuic_ call in sniffQuicBlock, found %d", len(dps))
		} else {
			// Saves, found structurally (no variable names): a scalar save  X := B[k]  and a copy-save
			// copy(P, B[e:])  into a buffer P that does not alias B (P is defined by a call: make / pool.Get).
			type save struct {
				val   types.Object // X or P
				where string       // rendered B[k] / B[e:]
				node  ast.Node
			}
			var scalarSaves, copySaves []save
			definedByCall := func(obj types.Object) bool {
				ok := false
				ast.Inspect(f.Body, func(m ast.Node) bool {
					if as, isAs := m.(*ast.AssignStmt); isAs && len(as.Lhs) == len(as.Rhs) {
						for i, l := range as.Lhs {
							if id, isId := l.(*ast.Ident); isId && info.ObjectOf(id) == obj {
								_, isCall := ast.Unparen(as.Rhs[i]).(*ast.CallExpr)
								ok = isCall
							}
						}
					}
					return true
				})
				return ok
			}
			ast.Inspect(f.Body, func(m ast.Node) bool {
				switch x := m.(type) {
				case *ast.FuncLit:
					return false
				case *ast.AssignStmt:
					if len(x.Lhs) == 1 && len(x.Rhs) == 1 {
						if ix, ok := ast.Unparen(x.Rhs[0]).(*ast.IndexExpr); ok {
							if id, ok := x.Lhs[0].(*ast.Ident); ok {
								if _, isSlice := info.TypeOf(ix.X).Underlying().(*types.Slice); isSlice {
									scalarSaves = append(scalarSaves, save{info.ObjectOf(id), core.ExprStr(ix), x})
								}
							}
						}
					}
				case *ast.CallExpr:
					if id, ok := x.Fun.(*ast.Ident); ok && id.Name == "copy" && len(x.Args) == 2 {
						if dst, ok := ast.Unparen(x.Args[0]).(*ast.Ident); ok && definedByCall(info.ObjectOf(dst)) {
							if _, isSl := ast.Unparen(x.Args[1]).(*ast.SliceExpr); isSl {
								copySaves = append(copySaves, save{info.ObjectOf(dst), core.ExprStr(x.Args[1]), x})
							}
						}
					}
				}
				return true
			})
			restoresFirst := func(body ast.Node) bool {
				hit := false
				ast.Inspect(body, func(m ast.Node) bool {
					if as, ok := m.(*ast.AssignStmt); ok && len(as.Lhs) == 1 && len(as.Rhs) == 1 {
						if id, ok := ast.Unparen(as.Rhs[0]).(*ast.Ident); ok {
							for _, sv := range scalarSaves {
								if info.ObjectOf(id) == sv.val && core.ExprStr(as.Lhs[0]) == sv.where {
									hit = true
								}
							}
						}
					}
					return true
				})
				return hit
			}
			restoresPN := func(body ast.Node) bool {
				hit := false
				ast.Inspect(body, func(m ast.Node) bool {
					if call, ok := m.(*ast.CallExpr); ok {
						if id, ok := call.Fun.(*ast.Ident); ok && id.Name == "copy" && len(call.Args) == 2 {
							if src, ok := ast.Unparen(call.Args[1]).(*ast.Ident); ok {
								for _, sv := range copySaves {
									if info.ObjectOf(src) == sv.val && core.ExprStr(call.Args[0]) == sv.where {
										hit = true
									}
								}
							}
						}
					}
					return true
				})
				return hit
			}
			isRestoreDefer := func(n ast.Node) bool {
				ds, ok := n.(*ast.DeferStmt)
				if !ok {
					return false
				}
				lit, ok := ds.Call.Fun.(*ast.FuncLit)
				return ok && restoresFirst(lit.Body) && restoresPN(lit.Body)
			}
			_, _, byp := g.ReachesAvoiding(g.Entry(), isRestoreDefer, dec)
			how := "a deferred restore of the first byte and the packet-number bytes is registered on every path before DecryptQuic_"
			ok := !byp
			if byp {
				// alternatively: explicit restoration on every exit after the decrypt
				r1 := g.ExitsAvoiding(dps[0].After(), func(n ast.Node) bool { return restoresFirst(n) })
				r2 := g.ExitsAvoiding(dps[0].After(), func(n ast.Node) bool { return restoresPN(n) })
				ok = len(r1) == 0 && len(r2) == 0
				how = "no deferred restore dominates DecryptQuic_, and the explicit restoration is skipped on the exit at "
				if len(r1) > 0 {
					how += c.pos(r1[0].Pos)
				} else if len(r2) > 0 {
					how += c.pos(r2[0].Pos)
				}
				how += ": when decryption fails after header protection was removed, the buffered datagram is later replayed with altered header bytes"
			}
			c.R.Checkf(rule, "header-bytes-restored-on-every-exit", c.pos(dps[0].Node().Pos()), ok, "%s", how)
			// saves precede
			contains := func(outer, inner ast.Node) bool { return inner.Pos() >= outer.Pos() && inner.End() <= outer.End() }
			saveFirst := func(n ast.Node) bool {
				for _, sv := range scalarSaves {
					if contains(n, sv.node) {
						return true
					}
				}
				return false
			}
			savePN := func(n ast.Node) bool {
				if _, isDefer := n.(*ast.DeferStmt); isDefer {
					return false
				}
				for _, sv := range copySaves {
					if contains(n, sv.node) {
						return true
					}
				}
				return false
			}
			_, _, b1 := g.ReachesAvoiding(g.Entry(), saveFirst, dec)
			_, _, b2 := g.ReachesAvoiding(g.Entry(), savePN, dec)
			c.R.Checkf(rule, "header-bytes-saved-before-decrypt", c.pos(dps[0].Node().Pos()), !b1 && !b2, "the first byte (scalar save) and the packet-number bytes (copied into a buffer that does not alias the header: %d copy-save(s)) are saved before DecryptQuic_ runs", len(copySaves))
		}
	}
	// in-place writers through parameters in quicutils / sniffing
	reviewed := map[string]string{
		"component/sniffing/internal/quicutils.Keys.HeaderProtection_": "removes header protection in place (first byte, packet number): restored by sniffQuicBlock",
		"component/sniffing.sniffQuicBlock":                            "writes back the saved first byte / packet-number bytes (the restoration itself)",
	}
	writers := map[string]string{}
	for _, rel := range []string{"component/sniffing/internal/quicutils", "component/sniffing"} {
		for _, f := range c.P.FuncsIn(rel) {
			if f.Obj == nil {
				continue
			}
			info := f.Info()
			sig := f.Obj.Type().(*types.Signature)
			params := map[types.Object]bool{}
			for i := 0; i < sig.Params().Len(); i++ {
				p := sig.Params().At(i)
				switch p.Type().Underlying().(type) {
				case *types.Slice, *types.Pointer:
					if s, ok := p.Type().Underlying().(*types.Slice); ok {
						if b, ok := s.Elem().Underlying().(*types.Basic); !ok || b.Kind() != types.Uint8 {
							continue
						}
					}
					if pt, ok := p.Type().Underlying().(*types.Pointer); ok {
						if b, ok := pt.Elem().Underlying().(*types.Basic); !ok || b.Kind() != types.Uint8 {
							continue
						}
					}
					params[p] = true
				}
			}
			// locals derived by slicing a parameter
			for changed := true; changed; {
				changed = false
				ast.Inspect(f.Body, func(m ast.Node) bool {
					as, ok := m.(*ast.AssignStmt)
					if !ok || len(as.Lhs) != len(as.Rhs) {
						return true
					}
					for i := range as.Rhs {
						if se, ok := ast.Unparen(as.Rhs[i]).(*ast.SliceExpr); ok && params[core.RootObj(info, se.X)] {
							if id, ok := as.Lhs[i].(*ast.Ident); ok && !params[info.ObjectOf(id)] {
								params[info.ObjectOf(id)] = true
								changed = true
							}
						}
					}
					return true
				})
			}
			ast.Inspect(f.Body, func(m ast.Node) bool {
				if _, isLit := m.(*ast.FuncLit); isLit {
					return false
				}
				as, ok := m.(*ast.AssignStmt)
				if !ok {
					return true
				}
				for _, l := range as.Lhs {
					switch x := ast.Unparen(l).(type) {
					case *ast.IndexExpr:
						if params[core.RootObj(info, x.X)] {
							writers[f.Name] = c.pos(as.Pos())
						}
					case *ast.StarExpr:
						if params[core.RootObj(info, x.X)] {
							writers[f.Name] = c.pos(as.Pos())
						}
					}
				}
				return true
			})
		}
	}
	var ws []string
	for k := range writers {
		ws = append(ws, k)
	}
	sort.Strings(ws)
	for _, w := range ws {
		why, ok := reviewed[w]
		if !ok && (strings.Contains(w, "Locator") || strings.HasSuffix(w, ".Read") || strings.Contains(w, "relocation") || strings.Contains(w, "Uvarint")) {
			ok, why = true, "writes its own output buffer, not sniffed input"
		}
		c.R.Checkf(rule, "in-place-writer@"+strings.TrimPrefix(w, "component/sniffing"), writers[w], ok, "%s stores through a byte-slice/pointer parameter: %s", w, func() string {
			if ok {
				return why
			}
			return "not in the reviewed set of in-place writers — sniffed bytes must reach the relay unmodified"
		}())
	}
	c.R.Floor(rule+"/in-place-writers", len(ws), 1)
}

func c06Bound(c *Ctx) {
	const rule = "BOUND"
	n := 0
	for _, fname := range []string{"Sniffer.SniffTls", "Sniffer.SniffHttp", "sniffQuicBlock", "Sniffer.SniffQuic"} {
		f := c.P.Func("component/sniffing", fname)
		if f == nil {
			continue
		}
		c.R.Saw(f)
		info := f.Info()
		g := f.Graph()
		for _, b := range g.CFG.Blocks {
			if !b.Live {
				continue
			}
			for i, nd := range b.Nodes {
				ast.Inspect(nd, func(m ast.Node) bool {
					if _, isLit := m.(*ast.FuncLit); isLit {
						return false
					}
					se, ok := m.(*ast.SliceExpr)
					if !ok || se.High == nil {
						return true
					}
					xid, ok := ast.Unparen(se.X).(*ast.Ident)
					if !ok {
						return true
					}
					if _, isSlice := info.TypeOf(xid).Underlying().(*types.Slice); !isSlice {
						return true
					}
					if tv, has := info.Types[se.High]; has && tv.Value != nil {
						return true
					}
					// identifiers in the upper bound
					var hiIds []types.Object
					ast.Inspect(se.High, func(k ast.Node) bool {
						if id, ok := k.(*ast.Ident); ok {
							if v, ok := info.ObjectOf(id).(*types.Var); ok {
								hiIds = append(hiIds, v)
							}
						}
						return true
					})
					if len(hiIds) == 0 {
						return true
					}
					n++
					// variables computed from the bound's identifiers (boundary += destConnIdLength + 1 …)
					dep := map[types.Object]bool{}
					for _, h := range hiIds {
						dep[h] = true
					}
					for round := 0; round < 3; round++ {
						ast.Inspect(f.Body, func(k ast.Node) bool {
							as, ok := k.(*ast.AssignStmt)
							if !ok || as.Pos() > se.Pos() {
								return true
							}
							for j, l := range as.Lhs {
								id, ok := l.(*ast.Ident)
								if !ok || j >= len(as.Rhs) {
									continue
								}
								uses := false
								ast.Inspect(as.Rhs[j], func(q ast.Node) bool {
									if qi, ok := q.(*ast.Ident); ok && dep[info.ObjectOf(qi)] {
										uses = true
									}
									return true
								})
								if uses {
									dep[info.ObjectOf(id)] = true
								}
							}
							return true
						})
					}
					hiIds = hiIds[:0]
					for o := range dep {
						hiIds = append(hiIds, o)
					}
					guarded := false
					for _, gd := range g.Guards(core.Point{B: b, I: i}) {
						be, ok := gd.Cond.(*ast.BinaryExpr)
						if !ok {
							continue
						}
						s := core.ExprStr(be)
						if !strings.Contains(s, "len("+xid.Name+")") {
							continue
						}
						for _, h := range hiIds {
							found := false
							ast.Inspect(be, func(k ast.Node) bool {
								if id, ok := k.(*ast.Ident); ok && info.ObjectOf(id) == h {
									found = true
								}
								return true
							})
							if found {
								guarded = true
							}
						}
					}
					c.R.Checkf(rule, "slice-bound-guarded@"+fname+"/"+core.ExprStr(se), c.pos(se.Pos()), guarded, "%s is dominated by a comparison between len(%s) and its upper bound: a bound checked against another length (e.g. the whole buffer instead of the bytes after the record header) lets the slice reach into stale bytes beyond the data received", core.ExprStr(se), xid.Name)
					return true
				})
			}
		}
	}
	c.R.Floor(rule+"/guarded-slices", n, 1)
}

func c06Locator(c *Ctx) {
	const rule = "LOCATOR"
	n := 0
	for _, f := range c.P.FuncsIn("component/sniffing") {
		info := f.Info()
		g := f.Graph()
		for _, b := range g.CFG.Blocks {
			if !b.Live {
				continue
			}
			for i, nd := range b.Nodes {
				as, ok := nd.(*ast.AssignStmt)
				if !ok || len(as.Lhs) != 2 || len(as.Rhs) != 1 {
					continue
				}
				call, ok := as.Rhs[0].(*ast.CallExpr)
				if !ok {
					continue
				}
				cal := core.Callee(info, call)
				if cal == nil || recvName(cal) != "Locator" || !(cal.Name() == "At" || cal.Name() == "Range" || cal.Name() == "Slice") {
					continue
				}
				vId, ok1 := as.Lhs[0].(*ast.Ident)
				eId, ok2 := as.Lhs[1].(*ast.Ident)
				if !ok1 || !ok2 || vId.Name == "_" {
					continue
				}
				n++
				c.R.Saw(f)
				vObj, eObj := info.ObjectOf(vId), info.ObjectOf(eId)
				var hit ast.Node
				w := &core.Walker{G: g,
					Visit: func(x ast.Node) core.Verdict {
						if hit != nil {
							return core.Stop
						}
						if a2, ok := x.(*ast.AssignStmt); ok && x != nd {
							for _, l := range a2.Lhs {
								if id, ok := l.(*ast.Ident); ok && info.ObjectOf(id) == vObj {
									return core.Stop // redefined
								}
							}
						}
						used := false
						ast.Inspect(x, func(k ast.Node) bool {
							if id, ok := k.(*ast.Ident); ok && info.ObjectOf(id) == vObj {
								used = true
							}
							return true
						})
						if used {
							return core.Hit
						}
						return core.Go
					},
					Edge: func(from *cfg.Block, si int) bool {
						cond, _, _, ok := g.Cond(from)
						if !ok {
							return true
						}
						be, ok := cond.(*ast.BinaryExpr)
						if !ok || core.ExprStr(be.Y) != "nil" {
							return true
						}
						id, ok := be.X.(*ast.Ident)
						if !ok || info.ObjectOf(id) != eObj {
							return true
						}
						// err != nil: the false edge is the checked-ok edge (safe); err == nil: the true edge is
						if (be.Op == token.NEQ && si == 1) || (be.Op == token.EQL && si == 0) {
							return false
						}
						return true
					},
					OnHit: func(x ast.Node, _ []token.Pos) {
						if hit == nil {
							hit = x
						}
					}}
				w.Run(core.Point{B: b, I: i}.After())
				c.R.Checkf(rule, "result-used-after-error-test@"+strings.TrimPrefix(f.Name, "component/sniffing.")+"#"+itoa(n), c.pos(as.Pos()), hit == nil, "the bytes returned by Locator.%s are only used on the edge where its error is nil%s", cal.Name(), func() string {
					if hit != nil {
						return " — used at " + c.pos(hit.Pos()) + " before the error test"
					}
					return ""
				}())
			}
		}
	}
	c.R.Floor(rule+"/uses", n, 6)
}

func c06Replay(c *Ctx) {
	const rule = "REPLAY"
	// who appends into the sniffer's replay buffer
	writers := map[string]bool{}
	for _, f := range c.P.FuncsIn("component/sniffing") {
		core.EachCall(f.Body, core.Deep, func(call *ast.CallExpr) {
			recv, name, ok := methodCall(call)
			if !ok || core.FieldOf(f.Info(), recv) != "Sniffer.buf" {
				return
			}
			switch name {
			case "Write", "ReadFrom", "ReadFromOnce", "WriteByte", "WriteString", "Reset", "Truncate":
				writers[strings.TrimPrefix(f.Name, "component/sniffing.")+"/"+name] = true
			}
		})
	}
	allowed := map[string]bool{"Sniffer.readStreamOnceWithReadDeadline/ReadFromOnce": true, "Sniffer.readStreamOnceAsync/ReadFromOnce": true, "Sniffer.AppendData/Write": true, "NewPacketSniffer/Write": true, "Sniffer.ResetPacket/Reset": true, "Sniffer.CompactPacketState/Reset": true, "Sniffer.Close/Reset": true}
	okW := true
	for w := range writers {
		base := w
		if i := strings.Index(w, "$"); i >= 0 {
			base = w[:i] + w[strings.LastIndex(w, "/"):]
		}
		if !allowed[base] {
			okW = false
		}
	}
	c.R.Checkf(rule, "replay-buffer-writers", "component/sniffing/sniffer.go", okW && len(writers) >= 3, "bytes enter (or are dropped from) the replay buffer only through the reviewed functions: %v", keysB(writers))
	// timeout plumbed at construction sites
	n := 0
	for _, rp := range c.P.RepoPkgs() {
		rel := strings.TrimPrefix(strings.TrimPrefix(rp.PkgPath, core.ModPath), "/")
		if rel == "component/sniffing" {
			continue
		}
		for _, f := range c.P.FuncsIn(rel) {
			for _, call := range f.FindCalls(core.ParseRefs("component/sniffing.NewConnSniffer", "component/sniffing.NewStreamSniffer", "component/sniffing.NewPacketSniffer")) {
				n++
				c.R.Saw(f)
				arg := core.ExprStr(call.Args[len(call.Args)-1])
				ok := strings.HasSuffix(arg, ".sniffingTimeout") || strings.HasSuffix(arg, ".Ttl") || strings.HasSuffix(strings.ToLower(arg), "timeout")
				c.R.Checkf("TIMEOUT", "configured-timeout@"+strings.TrimPrefix(f.Name, "control."), c.pos(call.Pos()), ok, "the sniffer is constructed with a configured timeout value (%s), never a literal or zero", arg)
			}
		}
	}
	c.R.Floor("TIMEOUT/construction-sites", n, 2)
}
