package props

import (
	"go/ast"
	"go/constant"
	"go/token"
	"go/types"
	"sort"
	"strings"

	"daecheck/internal/core"
	"daecheck/internal/fdt"

	"golang.org/x/tools/go/cfg"
)

func init() {
	register(&Checker{ID: "C14", Run: runC14, Explain: "Structural necessary conditions of 'a group contains exactly the nodes its filters select', decided on the type-checked source of component/outbound: " +
		"(1) NODEFAULT: every dispatch over a filter input, filter key, annotation key or policy name ends in a default that only returns errors, and regex compile errors are returned; " +
		"(2) BOOL: the decision table of filterHit's per-condition loop body (constant propagation over its CFG) is: a line fails exactly when some condition's hit flag equals its negation, an empty filter hits; within the name branch every operand is the node name, within the subtag branch every operand is the subscription tag; " +
		"(3) FIRSTLINE: after a node is appended for a matching filter line no further line is evaluated for it, the annotation index is the filter line's index, node and annotation are appended together, nodes are ranged in pool order, no-filter returns the pool with empty annotations; " +
		"(4) ERRFLOW: filter, policy and annotation errors are returned (wrapped) by the control-plane constructor. " +
		"(5) ARITY: the policy parser accepts exactly one policy function and fixed() exactly one keyless parameter (decision table over the counts); (6) NOALIAS: the filter result is appended into fresh storage, never into a reslice of the shared node pool. " +
		"Not decided: regex/keyword matching on values, validation of filter parts no node reaches."})
}

func runC14(c *Ctx) {
	c14NoDefault(c)
	c14Bool(c)
	c14FirstLine(c)
	c14ErrFlow(c)
	c14Arity(c)
	c14NoAlias(c)
	rangeVarsNotAssigned(c, "FIRSTLINE", "component/outbound", nil)
	c14AnnotationValidated(c)
	parseNumSites(c, "ARITY", []string{"component/outbound"}, func(f string) bool { return f == "dialer_selection_policy.go" })
}

// switchDefaultsOnlyErrors checks every tagged switch over a string-typed tag in f.
func switchDefaultsOnlyErrors(c *Ctx, rule string, f *core.Func) int {
	info := f.Info()
	g := f.Graph()
	n := 0
	ast.Inspect(f.Body, func(m ast.Node) bool {
		sw, ok := m.(*ast.SwitchStmt)
		if !ok {
			return true
		}
		var tag ast.Expr = sw.Tag
		if tag == nil {
			return true
		}
		if as, ok := sw.Init.(*ast.AssignStmt); ok && len(as.Rhs) == 1 {
			tag = as.Rhs[0]
		}
		t := info.TypeOf(sw.Tag)
		if t == nil {
			return true
		}
		if b, ok := t.Underlying().(*types.Basic); !ok || b.Info()&types.IsString == 0 {
			return true
		}
		n++
		construct := "default-is-error@" + strings.TrimPrefix(f.Name, "component/outbound") + "/switch(" + core.ExprStr(tag) + ")"
		var def *ast.CaseClause
		for _, cl := range sw.Body.List {
			if cc := cl.(*ast.CaseClause); cc.List == nil {
				def = cc
			}
		}
		if def == nil || len(def.Body) == 0 {
			c.R.Checkf(rule, construct, c.pos(sw.Pos()), false, "dispatch over %s has no default (or an empty one): an unknown value silently changes the selection instead of being reported", core.ExprStr(tag))
			return true
		}
		good := false
		var bad token.Pos
		for _, b := range g.CFG.Blocks {
			if b.Live && len(b.Nodes) > 0 && b.Nodes[0].Pos() == firstNodePos(def.Body[0]) {
				good, bad = onlyErrorReturns(g, core.Point{B: b, I: 0}, nil)
			}
		}
		c.R.Checkf(rule, construct, c.pos(def.Pos()), good, "an unknown %s only leads to an error return%s", core.ExprStr(tag), func() string {
			if good {
				return ""
			}
			return " — non-error exit at " + c.pos(bad)
		}())
		return true
	})
	return n
}

func c14NoDefault(c *Ctx) {
	const rule = "NODEFAULT"
	n := 0
	for _, a := range [][2]string{{"component/outbound", "DialerSet.filterHit"}, {"component/outbound/dialer", "NewAnnotation"}, {"component/outbound", "NewDialerSelectionPolicyFromGroupParam"}} {
		if f := c.fn(rule, a[0], a[1]); f != nil {
			n += switchDefaultsOnlyErrors(c, rule, f)
		}
	}
	c.R.Floor(rule+"/switches", n, 5)
	// regex compile errors are returned
	if f := c.fn(rule, "component/outbound", "DialerSet.filterHit"); f != nil {
		info := f.Info()
		g := f.Graph()
		k := 0
		for _, p := range g.Find(func(n ast.Node) bool {
			found := false
			ownCalls(n, func(call *ast.CallExpr, _ bool) {
				if cal := core.Callee(info, call); cal != nil && cal.Name() == "Compile" {
					found = true
				}
			})
			return found
		}) {
			k++
			as, _ := p.Node().(*ast.AssignStmt)
			ok := false
			if as != nil && len(as.Lhs) == 2 {
				if errId, isId := as.Lhs[1].(*ast.Ident); isId && errId.Name != "_" {
					obj := info.ObjectOf(errId)
					for _, cs := range g.Conds(func(e ast.Expr) bool {
						be, isB := e.(*ast.BinaryExpr)
						if !isB || be.Op != token.NEQ {
							return false
						}
						x, isX := be.X.(*ast.Ident)
						return isX && info.ObjectOf(x) == obj
					}) {
						if good, _ := onlyErrorReturns(g, core.Point{B: cs.True, I: 0}, nil); good {
							ok = true
						}
					}
				}
			}
			c.R.Checkf(rule, "regex-error-returned@filterHit", c.pos(p.Node().Pos()), ok, "a regex that does not compile is returned as an error")
		}
		c.R.Floor(rule+"/regex-sites", k, 2)
	}
	// annotation value errors, policy parameter errors
	if f := c.fn(rule, "component/outbound/dialer", "NewAnnotation"); f != nil {
		g := f.Graph()
		ok := false
		for _, p := range g.Find(nodeCalls(f.Info(), "time.ParseDuration")) {
			if cond, t, _, isC := g.Cond(p.B); isC && strings.Contains(core.ExprStr(cond), "err != nil") {
				if good, _ := onlyErrorReturns(g, core.Point{B: t, I: 0}, nil); good {
					ok = true
				}
			}
		}
		c.R.Checkf(rule, "annotation-value-error-returned", c.pos(f.Pos()), ok, "a malformed annotation value is returned as an error")
	}
}

func c14Bool(c *Ctx) {
	const rule = "BOOL"
	f := c.fn(rule, "component/outbound", "DialerSet.filterHit")
	if f == nil {
		return
	}
	info := f.Info()
	g := f.Graph()
	var outer *ast.RangeStmt
	for _, st := range f.Body.List {
		if rs, ok := st.(*ast.RangeStmt); ok && core.ExprStr(rs.X) == "filters" {
			outer = rs
		}
	}
	if outer == nil {
		c.R.Unresolved(rule, "filterHit: loop over the line's conditions")
		return
	}
	var body *cfg.Block
	heads := map[*cfg.Block]bool{}
	for _, b := range g.CFG.Blocks {
		if b.Stmt == ast.Stmt(outer) {
			switch b.Kind {
			case cfg.KindRangeBody:
				body = b
			case cfg.KindRangeLoop:
				heads[b] = true
			}
		}
	}
	var sub types.Object
	carried := false // the flag lives across iterations: the table must hold whatever the previous condition left in it
	findFlag := func(root ast.Node, stopAtLoop bool) {
		ast.Inspect(root, func(m ast.Node) bool {
			if stopAtLoop && m == ast.Node(outer) {
				return false
			}
			if vs, ok := m.(*ast.ValueSpec); ok && len(vs.Names) == 1 && sub == nil {
				if t := info.TypeOf(vs.Names[0]); t != nil && t.String() == "bool" {
					sub = info.ObjectOf(vs.Names[0])
				}
			}
			return true
		})
	}
	findFlag(outer.Body, false)
	if sub == nil {
		findFlag(f.Body, true)
		carried = sub != nil
	}
	if sub == nil || body == nil {
		c.R.Unresolved(rule, "filterHit: per-condition hit flag")
		return
	}
	if carried {
		// the flag outlives one condition: it must be cleared before anything in the body reads or sets it
		isClear := func(n ast.Node) bool {
			as, ok := n.(*ast.AssignStmt)
			if !ok || len(as.Lhs) != 1 || len(as.Rhs) != 1 {
				return false
			}
			id, ok := as.Lhs[0].(*ast.Ident)
			return ok && info.ObjectOf(id) == sub && core.ExprStr(as.Rhs[0]) == "false"
		}
		uses := func(n ast.Node) bool {
			if isClear(n) {
				return false
			}
			hit := false
			ast.Inspect(n, func(k ast.Node) bool {
				if id, ok := k.(*ast.Ident); ok && info.ObjectOf(id) == sub {
					hit = true
				}
				return true
			})
			return hit
		}
		at, _, reached := g.ReachesAvoiding(core.Point{B: body, I: 0}, isClear, uses)
		where := ""
		if reached && at != nil {
			where = " — VIOLATED at " + c.pos(at.Pos())
		}
		c.R.Checkf(rule, "hit-flag-is-per-condition@filterHit", c.pos(outer.Pos()), !reached,
			"the hit flag is declared outside the loop over the line's conditions, so every path through the loop body clears it before reading or setting it: a hit left over from the previous condition would otherwise satisfy this one (a node matching name(a) passes `name(a) && subtag(b)` without carrying tag b)%s", where)
	}
	notExpr := core.ExprStr(outer.Value) + ".Not"
	rows := 0
	for _, not := range []bool{false, true} {
		inits := []map[types.Object]constant.Value{nil}
		if carried {
			inits = []map[types.Object]constant.Value{{sub: constant.MakeBool(false)}, {sub: constant.MakeBool(true)}}
		}
		var got []string
		var job *fdt.Job
		var outs []fdt.Outcome
		var undecided []string
		for _, init := range inits {
			job = &fdt.Job{F: f, Start: core.Point{B: body, I: 0}, StopAt: heads, Tracked: map[types.Object]string{sub: "hit"}, Init: init, Inputs: map[string]constant.Value{notExpr: constant.MakeBool(not)}, MaxSteps: 2000}
			outs = append(outs, job.Run()...)
			undecided = append(undecided, job.Undecided...)
		}
		job.Undecided = undecided
		for _, o := range outs {
			switch o.Kind {
			case "next":
				got = append(got, "continue{hit="+o.State["hit"]+"}")
			case "return":
				if last := o.Vals[len(o.Vals)-1]; last != "sym:nil" {
					continue // configuration error
				}
				got = append(got, "return("+o.Vals[0]+"){hit="+o.State["hit"]+"}")
			}
		}
		got = uniqSorted(got)
		want := []string{"continue{hit=true}", "return(false){hit=false}"}
		if not {
			want = []string{"continue{hit=false}", "return(false){hit=true}"}
		}
		sort.Strings(want)
		rows++
		c.R.Checkf(rule, "condition-table@not="+map[bool]string{true: "true", false: "false"}[not], c.pos(outer.Pos()), strings.Join(got, " | ") == strings.Join(want, " | ") && len(job.Undecided) == 0,
			"for a condition with Not=%v the line goes on iff hit != Not and fails (false, nil) iff hit == Not: code gives [%s], property requires [%s]%s", not, strings.Join(got, " | "), strings.Join(want, " | "), func() string {
				if len(job.Undecided) > 0 {
					return " (undecided: " + strings.Join(job.Undecided, "; ") + ")"
				}
				return ""
			}())
	}
	c.R.Floor(rule+"/rows", rows, 2)
	// after the loop: hit; empty filter: hit
	last, okLast := f.Body.List[len(f.Body.List)-1].(*ast.ReturnStmt)
	c.R.Checkf(rule, "all-conditions-hold=>hit", c.pos(f.Pos()), okLast && len(last.Results) == 2 && core.ExprStr(last.Results[0]) == "true" && core.ExprStr(last.Results[1]) == "nil", "when no condition fails the line hits")
	emptyOK := false
	for _, cs := range g.Conds(func(e ast.Expr) bool { return core.ExprStr(e) == "len(filters) == 0" }) {
		if good, _ := onlyReturnsN(g, core.Point{B: cs.True, I: 0}, []string{"true", "nil"}); good {
			emptyOK = true
		}
	}
	c.R.Checkf(rule, "empty-line-hits", c.pos(f.Pos()), emptyOK, "a filter line without conditions selects every node")
	// operand agreement per branch
	subjects := map[string]map[string]bool{}
	ast.Inspect(outer.Body, func(m ast.Node) bool {
		cc, ok := m.(*ast.CaseClause)
		if !ok || len(cc.List) != 1 {
			return true
		}
		v, isC := constStr(info, cc.List[0])
		if !isC || (v != "name" && v != "subtag") {
			return true
		}
		set := map[string]bool{}
		for _, st := range cc.Body {
			ast.Inspect(st, func(k ast.Node) bool {
				switch x := k.(type) {
				case *ast.CallExpr:
					if cal := core.Callee(info, x); cal != nil {
						if cal.Name() == "MatchString" && len(x.Args) == 1 {
							set[core.ExprStr(x.Args[0])] = true
						}
						if cal.Name() == "Contains" && cal.Pkg() != nil && cal.Pkg().Path() == "strings" {
							set[core.ExprStr(x.Args[0])] = true
						}
					}
				case *ast.BinaryExpr:
					if x.Op == token.EQL && strings.HasSuffix(core.ExprStr(x.Y), ".Val") {
						set[core.ExprStr(x.X)] = true
					}
				}
				return true
			})
		}
		subjects[v] = set
		return false
	})
	nameS, tagS := keysB(subjects["name"]), keysB(subjects["subtag"])
	okOps := len(nameS) == 1 && len(tagS) == 1 && nameS[0] != tagS[0] && strings.HasSuffix(nameS[0], ".Name")
	c.R.Checkf(rule, "operand-agreement", c.pos(outer.Pos()), okOps, "every alternative of a name() condition is tested against one expression (the node name: %v) and every alternative of a subtag() condition against one other expression (the subscription tag: %v)", nameS, tagS)
}

func keysB(m map[string]bool) []string {
	var out []string
	for k := range m {
		out = append(out, k)
	}
	sort.Strings(out)
	return out
}

// onlyReturnsN: every exit from start is `return v0, v1, …` with the given literals.
func onlyReturnsN(g *core.Graph, start core.Point, lits []string) (bool, token.Pos) {
	ok := true
	var bad token.Pos
	w := &core.Walker{G: g, OnExit: func(b *cfg.Block, _ []token.Pos) {
		if len(b.Nodes) == 0 {
			ok = false
			return
		}
		rs, isRet := b.Nodes[len(b.Nodes)-1].(*ast.ReturnStmt)
		if !isRet || len(rs.Results) != len(lits) {
			ok = false
			bad = b.Nodes[len(b.Nodes)-1].Pos()
			return
		}
		for i, l := range lits {
			if core.ExprStr(rs.Results[i]) != l {
				ok = false
				bad = rs.Pos()
			}
		}
	}}
	w.Run(start)
	return ok, bad
}

func c14FirstLine(c *Ctx) {
	const rule = "FIRSTLINE"
	f := c.fn(rule, "component/outbound", "DialerSet.FilterAndAnnotate")
	if f == nil {
		return
	}
	info := f.Info()
	g := f.Graph()
	var outer, inner *ast.RangeStmt
	ast.Inspect(f.Body, func(m ast.Node) bool {
		if rs, ok := m.(*ast.RangeStmt); ok {
			switch {
			case strings.HasSuffix(core.ExprStr(rs.X), ".dialers") && outer == nil:
				outer = rs
			case core.ExprStr(rs.X) == "filters" && inner == nil:
				inner = rs
			}
		}
		return true
	})
	if outer == nil || inner == nil {
		c.R.Unresolved(rule, "FilterAndAnnotate: node loop over s.dialers / line loop over filters")
		return
	}
	c.R.Checkf(rule, "pool-order", c.pos(outer.Pos()), core.FieldOf(info, outer.X) == "DialerSet.dialers" && inner.Pos() > outer.Body.Pos() && inner.End() < outer.Body.End(), "nodes are visited by ranging over the pool (s.dialers); filter lines are the inner loop")
	innerHeads, outerHeads := map[*cfg.Block]bool{}, map[*cfg.Block]bool{}
	for _, b := range g.CFG.Blocks {
		if b.Kind == cfg.KindRangeLoop && b.Stmt == ast.Stmt(inner) {
			innerHeads[b] = true
		}
		if b.Kind == cfg.KindRangeLoop && b.Stmt == ast.Stmt(outer) {
			outerHeads[b] = true
		}
	}
	resultObj := func(idx int) types.Object {
		k := 0
		for _, fl := range f.Decl.Type.Results.List {
			for _, nm := range fl.Names {
				if k == idx {
					return info.ObjectOf(nm)
				}
				k++
			}
		}
		return nil
	}
	dObj, aObj := resultObj(0), resultObj(1)
	appendTo := func(obj types.Object) func(ast.Node) bool {
		return func(n ast.Node) bool {
			as, ok := n.(*ast.AssignStmt)
			if !ok || len(as.Lhs) != 1 || len(as.Rhs) != 1 {
				return false
			}
			id, ok := as.Lhs[0].(*ast.Ident)
			if !ok || info.ObjectOf(id) != obj {
				return false
			}
			call, ok := as.Rhs[0].(*ast.CallExpr)
			return ok && core.ExprStr(call.Fun) == "append"
		}
	}
	apps := g.Find(appendTo(dObj))
	if len(apps) != 1 {
		c.R.Checkf(rule, "append-site", c.pos(f.Pos()), false, "expected one append to the member list inside the loops, found %d", len(apps))
		return
	}
	pos, tr, again := reachesHeadAvoidingStop(g, apps[0].After(), innerHeads, outerHeads, func(ast.Node) bool { return false })
	c.R.Checkf(rule, "first-matching-line-wins", c.pos(apps[0].Node().Pos()), !again, "after a node is appended no further filter line is evaluated for it%s", func() string {
		if again {
			return " — the path lines " + traceStr(c.P, tr) + " goes back to the line loop at " + c.pos(pos) + ": a node that satisfies k lines is added k times, with each line's annotation"
		}
		return ""
	}())
	// node and annotation appended together
	_, _, alone := g.ReachesAvoiding(apps[0].After(), appendTo(aObj), func(n ast.Node) bool {
		if bs, ok := n.(*ast.BranchStmt); ok && bs.Tok == token.CONTINUE {
			return true
		}
		_, isRet := n.(*ast.ReturnStmt)
		return isRet
	})
	c.R.Checkf(rule, "member-and-annotation-together", c.pos(apps[0].Node().Pos()), !alone, "every appended node gets its annotation appended before the loop moves on")
	// the append is guarded by the hit of filterHit(d, f) for this node and this line; annotation index = line index
	as := apps[0].Node().(*ast.AssignStmt)
	appended := core.ExprStr(as.Rhs[0].(*ast.CallExpr).Args[1])
	okHit := false
	var hitCall *ast.CallExpr
	ast.Inspect(inner.Body, func(m ast.Node) bool {
		if call, ok := m.(*ast.CallExpr); ok {
			if cal := core.Callee(info, call); cal != nil && cal.Name() == "filterHit" {
				hitCall = call
			}
		}
		return true
	})
	if hitCall != nil && len(hitCall.Args) == 2 {
		okHit = core.ExprStr(hitCall.Args[0]) == core.ExprStr(outer.Value) && core.ExprStr(hitCall.Args[1]) == core.ExprStr(inner.Value) && appended == core.ExprStr(outer.Value)
	}
	guarded := false
	for _, gd := range g.Guards(apps[0]) {
		if id, ok := gd.Cond.(*ast.Ident); ok && gd.Polarity && id.Name == "hit" {
			guarded = true
		}
	}
	c.R.Checkf(rule, "append-on-hit-of-this-node-and-line", c.pos(apps[0].Node().Pos()), okHit && guarded, "the node appended is the one tested (filterHit(%s, %s)) and the append is on the hit edge", core.ExprStr(outer.Value), core.ExprStr(inner.Value))
	okAnno := false
	for _, call := range f.FindCalls(core.ParseRefs("component/outbound/dialer.NewAnnotation")) {
		if len(call.Args) == 1 {
			if ix, ok := call.Args[0].(*ast.IndexExpr); ok && core.ExprStr(ix.X) == "annotations" && core.ExprStr(ix.Index) == core.ExprStr(inner.Key) {
				okAnno = true
			}
		}
	}
	c.R.Checkf(rule, "annotation-of-the-matching-line", c.pos(inner.Pos()), okAnno, "the annotation is built from annotations[%s], %s being the index of the matching filter line", core.ExprStr(inner.Key), core.ExprStr(inner.Key))
	// no filter: the pool itself, empty annotations, same length
	noFilter := false
	for _, cs := range g.Conds(func(e ast.Expr) bool { return core.ExprStr(e) == "len(filters) == 0" }) {
		ok := true
		w := &core.Walker{G: g, OnExit: func(b *cfg.Block, _ []token.Pos) {
			rs, isRet := b.Nodes[len(b.Nodes)-1].(*ast.ReturnStmt)
			if !isRet || len(rs.Results) != 3 || core.FieldOf(info, rs.Results[0]) != "DialerSet.dialers" || core.ExprStr(rs.Results[2]) != "nil" {
				ok = false
			}
		}}
		w.Run(core.Point{B: cs.True, I: 0})
		noFilter = ok
	}
	c.R.Checkf(rule, "no-filter-selects-all", c.pos(f.Pos()), noFilter, "a group without filters returns the whole pool")
	c.R.Floor(rule, 7, 7)
}

func c14ErrFlow(c *Ctx) {
	const rule = "ERRFLOW"
	n := 0
	for _, f := range c.P.FuncsIn("control") {
		if !strings.HasSuffix(f.File(), "control_plane.go") {
			continue
		}
		info := f.Info()
		g := f.Graph()
		for _, ref := range []string{"component/outbound.DialerSet.FilterAndAnnotate", "component/outbound.NewDialerSelectionPolicyFromGroupParam"} {
			for _, p := range g.Find(nodeCalls(info, ref)) {
				n++
				c.R.Saw(f)
				as, _ := p.Node().(*ast.AssignStmt)
				ok := false
				if as != nil {
					if errId, isId := as.Lhs[len(as.Lhs)-1].(*ast.Ident); isId && errId.Name != "_" {
						if cond, t, _, isC := g.Cond(p.B); isC && p.I == len(p.B.Nodes)-2 && core.ExprStr(cond) == errId.Name+" != nil" {
							ok, _ = onlyErrorReturns(g, core.Point{B: t, I: 0}, nil)
						}
					}
				}
				c.R.Checkf(rule, "error-returned@"+ref[strings.LastIndex(ref, ".")+1:], c.pos(p.Node().Pos()), ok, "the error of %s is tested immediately and returned to the caller of the control-plane constructor", ref[strings.LastIndex(ref, ".")+1:])
			}
		}
	}
	c.R.Floor(rule, n, 2)
}
